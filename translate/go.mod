module veriftranslate

go 1.15
