// fn.go: function-level translator, Go -> Gallina.
//
// For a configured set of struct types it prints, per unit, a Coq file with one Record per
// struct (fields of translatable type only), one setter per field and one definition per
// method, in the monad of coq/model/GoSem.v.  The translation is syntactic: statements are
// translated in order, `if` duplicates the rest of the block into both branches (so an early
// return needs no special treatment), every call that leaves the translated set becomes
// `call_ext ext "<Type>.<path>" [args]`.  Nothing is evaluated or simplified here; what the
// code means is decided by Coq when the equivalence lemmas in coq/proofs/Tie*.v are re-checked.
//
// A function that uses a construct outside the supported subset is not defined; a comment
// `UNSUPPORTED <name>: <reason>` is printed instead, and the lemma about it stops compiling.
package main

import (
	"fmt"
	"go/ast"
	"go/token"
	"os"
	"path/filepath"
	"regexp"
	"sort"
	"strconv"
	"strings"
)

type kind int

const (
	kUnknown kind = iota
	kInt
	kBool
	kErr
	kHandle
	kHList
	kStruct
	kStr
	kTime
	kUnit
	kTuple
	kExt // Z returned by an external call: coerced by context
	kNil
	kFloat  // an IEEE float, carried as an integer code; every operation on it leaves the translated code
	kFMat   // [][]float32 field: kept outside, read and written through external calls
	kTok    // a pointer to something outside the translation, carried as an integer token (0 = nil)
	kStrTok // a string carried as an integer token (units whose strings come from the outside world)
	kPixRow // a row of a frame's pixel grid obtained by `range X.Pix`: represented by its length (a Z)
	kBytes  // a []byte value built inside the translated code (literals, append): a Gallina list Z
	kSList  // a []string literal of string tokens built inside the translated code (units with strList): a Gallina list Z
)

type ty struct {
	k        kind
	name     string // struct name
	bits     int    // for sized unsigned ints
	unsigned bool
	elems    []ty
	lit      string // source text of a numeric literal (expression values only)
}

func (t ty) coq() string {
	switch t.k {
	case kInt, kErr, kHandle, kTime, kExt, kNil, kFloat, kTok, kStrTok, kPixRow:
		return "Z"
	case kBool:
		return "bool"
	case kHList, kBytes, kSList:
		return "list Z"
	case kStruct:
		return t.name
	case kStr:
		return "string"
	case kUnit:
		return "unit"
	case kTuple:
		var p []string
		for _, e := range t.elems {
			p = append(p, e.coq())
		}
		return "(" + strings.Join(p, " * ") + ")"
	}
	return "unit"
}

func (t ty) zero() string {
	switch t.k {
	case kInt, kErr, kTime, kExt, kFloat, kTok, kStrTok:
		return "0"
	case kHandle:
		return "(-1)"
	case kBool:
		return "false"
	case kHList, kBytes, kSList:
		return "[]"
	case kStr:
		return "\"\"%string"
	}
	return "tt"
}

type field struct {
	name string
	t    ty
}

type structInfo struct {
	name    string
	fields  []field  // translated fields, in declaration order
	dropped []string // fields of untranslatable type
	fmats   []string // [][]float32 fields
	methods map[string]*ast.FuncDecl
	order   []string
}

type unit struct {
	name    string   // Coq module name, e.g. "FrameLoop"
	dir     string   // package directory relative to the repository
	files   []string // files to read
	structs []string // struct types translated in this unit
	funcs   []string // package-level functions translated in this unit
	imports []string // earlier units whose structs are visible
	skip    map[string]bool
	opaque  []string // type expressions (source text) carried as tokens
	strTok  bool     // strings are tokens handed around by the outside world
	byteTok bool     // []byte values are tokens: the bytes live in the outside world
	extLits bool     // composite literals of types outside the translation are built by the outside world ("new:<Type>{keys}")
	nilZero bool     // `return nil, err` where a *T of a translated struct T is expected: the zero record (callers test the error)
	outside bool     // see outside.go: package-level variables, byte buffers, literals of foreign types, endless loops
	strList bool     // see strlist.go: []string literals, lists of strings held by the outside world, `for _, s := range` over both
	zeroObj []string // outside units: types T whose `var x T` is a fresh object of the outside world ("zero:<T>"), carried as a token
	// see request.go
	noRecv     []string            // field-less struct types whose methods are translated as plain functions <Type>_<Method> (the receiver must not be mentioned)
	extResults map[string][]string // Go types (source text) of the results of a call that leaves the translation, by the call's external name
	errObj     bool                // err.Error() on an error value is "error.Error" [err]

	pkgUnits  map[string]string // see conf.go: package name -> the (imported) unit that translates it: pkg.F(...) / pkg.T are that unit's
	tokFields bool              // see conf.go: x.F on a local that holds a token is "field:F" [x]

	sender    bool              // see sender.go: fields and slices of values of the outside world, calls of functions with endless loops
	pkgConsts map[string]string // see sender.go: package name -> file (relative to the repository) whose string constants give pkg.Name its value
	tails     []tailSpec        // see sender.go: tails of functions translated as definitions of their own

	spawn  bool // see daemon.go: `go f(args)` is the external call "go:f"
	extObj bool // see daemon.go: a method called on a local that holds an answer of the outside world is "obj.<Method>" [x; ...]

	chans bool // see chans.go: channels as tokens, channel operations / select as calls that leave the translation, go of a translated function, panic
}

type world struct {
	structs map[string]*structInfo
	funcs   map[string]*ast.FuncDecl // package-level functions by name
	consts  map[string]ast.Expr
	ok      map[string]bool // successfully translated definitions (Coq names)
	cur     *unit
	sigs    map[string]sig
	globals map[string]bool // outside units: package-level variables of the unit's files
	pkgs    map[string]bool // outside units: names of imported packages

	pkgConsts map[string]map[string]ast.Expr // sender.go: constants of other packages, by package name
}

type sig struct {
	recv    string // struct name or ""
	params  []ty
	result  ty
	coqName string
	unit    string
}

// a struct type name means the translated struct only in the unit that translates it and in units that import
// that unit (two packages may both have a type Config)
func (w *world) visibleStruct(name string) bool {
	if _, ok := w.structs[name]; !ok {
		return false
	}
	if w.cur == nil || contains(w.cur.structs, name) {
		return true
	}
	for _, imp := range w.cur.imports {
		for _, u := range fnUnits {
			if u.name == imp && contains(u.structs, name) {
				return true
			}
		}
	}
	return false
}

var coqKeywords = map[string]bool{"in": true, "end": true, "fun": true, "at": true, "as": true, "let": true, "match": true, "with": true,
	"if": true, "then": true, "else": true, "forall": true, "exists": true, "fix": true, "return": true, "Type": true, "Set": true, "Prop": true,
	"using": true, "where": true, "for": true, "cofix": true, "ext": true, "ret": true, "bind": true, "panic": true, "W": true, "M": true,
	"S": true, "O": true, "fst": true, "snd": true, "length": true, "nth": true, "tt": true, "true": true, "false": true}

func coqIdent(s string) string {
	if coqKeywords[s] {
		return s + "_"
	}
	return s
}

func (w *world) goType(e ast.Expr) ty {
	if w.cur != nil {
		txt := exprString(e)
		for _, o := range w.cur.opaque {
			if o == txt {
				return ty{k: kTok}
			}
		}
		if w.cur.strTok && txt == "string" {
			return ty{k: kStrTok}
		}
		if w.cur.byteTok && txt == "[]byte" {
			return ty{k: kTok, name: "[]byte"}
		}
	}
	if t, ok := w.chanType(e); ok {
		return t
	}
	switch x := e.(type) {
	case *ast.Ident:
		switch x.Name {
		case "int", "int64", "int32", "int16", "int8":
			return ty{k: kInt}
		case "uint16":
			return ty{k: kInt, bits: 16, unsigned: true}
		case "uint32":
			return ty{k: kInt, bits: 32, unsigned: true}
		case "uint8", "byte":
			return ty{k: kInt, bits: 8, unsigned: true}
		case "uint64", "uint":
			return ty{k: kInt, bits: 64, unsigned: true}
		case "bool":
			return ty{k: kBool}
		case "float64":
			return ty{k: kFloat, bits: 64}
		case "float32":
			return ty{k: kFloat, bits: 32}
		case "error":
			return ty{k: kErr}
		case "string":
			return ty{k: kStr}
		}
		if w.visibleStruct(x.Name) {
			return ty{k: kStruct, name: x.Name}
		}
	case *ast.StarExpr:
		if s := exprString(x.X); s == "cptvframe.Frame" {
			return ty{k: kHandle}
		}
		if id, ok := x.X.(*ast.Ident); ok {
			if w.visibleStruct(id.Name) {
				return ty{k: kStruct, name: id.Name}
			}
		}
	case *ast.ArrayType:
		if x.Len == nil && exprString(x.Elt) == "*cptvframe.Frame" {
			return ty{k: kHList}
		}
		if x.Len == nil && exprString(x.Elt) == "[]float32" {
			return ty{k: kFMat, bits: 32}
		}
	case *ast.SelectorExpr:
		if t, ok := w.pkgStruct(x); ok {
			return t
		}
		switch exprString(x) {
		case "time.Time":
			return ty{k: kTime}
		case "time.Duration":
			return ty{k: kInt}
		}
	}
	return ty{k: kUnknown}
}

func resultType(w *world, ft *ast.FuncType) ty {
	if ft.Results == nil || len(ft.Results.List) == 0 {
		return ty{k: kUnit}
	}
	var ts []ty
	for _, f := range ft.Results.List {
		n := len(f.Names)
		if n == 0 {
			n = 1
		}
		for i := 0; i < n; i++ {
			ts = append(ts, w.goType(f.Type))
		}
	}
	if len(ts) == 1 {
		return ts[0]
	}
	return ty{k: kTuple, elems: ts}
}

// ---------------------------------------------------------------------------------------
// environments

type binding struct {
	goName string
	coq    string
	t      ty
	marker bool
	sym    string // for variables of unknown type: how they are named in ASym
}

type env []binding

func (e env) lookup(name string) (binding, bool) {
	for i := len(e) - 1; i >= 0; i-- {
		if !e[i].marker && e[i].goName == name {
			return e[i], true
		}
	}
	return binding{}, false
}

func (e env) push() env { return append(append(env{}, e...), binding{marker: true}) }
func (e env) pop() env {
	for i := len(e) - 1; i >= 0; i-- {
		if e[i].marker {
			return append(env{}, e[:i]...)
		}
	}
	return e
}
func (e env) bind(b binding) env { return append(append(env{}, e...), b) }
func (e env) retype(name string, t ty) env {
	n := append(env{}, e...)
	for i := len(n) - 1; i >= 0; i-- {
		if !n[i].marker && n[i].goName == name {
			n[i].t = t
			break
		}
	}
	return n
}

type item struct {
	s   ast.Stmt
	pop bool
}

type unsupported struct{ msg string }

func fail(format string, a ...interface{}) { panic(unsupported{fmt.Sprintf(format, a...)}) }

type fnTr struct {
	w        *world
	u        *unit
	recv     string // Go receiver variable name ("" for plain functions)
	recvType string
	result   ty
	names    map[token.Pos]string
	used     map[string]bool
	tmp      int
	joins    int
	loops    [][]string // inside loop bodies: per enclosing loop, the Go names of its state variables

	// loops made from `range X.Pix`: Go evaluates the range expression once, whatever the body does
	once map[*ast.ForStmt]bool

	// outside.go
	fuel         bool     // the function contains an endless loop: it takes fuel and yields an option
	inEndless    bool     // loops[0] is the endless loop
	endlessEntry int      // length of the environment at its entry
	extra        []string // definitions emitted before the function's own (bodies of endless loops)
	coqName      string

	// strlist.go
	rangeIDs map[token.Pos]int // range loops over string lists, numbered in order of appearance

	breaks bool // outside.go: the endless loop being translated contains `break`: its results are inl state (break) / inr value (return)

	optRet bool // sender.go: the endless loop being translated calls a function that takes fuel: its results are None (callee out of fuel) / Some value (return)
}

func (f *fnTr) fresh(base string) string {
	base = coqIdent(base)
	n := base
	for i := 1; f.used[n]; i++ {
		n = fmt.Sprintf("%s_%d", base, i)
	}
	f.used[n] = true
	return n
}

func (f *fnTr) declName(id *ast.Ident) string {
	if n, ok := f.names[id.Pos()]; ok {
		return n
	}
	n := f.fresh(id.Name)
	f.names[id.Pos()] = n
	return n
}

func (f *fnTr) newTmp() string {
	f.tmp++
	n := fmt.Sprintf("t%d", f.tmp)
	for f.used[n] {
		f.tmp++
		n = fmt.Sprintf("t%d", f.tmp)
	}
	return n
}

// normalised source text of an expression: a leading receiver variable is replaced by its type name
func (f *fnTr) path(e ast.Expr) string {
	s := exprString(e)
	if f.recv != "" {
		if s == f.recv {
			return f.recvType
		}
		if strings.HasPrefix(s, f.recv+".") {
			return f.recvType + s[len(f.recv):]
		}
	}
	return s
}

func coqString(s string) string {
	q := func(x string) string { return "\"" + strings.ReplaceAll(x, "\"", "\"\"") + "\"" }
	if !strings.Contains(s, "\n") {
		return q(s) + "%string"
	}
	// Coq string literals have no escapes: a line feed is spliced in (GoSem.nl)
	var parts []string
	for _, p := range strings.Split(s, "\n") {
		parts = append(parts, q(p))
	}
	return "(" + strings.Join(parts, " ++ nl ++ ") + ")%string"
}

// ---------------------------------------------------------------------------------------
// expressions (continuation-passing code generation: impure sub-expressions are bound first)

type val struct {
	code string
	t    ty
}

func (f *fnTr) asBool(v val) string {
	switch v.t.k {
	case kBool:
		return v.code
	case kExt:
		return "(z_to_bool " + v.code + ")"
	}
	fail("expression of kind %d used as a condition: %s", v.t.k, v.code)
	return ""
}

func (f *fnTr) asArg(v val, src ast.Expr) string {
	switch v.t.k {
	case kInt, kErr, kTime, kExt, kFloat, kTok, kStrTok:
		return "AInt " + v.code
	case kBool:
		return "ABool " + v.code
	case kStr:
		return "AStr " + v.code
	case kHandle:
		return "AFrame " + v.code
	case kHList:
		return "AFrames " + v.code
	case kBytes:
		return "ABytes " + v.code
	case kSList:
		fail("a []string built by the translated code is passed to the outside world: %s", exprString(src))
	}
	return "ASym " + coqString(f.path(src))
}

// structural purity: can the expression be evaluated without binds?
func (f *fnTr) pure(e ast.Expr, en env) bool {
	p := true
	ast.Inspect(e, func(n ast.Node) bool {
		switch x := n.(type) {
		case *ast.CallExpr:
			if id, ok := x.Fun.(*ast.Ident); ok {
				switch id.Name {
				case "len", "int", "int64", "int32", "uint16", "uint32", "uint8", "byte", "uint64", "uint":
					if id.Name == "len" && (isPixSelector(x.Args) || f.isByteTokIdent(x.Args, en) || f.isListTokIdent(x.Args, en) || f.isChanArg(x.Args, en)) {
						p = false // len(X.Pix), len of a byte-slice token: asked of the outside world
					}
					return true // (of a float operand: made impure by the operand itself)
				}
			}
			if sel, ok := x.Fun.(*ast.SelectorExpr); ok && sel.Sel.Name == "Sub" && len(x.Args) == 1 {
				return true
			}
			p = false
		case *ast.BinaryExpr:
			if x.Op == token.REM || x.Op == token.QUO {
				p = false
			}
			if x.Op == token.EQL || x.Op == token.NEQ {
				// comparisons of untranslated things with nil are external queries
				if f.isOpaque(x.X, en) || f.isOpaque(x.Y, en) {
					p = false
				}
			}
		case *ast.IndexExpr, *ast.SliceExpr:
			p = false
		case *ast.UnaryExpr:
			if x.Op == token.ARROW {
				p = false // a receive (chans.go)
			}
		case *ast.CompositeLit:
			p = false
		case *ast.SelectorExpr:
			if st, ok := x.X.(*ast.SelectorExpr); ok && st.Sel.Name == "Status" {
				p = false
			}
			if r := rootIdent(x); r != "" && r != f.recv {
				if b, ok := en.lookup(r); ok && b.t.k == kUnknown {
					p = false
				}
			}
			if f.outsideName(x, en) {
				p = false
			}
			if _, _, ok := f.tokField(x, en); ok {
				p = false
			}
			if _, ok := f.senderField(x, en); ok {
				p = false
			}
		case *ast.BasicLit:
			if x.Kind == token.FLOAT || (x.Kind == token.STRING && f.u.strTok) {
				p = false
			}
		case *ast.Ident:
			if b, ok := en.lookup(x.Name); ok && b.t.k == kFloat {
				p = false // operations on floats leave the translated code
			}
			if f.outsideName(x, en) {
				p = false
			}
		}
		return p
	})
	return p
}

func (f *fnTr) isOpaque(e ast.Expr, en env) bool {
	switch x := e.(type) {
	case *ast.Ident:
		if x.Name == "nil" || x.Name == "true" || x.Name == "false" {
			return false
		}
		if b, ok := en.lookup(x.Name); ok {
			return b.t.k == kUnknown
		}
		return false
	case *ast.SelectorExpr:
		if f.senderSelector(x, en) {
			return false
		}
		if f.outsideName(x, en) {
			return false
		}
		if f.isStatusField(x, en) {
			return false // request.go: a telemetry field of a frame handle is an integer asked of the outside world
		}
		if _, _, ok := f.tokField(x, en); ok {
			return false
		}
		_, t, ok := f.fieldPath(x, en)
		return !ok || t.k == kUnknown
	case *ast.ParenExpr:
		return f.isOpaque(x.X, en)
	}
	return false
}

// fieldPath resolves x.f1.f2 rooted at a struct-typed variable: returns the Coq term and type
func (f *fnTr) fieldPath(sel *ast.SelectorExpr, en env) (string, ty, bool) {
	var baseCode string
	var baseT ty
	switch b := sel.X.(type) {
	case *ast.Ident:
		bd, ok := en.lookup(b.Name)
		if !ok || bd.t.k != kStruct {
			return "", ty{}, false
		}
		baseCode, baseT = bd.coq, bd.t
	case *ast.SelectorExpr:
		c, t, ok := f.fieldPath(b, en)
		if !ok || t.k != kStruct {
			return "", ty{}, false
		}
		baseCode, baseT = c, t
	default:
		return "", ty{}, false
	}
	si := f.w.structs[baseT.name]
	for _, fd := range si.fields {
		if fd.name == sel.Sel.Name {
			return fmt.Sprintf("(%s_%s %s)", si.name, fd.name, baseCode), fd.t, true
		}
	}
	return "", ty{k: kUnknown}, false
}

func (f *fnTr) expr(e ast.Expr, en env, k func(val, env) string) string {
	switch x := e.(type) {
	case *ast.ParenExpr:
		return f.expr(x.X, en, k)
	case *ast.BasicLit:
		switch x.Kind {
		case token.INT:
			v, err := strconv.ParseInt(x.Value, 0, 64)
			if err != nil {
				fail("integer literal %s", x.Value)
			}
			return k(val{fmt.Sprintf("(%d)", v), ty{k: kInt, lit: x.Value}}, en)
		case token.FLOAT:
			return k(val{"0", ty{k: kNil, lit: x.Value}}, en) // only meaningful where a float is expected (toFloat)
		case token.STRING:
			s, err := strconv.Unquote(x.Value)
			if err != nil {
				fail("string literal %s", x.Value)
			}
			if f.u.strTok {
				t := f.newTmp()
				return fmt.Sprintf("%s <- call_ext ext \"str.lit\"%%string [AStr %s] ;;\n%s", t, coqString(s), k(val{t, ty{k: kStrTok}}, en))
			}
			return k(val{coqString(s), ty{k: kStr}}, en)
		case token.CHAR:
			return k(f.charLit(x), en)
		}
		fail("literal %s", x.Value)
	case *ast.Ident:
		switch x.Name {
		case "true", "false":
			return k(val{x.Name, ty{k: kBool}}, en)
		case "nil":
			return k(val{"0", ty{k: kNil}}, en)
		}
		if b, ok := en.lookup(x.Name); ok {
			if b.t.k == kUnknown {
				return k(val{"tt", ty{k: kUnknown}}, en)
			}
			return k(val{b.coq, b.t}, en)
		}
		if f.outsideName(x, en) {
			return f.outsideRead(x, en, k)
		}
		if c, ok := f.w.consts[x.Name]; ok {
			if v, ok := eval(c, f.w.consts); ok {
				return k(val{fmt.Sprintf("(%d)", v), ty{k: kInt}}, en)
			}
			if bl, ok := c.(*ast.BasicLit); ok && bl.Kind == token.STRING {
				return f.expr(bl, en, k)
			}
		}
		fail("unknown identifier %s", x.Name)
	case *ast.SelectorExpr:
		if c, t, ok := f.fieldPath(x, en); ok {
			return k(val{c, t}, en)
		}
		if sel, b, ok := f.tokField(x, en); ok {
			return f.tokFieldRead(sel, b, en, k)
		}
		if _, _, ok := f.tokField(x.X, en); ok {
			fail("a field of a field of an object of the outside world: %s", exprString(x))
		}
		if bl := f.pkgConst(x, en); bl != nil {
			return f.expr(bl, en, k)
		}
		if b, ok := f.senderField(x, en); ok {
			return f.senderFieldRead(x, b, en, k)
		}
		// telemetry of a frame: X.Status.<Field>
		if st, ok := x.X.(*ast.SelectorExpr); ok && st.Sel.Name == "Status" && !f.isOpaque(st.X, en) && f.translatable(st.X, en) && f.kindOf(st.X, en) == kHandle {
			return f.expr(st.X, en, func(h val, en env) string {
				t := f.newTmp()
				return fmt.Sprintf("%s <- call_ext ext %s [AFrame %s] ;;\n%s", t, coqString("Frame.Status."+x.Sel.Name), h.code, k(val{t, ty{k: kInt}}, en))
			})
		}
		if exprString(x) == "math.MaxFloat32" {
			return k(val{"0", ty{k: kNil, lit: "math.MaxFloat32"}}, en)
		}
		if f.outsideName(x, en) {
			return f.outsideRead(x, en, k)
		}
		// a field of something outside the translation (a configuration struct passed as a
		// parameter): its value is asked of the outside world
		if r := rootIdent(x); r != "" && r != f.recv {
			if b, ok := en.lookup(r); ok && b.t.k == kUnknown {
				t := f.newTmp()
				return fmt.Sprintf("%s <- call_ext ext %s [] ;;\n%s", t, coqString("read:"+f.path(x)), k(val{t, ty{k: kExt}}, en))
			}
		}
		if v, ok := eval(x, f.w.consts); ok { // time.Minute and the like
			return k(val{fmt.Sprintf("(%d)", v), ty{k: kInt}}, en)
		}
		return k(val{"tt", ty{k: kUnknown}}, en)
	case *ast.StarExpr:
		return f.expr(x.X, en, k) // *p of a struct pointer: the struct
	case *ast.CompositeLit:
		return f.composite(x, en, k)
	case *ast.UnaryExpr:
		if x.Op == token.ARROW {
			return f.chanRecv(x, en, k)
		}
		if x.Op == token.AND {
			if cl, ok := x.X.(*ast.CompositeLit); ok {
				return f.composite(cl, en, k)
			}
			return f.expr(x.X, en, k) // &v: the variable (structs are passed by reference to the outside)
		}
		switch x.Op {
		case token.NOT:
			return f.expr(x.X, en, func(v val, en env) string {
				return k(val{"(negb " + f.asBool(v) + ")", ty{k: kBool}}, en)
			})
		case token.SUB:
			return f.expr(x.X, en, func(v val, en env) string {
				return k(val{"(- " + v.code + ")", ty{k: kInt}}, en)
			})
		}
		fail("unary operator %s", x.Op)
	case *ast.BinaryExpr:
		return f.binary(x, en, k)
	case *ast.IndexExpr:
		if code, ok := f.index2(x, en, k); ok {
			return code
		}
		return f.expr(x.X, en, func(l val, en env) string {
			if code, ok := f.strListIndex(x, l, en, k); ok {
				return code
			}
			if l.t.k == kTok && f.u.outside {
				return f.indexTok(x, l, en, k)
			}
			if l.t.k != kHList {
				fail("indexing something that is not a frame slice: %s", exprString(x))
			}
			return f.expr(x.Index, en, func(i val, en env) string {
				t := f.newTmp()
				return fmt.Sprintf("%s <- lift_opt (go_index %s %s) ;;\n%s", t, l.code, i.code, k(val{t, ty{k: kHandle}}, en))
			})
		})
	case *ast.SliceExpr:
		if x.Slice3 {
			fail("3-index slice")
		}
		return f.expr(x.X, en, func(l val, en env) string {
			if (l.t.k == kTok || (l.t.k == kExt && f.u.sender)) && f.u.outside {
				return f.sliceTok(x, l, en, k)
			}
			if l.t.k != kHList {
				fail("slicing something that is not a frame slice: %s", exprString(x))
			}
			lo := func(k2 func(val, env) string) string {
				if x.Low == nil {
					return k2(val{"0", ty{k: kInt}}, en)
				}
				return f.expr(x.Low, en, k2)
			}
			return lo(func(lov val, en env) string {
				hi := func(k2 func(val, env) string) string {
					if x.High == nil {
						return k2(val{"(go_len " + l.code + ")", ty{k: kInt}}, en)
					}
					return f.expr(x.High, en, k2)
				}
				return hi(func(hiv val, en env) string {
					t := f.newTmp()
					return fmt.Sprintf("%s <- lift_opt (go_slice %s %s %s) ;;\n%s", t, l.code, lov.code, hiv.code, k(val{t, ty{k: kHList}}, en))
				})
			})
		})
	case *ast.CallExpr:
		return f.call(x, en, k)
	}
	fail("expression %s", exprString(e))
	return ""
}

func (f *fnTr) binary(x *ast.BinaryExpr, en env, k func(val, env) string) string {
	op := x.Op
	if op == token.LAND || op == token.LOR {
		return f.expr(x.X, en, func(a val, en env) string {
			ab := f.asBool(a)
			if f.pure(x.Y, en) {
				return f.expr(x.Y, en, func(b val, en env) string {
					o := "&&"
					if op == token.LOR {
						o = "||"
					}
					return k(val{fmt.Sprintf("(%s %s %s)", ab, o, f.asBool(b)), ty{k: kBool}}, en)
				})
			}
			// lazy right operand: only external calls may occur in it (no receiver updates)
			if f.callsTranslated(x.Y, en) {
				fail("short-circuit operand calls a translated method: %s", exprString(x.Y))
			}
			rhs := f.expr(x.Y, en, func(b val, en env) string { return "ret " + f.asBool(b) })
			t := f.newTmp()
			if op == token.LAND {
				return fmt.Sprintf("%s <- (if %s then (%s) else ret false) ;;\n%s", t, ab, rhs, k(val{t, ty{k: kBool}}, en))
			}
			return fmt.Sprintf("%s <- (if %s then ret true else (%s)) ;;\n%s", t, ab, rhs, k(val{t, ty{k: kBool}}, en))
		})
	}
	// comparisons with nil of things the translation does not represent: external queries
	if (op == token.EQL || op == token.NEQ) && (f.isOpaque(x.X, en) || f.isOpaque(x.Y, en)) {
		var other ast.Expr
		if id, ok := x.Y.(*ast.Ident); ok && id.Name == "nil" {
			other = x.X
		} else if id, ok := x.X.(*ast.Ident); ok && id.Name == "nil" {
			other = x.Y
		} else {
			fail("comparison of untranslated values: %s", exprString(x))
		}
		t := f.newTmp()
		c := "(z_to_bool " + t + ")"
		if op == token.EQL {
			c = "(negb " + c + ")"
		}
		return fmt.Sprintf("%s <- call_ext ext %s [] ;;\n%s", t, coqString("nonnil:"+f.path(other)), k(val{c, ty{k: kBool}}, en))
	}
	return f.expr(x.X, en, func(a val, en env) string {
		return f.expr(x.Y, en, func(b val, en env) string {
			if a.t.k == kFloat || b.t.k == kFloat {
				bits := a.t.bits
				if a.t.k != kFloat {
					bits = b.t.bits
				}
				names := map[token.Token]string{token.ADD: "add", token.SUB: "sub", token.MUL: "mul", token.QUO: "div",
					token.LSS: "lt", token.LEQ: "le", token.GTR: "gt", token.GEQ: "ge", token.EQL: "eq", token.NEQ: "ne"}
				nm, ok := names[op]
				if !ok {
					fail("float operator %s", op)
				}
				return f.toFloat(a, bits, en, func(a val, en env) string {
					return f.toFloat(b, bits, en, func(b val, en env) string {
						t := f.newTmp()
						rt := ty{k: kFloat, bits: bits}
						rc := t
						switch op {
						case token.LSS, token.LEQ, token.GTR, token.GEQ, token.EQL, token.NEQ:
							rt, rc = ty{k: kBool}, "(z_to_bool "+t+")"
						}
						return fmt.Sprintf("%s <- call_ext ext %s [AInt %s; AInt %s] ;;\n%s", t, coqString(fname(bits)+"."+nm), a.code, b.code, k(val{rc, rt}, en))
					})
				})
			}
			if (a.t.k == kStrTok || b.t.k == kStrTok) && (op == token.ADD || op == token.EQL || op == token.NEQ) {
				nm := map[token.Token]string{token.ADD: "str.concat", token.EQL: "str.eq", token.NEQ: "str.eq"}[op]
				t := f.newTmp()
				rc, rt := t, ty{k: kStrTok}
				if op == token.EQL {
					rc, rt = "(z_to_bool "+t+")", ty{k: kBool}
				} else if op == token.NEQ {
					rc, rt = "(negb (z_to_bool "+t+"))", ty{k: kBool}
				}
				return fmt.Sprintf("%s <- call_ext ext %s [AInt %s; AInt %s] ;;\n%s", t, coqString(nm), a.code, b.code, k(val{rc, rt}, en))
			}
			switch op {
			case token.ADD, token.SUB, token.MUL:
				if op == token.ADD && (a.t.k == kStr) != (b.t.k == kStr) {
					return k(val{"tt", ty{k: kUnknown}}, en) // string built from something outside the translation
				}
				if a.t.k == kStr && b.t.k == kStr && op == token.ADD {
					return k(val{fmt.Sprintf("(%s ++ %s)%%string", a.code, b.code), ty{k: kStr}}, en)
				}
				return k(val{fmt.Sprintf("(%s %s %s)", a.code, op.String(), b.code), ty{k: kInt}}, en)
			case token.REM, token.QUO:
				fn := "go_rem"
				if op == token.QUO {
					fn = "go_quot"
				}
				t := f.newTmp()
				return fmt.Sprintf("%s <- lift_opt (%s %s %s) ;;\n%s", t, fn, a.code, b.code, k(val{t, ty{k: kInt}}, en))
			case token.LSS, token.LEQ, token.GTR, token.GEQ:
				o := map[token.Token]string{token.LSS: "<?", token.LEQ: "<=?", token.GTR: ">?", token.GEQ: ">=?"}[op]
				return k(val{fmt.Sprintf("(%s %s %s)", a.code, o, b.code), ty{k: kBool}}, en)
			case token.EQL, token.NEQ:
				var c string
				switch {
				case a.t.k == kBool || b.t.k == kBool:
					c = fmt.Sprintf("(Bool.eqb %s %s)", f.asBool(a), f.asBool(b))
				case a.t.k == kStr || b.t.k == kStr:
					c = fmt.Sprintf("(String.eqb %s %s)", a.code, b.code)
				case a.t.k == kTok && b.t.k == kNil:
					c = fmt.Sprintf("(%s =? 0)", a.code)
				case a.t.k == kNil && b.t.k == kTok:
					c = fmt.Sprintf("(%s =? 0)", b.code)
				case a.t.k == kHandle && b.t.k == kNil:
					c = fmt.Sprintf("(%s =? (-1))", a.code)
				case a.t.k == kNil && b.t.k == kHandle:
					c = fmt.Sprintf("(%s =? (-1))", b.code)
				case a.t.k == kHList || b.t.k == kHList || a.t.k == kStruct || b.t.k == kStruct || a.t.k == kUnknown || b.t.k == kUnknown:
					fail("comparison %s", exprString(x))
				default:
					c = fmt.Sprintf("(%s =? %s)", a.code, b.code)
				}
				if op == token.NEQ {
					c = "(negb " + c + ")"
				}
				return k(val{c, ty{k: kBool}}, en)
			}
			fail("binary operator %s", op)
			return ""
		})
	})
}

func (f *fnTr) callsTranslated(e ast.Expr, en env) bool {
	found := false
	ast.Inspect(e, func(n ast.Node) bool {
		if c, ok := n.(*ast.CallExpr); ok {
			if _, _, ok := f.resolveCall(c, en); ok {
				found = true
			}
		}
		return !found
	})
	return found
}

// resolveCall: is this a call of a translated function?  Returns its signature and, for methods,
// the receiver expression.
func (f *fnTr) resolveCall(c *ast.CallExpr, en env) (sig, ast.Expr, bool) {
	switch fn := c.Fun.(type) {
	case *ast.Ident:
		if _, shadow := en.lookup(fn.Name); shadow {
			return sig{}, nil, false
		}
		if s, ok := f.w.sigs[fn.Name]; ok && s.recv == "" && f.visibleUnit(s.unit) {
			return s, nil, true
		}
	case *ast.SelectorExpr:
		if s, ok := f.pkgCall(fn, en); ok {
			return s, nil, true
		}
		var rt ty
		switch r := fn.X.(type) {
		case *ast.Ident:
			b, ok := en.lookup(r.Name)
			if !ok {
				return sig{}, nil, false
			}
			rt = b.t
		case *ast.SelectorExpr:
			_, t, ok := f.fieldPath(r, en)
			if !ok {
				return sig{}, nil, false
			}
			rt = t
		default:
			return sig{}, nil, false
		}
		if rt.k == kStruct {
			if s, ok := f.w.sigs[rt.name+"."+fn.Sel.Name]; ok {
				return s, fn.X, true
			}
		}
	}
	return sig{}, nil, false
}

// setPath: Coq term for `base` with the field path of sel replaced by v; returns (root variable binding, term)
func (f *fnTr) setPath(lhs ast.Expr, v string, en env, vt ...ty) (binding, string) {
	switch x := lhs.(type) {
	case *ast.Ident:
		b, ok := en.lookup(x.Name)
		if !ok {
			fail("assignment to unknown variable %s", x.Name)
		}
		return b, v
	case *ast.SelectorExpr:
		baseCode, baseT, ok := "", ty{}, false
		switch b := x.X.(type) {
		case *ast.Ident:
			bd, ok2 := en.lookup(b.Name)
			if ok2 && bd.t.k == kStruct {
				baseCode, baseT, ok = bd.coq, bd.t, true
			}
		case *ast.SelectorExpr:
			baseCode, baseT, ok = f.fieldPath(b, en)
		}
		if !ok || baseT.k != kStruct {
			fail("assignment target %s", exprString(lhs))
		}
		si := f.w.structs[baseT.name]
		for _, fd := range si.fields {
			if fd.name == x.Sel.Name {
				nv := v
				if fd.t.unsigned && fd.t.bits > 0 && !(len(vt) == 1 && vt[0].unsigned && vt[0].bits == fd.t.bits) {
					nv = fmt.Sprintf("(wrap_u %d %s)", fd.t.bits, v)
				}
				inner := fmt.Sprintf("(%s_set_%s %s %s)", si.name, fd.name, nv, baseCode)
				return f.setPath(x.X, inner, en)
			}
		}
		fail("assignment to untranslated field %s", exprString(lhs))
	}
	fail("assignment target %s", exprString(lhs))
	return binding{}, ""
}

func (f *fnTr) call(c *ast.CallExpr, en env, k func(val, env) string) string {
	// conversions and builtins
	if id, ok := c.Fun.(*ast.Ident); ok && strings.HasPrefix(id.Name, "__fmatlen:") {
		t := f.newTmp()
		return fmt.Sprintf("%s <- call_ext ext %s [] ;;\n%s", t, coqString(strings.TrimPrefix(id.Name, "__fmatlen:")+".len"), k(val{t, ty{k: kInt}}, en))
	}
	if id, ok := c.Fun.(*ast.Ident); ok && id.Name == "__pixrow" && len(c.Args) == 2 {
		return f.pixRowTake(c, en, k)
	}
	if id, ok := c.Fun.(*ast.Ident); ok && id.Name == "__listelem" && len(c.Args) == 2 {
		return f.strListElem(c, en, k)
	}
	if code, ok := f.byteConv(c, en, k); ok {
		return code
	}
	if id, ok := c.Fun.(*ast.Ident); ok {
		if _, shadow := en.lookup(id.Name); !shadow {
			switch id.Name {
			case "float64", "float32":
				bits := 64
				if id.Name == "float32" {
					bits = 32
				}
				if len(c.Args) == 1 {
					return f.expr(c.Args[0], en, func(v val, en env) string {
						if code, ok := f.tokFieldConv(id.Name, bits, v, en, k); ok {
							return code
						}
						t := f.newTmp()
						switch {
						case v.t.k == kInt || v.t.k == kExt:
							return fmt.Sprintf("%s <- call_ext ext %s [AInt %s] ;;\n%s", t, coqString(fname(bits)+".of_int"), v.code, k(val{t, ty{k: kFloat, bits: bits}}, en))
						case v.t.k == kFloat && v.t.bits == bits:
							return k(v, en)
						case v.t.k == kFloat:
							return fmt.Sprintf("%s <- call_ext ext %s [AInt %s] ;;\n%s", t, coqString(fname(bits)+".of_"+fname(v.t.bits)), v.code, k(val{t, ty{k: kFloat, bits: bits}}, en))
						}
						fail("conversion %s", exprString(c))
						return ""
					})
				}
			case "int", "int64", "int32":
				if len(c.Args) == 1 {
					return f.expr(c.Args[0], en, func(v val, en env) string {
						if v.t.k == kFloat {
							t := f.newTmp()
							return fmt.Sprintf("%s <- call_ext ext %s [AInt %s] ;;\n%s", t, coqString(fname(v.t.bits)+".to_int"), v.code, k(val{t, ty{k: kInt}}, en))
						}
						if v.t.k != kInt && v.t.k != kExt {
							fail("conversion %s", exprString(c))
						}
						return k(val{v.code, ty{k: kInt}}, en)
					})
				}
			case "uint16", "uint32", "uint8", "byte", "uint64", "uint":
				bits := map[string]int{"uint16": 16, "uint32": 32, "uint8": 8, "byte": 8, "uint64": 64, "uint": 64}[id.Name]
				if len(c.Args) == 1 {
					return f.expr(c.Args[0], en, func(v val, en env) string {
						if v.t.k == kFloat {
							// Go's float -> unsigned integer conversion (truncation; out of range is implementation-defined)
							t := f.newTmp()
							return fmt.Sprintf("%s <- call_ext ext %s [AInt %s] ;;\n%s", t, coqString(fmt.Sprintf("%s.to_uint%d", fname(v.t.bits), bits)), v.code,
								k(val{t, ty{k: kInt, bits: bits, unsigned: true}}, en))
						}
						if v.t.k != kInt && v.t.k != kExt {
							fail("conversion %s", exprString(c))
						}
						if v.t.unsigned && v.t.bits > 0 && v.t.bits <= bits {
							return k(val{v.code, ty{k: kInt, bits: bits, unsigned: true}}, en)
						}
						return k(val{fmt.Sprintf("(wrap_u %d %s)", bits, v.code), ty{k: kInt, bits: bits, unsigned: true}}, en)
					})
				}
			case "new":
				if len(c.Args) == 1 {
					if t := f.w.goType(c.Args[0]); t.k == kStruct {
						return k(val{f.zeroRecord(t.name), t}, en)
					}
					return k(val{"tt", ty{k: kUnknown}}, en)
				}
			case "make":
				if code, ok := f.makeChan(c, en, k); ok {
					return code
				}
				if len(c.Args) == 2 {
					if t := f.w.goType(c.Args[0]); t.k == kHList {
						return f.expr(c.Args[1], en, func(n val, en env) string {
							return k(val{fmt.Sprintf("(repeat (-1) (Z.to_nat %s))", n.code), ty{k: kHList}}, en)
						})
					}
					if t := f.w.goType(c.Args[0]); t.k == kTok && f.u.outside {
						return f.makeTok(c, en, k)
					}
					if ts := exprString(c.Args[0]); ts == "[][]float32" || ts == "[]float32" {
						return f.expr(c.Args[1], en, func(n val, en env) string {
							return k(val{n.code, ty{k: kFMat, lit: ts}}, en) // only meaningful as the right side of an assignment to a float matrix
						})
					}
				}
				if len(c.Args) == 1 && f.u.outside {
					if t := f.w.goType(c.Args[0]); t.k == kTok {
						return f.makeTok0(c, en, k)
					}
				}
				return k(val{"tt", ty{k: kUnknown}}, en)
			case "len":
				if code, ok := f.pixLen(c, en, k); ok {
					return code
				}
				if code, ok := f.chanLen(c, en, k); ok {
					return code
				}
				return f.expr(c.Args[0], en, func(v val, en env) string {
					if v.t.k == kPixRow {
						return k(val{v.code, ty{k: kInt}}, en) // the row's length was asked for when the row was taken
					}
					if v.t.k == kTok && v.t.name == "[]byte" {
						t := f.newTmp()
						return fmt.Sprintf("%s <- call_ext ext \"bytes.len\"%%string [AInt %s] ;;\n%s", t, v.code, k(val{t, ty{k: kInt}}, en))
					}
					if v.t.k == kBytes {
						return k(val{"(go_len " + v.code + ")", ty{k: kInt}}, en)
					}
					if code, ok := f.strListLen(v, en, k); ok {
						return code
					}
					if v.t.k != kHList {
						fail("len of %s", exprString(c.Args[0]))
					}
					return k(val{"(go_len " + v.code + ")", ty{k: kInt}}, en)
				})
			case "copy":
				return f.copyCall(c, en, k)
			case "close":
				if f.u.chans {
					return f.chanClose(c, en, k)
				}
			case "panic":
				if f.u.chans {
					fail("panic(...) anywhere but as a statement of its own")
				}
			case "append":
				if code, ok := f.appendBytes(c, en, k); ok {
					return code
				}
			}
		}
	}
	if sel, ok := c.Fun.(*ast.SelectorExpr); ok {
		// time.Time.Sub
		if sel.Sel.Name == "Sub" && len(c.Args) == 1 && f.pure(sel.X, en) && f.pure(c.Args[0], en) &&
			f.translatable(sel.X, en) && f.translatable(c.Args[0], en) {
			ka, kb := f.kindOf(sel.X, en), f.kindOf(c.Args[0], en)
			if (ka == kTime && (kb == kTime || kb == kExt)) || (ka == kExt && kb == kTime) {
				return f.expr(sel.X, en, func(a val, en env) string {
					return f.expr(c.Args[0], en, func(b val, en env) string {
						return k(val{fmt.Sprintf("(go_time_sub %s %s)", a.code, b.code), ty{k: kInt}}, en)
					})
				})
			}
		}
		if s := exprString(c.Fun); (s == "math.Max" || s == "math.Min") && len(c.Args) == 2 {
			return f.expr(c.Args[0], en, func(a val, en env) string {
				return f.toFloat(a, 64, en, func(a val, en env) string {
					return f.expr(c.Args[1], en, func(b val, en env) string {
						return f.toFloat(b, 64, en, func(b val, en env) string {
							t := f.newTmp()
							return fmt.Sprintf("%s <- call_ext ext %s [AInt %s; AInt %s] ;;\n%s", t, coqString(s), a.code, b.code, k(val{t, ty{k: kFloat, bits: 64}}, en))
						})
					})
				})
			})
		}
		if s := exprString(c.Fun); (s == "errors.New" || s == "fmt.Errorf") && !f.u.outside {
			return k(val{"1", ty{k: kErr}}, en)
		}
	}
	// translated function or method
	if s, recvExpr, ok := f.resolveCall(c, en); ok {
		if !f.w.ok[s.coqName] {
			fail("call of %s, whose translation failed", s.coqName)
		}
		if fuelFns[s.coqName] {
			return f.fuelCall(c, s, en, k)
		}
		callee := s.coqName + " ext"
		return f.args(c.Args, s.params, en, func(args []string, en env) string {
			s := s
			s.coqName = callee
			if s.recv == "" {
				t := f.newTmp()
				return fmt.Sprintf("%s <- %s %s ;;\n%s", t, s.coqName, strings.Join(args, " "), k(val{t, s.result}, en))
			}
			var recvCode string
			f.expr(recvExpr, en, func(v val, _ env) string { recvCode = v.code; return "" })
			nr, t := f.newTmp(), f.newTmp()
			root, term := f.setPath(recvExpr, nr, en)
			line := fmt.Sprintf("'(%s, %s) <- %s %s%s ;;\n", nr, t, s.coqName, recvCode, prefixSpace(strings.Join(args, " ")))
			if _, isIdent := recvExpr.(*ast.Ident); isIdent {
				line = fmt.Sprintf("'(%s, %s) <- %s %s%s ;;\n", root.coq, t, s.coqName, recvCode, prefixSpace(strings.Join(args, " ")))
			} else {
				line += fmt.Sprintf("let %s := %s in\n", root.coq, term)
			}
			return line + k(val{t, s.result}, en)
		})
	}
	// everything else leaves the translated code
	name := f.path(c.Fun)
	var parts []string
	var rec func(i int, en env) string
	rec = func(i int, en env) string {
		if i == len(c.Args) {
			t := f.newTmp()
			rt := ty{k: kExt}
			if sel, ok := c.Fun.(*ast.SelectorExpr); ok && sel.Sel.Name == "Seconds" && len(c.Args) == 0 {
				rt = ty{k: kFloat, bits: 64} // time.Duration.Seconds()
			}
			return fmt.Sprintf("%s <- call_ext ext %s [%s] ;;\n%s", t, coqString(name), strings.Join(parts, "; "), k(val{t, rt}, en))
		}
		a := c.Args[i]
		if code, ok := f.byteSliceArg(a, en, &parts, func(en env) string { return rec(i+1, en) }); ok {
			return code
		}
		if f.isOpaque(a, en) || !f.translatable(a, en) {
			f.refuseSymTokField(a, en)
			parts = append(parts, "ASym "+coqString(f.path(a)))
			return rec(i+1, en)
		}
		return f.expr(a, en, func(v val, en env) string {
			parts = append(parts, f.asArg(v, a))
			return rec(i+1, en)
		})
	}
	if code, ok := f.errMethod(c, en, k); ok {
		return code
	}
	// a method called on a token (a pointer or string of the outside world): the token is the first argument
	if sel, ok := c.Fun.(*ast.SelectorExpr); ok && !f.isOpaque(sel.X, en) && f.translatable(sel.X, en) {
		if kd := f.kindOf(sel.X, en); kd == kTok || kd == kStrTok || (kd == kExt && (f.u.strTok || f.u.byteTok)) || f.extObjKind(kd) {
			return f.expr(sel.X, en, func(h val, en env) string {
				name = "obj." + sel.Sel.Name
				parts = append(parts, "AInt "+h.code)
				return rec(0, en)
			})
		}
	}
	// a method called on a frame handle: the handle is the first argument
	if sel, ok := c.Fun.(*ast.SelectorExpr); ok && !f.isOpaque(sel.X, en) && f.translatable(sel.X, en) && f.kindOf(sel.X, en) == kHandle {
		return f.expr(sel.X, en, func(h val, en env) string {
			name = "Frame." + sel.Sel.Name
			parts = append(parts, "AFrame "+h.code)
			return rec(0, en)
		})
	}
	return rec(0, en)
}

// kindOf: the kind of a translatable expression (dry run)
func (f *fnTr) kindOf(e ast.Expr, en env) (k kind) {
	defer func() {
		if r := recover(); r != nil {
			if _, is := r.(unsupported); is {
				k = kUnknown
				return
			}
			panic(r)
		}
	}()
	saveTmp := f.tmp
	f.expr(e, en, func(v val, _ env) string { k = v.t.k; return "" })
	f.tmp = saveTmp
	return k
}

func prefixSpace(s string) string {
	if s == "" {
		return ""
	}
	return " " + s
}

// translatable: can the expression be translated at all (used for arguments of external calls,
// which fall back to their source text)
func (f *fnTr) translatable(e ast.Expr, en env) (ok bool) {
	defer func() {
		if r := recover(); r != nil {
			if _, is := r.(unsupported); is {
				ok = false
				return
			}
			panic(r)
		}
	}()
	saveTmp := f.tmp
	kindOK := true
	f.expr(e, en, func(v val, _ env) string {
		if v.t.k == kUnknown || v.t.k == kStruct || v.t.k == kTuple || v.t.k == kUnit {
			kindOK = false
		}
		return ""
	})
	f.tmp = saveTmp
	return kindOK
}

func (f *fnTr) args(as []ast.Expr, params []ty, en env, k func([]string, env) string) string {
	var out []string
	var rec func(i int, en env) string
	rec = func(i int, en env) string {
		if i == len(as) {
			return k(out, en)
		}
		return f.expr(as[i], en, func(v val, en env) string {
			code := v.code
			if i < len(params) {
				if params[i].k == kUnknown {
					code = "" // parameters of untranslatable type are dropped
				} else if params[i].k == kBool {
					code = f.asBool(v)
				} else if params[i].k == kHandle && v.t.k == kNil {
					code = "(-1)"
				} else if v.t.k == kUnknown {
					fail("argument %s has no translation", exprString(as[i]))
				}
			}
			if code != "" {
				out = append(out, code)
			}
			return rec(i+1, en)
		})
	}
	return rec(0, en)
}

// copy(dst, src) with dst a frame-slice variable/field, or a slice expression of one
func (f *fnTr) copyCall(c *ast.CallExpr, en env, k func(val, env) string) string {
	if len(c.Args) != 2 {
		fail("copy with %d arguments", len(c.Args))
	}
	dst := c.Args[0]
	// rows of pixel grids
	if code, ok := f.pixRow(dst, en, func(dh, dy, dlo, dhi string, en env) string {
		code, ok := f.pixRow(c.Args[1], en, func(sh, sy, slo, shi string, en env) string {
			t := f.newTmp()
			return fmt.Sprintf("%s <- call_ext ext \"Frame.Pix.copyrow\"%%string [AFrame %s; AInt %s; AInt %s; AInt %s; AFrame %s; AInt %s; AInt %s; AInt %s] ;;\n%s",
				t, dh, dy, dlo, dhi, sh, sy, slo, shi, k(val{"tt", ty{k: kUnit}}, en))
		})
		if !ok {
			fail("copy into a pixel row from %s", exprString(c.Args[1]))
		}
		return code
	}); ok {
		return code
	}
	return f.expr(c.Args[1], en, func(src val, en env) string {
		if src.t.k != kHList {
			fail("copy from %s", exprString(c.Args[1]))
		}
		if se, ok := dst.(*ast.SliceExpr); ok {
			return f.expr(se.X, en, func(x val, en env) string {
				if x.t.k != kHList {
					fail("copy into %s", exprString(dst))
				}
				lo := func(k2 func(val, env) string) string {
					if se.Low == nil {
						return k2(val{"0", ty{k: kInt}}, en)
					}
					return f.expr(se.Low, en, k2)
				}
				return lo(func(lov val, en env) string {
					hi := func(k2 func(val, env) string) string {
						if se.High == nil {
							return k2(val{"(go_len " + x.code + ")", ty{k: kInt}}, en)
						}
						return f.expr(se.High, en, k2)
					}
					return hi(func(hiv val, en env) string {
						t := f.newTmp()
						root, term := f.setPath(se.X, t, en)
						return fmt.Sprintf("%s <- lift_opt (go_copy_at %s %s %s %s) ;;\nlet %s := %s in\n%s", t, x.code, lov.code, hiv.code, src.code,
							root.coq, term, k(val{"tt", ty{k: kUnit}}, en))
					})
				})
			})
		}
		return f.expr(dst, en, func(x val, en env) string {
			if x.t.k != kHList {
				fail("copy into %s", exprString(dst))
			}
			root, term := f.setPath(dst, fmt.Sprintf("(go_copy %s %s)", x.code, src.code), en)
			return fmt.Sprintf("let %s := %s in\n%s", root.coq, term, k(val{"tt", ty{k: kUnit}}, en))
		})
	})
}

// ---------------------------------------------------------------------------------------
// statements

type deferred struct{ call *ast.CallExpr }

func (f *fnTr) recvCoq(en env) string {
	if f.recv == "" {
		return ""
	}
	b, _ := en.lookup(f.recv)
	return b.coq
}

// finishReturn: the code that leaves the function with value v (already evaluated)
func (f *fnTr) finishReturn(v string, en env, defers []deferred) string {
	// deferred calls run last-in first-out after the result has been evaluated
	var run func(i int, en env) string
	run = func(i int, en env) string {
		if i < 0 {
			r := v
			if f.recv != "" {
				r = "(" + f.recvCoq(en) + ", " + v + ")"
			}
			if len(f.loops) > 0 {
				if f.breaks {
					return "ret (LRet (inr " + r + "))"
				}
				if f.optRet {
					return "ret (LRet (Some " + r + "))"
				}
				return "ret (LRet " + r + ")"
			}
			if f.fuel {
				return "ret (Some " + r + ")"
			}
			return "ret " + r
		}
		return f.expr(defers[i].call, en, func(_ val, en env) string { return run(i-1, en) })
	}
	if len(f.loops) > 0 {
		// deferred calls are run by the enclosing function once the loop hands the result back
		return run(-1, en)
	}
	return run(len(defers)-1, en)
}

func (f *fnTr) coerceResult(v val, want ty) string {
	if want.k == kStruct && v.t.k == kNil && f.u.nilZero {
		return f.zeroRecord(want.name)
	}
	switch want.k {
	case kBool:
		return f.asBool(v)
	case kErr, kInt:
		if v.t.k == kNil {
			return "0"
		}
		if v.t.k == kInt || v.t.k == kErr || v.t.k == kExt {
			return v.code
		}
	case kHandle:
		if v.t.k == kHandle || v.t.k == kExt {
			return v.code
		}
		if v.t.k == kNil {
			return "(-1)"
		}
	case kHList:
		if v.t.k == kHList {
			return v.code
		}
	case kStr, kTime, kStruct, kFloat:
		if v.t.k == want.k {
			return v.code
		}
	case kTok, kStrTok:
		if v.t.k == want.k || v.t.k == kExt {
			return v.code
		}
		if v.t.k == kNil {
			return "0"
		}
	}
	fail("cannot return a value of kind %d where kind %d is expected (%s)", v.t.k, want.k, v.code)
	return ""
}

func (f *fnTr) block(items []item, en env, defers []deferred) string {
	if len(items) == 0 {
		if len(f.loops) > 0 {
			return "ret (LCont " + f.loopState(en) + ")"
		}
		if f.result.k != kUnit {
			fail("control reaches the end of a function with a result")
		}
		return f.finishReturn("tt", en, defers)
	}
	it, rest := items[0], items[1:]
	if it.pop {
		return f.block(rest, en.pop(), defers)
	}
	switch s := it.s.(type) {
	case *ast.EmptyStmt:
		return f.block(rest, en, defers)
	case *ast.BlockStmt:
		return f.block(append(append(stmts(s.List), item{pop: true}), rest...), en.push(), defers)
	case *ast.ReturnStmt:
		want := f.result
		if want.k == kUnit {
			if len(s.Results) != 0 {
				fail("return with a value in a function without result")
			}
			return f.finishReturn("tt", en, defers)
		}
		if want.k == kTuple {
			if len(s.Results) == 1 {
				// return g(...) where g yields the tuple
				return f.expr(s.Results[0], en, func(v val, en env) string {
					if call, isCall := s.Results[0].(*ast.CallExpr); isCall && v.t.k == kExt && f.u.outside {
						// return g(...) where g leaves the translation: the first result is the call's answer,
						// the others are asked for by position (as in a, b := g(...))
						base := f.multiBase(call, en)
						parts := []string{f.coerceResult(v, want.elems[0])}
						code := ""
						for i := 1; i < len(want.elems); i++ {
							t := f.newTmp()
							code += fmt.Sprintf("%s <- call_ext ext %s [] ;;\n", t, coqString(fmt.Sprintf("%s#%d", base, i)))
							parts = append(parts, f.coerceResult(val{t, ty{k: kExt}}, want.elems[i]))
						}
						return code + f.finishReturn("("+strings.Join(parts, ", ")+")", en, defers)
					}
					if v.t.k != kTuple || len(v.t.elems) != len(want.elems) {
						fail("return %s", exprString(s.Results[0]))
					}
					return f.finishReturn(v.code, en, defers)
				})
			}
			if len(s.Results) != len(want.elems) {
				fail("return arity")
			}
			var parts []string
			var rec func(i int, en env) string
			rec = func(i int, en env) string {
				if i == len(s.Results) {
					return f.finishReturn("("+strings.Join(parts, ", ")+")", en, defers)
				}
				return f.expr(s.Results[i], en, func(v val, en env) string {
					parts = append(parts, f.coerceResult(v, want.elems[i]))
					return rec(i+1, en)
				})
			}
			return rec(0, en)
		}
		if len(s.Results) != 1 {
			fail("bare return")
		}
		return f.expr(s.Results[0], en, func(v val, en env) string {
			return f.finishReturn(f.coerceResult(v, want), en, defers)
		})
	case *ast.DeferStmt:
		f.refuseDeferInLoop(s)
		return f.block(rest, en, append(append([]deferred{}, defers...), deferred{s.Call}))
	case *ast.ExprStmt:
		if c, ok := isPanicStmt(s); ok && f.u.chans {
			return f.goPanic(c, en, defers)
		}
		return f.expr(s.X, en, func(_ val, en env) string { return f.block(rest, en, defers) })
	case *ast.SendStmt:
		return f.sendStmt(s, rest, en, defers)
	case *ast.SelectStmt:
		return f.selectStmt(s, rest, en, defers)
	case *ast.IncDecStmt:
		op := token.ADD_ASSIGN
		if s.Tok == token.DEC {
			op = token.SUB_ASSIGN
		}
		as := &ast.AssignStmt{Lhs: []ast.Expr{s.X}, Tok: op, Rhs: []ast.Expr{&ast.BasicLit{Kind: token.INT, Value: "1"}}}
		return f.assign(as, rest, en, defers)
	case *ast.AssignStmt:
		return f.assign(s, rest, en, defers)
	case *ast.DeclStmt:
		if f.localConst(s) {
			return f.block(rest, en, defers)
		}
		gd, ok := s.Decl.(*ast.GenDecl)
		if !ok || gd.Tok != token.VAR {
			fail("declaration")
		}
		if len(gd.Specs) != 1 || len(gd.Specs[0].(*ast.ValueSpec).Names) != 1 {
			fail("multi-variable declaration")
		}
		vs := gd.Specs[0].(*ast.ValueSpec)
		name := vs.Names[0]
		if len(vs.Values) == 1 {
			if vs.Type != nil {
				if dt := f.w.goType(vs.Type); dt.k == kFloat {
					return f.expr(vs.Values[0], en, func(v val, en env) string {
						return f.toFloat(v, dt.bits, en, func(v val, en env) string {
							cn := f.declName(name)
							return fmt.Sprintf("let %s := %s in\n%s", cn, v.code, f.block(rest, en.bind(binding{goName: name.Name, coq: cn, t: dt}), defers))
						})
					})
				}
			}
			// var x T = e  is  x := e
			as := &ast.AssignStmt{Lhs: []ast.Expr{name}, Tok: token.DEFINE, Rhs: []ast.Expr{vs.Values[0]}}
			return f.assign(as, rest, en, defers)
		}
		var t ty
		if vs.Type != nil {
			t = f.w.goType(vs.Type)
		}
		if vs.Type != nil && f.u.outside && contains(f.u.zeroObj, exprString(vs.Type)) {
			return f.zeroObjDecl(name, vs.Type, en, func(en env) string { return f.block(rest, en, defers) })
		}
		if t.k == kUnknown {
			return f.block(rest, en.bind(binding{goName: name.Name, coq: f.declName(name), t: ty{k: kUnknown}}), defers)
		}
		cn := f.declName(name)
		return fmt.Sprintf("let %s := %s in\n", cn, t.zero()) + f.block(rest, en.bind(binding{goName: name.Name, coq: cn, t: t}), defers)
	case *ast.IfStmt:
		// `if init; cond {A} else {B}; rest`: init's variables scope over both branches only
		var pre []item
		if s.Init != nil {
			pre = []item{{s: s.Init}}
		}
		items := append(pre, item{s: &ifCore{s}}, item{pop: true})
		return f.block(append(items, rest...), en.push(), defers)
	case *ifCore:
		return f.ifCore(s.IfStmt, rest, en, defers)
	case *callK:
		var args []string
		for _, n := range s.params {
			b, _ := en.lookup(n)
			args = append(args, b.coq)
		}
		switch len(args) {
		case 0:
			return s.name + " tt"
		case 1:
			return s.name + " " + args[0]
		}
		return s.name + " (" + strings.Join(args, ", ") + ")"
	case *ast.ForStmt:
		if s.Init == nil && s.Cond == nil && s.Post == nil {
			if f.callsFuelFn(s.Body, en) {
				return f.foreverNested(s, rest, en, defers)
			}
			return f.foreverStmt(s, rest, en, defers)
		}
		return f.forStmt(s, rest, en, defers)
	case *ast.BranchStmt:
		return f.branchStmt(s, en)
	case *ast.GoStmt:
		return f.goStmt(s, rest, en, defers)
	case *ast.SwitchStmt:
		return f.block(append([]item{{s: f.switchAsIf(s, en)}}, rest...), en, defers)
	case *ast.RangeStmt:
		// for y, row := range X.Pix
		if fs, ok := f.rangePix(s, en); ok {
			return f.forStmt(fs, rest, en, defers)
		}
		if bs, ok := f.rangeStrList(s, en); ok {
			return f.block(append([]item{{s: bs}}, rest...), en, defers)
		}
		// for i := range X  (index only) over a slice of frame handles or a float matrix
		if s.Value != nil || s.Key == nil || s.Tok != token.DEFINE {
			fail("range loop form")
		}
		key, ok := s.Key.(*ast.Ident)
		if !ok {
			fail("range loop key")
		}
		var bound ast.Expr
		if name, ok := f.fmatBase(s.X, en); ok {
			bound = &ast.CallExpr{Fun: &ast.Ident{Name: "__fmatlen:" + name}}
		} else {
			bound = &ast.CallExpr{Fun: &ast.Ident{Name: "len"}, Args: []ast.Expr{s.X}}
		}
		fs := &ast.ForStmt{
			Init: &ast.AssignStmt{Lhs: []ast.Expr{key}, Tok: token.DEFINE, Rhs: []ast.Expr{&ast.BasicLit{Kind: token.INT, Value: "0"}}},
			Cond: &ast.BinaryExpr{X: &ast.Ident{Name: key.Name}, Op: token.LSS, Y: bound},
			Post: &ast.IncDecStmt{X: &ast.Ident{Name: key.Name}, Tok: token.INC},
			Body: s.Body,
		}
		return f.forStmt(fs, rest, en, defers)
	}
	fail("statement %T", it.s)
	return ""
}

// The `if` statement needs the rest of the enclosing block inside both branches, but its Init
// statement must be translated first; ifCore is the `if` without its Init.
type ifCore struct{ *ast.IfStmt }

func stmts(l []ast.Stmt) []item {
	var o []item
	for _, s := range l {
		o = append(o, item{s: s})
	}
	return o
}

// does this statement list always leave the function (so that nothing after it is reached)?
func terminates(l []ast.Stmt) bool {
	if len(l) == 0 {
		return false
	}
	switch x := l[len(l)-1].(type) {
	case *ast.ReturnStmt:
		return true
	case *ast.BranchStmt:
		return (x.Tok == token.CONTINUE || x.Tok == token.BREAK) && x.Label == nil // leaves the block (only translated inside endless loops)
	case *ast.BlockStmt:
		return terminates(x.List)
	case *ast.IfStmt:
		if x.Else == nil || !terminates(x.Body.List) {
			return false
		}
		switch e := x.Else.(type) {
		case *ast.BlockStmt:
			return terminates(e.List)
		case *ast.IfStmt:
			return terminates([]ast.Stmt{e})
		}
	}
	return false
}

func elseTerminates(s *ast.IfStmt) bool {
	switch e := s.Else.(type) {
	case *ast.BlockStmt:
		return terminates(e.List)
	case *ast.IfStmt:
		return terminates([]ast.Stmt{e})
	}
	return false
}

func realStmts(items []item) int {
	n := 0
	for _, it := range items {
		if it.pop {
			continue
		}
		if _, isJump := it.s.(*callK); isJump {
			continue
		}
		n++
	}
	return n
}

// callK ends a branch by jumping to the join point that holds the rest of the enclosing block
type callK struct {
	ast.EmptyStmt
	name   string
	params []string // Go names
}

func (f *fnTr) ifCore(s *ast.IfStmt, rest []item, en env, defers []deferred) string {
	return f.expr(s.Cond, en, func(c val, en env) string {
		prefix := ""
		// both branches can fall through into a non-empty rest: share it through a join point
		if realStmts(rest) > 0 && !terminates(s.Body.List) && !elseTerminates(s) {
			var names []string
			var typs []string
			var coqs []string
			if f.recv != "" {
				b, _ := en.lookup(f.recv)
				names, typs, coqs = append(names, f.recv), append(typs, b.t.coq()), append(coqs, b.coq)
			}
			for _, b := range f.assignedIn(&ast.BlockStmt{List: []ast.Stmt{s}}, en, "") {
				names, typs, coqs = append(names, b.goName), append(typs, b.t.coq()), append(coqs, b.coq)
			}
			f.joins++
			kn := fmt.Sprintf("k%d", f.joins)
			restCode := f.block(rest, en, defers)
			switch len(names) {
			case 0:
				prefix = fmt.Sprintf("let %s := fun (_ : unit) => (\n%s\n) in\n", kn, indent(restCode))
			case 1:
				prefix = fmt.Sprintf("let %s := fun (%s : %s) => (\n%s\n) in\n", kn, coqs[0], typs[0], indent(restCode))
			default:
				prefix = fmt.Sprintf("let %s := fun (jp : %s) => let '(%s) := jp in (\n%s\n) in\n", kn, strings.Join(typs, " * "), strings.Join(coqs, ", "), indent(restCode))
			}
			rest = []item{{s: &callK{name: kn, params: names}}}
		}
		thenItems := append(append(stmts(s.Body.List), item{pop: true}), rest...)
		thenCode := f.block(thenItems, en.push(), defers)
		var elseCode string
		switch e := s.Else.(type) {
		case nil:
			elseCode = f.block(rest, en, defers)
		case *ast.BlockStmt:
			elseCode = f.block(append(append(stmts(e.List), item{pop: true}), rest...), en.push(), defers)
		case *ast.IfStmt:
			elseCode = f.block(append([]item{{s: e}}, rest...), en, defers)
		default:
			fail("else branch %T", s.Else)
		}
		return fmt.Sprintf("%sif %s then (\n%s\n) else (\n%s\n)", prefix, f.asBool(c), indent(thenCode), indent(elseCode))
	})
}

func indent(s string) string {
	return "  " + strings.ReplaceAll(s, "\n", "\n  ")
}

func (f *fnTr) assign(s *ast.AssignStmt, rest []item, en env, defers []deferred) string {
	if len(s.Lhs) == 1 && len(s.Rhs) == 1 {
		lhs := s.Lhs[0]
		rhs := s.Rhs[0]
		if s.Tok != token.ASSIGN && s.Tok != token.DEFINE {
			var op token.Token
			switch s.Tok {
			case token.ADD_ASSIGN:
				op = token.ADD
			case token.SUB_ASSIGN:
				op = token.SUB
			case token.MUL_ASSIGN:
				op = token.MUL
			default:
				fail("assignment operator %s", s.Tok)
			}
			rhs = &ast.BinaryExpr{X: lhs, Op: op, Y: rhs}
		}
		if id, ok := lhs.(*ast.Ident); ok && id.Name == "_" {
			return f.expr(rhs, en, func(_ val, en env) string { return f.block(rest, en, defers) })
		}
		if code, ok := f.statusLiteral(s, func(en env) string { return f.block(rest, en, defers) }, en); ok {
			return code
		}
		return f.expr(rhs, en, func(v val, en env) string {
			if id, ok := lhs.(*ast.Ident); ok {
				_, exists := en.lookup(id.Name)
				if !exists && s.Tok != token.DEFINE && f.outsideName(id, en) {
					return f.outsideSet(id, v, rhs, en, func(en env) string { return f.block(rest, en, defers) })
				}
				if s.Tok == token.DEFINE || !exists {
					if s.Tok != token.DEFINE {
						fail("assignment to undeclared %s", id.Name)
					}
					cn := f.declName(id)
					t := v.t
					if t.k == kNil {
						t = ty{k: kErr}
					}
					if t.k == kUnknown || t.k == kUnit {
						// a value the translation does not represent (kept by name for ASym arguments)
						return f.block(rest, en.bind(binding{goName: id.Name, coq: cn, t: ty{k: kUnknown}}), defers)
					}
					return fmt.Sprintf("let %s := %s in\n%s", cn, v.code, f.block(rest, en.bind(binding{goName: id.Name, coq: cn, t: t}), defers))
				}
				b, _ := en.lookup(id.Name)
				if b.t.k == kUnknown {
					return f.block(rest, en, defers) // a variable outside the translation
				}
				if b.t.k == kStruct {
					if v.t.k == kStruct && v.t.name == b.t.name {
						return fmt.Sprintf("let %s := %s in\n%s", b.coq, v.code, f.block(rest, en, defers))
					}
					fail("assignment to struct variable %s", id.Name)
				}
				if b.t.k == kFloat && v.t.k != kFloat {
					return f.toFloat(v, b.t.bits, en, func(v val, en env) string {
						return fmt.Sprintf("let %s := %s in\n%s", b.coq, v.code, f.block(rest, en, defers))
					})
				}
				code := v.code
				switch {
				case b.t.k == kBool:
					code = f.asBool(v)
				case v.t.k == kNil && b.t.k == kHandle:
					code = "(-1)"
				case b.t.unsigned && b.t.bits > 0:
					code = fmt.Sprintf("(wrap_u %d %s)", b.t.bits, v.code)
				case v.t.k == kUnknown || v.t.k == kUnit || v.t.k == kTuple:
					fail("assignment of an untranslated value to %s", id.Name)
				}
				return fmt.Sprintf("let %s := %s in\n%s", b.coq, code, f.block(rest, en, defers))
			}
			if ie, ok := lhs.(*ast.IndexExpr); ok {
				if code, ok := f.assign2(ie, v, en, func(en env) string { return f.block(rest, en, defers) }); ok {
					return code
				}
				// frames[i] = v  on a slice of frame handles held in a variable or field
				if f.translatable(ie.X, en) && f.kindOf(ie.X, en) == kHList && (v.t.k == kHandle || v.t.k == kExt) {
					return f.expr(ie.X, en, func(l val, en env) string {
						return f.expr(ie.Index, en, func(iv val, en env) string {
							t := f.newTmp()
							root, term := f.setPath(ie.X, t, en)
							return fmt.Sprintf("%s <- lift_opt (go_set_index %s %s %s) ;;\nlet %s := %s in\n%s", t, l.code, iv.code, v.code, root.coq, term, f.block(rest, en, defers))
						})
					})
				}
				// m[i] = make([]float32, n)  on a float matrix
				if name, ok := f.fmatBase(ie.X, en); ok && v.t.k == kFMat {
					return f.expr(ie.Index, en, func(iv val, en env) string {
						t := f.newTmp()
						return fmt.Sprintf("%s <- call_ext ext %s [AInt %s; AInt %s] ;;\n%s", t, coqString(name+".makerow"), iv.code, v.code, f.block(rest, en, defers))
					})
				}
				fail("assignment target %s", exprString(lhs))
			}
			if sel, ok := lhs.(*ast.SelectorExpr); ok {
				f.refuseTokFieldTarget(lhs, en)
				// m = make([][]float32, n)
				if name, ok := f.fmatBase(sel, en); ok && v.t.k == kFMat {
					t := f.newTmp()
					return fmt.Sprintf("%s <- call_ext ext %s [AInt %s] ;;\n%s", t, coqString(name+".make"), v.code, f.block(rest, en, defers))
				}
				// X.Status.<Field> = v  on a frame handle
				if st, ok := sel.X.(*ast.SelectorExpr); ok && st.Sel.Name == "Status" && !f.isOpaque(st.X, en) && f.translatable(st.X, en) && f.kindOf(st.X, en) == kHandle {
					return f.expr(st.X, en, func(h val, en env) string {
						t := f.newTmp()
						return fmt.Sprintf("%s <- call_ext ext %s [AFrame %s; %s] ;;\n%s", t, coqString("Frame.Status.set."+sel.Sel.Name), h.code, f.asArg(v, rhs), f.block(rest, en, defers))
					})
				}
				// a field outside the translation: the outside world is told
				if _, _, ok := f.fieldPath(sel, en); !ok {
					if rootIdent(sel) != "" {
						t := f.newTmp()
						return fmt.Sprintf("%s <- call_ext ext %s [%s] ;;\n%s", t, coqString("set:"+f.path(sel)), f.asArg(v, rhs), f.block(rest, en, defers))
					}
				}
			}
			if v.t.k == kUnknown || v.t.k == kUnit || v.t.k == kTuple {
				fail("assignment of an untranslated value to %s", exprString(lhs))
			}
			code := v.code
			if _, isSel := lhs.(*ast.SelectorExpr); !isSel {
				fail("assignment target %s", exprString(lhs))
			}
			if _, ft, ok := f.fieldPath(lhs.(*ast.SelectorExpr), en); ok && ft.k == kFloat {
				return f.toFloat(v, ft.bits, en, func(v val, en env) string {
					root, term := f.setPath(lhs, v.code, en, v.t)
					return fmt.Sprintf("let %s := %s in\n%s", root.coq, term, f.block(rest, en, defers))
				})
			}
			if _, ft, ok := f.fieldPath(lhs.(*ast.SelectorExpr), en); ok && ft.k == kBool {
				code = f.asBool(v)
			} else if ok && ft.k == kHandle && v.t.k == kNil {
				code = "(-1)"
			}
			root, term := f.setPath(lhs, code, en, v.t)
			return fmt.Sprintf("let %s := %s in\n%s", root.coq, term, f.block(rest, en, defers))
		})
	}
	// v, ok := x.(T)
	if ta, ok := s.Rhs[0].(*ast.TypeAssertExpr); ok && len(s.Rhs) == 1 && len(s.Lhs) == 2 && f.u.outside {
		return f.typeAssert(s, ta, en, func(en env) string { return f.block(rest, en, defers) })
	}
	if code, ok := f.recvOk(s, rest, en, defers); ok {
		return code
	}
	// a, b := g(...)
	if len(s.Rhs) == 1 && len(s.Lhs) > 1 {
		return f.expr(s.Rhs[0], en, func(v val, en env) string {
			if v.t.k == kExt {
				// results of a call that leaves the translation: the first is the call's answer, the
				// others are asked for by position
				call, _ := s.Rhs[0].(*ast.CallExpr)
				if call == nil {
					fail("tuple assignment from %s", exprString(s.Rhs[0]))
				}
				base := f.multiBase(call, en)
				if code, ok := f.typedResults(s, base, v, rest, en, defers); ok {
					return code
				}
				code := ""
				for i, l := range s.Lhs {
					id, ok := l.(*ast.Ident)
					if !ok {
						fail("tuple assignment target %s", exprString(l))
					}
					src := v.code
					if i > 0 {
						t := f.newTmp()
						code += fmt.Sprintf("%s <- call_ext ext %s [] ;;\n", t, coqString(fmt.Sprintf("%s#%d", base, i)))
						src = t
					}
					if id.Name == "_" {
						continue
					}
					if _, exists := en.lookup(id.Name); !exists && s.Tok != token.DEFINE && f.outsideName(id, en) {
						code += f.outsideSet(id, val{src, ty{k: kExt}}, id, en, func(env) string { return "" })
						continue
					}
					if b, exists := en.lookup(id.Name); exists && (s.Tok != token.DEFINE || f.sameScope(en, id.Name)) {
						code += fmt.Sprintf("let %s := %s in\n", b.coq, src)
						continue
					}
					cn := f.declName(id)
					code += fmt.Sprintf("let %s := %s in\n", cn, src)
					en = en.bind(binding{goName: id.Name, coq: cn, t: ty{k: kExt}})
				}
				return code + f.block(rest, en, defers)
			}
			if v.t.k != kTuple || len(v.t.elems) != len(s.Lhs) {
				fail("tuple assignment from %s", exprString(s.Rhs[0]))
			}
			var names []string
			for i, l := range s.Lhs {
				id, ok := l.(*ast.Ident)
				if !ok {
					fail("tuple assignment target %s", exprString(l))
				}
				if id.Name == "_" {
					names = append(names, "_")
					continue
				}
				if b, exists := en.lookup(id.Name); exists && s.Tok != token.DEFINE {
					names = append(names, b.coq)
					continue
				} else if exists && s.Tok == token.DEFINE && f.sameScope(en, id.Name) {
					names = append(names, b.coq)
					continue
				}
				cn := f.declName(id)
				names = append(names, cn)
				en = en.bind(binding{goName: id.Name, coq: cn, t: v.t.elems[i]})
			}
			return fmt.Sprintf("let '(%s) := %s in\n%s", strings.Join(names, ", "), v.code, f.block(rest, en, defers))
		})
	}
	fail("assignment form")
	return ""
}

func (f *fnTr) sameScope(en env, name string) bool {
	for i := len(en) - 1; i >= 0; i-- {
		if en[i].marker {
			return false
		}
		if en[i].goName == name {
			return true
		}
	}
	return false
}

// variables (other than the receiver) declared outside the loop and assigned inside it
func (f *fnTr) assignedIn(body *ast.BlockStmt, en env, loopVar string) []binding {
	seen := map[string]bool{}
	var out []binding
	add := func(e ast.Expr) {
		for {
			switch x := e.(type) {
			case *ast.SelectorExpr:
				e = x.X
				continue
			case *ast.IndexExpr:
				e = x.X
				continue
			case *ast.Ident:
				if x.Name == f.recv || x.Name == loopVar || x.Name == "_" || seen[x.Name] {
					return
				}
				if b, ok := en.lookup(x.Name); ok && b.t.k != kUnknown {
					seen[x.Name] = true
					out = append(out, b)
				}
			}
			return
		}
	}
	ast.Inspect(body, func(n ast.Node) bool {
		switch x := n.(type) {
		case *ast.AssignStmt:
			for _, l := range x.Lhs {
				if x.Tok == token.DEFINE {
					continue
				}
				add(l)
			}
		case *ast.IncDecStmt:
			add(x.X)
		case *ast.CallExpr:
			// a method call on a struct-typed local updates it
			if sel, ok := x.Fun.(*ast.SelectorExpr); ok {
				if id, ok := sel.X.(*ast.Ident); ok {
					if b, ok := en.lookup(id.Name); ok && b.t.k == kStruct {
						add(id)
					}
				}
			}
		}
		return true
	})
	return out
}

func (f *fnTr) loopState(en env) string {
	var parts []string
	for _, n := range f.loops[len(f.loops)-1] {
		b, _ := en.lookup(n)
		if f.inEndless && len(f.loops) == 1 {
			b, _ = en[:f.endlessEntry].lookup(n) // not a variable of the same name declared inside the body
		}
		parts = append(parts, b.coq)
	}
	if len(parts) == 0 {
		return "tt"
	}
	if len(parts) == 1 {
		return parts[0]
	}
	return "(" + strings.Join(parts, ", ") + ")"
}

func assigns(body ast.Node, name string) bool {
	found := false
	ast.Inspect(body, func(n ast.Node) bool {
		switch x := n.(type) {
		case *ast.ForStmt:
			// an inner loop that declares its own variable of the same name shadows it
			if as, ok := x.Init.(*ast.AssignStmt); ok && as.Tok == token.DEFINE && len(as.Lhs) == 1 && isIdentNamed(as.Lhs[0], name) {
				return false
			}
		case *ast.AssignStmt:
			for _, l := range x.Lhs {
				if id, ok := l.(*ast.Ident); ok && id.Name == name {
					found = true
				}
			}
		case *ast.IncDecStmt:
			if id, ok := x.X.(*ast.Ident); ok && id.Name == name {
				found = true
			}
		}
		return !found
	})
	return found
}

func isIncOf(s ast.Stmt, name string) bool {
	if x, ok := s.(*ast.IncDecStmt); ok && x.Tok == token.INC {
		if id, ok := x.X.(*ast.Ident); ok && id.Name == name {
			return true
		}
	}
	return false
}

// for i < hi { body; i++ }      and      for i := lo; i < hi; i++ { body }
func (f *fnTr) forStmt(s *ast.ForStmt, rest []item, outer env, defers []deferred) string {
	cond, ok := s.Cond.(*ast.BinaryExpr)
	if !ok || cond.Op != token.LSS {
		fail("loop condition %s", exprString(s.Cond))
	}
	iv, ok := cond.X.(*ast.Ident)
	if !ok {
		fail("loop condition %s", exprString(s.Cond))
	}
	body := s.Body.List
	en := outer.push()
	var loCode, ivCoq string
	declaredHere := false
	if s.Init != nil {
		as, ok := s.Init.(*ast.AssignStmt)
		if !ok || as.Tok != token.DEFINE || len(as.Lhs) != 1 || !isIdentNamed(as.Lhs[0], iv.Name) || s.Post == nil || !isIncOf(s.Post, iv.Name) {
			fail("loop header")
		}
		if !f.pure(as.Rhs[0], en) {
			fail("loop start %s", exprString(as.Rhs[0]))
		}
		f.expr(as.Rhs[0], en, func(v val, _ env) string { loCode = v.code; return "" })
		declaredHere = true
		ivCoq = f.declName(as.Lhs[0].(*ast.Ident))
	} else {
		if s.Post != nil || len(body) == 0 || !isIncOf(body[len(body)-1], iv.Name) {
			fail("loop form")
		}
		body = body[:len(body)-1]
		b, ok := en.lookup(iv.Name)
		if !ok || b.t.k != kInt {
			fail("loop variable %s", iv.Name)
		}
		loCode, ivCoq = b.coq, b.coq
	}
	bodyBlock := &ast.BlockStmt{List: body}
	if assigns(bodyBlock, iv.Name) {
		fail("loop body assigns the loop variable %s", iv.Name)
	}
	state := f.assignedIn(bodyBlock, en, iv.Name)
	// the bound must not depend on anything the body changes
	bad := false
	ast.Inspect(cond.Y, func(n ast.Node) bool {
		if id, ok := n.(*ast.Ident); ok {
			for _, b := range state {
				if b.goName == id.Name && !(isLenOf(cond.Y, id.Name) && onlyIndexAssigned(bodyBlock, id.Name)) {
					bad = true
				}
			}
		}
		if sel, ok := n.(*ast.SelectorExpr); ok && f.recv != "" && rootIdent(sel) == f.recv {
			mod := f.recvModified(bodyBlock, en)
			// the outermost field below the receiver
			e := ast.Expr(sel)
			name := ""
			for {
				if s2, ok := e.(*ast.SelectorExpr); ok {
					name = s2.Sel.Name
					e = s2.X
					continue
				}
				break
			}
			if mod["*"] || mod[name] {
				bad = true
			}
			return false
		}
		return true
	})
	if bad && !f.once[s] {
		fail("loop bound %s changes inside the loop", exprString(cond.Y))
	}
	return f.expr(cond.Y, en, func(hv val, en env) string {
		hiCode := hv.code

		var stateNames []string
		if f.recv != "" {
			stateNames = append(stateNames, f.recv)
		}
		for _, b := range state {
			stateNames = append(stateNames, b.goName)
		}
		benv := en
		if declaredHere {
			benv = benv.bind(binding{goName: iv.Name, coq: ivCoq, t: ty{k: kInt}})
		}
		f.loops = append(f.loops, stateNames)
		pat := f.loopState(benv)
		bodyCode := f.block(append(stmts(body), item{pop: true}), benv.push(), nil)
		f.loops = f.loops[:len(f.loops)-1]
		init := pat
		lamPat := "'" + pat
		if !strings.HasPrefix(pat, "(") {
			lamPat = pat
		}
		if len(stateNames) == 0 {
			init, lamPat, pat = "tt", "_", "_"
		}
		lr := f.newTmp()
		restCode := ""
		if !declaredHere {
			restCode = fmt.Sprintf("let %s := Z.max %s %s in\n", ivCoq, loCode, hiCode)
		}
		restCode += f.block(append([]item{{pop: true}}, rest...), en, defers)
		var retCode string
		if len(f.loops) > 0 {
			retCode = "ret (LRet r)"
		} else {
			// function-level return out of the loop: deferred calls run now
			rv := f.newTmp()
			if f.recv != "" {
				b, _ := en.lookup(f.recv)
				retCode = fmt.Sprintf("let '(%s, %s) := r in\n%s", b.coq, rv, f.finishReturn(rv, en, defers))
			} else {
				retCode = fmt.Sprintf("let %s := r in\n%s", rv, f.finishReturn(rv, en, defers))
			}
		}
		return fmt.Sprintf("%s <- for_range %s %s (fun %s %s => (\n%s\n)) %s ;;\nmatch %s with\n| LRet r => (\n%s\n)\n| LCont %s => (\n%s\n)\nend",
			lr, loCode, hiCode, ivCoq, lamPat, indent(bodyCode), init, lr, indent(retCode), pat, indent(restCode))
	})
}

// fields of the receiver that the loop body may modify ("*" = any)
func (f *fnTr) recvModified(body *ast.BlockStmt, en env) map[string]bool {
	m := map[string]bool{}
	top := func(e ast.Expr) string { // d.a.b.c -> "a"
		name := ""
		for {
			switch x := e.(type) {
			case *ast.SelectorExpr:
				name = x.Sel.Name
				e = x.X
			case *ast.IndexExpr:
				e = x.X
			case *ast.ParenExpr:
				e = x.X
			case *ast.Ident:
				if x.Name == f.recv {
					return name
				}
				return ""
			default:
				return ""
			}
		}
	}
	ast.Inspect(body, func(n ast.Node) bool {
		switch x := n.(type) {
		case *ast.AssignStmt:
			for _, l := range x.Lhs {
				if rootIdent(l) == f.recv {
					if t := top(l); t != "" {
						m[t] = true
					} else {
						m["*"] = true
					}
				}
			}
		case *ast.IncDecStmt:
			if rootIdent(x.X) == f.recv {
				if t := top(x.X); t != "" {
					m[t] = true
				}
			}
		case *ast.CallExpr:
			if _, recvExpr, ok := f.resolveCall(x, en); ok && recvExpr != nil && rootIdent(recvExpr) == f.recv {
				if t := top(recvExpr); t != "" {
					m[t] = true // a method of a nested struct changes that field only
				} else {
					m["*"] = true
				}
			}
		}
		return true
	})
	return m
}

func (f *fnTr) recvAssigned(body *ast.BlockStmt) bool { return true }

func rootIdent(e ast.Expr) string {
	for {
		switch x := e.(type) {
		case *ast.SelectorExpr:
			e = x.X
		case *ast.IndexExpr:
			e = x.X
		case *ast.ParenExpr:
			e = x.X
		case *ast.Ident:
			return x.Name
		default:
			return ""
		}
	}
}

func isIdentNamed(e ast.Expr, n string) bool {
	id, ok := e.(*ast.Ident)
	return ok && id.Name == n
}

// ---------------------------------------------------------------------------------------
// functions and units

func (w *world) translateFunc(u *unit, fd *ast.FuncDecl, s sig) (code string, err error) {
	defer func() {
		if r := recover(); r != nil {
			if us, ok := r.(unsupported); ok {
				err = fmt.Errorf("%s", us.msg)
				return
			}
			panic(r)
		}
	}()
	f := &fnTr{w: w, u: u, result: s.result, names: map[token.Pos]string{}, used: map[string]bool{}}
	f.coqName, f.fuel = s.coqName, u.outside && hasEndlessLoop(fd)
	if f.fuel {
		f.used["fuel"], f.used["st"], f.used["r"] = true, true, true
	}
	var en env
	var params []string
	if _, plain := noRecvMethod(u, fd); plain {
		checkRecvUnused(fd)
	} else if fd.Recv != nil && len(fd.Recv.List) == 1 {
		f.recvType = s.recv
		if len(fd.Recv.List[0].Names) == 1 {
			f.recv = fd.Recv.List[0].Names[0].Name
		} else {
			f.recv = "self"
		}
		cn := f.fresh(f.recv)
		en = en.bind(binding{goName: f.recv, coq: cn, t: ty{k: kStruct, name: s.recv}})
		params = append(params, fmt.Sprintf("(%s : %s)", cn, s.recv))
	}
	i := 0
	for _, p := range fd.Type.Params.List {
		for _, n := range paramNames(p) {
			t := s.params[i]
			i++
			cn := f.fresh(n.Name)
			en = en.bind(binding{goName: n.Name, coq: cn, t: t})
			if t.k != kUnknown {
				params = append(params, fmt.Sprintf("(%s : %s)", cn, t.coq()))
			}
		}
	}
	// named results are locals holding the zero value
	pre := ""
	if fd.Type.Results != nil {
		for _, r := range fd.Type.Results.List {
			for _, n := range r.Names {
				t := w.goType(r.Type)
				cn := f.fresh(n.Name)
				en = en.bind(binding{goName: n.Name, coq: cn, t: t})
				pre += fmt.Sprintf("let %s := %s in\n", cn, t.zero())
			}
		}
	}
	body := pre + f.block(stmts(fd.Body.List), en.push(), nil)
	rt := s.result.coq()
	if s.recv != "" {
		rt = "(" + s.recv + " * " + s.result.coq() + ")"
	}
	if f.fuel {
		return f.fuelDefinition(s, params, rt, body), nil
	}
	return fmt.Sprintf("Definition %s {W : Type} (ext : string -> list arg -> W -> Z * W) %s : M W %s :=\n%s.\n", s.coqName, strings.Join(params, " "), rt, indent(body)), nil
}

func calledNames(fd *ast.FuncDecl) map[string]bool {
	m := map[string]bool{}
	ast.Inspect(fd, func(n ast.Node) bool {
		if c, ok := n.(*ast.CallExpr); ok {
			switch fn := c.Fun.(type) {
			case *ast.Ident:
				m[fn.Name] = true
			case *ast.SelectorExpr:
				m[fn.Sel.Name] = true
			}
		}
		return true
	})
	return m
}

func translateUnits(repo, outdir string, units []*unit) error {
	w := &world{structs: map[string]*structInfo{}, funcs: map[string]*ast.FuncDecl{}, consts: map[string]ast.Expr{}, ok: map[string]bool{}, sigs: map[string]sig{}}
	os.MkdirAll(outdir, 0o755)
	for _, u := range units {
		var files []*ast.File
		for _, fn := range u.files {
			files = append(files, parse(repo, filepath.Join(u.dir, fn)))
		}
		unitConsts := map[string]ast.Expr{}
		for _, af := range files {
			for k, v := range consts(af) {
				unitConsts[k] = v
			}
		}
		w.consts = unitConsts
		w.cur = u
		w.globals, w.pkgs = outsideNames(u, files)
		w.pkgConsts = loadPkgConsts(repo, u)
		// pass 1: struct names (so that field types can refer to each other)
		decls := map[string]*ast.StructType{}
		for _, af := range files {
			for _, d := range af.Decls {
				if gd, ok := d.(*ast.GenDecl); ok && gd.Tok == token.TYPE {
					for _, sp := range gd.Specs {
						ts := sp.(*ast.TypeSpec)
						if st, ok := ts.Type.(*ast.StructType); ok {
							decls[ts.Name.Name] = st
						}
					}
				}
			}
		}
		if err := checkNoRecvTypes(u, decls); err != nil {
			return err
		}
		for _, sn := range u.structs {
			w.structs[sn] = &structInfo{name: sn, methods: map[string]*ast.FuncDecl{}}
		}
		for _, sn := range u.structs {
			st, ok := decls[sn]
			si := w.structs[sn]
			if !ok {
				continue
			}
			for _, fl := range st.Fields.List {
				t := w.goType(fl.Type)
				for _, n := range fl.Names {
					if t.k == kFMat {
						si.dropped = append(si.dropped, n.Name+" "+exprString(fl.Type)+" (read and written through external calls)")
						si.fmats = append(si.fmats, n.Name)
					} else if t.k == kUnknown {
						si.dropped = append(si.dropped, n.Name+" "+exprString(fl.Type))
					} else {
						si.fields = append(si.fields, field{n.Name, t})
					}
				}
			}
		}
		// functions of this unit
		type fdef struct {
			key string
			fd  *ast.FuncDecl
			s   sig
		}
		var defs []*fdef
		want := map[string]bool{}
		for _, n := range u.funcs {
			want[n] = true
		}
		for _, af := range files {
			for _, d := range af.Decls {
				fd, ok := d.(*ast.FuncDecl)
				if !ok || fd.Body == nil {
					continue
				}
				fd = tailDecl(u, fd)
				var s sig
				key := fd.Name.Name
				if tn, ok := noRecvMethod(u, fd); ok {
					key = tn + "." + fd.Name.Name
					s.coqName = tn + "_" + fd.Name.Name
				} else if fd.Recv != nil {
					rt := w.goType(fd.Recv.List[0].Type)
					if rt.k != kStruct || !contains(u.structs, rt.name) {
						continue
					}
					s.recv = rt.name
					key = rt.name + "." + fd.Name.Name
					s.coqName = rt.name + "_" + fd.Name.Name
				} else {
					if !want[fd.Name.Name] {
						continue
					}
					s.coqName = u.name + "_fn_" + fd.Name.Name
				}
				if u.skip[key] {
					continue
				}
				for _, p := range fd.Type.Params.List {
					for range paramNames(p) {
						s.params = append(s.params, w.goType(p.Type))
					}
				}
				s.result = resultType(w, fd.Type)
				s.unit = u.name
				w.sigs[key] = s
				if s.recv == "" {
					w.sigs[qualKey(u.name, fd.Name.Name)] = s
				}
				defs = append(defs, &fdef{key, fd, s})
			}
		}
		// order: callees first (no recursion in the translated code)
		byName := map[string][]*fdef{}
		for _, d := range defs {
			byName[d.fd.Name.Name] = append(byName[d.fd.Name.Name], d)
		}
		var ordered []*fdef
		state := map[*fdef]int{}
		var visit func(d *fdef)
		visit = func(d *fdef) {
			if state[d] != 0 {
				return
			}
			state[d] = 1
			names := calledNames(d.fd)
			var ks []string
			for n := range names {
				ks = append(ks, n)
			}
			sort.Strings(ks)
			for _, n := range ks {
				for _, c := range byName[n] {
					if c != d {
						visit(c)
					}
				}
			}
			state[d] = 2
			ordered = append(ordered, d)
		}
		for _, d := range defs {
			visit(d)
		}

		var sb strings.Builder
		fmt.Fprintf(&sb, "(* GENERATED by /verif/translate (fn.go) from %s/{%s} on every check run - do not edit. *)\n", u.dir, strings.Join(u.files, ","))
		sb.WriteString(u.pkgConstNote())
		sb.WriteString("From Coq Require Import List ZArith Bool String.\nFrom TR Require Import model.GoSem.\n")
		for _, im := range u.imports {
			fmt.Fprintf(&sb, "From TR Require Import translated.%s.\n", im)
		}
		sb.WriteString("Import ListNotations.\nOpen Scope Z_scope.\nOpen Scope go_scope.\n\n")
		for _, sn := range u.structs {
			si := w.structs[sn]
			if len(si.fields) == 0 {
				fmt.Fprintf(&sb, "(* struct %s not found or without translatable fields *)\n", sn)
				continue
			}
			fmt.Fprintf(&sb, "(* type %s struct; fields outside the translation: %s *)\n", sn, strings.Join(si.dropped, "; "))
			fmt.Fprintf(&sb, "Record %s := mk%s {\n", sn, sn)
			for i, fd := range si.fields {
				sep := ";"
				if i == len(si.fields)-1 {
					sep = ""
				}
				fmt.Fprintf(&sb, "  %s_%s : %s%s\n", sn, fd.name, fd.t.coq(), sep)
			}
			sb.WriteString("}.\n")
			for _, fd := range si.fields {
				var parts []string
				for _, g := range si.fields {
					if g.name == fd.name {
						parts = append(parts, "v")
					} else {
						parts = append(parts, fmt.Sprintf("(%s_%s s)", sn, g.name))
					}
				}
				fmt.Fprintf(&sb, "Definition %s_set_%s (v : %s) (s : %s) : %s := mk%s %s.\n", sn, fd.name, fd.t.coq(), sn, sn, sn, strings.Join(parts, " "))
			}
			sb.WriteString("\n")
		}
		var failed []string
		for _, d := range ordered {
			code, err := w.translateFunc(u, d.fd, d.s)
			if err != nil {
				fmt.Fprintf(&sb, "(* UNSUPPORTED %s: %s *)\n\n", d.s.coqName, strings.ReplaceAll(err.Error(), "*)", "* )"))
				failed = append(failed, d.s.coqName)
				continue
			}
			w.ok[d.s.coqName] = true
			fmt.Fprintf(&sb, "(* %s: func %s *)\n%s%s\n", filepath.Join(u.dir), d.key, u.tailNote(d.key), code)
		}
		// names of the definitions that exist, for the record
		var oks []string
		for _, d := range ordered {
			if w.ok[d.s.coqName] {
				oks = append(oks, coqString(d.s.coqName))
			}
		}
		fmt.Fprintf(&sb, "\nDefinition translated_%s : list string := [%s].\n", u.name, strings.Join(oks, "; "))
		// every name under which this unit's code leaves the translation
		{
			re := regexp.MustCompile(`call_ext ext ("(?:[^"]|"")*")%string`)
			seen := map[string]bool{}
			var names []string
			for _, m := range re.FindAllStringSubmatch(sb.String(), -1) {
				if !seen[m[1]] {
					seen[m[1]] = true
					names = append(names, m[1]+"%string")
				}
			}
			sort.Strings(names)
			fmt.Fprintf(&sb, "Definition ext_names_%s : list string := [%s].\n", u.name, strings.Join(names, "; "))
		}
		var fs []string
		for _, n := range failed {
			fs = append(fs, coqString(n))
		}
		fmt.Fprintf(&sb, "Definition untranslated_%s : list string := [%s].\n", u.name, strings.Join(fs, "; "))
		dst := filepath.Join(outdir, u.name+".v")
		old, _ := os.ReadFile(dst)
		if string(old) != sb.String() {
			if err := os.WriteFile(dst, []byte(sb.String()), 0o644); err != nil {
				return err
			}
		}
	}
	return nil
}

func contains(l []string, s string) bool {
	for _, x := range l {
		if x == s {
			return true
		}
	}
	return false
}

var fnUnits = []*unit{
	{name: "FrameLoop", dir: "motion", files: []string{"frameloop.go"}, structs: []string{"FrameLoop"},
		funcs: []string{"NewFrameLoop"}, skip: map[string]bool{}},
	{name: "MotionProcessor", dir: "motion", files: []string{"motionprocessor.go", "frameloop.go"}, structs: []string{"MotionProcessor"},
		funcs: []string{"min", "NewMotionProcessor"}, imports: []string{"FrameLoop"}, skip: map[string]bool{}},
	{name: "MotionDetector", dir: "motion", files: []string{"motion.go", "frameloop.go"}, structs: []string{"motionDetector"},
		funcs: []string{"isAffectedByFFC", "absDiff", "warmerDiff", "NewMotionDetector"}, imports: []string{"FrameLoop"}, skip: map[string]bool{}},
	{name: "ThrottledRecorder", dir: "throttle", files: []string{"throttled_recorder.go"}, structs: []string{"ThrottledRecorder"},
		funcs: []string{"NewThrottledRecorder", "NewThrottledRecorderWithClock"}, skip: map[string]bool{}},
	{name: "FileRecorder", dir: "cmd/thermal-recorder", files: []string{"cptvfilerecorder.go", "main.go"}, structs: []string{"CPTVFileRecorder"},
		funcs: []string{"newRecordingTempName", "renameTempRecording", "recordingFinalName", "checkDiskSpace", "NewCPTVFileRecorder"},
		skip:  map[string]bool{}, opaque: []string{"*cptv.FileWriter"}, strTok: true},
	{name: "LogLimiter", dir: "loglimiter", files: []string{"loglimiter.go"}, structs: []string{"LogLimiter"},
		skip: map[string]bool{"LogLimiter.Printf": true}},
	{name: "Boson", dir: "cmd/thermal-recorder", files: []string{"boson.go"}, funcs: []string{"convertRawBosonFrame"},
		skip: map[string]bool{}, byteTok: true, extLits: true},
	{name: "ThermalRaw", dir: "cmd/thermal-writer", files: []string{"thermalraw.go"}, structs: []string{"Builder"},
		funcs: []string{"newBuilder", "writeFrame", "newThermalRaw"}, skip: map[string]bool{},
		opaque: []string{"io.WriteCloser", "*cptv.FieldWriter"}, byteTok: true, nilZero: true},
	{name: "ConnLoop", dir: "cmd/thermal-recorder", files: []string{"main.go"}, funcs: []string{"handleConn", "frameParser"},
		skip: map[string]bool{}, opaque: []string{"[]byte", "*CPTVFileRecorder", "func([]byte, *cptvframe.Frame, int) error"},
		strTok: true, outside: true},
	// the start-up clean-up and the constant recorder's space reclaim: a unit of its own, so that FileRecorder.v
	// (where deleteExcessRecordings is a call that leaves the translation) stays as it is
	{name: "FileCleanup", dir: "cmd/thermal-recorder", files: []string{"cptvfilerecorder.go", "main.go"},
		funcs: []string{"deleteTempFiles", "deleteExcessRecordings"}, skip: map[string]bool{},
		strTok: true, outside: true, strList: true},
	{name: "HeaderReader", dir: "headers", files: []string{"headerinfo.go", "headers.go"}, structs: []string{"HeaderInfo"},
		funcs: []string{"ReadHeaderInfo", "toInt", "toStr"}, skip: map[string]bool{},
		opaque:  []string{"*bufio.Reader", "bytes.Buffer", "interface{}", "map[string]interface{}"},
		zeroObj: []string{"bytes.Buffer"}, strTok: true, nilZero: true, outside: true},
	// the D-Bus request path (request.go): snapshot.go and the three service methods; main.go is read for the
	// package-level variables `processor` and `headerInfo`.  snapshotRecordingTriggers (a loop with a condition
	// that sleeps for hours) is named so that it is LISTED as untranslated, not silently absent.
	{name: "Snapshot", dir: "cmd/thermal-recorder", files: []string{"snapshot.go", "service.go", "main.go"},
		funcs: []string{"newSnapshot", "newSnapshotRecording", "snapshotRecordingTriggers"}, skip: map[string]bool{},
		opaque: []string{"*dbus.Error", "map[string]interface{}"}, outside: true,
		noRecv: []string{"service"}, errObj: true,
		extResults: map[string][]string{"processor.GetRecentFrame": {"uint32", "*cptvframe.Frame"}}},
	// the configuration mapping (conf.go): four packages, four units; the structs of the go-config library are tokens
	{name: "ConfMotion", dir: "motion", files: []string{"motionconfig.go"}, funcs: []string{"NewConfig", "validateConfig"},
		skip: map[string]bool{}, opaque: []string{"*config.Config", "*config.ThermalMotion", "config.ThermalMotion"},
		strTok: true, outside: true, tokFields: true},
	{name: "ConfRecorder", dir: "recorder", files: []string{"recorderconfig.go"}, structs: []string{"RecorderConfig"}, funcs: []string{"NewConfig"},
		skip: map[string]bool{}, opaque: []string{"*config.Config", "window.Window", "*window.Window"},
		strTok: true, nilZero: true, outside: true, tokFields: true},
	{name: "ConfThrottle", dir: "throttle", files: []string{"config.go"}, funcs: []string{"NewConfig"},
		skip: map[string]bool{}, opaque: []string{"*config.Config", "*config.ThermalThrottler", "config.ThermalThrottler"},
		strTok: true, outside: true, tokFields: true},
	{name: "Config", dir: "cmd/thermal-recorder", files: []string{"config.go"}, structs: []string{"Config"}, funcs: []string{"ParseConfig"},
		imports: []string{"ConfMotion", "ConfRecorder", "ConfThrottle"}, skip: map[string]bool{},
		opaque:   []string{"goconfig.ThermalMotion", "goconfig.ThermalThrottler", "goconfig.Location", "*goconfig.Config"},
		zeroObj:  []string{"goconfig.Location", "goconfig.Device"},
		pkgUnits: map[string]string{"motion": "ConfMotion", "recorder": "ConfRecorder", "throttle": "ConfThrottle"},
		strTok:   true, nilZero: true, outside: true, tokFields: true},
	// the camera daemon's sending side: the header, the frame loop, and runMain from the call of sendCameraSpecs on
	{name: "Leptond", dir: "cmd/leptond", files: []string{"main.go"},
		funcs: []string{"sendCameraSpecs", "runCamera", "runMain_tail"}, skip: map[string]bool{},
		opaque: []string{"*lepton3.Lepton3", "*net.UnixConn"}, byteTok: true, outside: true, sender: true,
		pkgConsts: map[string]string{"headers": "headers/headers.go"},
		tails: []tailSpec{{fn: "runMain", from: "sendCameraSpecs", name: "runMain_tail",
			params: "conf *Config, camera *lepton3.Lepton3, conn *net.UnixConn, service *leptondService, err error"}}},
	// the recorder daemon's start-up sequence and accept loop (daemon.go): runMain from its call of startService on;
	// deleteTempFiles and handleConn stay calls that leave this unit (they are translated and tied in FileCleanup / ConnLoop)
	{name: "MainLoop", dir: "cmd/thermal-recorder", files: []string{"main.go"},
		funcs: []string{"runMain_tail"}, skip: map[string]bool{},
		opaque: []string{"net.Listener"}, outside: true, spawn: true, extObj: true,
		extResults: map[string][]string{"net.Listen": {"net.Listener", "error"}},
		tails:      []tailSpec{{fn: "runMain", from: "startService", name: "runMain_tail", params: "conf *Config, err error"}}},
	// the throttle's event sink (daemon.go): one D-Bus call per throttled incident
	{name: "ThrottleEvents", dir: "throttle", files: []string{"throttled_event_recorder.go"},
		skip: map[string]bool{}, outside: true, sender: true, extObj: true, noRecv: []string{"ThrottledEventRecorder"}},
	// thermal-writer's two goroutines: the frame loop of handleConn and writer (chans.go); newThermalRaw, writeFrame and
	// Builder.Close are the translated definitions of unit ThermalRaw
	{name: "WriterLoop", dir: "cmd/thermal-writer", files: []string{"main.go"}, funcs: []string{"handleConn", "writer"},
		imports: []string{"ThermalRaw"}, skip: map[string]bool{}, byteTok: true, outside: true, chans: true},
	// thermal-writer's file object (bufferedfile.go): os.Create + a 32 MiB bufio.Writer; Write buffers, Close flushes and closes
	{name: "BufferedFile", dir: "cmd/thermal-writer", files: []string{"bufferedfile.go"}, structs: []string{"bufferedFile"}, funcs: []string{"newBufferedFile"},
		skip: map[string]bool{}, opaque: []string{"*os.File", "*bufio.Writer"}, strTok: true, byteTok: true, nilZero: true, outside: true},
}

// ---------------------------------------------------------------------------------------
// floats, pixels, frame status: all through external calls

func fname(bits int) string { return fmt.Sprintf("f%d", bits) }

// toFloat: a value where a float of the given width is expected: floats pass, numeric literals
// (and math.MaxFloat32) become "fNN.lit" calls
func (f *fnTr) toFloat(v val, bits int, en env, k func(val, env) string) string {
	if v.t.k == kFloat {
		return k(v, en)
	}
	if v.t.lit != "" {
		t := f.newTmp()
		return fmt.Sprintf("%s <- call_ext ext %s [AStr %s] ;;\n%s", t, coqString(fname(bits)+".lit"), coqString(v.t.lit), k(val{t, ty{k: kFloat, bits: bits}}, en))
	}
	fail("a float is expected here: %s", v.code)
	return ""
}

// X.Pix where X is a frame handle: returns the handle expression
func (f *fnTr) pixBase(e ast.Expr, en env) (ast.Expr, bool) {
	sel, ok := e.(*ast.SelectorExpr)
	if !ok || sel.Sel.Name != "Pix" {
		return nil, false
	}
	if f.isOpaque(sel.X, en) || !f.translatable(sel.X, en) || f.kindOf(sel.X, en) != kHandle {
		return nil, false
	}
	return sel.X, true
}

// a [][]float32 field of the receiver's struct: returns its path name
func (f *fnTr) fmatBase(e ast.Expr, en env) (string, bool) {
	sel, ok := e.(*ast.SelectorExpr)
	if !ok {
		return "", false
	}
	id, ok := sel.X.(*ast.Ident)
	if !ok {
		return "", false
	}
	b, ok := en.lookup(id.Name)
	if !ok || b.t.k != kStruct {
		return "", false
	}
	for _, n := range f.w.structs[b.t.name].fmats {
		if n == sel.Sel.Name {
			return b.t.name + "." + n, true
		}
	}
	return "", false
}

// m[y][x] for a pixel grid or a float matrix: (is it one, generated code)
func (f *fnTr) index2(x *ast.IndexExpr, en env, k func(val, env) string) (string, bool) {
	inner, ok := x.X.(*ast.IndexExpr)
	if !ok {
		return "", false
	}
	if h, ok := f.pixBase(inner.X, en); ok {
		return f.expr(h, en, func(hv val, en env) string {
			return f.expr(inner.Index, en, func(yv val, en env) string {
				return f.expr(x.Index, en, func(xv val, en env) string {
					t := f.newTmp()
					return fmt.Sprintf("%s <- call_ext ext \"Frame.Pix.get\"%%string [AFrame %s; AInt %s; AInt %s] ;;\n%s", t, hv.code, yv.code, xv.code,
						k(val{t, ty{k: kInt, bits: 16, unsigned: true}}, en))
				})
			})
		}), true
	}
	if name, ok := f.fmatBase(inner.X, en); ok {
		return f.expr(inner.Index, en, func(yv val, en env) string {
			return f.expr(x.Index, en, func(xv val, en env) string {
				t := f.newTmp()
				return fmt.Sprintf("%s <- call_ext ext %s [AInt %s; AInt %s] ;;\n%s", t, coqString(name+".get"), yv.code, xv.code,
					k(val{t, ty{k: kFloat, bits: 32}}, en))
			})
		}), true
	}
	return "", false
}

// m[y][x] = v
func (f *fnTr) assign2(lhs *ast.IndexExpr, v val, en env, cont func(env) string) (string, bool) {
	inner, ok := lhs.X.(*ast.IndexExpr)
	if !ok {
		return "", false
	}
	if h, ok := f.pixBase(inner.X, en); ok {
		if v.t.k != kInt && v.t.k != kExt {
			fail("pixel assignment of a non-integer: %s", v.code)
		}
		return f.expr(h, en, func(hv val, en env) string {
			return f.expr(inner.Index, en, func(yv val, en env) string {
				return f.expr(lhs.Index, en, func(xv val, en env) string {
					t := f.newTmp()
					return fmt.Sprintf("%s <- call_ext ext \"Frame.Pix.set\"%%string [AFrame %s; AInt %s; AInt %s; AInt %s] ;;\n%s", t, hv.code, yv.code, xv.code, v.code, cont(en))
				})
			})
		}), true
	}
	if name, ok := f.fmatBase(inner.X, en); ok {
		return f.toFloat(v, 32, en, func(fv val, en env) string {
			return f.expr(inner.Index, en, func(yv val, en env) string {
				return f.expr(lhs.Index, en, func(xv val, en env) string {
					t := f.newTmp()
					return fmt.Sprintf("%s <- call_ext ext %s [AInt %s; AInt %s; AInt %s] ;;\n%s", t, coqString(name+".set"), yv.code, xv.code, fv.code, cont(en))
				})
			})
		}), true
	}
	return "", false
}

// a row (or part of a row) of a pixel grid: X.Pix[y] or X.Pix[y][lo:hi]; hi = -1 means to the end
func (f *fnTr) pixRow(e ast.Expr, en env, k func(h, y, lo, hi string, en env) string) (string, bool) {
	var se *ast.SliceExpr
	row := e
	if s, ok := e.(*ast.SliceExpr); ok {
		se, row = s, s.X
	}
	ie, ok := row.(*ast.IndexExpr)
	if !ok {
		return "", false
	}
	h, ok := f.pixBase(ie.X, en)
	if !ok {
		return "", false
	}
	return f.expr(h, en, func(hv val, en env) string {
		return f.expr(ie.Index, en, func(yv val, en env) string {
			lo := func(k2 func(val, env) string) string {
				if se == nil || se.Low == nil {
					return k2(val{"0", ty{k: kInt}}, en)
				}
				return f.expr(se.Low, en, k2)
			}
			return lo(func(lov val, en env) string {
				hi := func(k2 func(val, env) string) string {
					if se == nil || se.High == nil {
						return k2(val{"(-1)", ty{k: kInt}}, en)
					}
					return f.expr(se.High, en, k2)
				}
				return hi(func(hiv val, en env) string { return k(hv.code, yv.code, lov.code, hiv.code, en) })
			})
		})
	}), true
}

// ---------------------------------------------------------------------------------------
// constructors: composite literals, zero values

func (f *fnTr) zeroRecord(name string) string {
	si := f.w.structs[name]
	var parts []string
	for _, fd := range si.fields {
		if fd.t.k == kStruct {
			parts = append(parts, f.zeroRecord(fd.t.name))
		} else {
			parts = append(parts, fd.t.zero())
		}
	}
	return "(mk" + name + " " + strings.Join(parts, " ") + ")"
}

// T{field: value, ...} for a translated struct T: fields of the record in declaration order,
// zero where the literal is silent; values given for fields outside the translation are
// evaluated only if they are calls (for what they do), otherwise ignored
func (f *fnTr) composite(cl *ast.CompositeLit, en env, k func(val, env) string) string {
	if at, ok := cl.Type.(*ast.ArrayType); ok && f.u.byteTok && isByteSlice(at) {
		return f.bytesLit(cl, en, k)
	}
	if at, ok := cl.Type.(*ast.ArrayType); ok && f.u.strList && isStringSlice(at) {
		return f.strListLit(cl, en, k)
	}
	t := f.w.goType(cl.Type)
	if t.k != kStruct && f.u.extLits {
		return f.extComposite(cl, en, k)
	}
	if t.k != kStruct && f.u.outside {
		return f.foreignLit(cl, en, k)
	}
	if t.k != kStruct {
		return k(val{"tt", ty{k: kUnknown}}, en) // a value of a type outside the translation
	}
	si := f.w.structs[t.name]
	given := map[string]ast.Expr{}
	var order []string
	for _, el := range cl.Elts {
		kv, ok := el.(*ast.KeyValueExpr)
		if !ok {
			fail("positional composite literal")
		}
		id, ok := kv.Key.(*ast.Ident)
		if !ok {
			fail("composite literal key")
		}
		given[id.Name] = kv.Value
		order = append(order, id.Name)
	}
	vals := map[string]string{}
	var rec func(i int, en env) string
	rec = func(i int, en env) string {
		if i == len(order) {
			var parts []string
			for _, fd := range si.fields {
				if v, ok := vals[fd.name]; ok {
					parts = append(parts, v)
				} else if fd.t.k == kStruct {
					parts = append(parts, f.zeroRecord(fd.t.name))
				} else {
					parts = append(parts, fd.t.zero())
				}
			}
			return k(val{"(mk" + t.name + " " + strings.Join(parts, " ") + ")", t}, en)
		}
		name := order[i]
		var ft *ty
		for j := range si.fields {
			if si.fields[j].name == name {
				ft = &si.fields[j].t
			}
		}
		if ft == nil {
			if _, isCall := given[name].(*ast.CallExpr); isCall {
				return f.expr(given[name], en, func(_ val, en env) string { return rec(i+1, en) })
			}
			return rec(i+1, en)
		}
		return f.expr(given[name], en, func(v val, en env) string {
			switch {
			case ft.k == kFloat:
				return f.toFloat(v, ft.bits, en, func(v val, en env) string { vals[name] = v.code; return rec(i+1, en) })
			case ft.k == kBool:
				vals[name] = f.asBool(v)
			case ft.k == kHandle && v.t.k == kNil:
				vals[name] = "(-1)"
			case ft.unsigned && ft.bits > 0 && !(v.t.unsigned && v.t.bits == ft.bits):
				vals[name] = fmt.Sprintf("(wrap_u %d %s)", ft.bits, v.code)
			case v.t.k == kUnknown || v.t.k == kUnit || v.t.k == kTuple:
				fail("composite literal field %s has no translation", name)
			default:
				vals[name] = v.code
			}
			return rec(i+1, en)
		})
	}
	return rec(0, en)
}

func isLenOf(e ast.Expr, name string) bool {
	c, ok := e.(*ast.CallExpr)
	if !ok || len(c.Args) != 1 {
		return false
	}
	id, ok := c.Fun.(*ast.Ident)
	return ok && id.Name == "len" && isIdentNamed(c.Args[0], name)
}

// the body changes elements of the slice but never the slice variable itself
func onlyIndexAssigned(body ast.Node, name string) bool {
	ok := true
	ast.Inspect(body, func(n ast.Node) bool {
		if as, is := n.(*ast.AssignStmt); is {
			for _, l := range as.Lhs {
				if isIdentNamed(l, name) {
					ok = false
				}
			}
		}
		return ok
	})
	return ok
}

// ---------------------------------------------------------------------------------------
// raw-frame parsers: byte slices as tokens, rows of pixel grids, telemetry literals

func isPixSelector(args []ast.Expr) bool {
	if len(args) != 1 {
		return false
	}
	sel, ok := args[0].(*ast.SelectorExpr)
	return ok && sel.Sel.Name == "Pix"
}

// tyOf: the type of a translatable expression (dry run)
func (f *fnTr) tyOf(e ast.Expr, en env) (t ty) {
	defer func() {
		if r := recover(); r != nil {
			if _, is := r.(unsupported); is {
				t = ty{k: kUnknown}
				return
			}
			panic(r)
		}
	}()
	saveTmp := f.tmp
	f.expr(e, en, func(v val, _ env) string { t = v.t; return "" })
	f.tmp = saveTmp
	return t
}

// len(X.Pix) for a frame handle X: the number of rows is asked of the outside world
func (f *fnTr) pixLen(c *ast.CallExpr, en env, k func(val, env) string) (string, bool) {
	if len(c.Args) != 1 {
		return "", false
	}
	h, ok := f.pixBase(c.Args[0], en)
	if !ok {
		return "", false
	}
	return f.expr(h, en, func(hv val, en env) string {
		t := f.newTmp()
		return fmt.Sprintf("%s <- call_ext ext \"Frame.Pix.len\"%%string [AFrame %s] ;;\n%s", t, hv.code, k(val{t, ty{k: kInt}}, en))
	}), true
}

// for y, row := range X.Pix { body }   becomes   for y := 0; y < len(X.Pix); y++ { row := __pixrow(X, y); body }
// (the range expression is evaluated once, as forStmt evaluates its bound once).  Of a row only its
// length is represented: len(row) and `range row` are translated, any other use of it fails.
func (f *fnTr) rangePix(s *ast.RangeStmt, en env) (*ast.ForStmt, bool) {
	h, ok := f.pixBase(s.X, en)
	if !ok {
		return nil, false
	}
	key, ok := s.Key.(*ast.Ident)
	if !ok || s.Tok != token.DEFINE || key.Name == "_" {
		fail("range over a pixel grid: loop form")
	}
	body := s.Body
	if s.Value != nil {
		row, ok := s.Value.(*ast.Ident)
		if !ok {
			fail("range over a pixel grid: row variable")
		}
		if row.Name != "_" {
			if assigns(s.Body, row.Name) {
				fail("range over a pixel grid: the row variable %s is assigned", row.Name)
			}
			take := &ast.AssignStmt{Lhs: []ast.Expr{row}, Tok: token.DEFINE,
				Rhs: []ast.Expr{&ast.CallExpr{Fun: &ast.Ident{Name: "__pixrow"}, Args: []ast.Expr{h, &ast.Ident{Name: key.Name}}}}}
			body = &ast.BlockStmt{List: append([]ast.Stmt{take}, s.Body.List...)}
		}
	}
	fs := &ast.ForStmt{
		Init: &ast.AssignStmt{Lhs: []ast.Expr{key}, Tok: token.DEFINE, Rhs: []ast.Expr{&ast.BasicLit{Kind: token.INT, Value: "0"}}},
		Cond: &ast.BinaryExpr{X: &ast.Ident{Name: key.Name}, Op: token.LSS, Y: &ast.CallExpr{Fun: &ast.Ident{Name: "len"}, Args: []ast.Expr{s.X}}},
		Post: &ast.IncDecStmt{X: &ast.Ident{Name: key.Name}, Tok: token.INC},
		Body: body,
	}
	if f.once == nil {
		f.once = map[*ast.ForStmt]bool{}
	}
	f.once[fs] = true
	return fs, true
}

// __pixrow(X, y): the row X.Pix[y] taken by a range loop (y is in range by construction)
func (f *fnTr) pixRowTake(c *ast.CallExpr, en env, k func(val, env) string) string {
	return f.expr(c.Args[0], en, func(hv val, en env) string {
		if hv.t.k != kHandle {
			fail("row of something that is not a frame")
		}
		return f.expr(c.Args[1], en, func(yv val, en env) string {
			t := f.newTmp()
			return fmt.Sprintf("%s <- call_ext ext \"Frame.Pix.rowlen\"%%string [AFrame %s; AInt %s] ;;\n%s", t, hv.code, yv.code, k(val{t, ty{k: kPixRow}}, en))
		})
	})
}

// an argument b[lo:hi] of a call that leaves the translation, b a byte-slice token: the bounds are
// checked as Go checks them (0 <= lo <= hi <= cap(b); the capacity is asked of the outside world),
// then the token and the two offsets are passed
func (f *fnTr) byteSliceArg(a ast.Expr, en env, parts *[]string, cont func(env) string) (string, bool) {
	se, ok := a.(*ast.SliceExpr)
	if !ok || f.isOpaque(se.X, en) {
		return "", false
	}
	if t := f.tyOf(se.X, en); t.k != kTok || t.name != "[]byte" {
		return "", false
	}
	if se.Slice3 {
		fail("3-index slice")
	}
	return f.expr(se.X, en, func(b val, en env) string {
		lo := func(k2 func(val, env) string) string {
			if se.Low == nil {
				return k2(val{"0", ty{k: kInt}}, en)
			}
			return f.expr(se.Low, en, k2)
		}
		return lo(func(lov val, en env) string {
			hi := func(k2 func(val, env) string) string {
				if se.High == nil {
					t := f.newTmp()
					return fmt.Sprintf("%s <- call_ext ext \"bytes.len\"%%string [AInt %s] ;;\n%s", t, b.code, k2(val{t, ty{k: kInt}}, en))
				}
				return f.expr(se.High, en, k2)
			}
			return hi(func(hiv val, en env) string {
				if (lov.t.k != kInt && lov.t.k != kExt) || (hiv.t.k != kInt && hiv.t.k != kExt) {
					fail("slice bounds of %s", exprString(a))
				}
				tc, tb := f.newTmp(), f.newTmp()
				*parts = append(*parts, "AInt "+b.code, "AInt "+lov.code, "AInt "+hiv.code)
				return fmt.Sprintf("%s <- call_ext ext \"bytes.cap\"%%string [AInt %s] ;;\n%s <- (if ((%s <? 0) || (%s <? %s) || (%s >? %s)) then panic else ret tt) ;;\n%s",
					tc, b.code, tb, lov.code, hiv.code, lov.code, hiv.code, tc, cont(en))
			})
		})
	}), true
}

// X.Status = cptvframe.Telemetry{K1: v1, ...} on a frame handle X: all telemetry fields are reset to
// their zero values, then the listed ones are set, in source order (the values must be pure)
func (f *fnTr) statusLiteral(s *ast.AssignStmt, cont func(env) string, en env) (string, bool) {
	sel, ok := s.Lhs[0].(*ast.SelectorExpr)
	if !ok || sel.Sel.Name != "Status" {
		return "", false
	}
	cl, ok := s.Rhs[0].(*ast.CompositeLit)
	if !ok || cl.Type == nil || exprString(cl.Type) != "cptvframe.Telemetry" {
		return "", false
	}
	if f.isOpaque(sel.X, en) || !f.translatable(sel.X, en) || f.kindOf(sel.X, en) != kHandle {
		return "", false
	}
	if s.Tok != token.ASSIGN {
		fail("assignment operator %s on a frame's telemetry", s.Tok)
	}
	return f.expr(sel.X, en, func(h val, en env) string {
		t := f.newTmp()
		code := fmt.Sprintf("%s <- call_ext ext \"Frame.Status.reset\"%%string [AFrame %s] ;;\n", t, h.code)
		var rec func(i int, en env) string
		rec = func(i int, en env) string {
			if i == len(cl.Elts) {
				return cont(en)
			}
			kv, ok := cl.Elts[i].(*ast.KeyValueExpr)
			if !ok {
				fail("positional telemetry literal")
			}
			id, ok := kv.Key.(*ast.Ident)
			if !ok {
				fail("telemetry literal key")
			}
			if !f.pure(kv.Value, en) {
				fail("telemetry literal: value of %s is not pure", id.Name)
			}
			return f.expr(kv.Value, en, func(v val, en env) string {
				if v.t.k != kInt && v.t.k != kBool {
					fail("telemetry literal: value of %s", id.Name)
				}
				t := f.newTmp()
				return fmt.Sprintf("%s <- call_ext ext %s [AFrame %s; %s] ;;\n%s", t, coqString("Frame.Status.set."+id.Name), h.code, f.asArg(v, kv.Value), rec(i+1, en))
			})
		}
		return code + rec(0, en)
	}), true
}

// T{K1: v1, ...} of a type outside the translation (units with extLits): built by the outside
// world, which is given the values in source order; the name lists the keys
func (f *fnTr) extComposite(cl *ast.CompositeLit, en env, k func(val, env) string) string {
	if cl.Type == nil {
		fail("composite literal without a type")
	}
	var keys, parts []string
	var rec func(i int, en env) string
	rec = func(i int, en env) string {
		if i == len(cl.Elts) {
			t := f.newTmp()
			name := "new:" + exprString(cl.Type) + "{" + strings.Join(keys, ",") + "}"
			return fmt.Sprintf("%s <- call_ext ext %s [%s] ;;\n%s", t, coqString(name), strings.Join(parts, "; "), k(val{t, ty{k: kExt}}, en))
		}
		kv, ok := cl.Elts[i].(*ast.KeyValueExpr)
		if !ok {
			fail("positional composite literal")
		}
		id, ok := kv.Key.(*ast.Ident)
		if !ok {
			fail("composite literal key")
		}
		keys = append(keys, id.Name)
		if f.isOpaque(kv.Value, en) || !f.translatable(kv.Value, en) {
			parts = append(parts, "ASym "+coqString(f.path(kv.Value)))
			return rec(i+1, en)
		}
		return f.expr(kv.Value, en, func(v val, en env) string {
			parts = append(parts, f.asArg(v, kv.Value))
			return rec(i+1, en)
		})
	}
	return rec(0, en)
}

// ---------------------------------------------------------------------------------------
// byte slices built inside the translated code (units with byteTok): Gallina lists

func isByteSlice(at *ast.ArrayType) bool {
	if at.Len != nil {
		return false
	}
	id, ok := at.Elt.(*ast.Ident)
	return ok && (id.Name == "byte" || id.Name == "uint8")
}

func (f *fnTr) isByteTokIdent(args []ast.Expr, en env) bool {
	if len(args) != 1 {
		return false
	}
	id, ok := args[0].(*ast.Ident)
	if !ok {
		return false
	}
	b, ok := en.lookup(id.Name)
	return ok && b.t.k == kTok && b.t.name == "[]byte"
}

// a value where a byte is expected (an element of a []byte literal, an appended element): values
// of type byte pass, integer constants must be in range (Go rejects the others at compile time)
func (f *fnTr) asByte(v val, src ast.Expr) string {
	if v.t.k == kInt && v.t.unsigned && v.t.bits == 8 {
		return v.code
	}
	if v.t.k == kInt {
		if n, err := strconv.ParseInt(strings.Trim(v.code, "()"), 10, 64); err == nil && n >= 0 && n <= 255 {
			return v.code
		}
	}
	fail("a byte is expected here: %s", exprString(src))
	return ""
}

// []byte(s) for a string constant s: the list of its bytes
func (f *fnTr) byteConv(c *ast.CallExpr, en env, k func(val, env) string) (string, bool) {
	at, ok := c.Fun.(*ast.ArrayType)
	if !ok || !f.u.byteTok || !isByteSlice(at) || len(c.Args) != 1 {
		return "", false
	}
	var e ast.Expr = c.Args[0]
	if id, ok := e.(*ast.Ident); ok {
		if _, shadow := en.lookup(id.Name); !shadow {
			if ce, ok := f.w.consts[id.Name]; ok {
				e = ce
			}
		}
	}
	bl, ok := e.(*ast.BasicLit)
	if !ok || bl.Kind != token.STRING {
		fail("[]byte(...) of something that is not a string constant: %s", exprString(c.Args[0]))
	}
	str, err := strconv.Unquote(bl.Value)
	if err != nil {
		fail("string literal %s", bl.Value)
	}
	var parts []string
	for i := 0; i < len(str); i++ {
		parts = append(parts, strconv.Itoa(int(str[i])))
	}
	return k(val{"[" + strings.Join(parts, "; ") + "]", ty{k: kBytes}}, en), true
}

// []byte{e1, ..., en}
func (f *fnTr) bytesLit(cl *ast.CompositeLit, en env, k func(val, env) string) string {
	var parts []string
	var rec func(i int, en env) string
	rec = func(i int, en env) string {
		if i == len(cl.Elts) {
			return k(val{"[" + strings.Join(parts, "; ") + "]", ty{k: kBytes}}, en)
		}
		if _, keyed := cl.Elts[i].(*ast.KeyValueExpr); keyed {
			fail("keyed []byte literal")
		}
		return f.expr(cl.Elts[i], en, func(v val, en env) string {
			parts = append(parts, f.asByte(v, cl.Elts[i]))
			return rec(i+1, en)
		})
	}
	return rec(0, en)
}

// append(bs, e1, ..., en) on a byte list
func (f *fnTr) appendBytes(c *ast.CallExpr, en env, k func(val, env) string) (string, bool) {
	if len(c.Args) < 1 || !f.u.byteTok || c.Ellipsis != token.NoPos {
		return "", false
	}
	if f.isOpaque(c.Args[0], en) || f.tyOf(c.Args[0], en).k != kBytes {
		return "", false
	}
	return f.expr(c.Args[0], en, func(bs val, en env) string {
		var parts []string
		var rec func(i int, en env) string
		rec = func(i int, en env) string {
			if i == len(c.Args) {
				return k(val{"(" + bs.code + " ++ [" + strings.Join(parts, "; ") + "])", ty{k: kBytes}}, en)
			}
			return f.expr(c.Args[i], en, func(v val, en env) string {
				parts = append(parts, f.asByte(v, c.Args[i]))
				return rec(i+1, en)
			})
		}
		return rec(1, en)
	}), true
}
