// conf.go: what the configuration units (motion/motionconfig.go, recorder/recorderconfig.go,
// throttle/config.go, cmd/thermal-recorder/config.go) add to the function-level translator.
//
// These four files live in four packages and mostly move values between structs of the go-config
// library (which stay outside the translation, as tokens) and the structs of the repository
// (RecorderConfig, Config: Records).  Two unit fields, both empty for every other unit:
//
//	pkgUnits  package name -> unit name: `pkg.F(args)` is a call of the TRANSLATED function F of that
//	          unit (the unit must be imported), `pkg.T` is the translated struct T of that unit;
//	          a name the unit does not define is refused.
//	tokFields `x.F`, where x is a local variable holding a token (an object of the outside world: a
//	          go-config section struct), is `call_ext ext "field:F" [AInt x]` - the object is passed,
//	          not the variable's name; `float64(x.F)` / `float32(x.F)` of such a value is
//	          `call_ext ext "conv:float64" [AInt v]` (the translator has no types for the library's
//	          fields: what the conversion means is the handler's business).  A field of a field
//	          (x.F.G), assignment to such a field, and an untranslatable argument of an external
//	          call that mentions such a field (it would be handed over as source text) are refused.
//
// A parameter without a name (`func validateConfig(*config.ThermalMotion) error`) is a parameter all
// the same: it is bound to `_` (fn.go, where the parameters are listed).
package main

import (
	"fmt"
	"go/ast"
)

func unitByName(name string) *unit {
	for _, u := range fnUnits {
		if u.name == name {
			return u
		}
	}
	return nil
}

// the key under which the signature of a package-level function is also kept: three of the units
// define a function called NewConfig
func qualKey(unitName, fn string) string { return unitName + "::" + fn }

// pkg.T: the translated struct T of the unit that translates package pkg
func (w *world) pkgStruct(x *ast.SelectorExpr) (ty, bool) {
	if w.cur == nil || len(w.cur.pkgUnits) == 0 {
		return ty{}, false
	}
	id, ok := x.X.(*ast.Ident)
	if !ok {
		return ty{}, false
	}
	un, ok := w.cur.pkgUnits[id.Name]
	if !ok {
		return ty{}, false
	}
	u := unitByName(un)
	if u == nil || !contains(w.cur.imports, un) {
		fail("package %s is translated by unit %s, which is not imported", id.Name, un)
	}
	if _, known := w.structs[x.Sel.Name]; known && contains(u.structs, x.Sel.Name) {
		return ty{k: kStruct, name: x.Sel.Name}, true
	}
	return ty{}, false
}

// pkg.F(args): a call of the translated function F of the unit that translates package pkg
func (f *fnTr) pkgCall(fn *ast.SelectorExpr, en env) (sig, bool) {
	if len(f.u.pkgUnits) == 0 {
		return sig{}, false
	}
	id, ok := fn.X.(*ast.Ident)
	if !ok {
		return sig{}, false
	}
	if _, local := en.lookup(id.Name); local {
		return sig{}, false
	}
	un, ok := f.u.pkgUnits[id.Name]
	if !ok {
		return sig{}, false
	}
	if !f.visibleUnit(un) {
		fail("package %s is translated by unit %s, which is not imported", id.Name, un)
	}
	s, ok := f.w.sigs[qualKey(un, fn.Sel.Name)]
	if !ok || s.recv != "" {
		fail("%s.%s: unit %s does not translate a function of that name", id.Name, fn.Sel.Name, un)
	}
	return s, true
}

// is e `x.F` with x a local variable that holds a token?
func (f *fnTr) tokField(e ast.Expr, en env) (*ast.SelectorExpr, binding, bool) {
	if !f.u.tokFields {
		return nil, binding{}, false
	}
	sel, ok := e.(*ast.SelectorExpr)
	if !ok {
		return nil, binding{}, false
	}
	id, ok := sel.X.(*ast.Ident)
	if !ok {
		return nil, binding{}, false
	}
	b, ok := en.lookup(id.Name)
	if !ok || (b.t.k != kTok && b.t.k != kExt) {
		return nil, binding{}, false
	}
	return sel, b, true
}

// the marker on the value of a token's field (its Go type is unknown to the translator)
const fieldValue = "field"

func (f *fnTr) tokFieldRead(sel *ast.SelectorExpr, b binding, en env, k func(val, env) string) string {
	t := f.newTmp()
	return fmt.Sprintf("%s <- call_ext ext %s [AInt %s] ;;\n%s", t, coqString("field:"+sel.Sel.Name), b.coq, k(val{t, ty{k: kExt, name: fieldValue}}, en))
}

// float64(x.F) / float32(x.F)
func (f *fnTr) tokFieldConv(name string, bits int, v val, en env, k func(val, env) string) (string, bool) {
	if !f.u.tokFields || v.t.k != kExt || v.t.name != fieldValue {
		return "", false
	}
	t := f.newTmp()
	return fmt.Sprintf("%s <- call_ext ext %s [AInt %s] ;;\n%s", t, coqString("conv:"+name), v.code, k(val{t, ty{k: kFloat, bits: bits}}, en)), true
}

// x.F.G, or an assignment to x.F, on a token: no translation
func (f *fnTr) refuseTokFieldTarget(lhs ast.Expr, en env) {
	if !f.u.tokFields {
		return
	}
	if _, _, ok := f.tokField(lhs, en); ok {
		fail("assignment to a field of an object of the outside world: %s", exprString(lhs))
	}
	if sel, ok := lhs.(*ast.SelectorExpr); ok {
		if _, _, ok := f.tokField(sel.X, en); ok {
			fail("assignment to a field of a field of an object of the outside world: %s", exprString(lhs))
		}
	}
}

// an argument of an external call that has no translation is handed over as its source text (ASym); in a
// tokFields unit that is refused when the text is about a field of an object of the outside world (the text
// would name a local variable, not the object)
func (f *fnTr) refuseSymTokField(a ast.Expr, en env) {
	if !f.u.tokFields {
		return
	}
	ast.Inspect(a, func(n ast.Node) bool {
		if e, ok := n.(ast.Expr); ok {
			if _, _, is := f.tokField(e, en); is {
				fail("an expression over a field of an object of the outside world has no translation: %s", exprString(a))
			}
		}
		return true
	})
}

// the parameters of a function, an unnamed one as `_`
func paramNames(p *ast.Field) []*ast.Ident {
	if len(p.Names) == 0 {
		return []*ast.Ident{{Name: "_"}}
	}
	return p.Names
}
