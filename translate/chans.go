// chans.go: what units marked `chans: true` add to the function-level translator (fn.go, outside.go).
//
// Such a unit is code whose goroutines talk over channels (cmd/thermal-writer/main.go: the frame loop of
// handleConn and the writer goroutine).  The translation stays sequential: ONE goroutine's code is one
// definition in the monad of GoSem.v, and every channel operation is a call that leaves the translation,
// whose answer says what was received / which case fired.  Nothing about scheduling is decided here:
//
//   - a value of type `chan T`, `<-chan T`, `chan<- T` is a token (kTok, name "chan"); the answer of an
//     external call (time.After(d)) may be used as a channel too;
//   - make(chan T, n)          is `"make:chan" [n]`   (make(chan T): n = 0);
//   - ch <- v                  is `"chan.send" [ch; v]`;
//   - v := <-ch                is `"chan.recv" [ch]` (the value);  v, ok := <-ch  asks `"chan.recv#1" []` for ok;
//   - close(ch)                is `"chan.close" [ch]`;   len(ch)  is `"chan.len" [ch]`;
//   - select { case <-a: A; case v, ok := <-b: B }   is   `"select" [a; b]` - the channel operands in source
//     order, evaluated once - whose answer is the INDEX (0, 1, ..) of the case that fired, followed in a case that
//     binds variables by `"select#value" []` and (two-variable form) `"select#ok" []`; the code is the if-chain
//     on the index, and an index outside the cases is `panic` (the outside world answered nonsense);
//   - go f(args)               is `"go:f" [args]` (daemon.go's spawn; here f may be - and is - a function this unit
//     translates): the spawn is an effect on the outside world, the new goroutine's code is the definition
//     translated from f, run by whoever models the scheduler;
//   - panic(v)                 evaluates v and is GoSem.panic (nothing after it is translated: it is dead code);
//   - a local `const` declaration is resolved through the file's constants (fn.go evaluates them by name).
//
// CONVENTION about blocking (stated in the handler and in the tie theorems, not here): an operation that
// cannot proceed (a receive from an empty open channel, a send to a full one, a select none of whose
// cases is ready) is simply not scheduled - the theorems quantify over states in which the next
// operation can proceed.
//
// Refused loudly: select with a default clause, with a send case, with `=` instead of `:=`, with `break`
// inside a case; `go` of a function literal, of a method, or inside a loop (daemon.go); panic while calls are deferred; channel
// operations on anything that is not a channel token or an answer of the outside world; receive in a
// short-circuit operand is evaluated lazily by fn.go (it is marked impure).
package main

import (
	"fmt"
	"go/ast"
	"go/token"
	"strings"
)

var chanTy = ty{k: kTok, name: "chan"}

// chan T, <-chan T, chan<- T
func (w *world) chanType(e ast.Expr) (ty, bool) {
	if w.cur == nil || !w.cur.chans {
		return ty{}, false
	}
	if _, ok := e.(*ast.ChanType); ok {
		return chanTy, true
	}
	return ty{}, false
}

// the channel operand of an operation: a channel token or an answer of the outside world
func (f *fnTr) chanOperand(e ast.Expr, what string, en env, k func(val, env) string) string {
	if !f.u.chans {
		fail("%s (channel operations are translated only in units marked chans)", what)
	}
	if f.isOpaque(e, en) || !f.translatable(e, en) {
		fail("%s: the channel %s has no translation", what, exprString(e))
	}
	return f.expr(e, en, func(c val, en env) string {
		if !((c.t.k == kTok && c.t.name == "chan") || c.t.k == kExt) {
			fail("%s: %s is not a channel", what, exprString(e))
		}
		return k(c, en)
	})
}

func (f *fnTr) isChanArg(args []ast.Expr, en env) bool {
	if !f.u.chans || len(args) != 1 {
		return false
	}
	id, ok := args[0].(*ast.Ident)
	if !ok {
		return false
	}
	b, ok := en.lookup(id.Name)
	return ok && b.t.k == kTok && b.t.name == "chan"
}

// make(chan T) / make(chan T, n)
func (f *fnTr) makeChan(c *ast.CallExpr, en env, k func(val, env) string) (string, bool) {
	if !f.u.chans || len(c.Args) == 0 {
		return "", false
	}
	if _, ok := c.Args[0].(*ast.ChanType); !ok {
		return "", false
	}
	emit := func(n string, en env) string {
		t := f.newTmp()
		return fmt.Sprintf("%s <- call_ext ext \"make:chan\"%%string [AInt %s] ;;\n%s", t, n, k(val{t, chanTy}, en))
	}
	switch len(c.Args) {
	case 1:
		return emit("0", en), true
	case 2:
		return f.expr(c.Args[1], en, func(n val, en env) string {
			if n.t.k != kInt && n.t.k != kExt {
				fail("make of a channel with a capacity that is not an integer: %s", exprString(c))
			}
			return emit(n.code, en)
		}), true
	}
	fail("make of a channel: %s", exprString(c))
	return "", false
}

// <-ch as an expression
func (f *fnTr) chanRecv(x *ast.UnaryExpr, en env, k func(val, env) string) string {
	return f.chanOperand(x.X, "receive", en, func(c val, en env) string {
		t := f.newTmp()
		return fmt.Sprintf("%s <- call_ext ext \"chan.recv\"%%string [AInt %s] ;;\n%s", t, c.code, k(val{t, ty{k: kExt}}, en))
	})
}

// v, ok := <-ch
func (f *fnTr) recvOk(s *ast.AssignStmt, rest []item, en env, defers []deferred) (string, bool) {
	if len(s.Lhs) != 2 || len(s.Rhs) != 1 {
		return "", false
	}
	u, ok := s.Rhs[0].(*ast.UnaryExpr)
	if !ok || u.Op != token.ARROW {
		return "", false
	}
	if s.Tok != token.DEFINE {
		fail("receive with `=`: %s (only `v, ok := <-ch`)", exprString(u))
	}
	v0, ok0 := s.Lhs[0].(*ast.Ident)
	v1, ok1 := s.Lhs[1].(*ast.Ident)
	if !ok0 || !ok1 {
		fail("receive into something that is not a variable")
	}
	return f.chanOperand(u.X, "receive", en, func(c val, en env) string {
		tv, tok := f.newTmp(), f.newTmp()
		code := fmt.Sprintf("%s <- call_ext ext \"chan.recv\"%%string [AInt %s] ;;\n%s <- call_ext ext \"chan.recv#1\"%%string [] ;;\n", tv, c.code, tok)
		code2, en := f.bindRecv(v0, v1, tv, tok, en)
		return code + code2 + f.block(rest, en, defers)
	}), true
}

// the variables a receive declares: value (an answer of the outside world) and ok (a bool)
func (f *fnTr) bindRecv(v0, v1 *ast.Ident, tv, tok string, en env) (string, env) {
	code := ""
	if v0 != nil && v0.Name != "_" {
		if f.sameScope(en, v0.Name) {
			fail("receive redeclares %s", v0.Name)
		}
		cn := f.declName(v0)
		code += fmt.Sprintf("let %s := %s in\n", cn, tv)
		en = en.bind(binding{goName: v0.Name, coq: cn, t: ty{k: kExt}})
	}
	if v1 != nil && v1.Name != "_" {
		if f.sameScope(en, v1.Name) {
			fail("receive redeclares %s", v1.Name)
		}
		cn := f.declName(v1)
		code += fmt.Sprintf("let %s := (z_to_bool %s) in\n", cn, tok)
		en = en.bind(binding{goName: v1.Name, coq: cn, t: ty{k: kBool}})
	}
	return code, en
}

// ch <- v
func (f *fnTr) sendStmt(s *ast.SendStmt, rest []item, en env, defers []deferred) string {
	return f.chanOperand(s.Chan, "send", en, func(c val, en env) string {
		return f.expr(s.Value, en, func(v val, en env) string {
			switch v.t.k {
			case kInt, kErr, kTime, kExt, kTok, kStrTok, kBool, kStr, kHandle:
			default:
				fail("send of a value without a translation: %s", exprString(s.Value))
			}
			t := f.newTmp()
			return fmt.Sprintf("%s <- call_ext ext \"chan.send\"%%string [AInt %s; %s] ;;\n%s", t, c.code, f.asArg(v, s.Value), f.block(rest, en, defers))
		})
	})
}

// close(ch)
func (f *fnTr) chanClose(c *ast.CallExpr, en env, k func(val, env) string) string {
	if len(c.Args) != 1 {
		fail("close with %d arguments", len(c.Args))
	}
	return f.chanOperand(c.Args[0], "close", en, func(ch val, en env) string {
		t := f.newTmp()
		return fmt.Sprintf("%s <- call_ext ext \"chan.close\"%%string [AInt %s] ;;\n%s", t, ch.code, k(val{"tt", ty{k: kUnit}}, en))
	})
}

// len(ch)
func (f *fnTr) chanLen(c *ast.CallExpr, en env, k func(val, env) string) (string, bool) {
	if !f.isChanArg(c.Args, en) {
		return "", false
	}
	return f.chanOperand(c.Args[0], "len", en, func(ch val, en env) string {
		t := f.newTmp()
		return fmt.Sprintf("%s <- call_ext ext \"chan.len\"%%string [AInt %s] ;;\n%s", t, ch.code, k(val{t, ty{k: kInt}}, en))
	}), true
}

// panic(v)
func (f *fnTr) goPanic(c *ast.CallExpr, en env, defers []deferred) string {
	if len(c.Args) != 1 {
		fail("panic with %d arguments", len(c.Args))
	}
	if len(defers) > 0 {
		fail("panic while calls are deferred (they would run)")
	}
	if f.isOpaque(c.Args[0], en) || !f.translatable(c.Args[0], en) {
		fail("panic of a value without a translation: %s", exprString(c.Args[0]))
	}
	return f.expr(c.Args[0], en, func(_ val, _ env) string { return "panic" })
}

// is the statement `panic(v)`?
func isPanicStmt(s ast.Stmt) (*ast.CallExpr, bool) {
	es, ok := s.(*ast.ExprStmt)
	if !ok {
		return nil, false
	}
	c, ok := es.X.(*ast.CallExpr)
	if !ok || !isIdentNamed(c.Fun, "panic") {
		return nil, false
	}
	return c, true
}

// an unlabelled break that would leave the select statement
func ownBreak(body []ast.Stmt) bool {
	found := false
	ast.Inspect(&ast.BlockStmt{List: body}, func(n ast.Node) bool {
		switch x := n.(type) {
		case *ast.FuncLit, *ast.ForStmt, *ast.RangeStmt, *ast.SwitchStmt, *ast.TypeSwitchStmt, *ast.SelectStmt:
			return false
		case *ast.BranchStmt:
			if x.Tok == token.BREAK || x.Tok == token.GOTO || x.Tok == token.FALLTHROUGH || x.Label != nil {
				found = true
			}
		}
		return !found
	})
	return found
}

// select { case <-a: A; case v := <-b: B; case v, ok := <-c: C }
func (f *fnTr) selectStmt(s *ast.SelectStmt, rest []item, en env, defers []deferred) string {
	if !f.u.chans {
		fail("statement %T", s)
	}
	type rcase struct {
		ch     ast.Expr
		v0, v1 *ast.Ident
		body   []ast.Stmt
	}
	var cases []rcase
	for _, c := range s.Body.List {
		cc := c.(*ast.CommClause)
		if cc.Comm == nil {
			fail("select with a default clause")
		}
		if ownBreak(cc.Body) {
			fail("break / goto / labelled jump inside a select case")
		}
		rc := rcase{body: cc.Body}
		switch x := cc.Comm.(type) {
		case *ast.ExprStmt:
			u, ok := x.X.(*ast.UnaryExpr)
			if !ok || u.Op != token.ARROW {
				fail("select case %s", exprString(x.X))
			}
			rc.ch = u.X
		case *ast.AssignStmt:
			if x.Tok != token.DEFINE || len(x.Rhs) != 1 || len(x.Lhs) > 2 {
				fail("select case form (only `case <-ch`, `case v := <-ch`, `case v, ok := <-ch`)")
			}
			u, ok := x.Rhs[0].(*ast.UnaryExpr)
			if !ok || u.Op != token.ARROW {
				fail("select case %s", exprString(x.Rhs[0]))
			}
			rc.ch = u.X
			id0, ok := x.Lhs[0].(*ast.Ident)
			if !ok {
				fail("select case receives into something that is not a variable")
			}
			rc.v0 = id0
			if len(x.Lhs) == 2 {
				id1, ok := x.Lhs[1].(*ast.Ident)
				if !ok {
					fail("select case receives into something that is not a variable")
				}
				rc.v1 = id1
			}
		case *ast.SendStmt:
			fail("select with a send case")
		default:
			fail("select case %T", cc.Comm)
		}
		cases = append(cases, rc)
	}
	if len(cases) == 0 {
		fail("select without cases (blocks forever)")
	}
	// the channel operands, in source order, once
	var chans []string
	var operands func(i int, en env) string
	operands = func(i int, en env) string {
		if i < len(cases) {
			if !f.pure(cases[i].ch, en) {
				fail("select on a channel expression with effects: %s", exprString(cases[i].ch))
			}
			return f.chanOperand(cases[i].ch, "select", en, func(c val, en env) string {
				chans = append(chans, "AInt "+c.code)
				return operands(i+1, en)
			})
		}
		ts := f.newTmp()
		code := fmt.Sprintf("%s <- call_ext ext \"select\"%%string [%s] ;;\n", ts, strings.Join(chans, "; "))
		var chain func(j int) string
		chain = func(j int) string {
			if j == len(cases) {
				return "panic"
			}
			rc := cases[j]
			pre := ""
			cen := en.push()
			if rc.v0 != nil {
				tv, tok := "", ""
				if rc.v0.Name != "_" || rc.v1 != nil {
					tv = f.newTmp()
					pre += fmt.Sprintf("%s <- call_ext ext \"select#value\"%%string [] ;;\n", tv)
				}
				if rc.v1 != nil {
					tok = f.newTmp()
					pre += fmt.Sprintf("%s <- call_ext ext \"select#ok\"%%string [] ;;\n", tok)
				}
				var b string
				b, cen = f.bindRecv(rc.v0, rc.v1, tv, tok, cen)
				pre += b
			}
			body := f.block(append(append(stmts(rc.body), item{pop: true}, item{pop: true}), rest...), cen.push(), defers)
			return fmt.Sprintf("if (%s =? %d) then (\n%s\n) else (\n%s\n)", ts, j, indent(pre+body), indent(chain(j+1)))
		}
		return code + chain(0)
	}
	return operands(0, en)
}

// const x = e inside a function: fn.go resolves constants by name through the constants of the
// unit's files; the declaration itself is nothing to run.  Two declarations of one name would make that
// resolution ambiguous.
func (f *fnTr) localConst(s *ast.DeclStmt) bool {
	gd, ok := s.Decl.(*ast.GenDecl)
	if !ok || gd.Tok != token.CONST || !f.u.chans {
		return false
	}
	for _, sp := range gd.Specs {
		vs := sp.(*ast.ValueSpec)
		if len(vs.Values) != len(vs.Names) {
			fail("local constant declaration without a value for every name (iota)")
		}
		for i, n := range vs.Names {
			if f.w.consts[n.Name] != vs.Values[i] {
				fail("the constant %s is declared more than once in the unit's files", n.Name)
			}
			if _, ok := eval(vs.Values[i], f.w.consts); !ok {
				fail("local constant %s is not an integer constant", n.Name)
			}
		}
	}
	return true
}
