// daemon.go: what the units `MainLoop` (the start-up sequence and the accept loop of runMain in
// cmd/thermal-recorder/main.go) and `ThrottleEvents` (throttle/throttled_event_recorder.go) add to the
// function-level translator.  Four hooks in fn.go / outside.go; the first three behind a field of the unit that is
// false for every other unit, so every older generated file is printed exactly as before:
//
//   - spawn: `go f(a1, ..., an)`, f a package-level function that this unit does not translate, is the
//     external call `call_ext ext "go:f" [a1; ...; an]` at the place of the statement: Go evaluates the
//     arguments there, the new goroutine itself is something of the outside world (what it does, and
//     when, is the handler's business - the translated code only SPAWNS it and goes on).  Refused loudly:
//     `go` of a function literal, of a method or of a package-qualified function, of a local function
//     value, of a function the unit translates (its body would silently not run), and `go` inside a loop.
//
//   - extObj: a method called on a LOCAL VARIABLE that holds an answer of the outside world
//     (`conn, err := dbus.SystemBus(); obj := conn.Object(...)`) is `call_ext ext "obj.<Method>" [AInt x; args]`:
//     the object is passed, not the variable's name (without the field the call would be named after the
//     variable and lose the value); the further results of such a call are asked for as `obj.<Method>#i`.
//     (Units with strTok / byteTok already read such calls this way.)
//
//   - (all units) `defer` inside the body of a loop is refused: a loop body is translated without the list of
//     deferred calls of the enclosing function, so such a call would silently never run in the translation
//     (in Go it runs when the FUNCTION returns, once per iteration that reached it).  No translated file
//     contains one; found by the rewrite `defer listener.Close()` inside runMain's accept loop.
//
// Everything else the two units need exists already: tails of functions, fields of values of the outside
// world and endless loops (sender.go, outside.go), the declared result types of an external call and
// methods without a receiver (request.go), literals of foreign types (outside.go).
package main

import (
	"go/ast"
)

// go f(args)
func (f *fnTr) goStmt(s *ast.GoStmt, rest []item, en env, defers []deferred) string {
	if !f.u.spawn && !f.u.chans {
		fail("statement %T", s)
	}
	if len(f.loops) > 0 || f.inEndless {
		fail("go statement inside a loop")
	}
	id, ok := s.Call.Fun.(*ast.Ident)
	if !ok {
		fail("go statement: only `go f(args)` with f a package-level function is translated, not %s", exprString(s.Call.Fun))
	}
	if _, local := en.lookup(id.Name); local || universe[id.Name] {
		fail("go statement on %s, which is not a package-level function", id.Name)
	}
	if _, _, translated := f.resolveCall(s.Call, en); translated && !f.u.chans { // chans.go: there the goroutine's code IS a translated definition, run by the scheduler model
		fail("go statement on %s, which this unit translates: its body would not be part of the spawning function", id.Name)
	}
	if s.Call.Ellipsis.IsValid() {
		fail("go statement with a variadic argument list")
	}
	c := &ast.CallExpr{Fun: &ast.Ident{Name: "go:" + id.Name, NamePos: id.NamePos}, Lparen: s.Call.Lparen, Args: s.Call.Args, Rparen: s.Call.Rparen}
	return f.expr(c, en, func(_ val, en env) string { return f.block(rest, en, defers) })
}

// defer inside a loop body
func (f *fnTr) refuseDeferInLoop(s *ast.DeferStmt) {
	if len(f.loops) > 0 || f.inEndless {
		fail("defer inside a loop: %s would run when the function returns, once per iteration; the translation of a loop body cannot express that", exprString(s.Call))
	}
}

// is a value of this kind, held in a local variable, an object whose methods are called as "obj.<Method>" [x; ...]?
func (f *fnTr) extObjKind(kd kind) bool {
	return kd == kExt && f.u.extObj
}
