// sender.go: what units marked `sender: true` add to the function-level translator (fn.go, outside.go).
//
// Such a unit is the camera daemon's sending side (cmd/leptond/main.go: sendCameraSpecs, runCamera and
// the restart loop of runMain).  It is an `outside` unit; in addition
//   - `pkg.Name` for a package listed in the unit's pkgConsts is the string constant of that name in the
//     named file of the repository (headers.XResolution is "ResX"): the keys of the header map are the
//     literals of headers/headers.go, not names whose meaning a handler would have to state;
//   - `x.f` on a local variable x that is a value of the outside world (the answer of an external call, or
//     a token) is `call_ext ext "field:<f>" [x]` - the value flows, not the source text;
//   - `x[lo:hi]` on the answer of an external call (frame := lepton3.NewRawFrame(); frame[:]) is the
//     "slice" call of outside.go;
//   - a function with an endless loop may be called from another function with an endless loop, also from
//     inside that loop: `r <- callee ext fuel args ;; match r with None => out of fuel | Some v => ...`.
//     The same fuel is handed to the callee.  Inside the loop the body then yields `LRet None` for "the
//     callee ran out of fuel" and `LRet (Some v)` for `return v`; the function maps both None cases to its
//     own None.  (GoSem.v is unchanged.)
//   - a TAIL of a function can be a definition of its own (unit field `tails`): the statements of the
//     function's body from the first top-level statement that calls a given function on, with the variables
//     of the skipped part it uses as parameters (their types are given in the unit description and every one
//     must be declared in the skipped part).  The skipped part is NOT translated - the generated file says so
//     above the definition; a call deferred there runs after the tail returns and is not part of it.
//
// Refused loudly: a tail whose start statement is missing, a tail parameter that the skipped part does not
// declare, a call of a function with an endless loop inside a counting loop, in a short-circuit operand (fn.go refuses
// translated calls there), of a method, or in a loop that also uses `break`.
package main

import (
	"fmt"
	"go/ast"
	"go/parser"
	"go/token"
	"os"
	"regexp"
	"sort"
	"strings"
)

type tailSpec struct {
	fn     string // the function whose tail is translated
	from   string // the tail starts at the first top-level statement that calls this function
	params string // Go parameter list of the tail: variables the skipped part declares
	name   string // name of the definition
}

// ---------------------------------------------------------------------------------------
// string constants of other packages

func loadPkgConsts(repo string, u *unit) map[string]map[string]ast.Expr {
	if len(u.pkgConsts) == 0 {
		return nil
	}
	m := map[string]map[string]ast.Expr{}
	for pkg, file := range u.pkgConsts {
		af := parse(repo, file)
		if af.Name.Name != pkg {
			fmt.Fprintf(os.Stderr, "translate: %s is package %s, not %s\n", file, af.Name.Name, pkg)
			os.Exit(1)
		}
		cs := map[string]ast.Expr{}
		for _, d := range af.Decls { // top-level constants only
			gd, ok := d.(*ast.GenDecl)
			if !ok || gd.Tok != token.CONST {
				continue
			}
			for _, sp := range gd.Specs {
				vs := sp.(*ast.ValueSpec)
				for i, n := range vs.Names {
					if i < len(vs.Values) {
						cs[n.Name] = vs.Values[i]
					}
				}
			}
		}
		m[pkg] = cs
	}
	return m
}

// the comment that names the files the constants of other packages were read from
func (u *unit) pkgConstNote() string {
	if len(u.pkgConsts) == 0 {
		return ""
	}
	var pkgs []string
	for p := range u.pkgConsts {
		pkgs = append(pkgs, p)
	}
	sort.Strings(pkgs)
	var parts []string
	for _, p := range pkgs {
		parts = append(parts, fmt.Sprintf("%s.<Name> is the string constant <Name> of %s", p, u.pkgConsts[p]))
	}
	return "(* " + strings.Join(parts, "; ") + " *)\n"
}

// pkg.Name with a known string constant behind it
func (f *fnTr) pkgConst(e ast.Expr, en env) *ast.BasicLit {
	if f.w.pkgConsts == nil {
		return nil
	}
	sel, ok := e.(*ast.SelectorExpr)
	if !ok {
		return nil
	}
	id, ok := sel.X.(*ast.Ident)
	if !ok {
		return nil
	}
	if _, local := en.lookup(id.Name); local {
		return nil
	}
	cs, ok := f.w.pkgConsts[id.Name]
	if !ok {
		return nil
	}
	c, ok := cs[sel.Sel.Name]
	if !ok {
		fail("%s: no such constant in %s", exprString(e), f.u.pkgConsts[id.Name])
	}
	bl, ok := c.(*ast.BasicLit)
	if !ok || bl.Kind != token.STRING {
		fail("%s is not a string literal in %s", exprString(e), f.u.pkgConsts[id.Name])
	}
	return bl
}

// ---------------------------------------------------------------------------------------
// fields of values of the outside world

// x.f, x a local variable holding an answer of the outside world or a token
func (f *fnTr) senderField(e ast.Expr, en env) (binding, bool) {
	if !f.u.sender {
		return binding{}, false
	}
	sel, ok := e.(*ast.SelectorExpr)
	if !ok {
		return binding{}, false
	}
	id, ok := sel.X.(*ast.Ident)
	if !ok {
		return binding{}, false
	}
	b, ok := en.lookup(id.Name)
	if !ok || (b.t.k != kExt && b.t.k != kTok) {
		return binding{}, false
	}
	return b, true
}

func (f *fnTr) senderFieldRead(e ast.Expr, b binding, en env, k func(val, env) string) string {
	t := f.newTmp()
	return fmt.Sprintf("%s <- call_ext ext %s [AInt %s] ;;\n%s", t, coqString("field:"+e.(*ast.SelectorExpr).Sel.Name), b.coq, k(val{t, ty{k: kExt}}, en))
}

// selectors that sender units give a value (so they are neither opaque nor names of the outside world)
func (f *fnTr) senderSelector(e ast.Expr, en env) bool {
	if f.pkgConst(e, en) != nil {
		return true
	}
	_, ok := f.senderField(e, en)
	return ok
}

// ---------------------------------------------------------------------------------------
// calls of functions that take fuel

func (f *fnTr) callsFuelFn(n ast.Node, en env) bool {
	if !f.u.sender {
		return false
	}
	found := false
	ast.Inspect(n, func(n ast.Node) bool {
		if _, isFn := n.(*ast.FuncLit); isFn {
			return false
		}
		if c, ok := n.(*ast.CallExpr); ok {
			if s, _, ok := f.resolveCall(c, en); ok && fuelFns[s.coqName] {
				found = true
			}
		}
		return !found
	})
	return found
}

// r := g(args), g a translated function with an endless loop, called where fuel is at hand
func (f *fnTr) fuelCall(c *ast.CallExpr, s sig, en env, k func(val, env) string) string {
	if !f.u.sender || !f.fuel {
		fail("call of %s, which contains an endless loop", s.coqName)
	}
	if s.recv != "" {
		fail("call of the method %s, which contains an endless loop", s.coqName)
	}
	var oof string
	switch {
	case len(f.loops) == 0:
		oof = "ret None"
	case len(f.loops) == 1 && f.inEndless && f.optRet:
		oof = "ret (LRet None)"
	default:
		fail("call of %s (endless loop) inside a counting loop", s.coqName)
	}
	return f.args(c.Args, s.params, en, func(args []string, en env) string {
		t, tv := f.newTmp(), f.newTmp()
		return fmt.Sprintf("%s <- %s ext fuel%s ;;\nmatch %s with\n| None => %s\n| Some %s => (\n%s\n)\nend",
			t, s.coqName, prefixSpace(strings.Join(args, " ")), t, oof, tv, indent(k(val{tv, s.result}, en)))
	})
}

// for { body } whose body calls a function that takes fuel: the body gets the fuel as a parameter and
// yields LRet None (callee out of fuel) / LRet (Some v) (return v)
func (f *fnTr) foreverNested(s *ast.ForStmt, rest []item, outer env, defers []deferred) string {
	if !f.u.outside || !f.fuel {
		fail("loop without a condition")
	}
	if len(f.loops) > 0 || f.inEndless {
		fail("endless loop inside a loop")
	}
	if f.recv != "" {
		fail("endless loop in a method")
	}
	if hasOwnBreak(s.Body) {
		fail("endless loop with `break` that calls a function with an endless loop")
	}
	if realStmts(rest) > 0 {
		fail("statements after an endless loop")
	}
	checkJumps(s.Body, "an endless loop")
	en := outer.push()
	var state []binding
	for _, b := range f.assignedIn(s.Body, en, "") {
		if b.t.k == kStruct || assignedOuter(s.Body, b.goName) {
			state = append(state, b)
		}
	}
	var stateNames, stateTypes []string
	for _, b := range state {
		stateNames = append(stateNames, b.goName)
		stateTypes = append(stateTypes, b.t.coq())
	}
	f.loops = append(f.loops, stateNames)
	f.inEndless, f.endlessEntry, f.breaks, f.optRet = true, len(en), false, true
	pat := f.loopState(en)
	bodyCode := f.block(append(stmts(s.Body.List), item{pop: true}), en.push(), nil)
	f.loops = f.loops[:len(f.loops)-1]
	f.inEndless, f.optRet = false, false

	stType, unpack := "unit", ""
	switch len(state) {
	case 0:
	case 1:
		stType, unpack = stateTypes[0], fmt.Sprintf("let %s := st in\n", pat)
	default:
		stType, unpack = "("+strings.Join(stateTypes, " * ")+")", fmt.Sprintf("let '%s := st in\n", pat)
	}
	isState := map[string]bool{}
	for _, n := range stateNames {
		isState[n] = true
	}
	seen := map[string]bool{}
	var params, args []string
	for i := len(en) - 1; i >= 0; i-- {
		b := en[i]
		if b.marker || seen[b.goName] {
			continue
		}
		seen[b.goName] = true
		if isState[b.goName] || b.t.k == kUnknown || b.t.k == kUnit {
			continue
		}
		if regexp.MustCompile(`(^|[^A-Za-z0-9_'])` + regexp.QuoteMeta(b.coq) + `($|[^A-Za-z0-9_'])`).MatchString(bodyCode) {
			params = append([]string{fmt.Sprintf("(%s : %s)", b.coq, b.t.coq())}, params...)
			args = append([]string{b.coq}, args...)
		}
	}
	name := fmt.Sprintf("%s_loop%d", f.coqName, len(f.extra)+1)
	f.extra = append(f.extra, fmt.Sprintf("Definition %s {W : Type} (ext : string -> list arg -> W -> Z * W) (fuel : nat) %s(st : %s) : M W (loopres %s (option %s)) :=\n%s.\n",
		name, joinSp(params), stType, stType, f.result.coq(), indent(unpack+bodyCode)))

	lr, rv := f.newTmp(), f.newTmp()
	exit := fmt.Sprintf("let %s := r in\n%s", rv, f.finishReturn(rv, outer, defers))
	return fmt.Sprintf("%s <- forever fuel (%s ext fuel%s) %s ;;\nmatch %s with\n| None => ret None\n| Some None => ret None\n| Some (Some r) => (\n%s\n)\nend",
		lr, name, prefixSpace(strings.Join(args, " ")), pat, lr, indent(exit))
}

// ---------------------------------------------------------------------------------------
// tails of functions

func (u *unit) tailOf(fn string) *tailSpec {
	for i := range u.tails {
		if u.tails[i].fn == fn {
			return &u.tails[i]
		}
	}
	return nil
}

func (u *unit) tailNamed(name string) *tailSpec {
	for i := range u.tails {
		if u.tails[i].name == name {
			return &u.tails[i]
		}
	}
	return nil
}

func stmtCalls(s ast.Stmt, fn string) bool {
	found := false
	ast.Inspect(s, func(n ast.Node) bool {
		if _, isFn := n.(*ast.FuncLit); isFn {
			return false
		}
		if c, ok := n.(*ast.CallExpr); ok && isIdentNamed(c.Fun, fn) {
			found = true
		}
		return !found
	})
	return found
}

// names the top-level statements of a prefix declare
func declaredAtTop(prefix []ast.Stmt) map[string]bool {
	m := map[string]bool{}
	for _, s := range prefix {
		switch x := s.(type) {
		case *ast.AssignStmt:
			if x.Tok == token.DEFINE {
				for _, l := range x.Lhs {
					if id, ok := l.(*ast.Ident); ok {
						m[id.Name] = true
					}
				}
			}
		case *ast.DeclStmt:
			if gd, ok := x.Decl.(*ast.GenDecl); ok && gd.Tok == token.VAR {
				for _, sp := range gd.Specs {
					for _, n := range sp.(*ast.ValueSpec).Names {
						m[n.Name] = true
					}
				}
			}
		}
	}
	return m
}

// tailDecl: for a function with a tail description, the declaration of the tail; every other
// declaration is returned as it is
func tailDecl(u *unit, fd *ast.FuncDecl) *ast.FuncDecl {
	sp := u.tailOf(fd.Name.Name)
	if sp == nil || fd.Recv != nil {
		return fd
	}
	die := func(format string, a ...interface{}) {
		fmt.Fprintf(os.Stderr, "translate: tail of %s: %s\n", sp.fn, fmt.Sprintf(format, a...))
		os.Exit(1)
	}
	start := -1
	for i, s := range fd.Body.List {
		if stmtCalls(s, sp.from) {
			start = i
			break
		}
	}
	if start < 0 {
		die("no top-level statement calls %s", sp.from)
	}
	e, err := parser.ParseExpr("func(" + sp.params + ") {}")
	if err != nil {
		die("parameter list %q: %v", sp.params, err)
	}
	ft := e.(*ast.FuncLit).Type
	declared := declaredAtTop(fd.Body.List[:start])
	for _, p := range ft.Params.List {
		for _, n := range p.Names {
			if !declared[n.Name] {
				die("the statements before the call of %s do not declare %s", sp.from, n.Name)
			}
		}
	}
	return &ast.FuncDecl{
		Name: &ast.Ident{Name: sp.name, NamePos: fd.Name.NamePos},
		Type: &ast.FuncType{Func: fd.Type.Func, Params: ft.Params, Results: fd.Type.Results},
		Body: &ast.BlockStmt{Lbrace: fd.Body.List[start].Pos(), List: fd.Body.List[start:], Rbrace: fd.Body.Rbrace},
	}
}

// the comment printed above the definition of a tail
func (u *unit) tailNote(key string) string {
	sp := u.tailNamed(key)
	if sp == nil {
		return ""
	}
	return fmt.Sprintf("(* %s is the TAIL of func %s: its body from the first top-level statement that calls %s on.\n"+
		"   The statements before it are NOT translated; the variables they declare and the tail uses are the\n"+
		"   parameters (%s); a call deferred there runs after this code returns and is not part of it. *)\n",
		sp.name, sp.fn, sp.from, sp.params)
}
