// translate: reads named constants, literals and wiring expressions from /repo's Go sources
// (go/parser, no type checking) and prints coq/Extracted.v.  Regenerated on every check run,
// so the Coq theorems are re-checked against the constants the code has now.
package main

import (
	"flag"
	"fmt"
	"go/ast"
	"go/parser"
	"go/printer"
	"go/token"
	"os"
	"path/filepath"
	"sort"
	"strconv"
	"strings"
)

var fset = token.NewFileSet()

func parse(repo, rel string) *ast.File {
	f, err := parser.ParseFile(fset, filepath.Join(repo, rel), nil, 0)
	if err != nil {
		fmt.Fprintf(os.Stderr, "translate: %v\n", err)
		os.Exit(1)
	}
	return f
}

var timeUnits = map[string]int64{"Nanosecond": 1, "Microsecond": 1e3, "Millisecond": 1e6, "Second": 1e9, "Minute": 60e9, "Hour": 3600e9}

// eval evaluates integer constant expressions built from literals, + - * and time.<Unit>
func eval(e ast.Expr, env map[string]ast.Expr) (int64, bool) {
	switch x := e.(type) {
	case *ast.BasicLit:
		switch x.Kind {
		case token.INT:
			v, err := strconv.ParseInt(x.Value, 0, 64)
			return v, err == nil
		case token.CHAR:
			s, err := strconv.Unquote(x.Value)
			if err != nil || len(s) != 1 {
				return 0, false
			}
			return int64(s[0]), true
		}
	case *ast.ParenExpr:
		return eval(x.X, env)
	case *ast.UnaryExpr:
		v, ok := eval(x.X, env)
		if ok && x.Op == token.SUB {
			return -v, true
		}
		return v, ok && x.Op == token.ADD
	case *ast.BinaryExpr:
		a, ok1 := eval(x.X, env)
		b, ok2 := eval(x.Y, env)
		if !ok1 || !ok2 {
			return 0, false
		}
		switch x.Op {
		case token.ADD:
			return a + b, true
		case token.SUB:
			return a - b, true
		case token.MUL:
			return a * b, true
		}
	case *ast.SelectorExpr:
		if id, ok := x.X.(*ast.Ident); ok && id.Name == "time" {
			v, ok := timeUnits[x.Sel.Name]
			return v, ok
		}
	case *ast.Ident:
		if d, ok := env[x.Name]; ok {
			return eval(d, env)
		}
	case *ast.CallExpr: // conversions like byte(0x02)
		if len(x.Args) == 1 {
			return eval(x.Args[0], env)
		}
	}
	return 0, false
}

// consts collects top-level and function-level const/var declarations with a value
func consts(f *ast.File) map[string]ast.Expr {
	m := map[string]ast.Expr{}
	ast.Inspect(f, func(n ast.Node) bool {
		if vs, ok := n.(*ast.ValueSpec); ok {
			for i, name := range vs.Names {
				if i < len(vs.Values) {
					m[name.Name] = vs.Values[i]
				}
			}
		}
		return true
	})
	return m
}

func strConst(m map[string]ast.Expr, name string) (string, bool) {
	e, ok := m[name]
	if !ok {
		return "", false
	}
	if bl, ok := e.(*ast.BasicLit); ok && bl.Kind == token.STRING {
		s, err := strconv.Unquote(bl.Value)
		return s, err == nil
	}
	return "", false
}

func exprString(e ast.Expr) string {
	var sb strings.Builder
	printer.Fprint(&sb, fset, e)
	return sb.String()
}

func funcDecl(f *ast.File, name string) *ast.FuncDecl {
	for _, d := range f.Decls {
		if fd, ok := d.(*ast.FuncDecl); ok && fd.Name.Name == name {
			return fd
		}
	}
	return nil
}

func bytesOf(s string) string {
	var parts []string
	for i := 0; i < len(s); i++ {
		parts = append(parts, strconv.Itoa(int(s[i])))
	}
	return "[" + strings.Join(parts, "; ") + "]"
}

type out struct{ lines []string }

func (o *out) z(name string, v int64, src string) {
	if v < 0 {
		o.lines = append(o.lines, fmt.Sprintf("Definition %s : Z := (%d). (* %s *)", name, v, src))
	} else {
		o.lines = append(o.lines, fmt.Sprintf("Definition %s : Z := %d. (* %s *)", name, v, src))
	}
}
func (o *out) bytes(name, s, src string) {
	o.lines = append(o.lines, fmt.Sprintf("Definition %s : list Z := %s. (* %q, %s *)", name, bytesOf(s), s, src))
}
func (o *out) str(name, s, src string) {
	o.lines = append(o.lines, fmt.Sprintf("Definition %s : string := \"%s\". (* %s *)", name, strings.ReplaceAll(s, "\"", "\"\""), src))
}
func (o *out) missing(name, src string) {
	// a constant that can no longer be found: Extracted.v still compiles, the theorem that
	// compares it with the model does not
	o.lines = append(o.lines, fmt.Sprintf("Definition %s : Z := (-999999). (* NOT FOUND: %s *)", name, src))
}

func main() {
	repo := flag.String("repo", "/repo", "repository root")
	fnDir := flag.String("fn", "", "directory for the function-level translation (coq/translated); empty = constants only")
	flag.Parse()
	if *fnDir != "" {
		if err := translateUnits(*repo, *fnDir, fnUnits); err != nil {
			fmt.Fprintf(os.Stderr, "translate: %v\n", err)
			os.Exit(1)
		}
	}
	o := &out{}

	// ---- motion/motion.go
	mf := parse(*repo, "motion/motion.go")
	mc := consts(mf)
	if v, ok := eval(mc["ffcPeriod"], mc); ok {
		o.z("ffc_period_ns", v, "motion/motion.go: ffcPeriod")
	} else {
		o.missing("ffc_period_ns", "motion/motion.go: ffcPeriod")
	}
	// the 0.1 weight increment
	found := false
	ast.Inspect(mf, func(n ast.Node) bool {
		if as, ok := n.(*ast.AssignStmt); ok && as.Tok == token.ADD_ASSIGN && len(as.Lhs) == 1 {
			if id, ok := as.Lhs[0].(*ast.Ident); ok && id.Name == "weight" {
				if bl, ok := as.Rhs[0].(*ast.BasicLit); ok {
					o.str("weight_increment", bl.Value, "motion/motion.go: weight += ...")
					found = true
				}
			}
		}
		return true
	})
	if !found {
		o.str("weight_increment", "NOT FOUND", "motion/motion.go: weight += ...")
	}

	// ---- motion/frameloop.go
	fl := consts(parse(*repo, "motion/frameloop.go"))
	if v, ok := eval(fl["NO_OLDEST_SET"], fl); ok {
		o.z("no_oldest_set", v, "motion/frameloop.go: NO_OLDEST_SET")
	} else {
		o.missing("no_oldest_set", "motion/frameloop.go: NO_OLDEST_SET")
	}

	// ---- motion/motionprocessor.go
	pf := parse(*repo, "motion/motionprocessor.go")
	pc := consts(pf)
	if v, ok := eval(pc["minLogInterval"], pc); ok {
		o.z("min_log_interval_ns", v, "motion/motionprocessor.go: minLogInterval")
	} else {
		o.missing("min_log_interval_ns", "motion/motionprocessor.go: minLogInterval")
	}
	// mp.snapshotFrames > N
	snap := int64(-999999)
	snapOp := ""
	ast.Inspect(pf, func(n ast.Node) bool {
		if be, ok := n.(*ast.BinaryExpr); ok {
			if sel, ok := be.X.(*ast.SelectorExpr); ok && sel.Sel.Name == "snapshotFrames" {
				if v, ok := eval(be.Y, pc); ok {
					snap, snapOp = v, be.Op.String()
				}
			}
		}
		return true
	})
	o.z("snapshot_frames_limit", snap, "motion/motionprocessor.go: mp.snapshotFrames "+snapOp+" N")
	o.str("snapshot_frames_op", snapOp, "comparison operator used with the limit")
	// frame loop size expression and min/max frames
	if fd := funcDecl(pf, "NewMotionProcessor"); fd != nil {
		ast.Inspect(fd, func(n ast.Node) bool {
			if kv, ok := n.(*ast.KeyValueExpr); ok {
				if k, ok := kv.Key.(*ast.Ident); ok {
					switch k.Name {
					case "frameLoop", "minFrames", "maxFrames", "motionDetector":
						o.str("wiring_"+k.Name, exprString(kv.Value), "motion/motionprocessor.go: NewMotionProcessor")
					}
				}
			}
			return true
		})
	}

	// ---- cmd/thermal-recorder/main.go
	rm := parse(*repo, "cmd/thermal-recorder/main.go")
	rc := consts(rm)
	if s, ok := strConst(rc, "clearBuffer"); ok {
		o.bytes("recorder_clear_marker", s, "cmd/thermal-recorder/main.go: clearBuffer")
	} else {
		o.bytes("recorder_clear_marker", "", "NOT FOUND cmd/thermal-recorder/main.go: clearBuffer")
	}
	if s, ok := strConst(rc, "cptvTempExt"); ok {
		o.str("cptv_temp_ext", s, "cmd/thermal-recorder/main.go: cptvTempExt")
	}
	// minRecordingLength wiring
	ast.Inspect(rm, func(n ast.Node) bool {
		if as, ok := n.(*ast.AssignStmt); ok && len(as.Lhs) == 1 {
			if id, ok := as.Lhs[0].(*ast.Ident); ok && id.Name == "minRecordingLength" {
				o.str("wiring_min_recording_length", exprString(as.Rhs[0]), "cmd/thermal-recorder/main.go: handleConn")
			}
		}
		return true
	})
	// the length of the probe read in handleConn: rawFrame[:N]
	probe := int64(-999999)
	if fd := funcDecl(rm, "handleConn"); fd != nil {
		ast.Inspect(fd, func(n ast.Node) bool {
			if se, ok := n.(*ast.SliceExpr); ok && se.Low == nil && se.High != nil {
				if v, ok := eval(se.High, rc); ok && probe == -999999 {
					probe = v
				}
			}
			return true
		})
	}
	o.z("recorder_probe_len", probe, "cmd/thermal-recorder/main.go: io.ReadFull(reader, rawFrame[:N])")

	// ---- cmd/thermal-recorder/cptvfilerecorder.go: glob patterns of deleteTempFiles
	cf := parse(*repo, "cmd/thermal-recorder/cptvfilerecorder.go")
	// deleteTempFiles: the glob patterns and directories it covers. String expressions are
	// evaluated (literals, constants, +); path.Join(directory, "x") is recorded as "x" and the
	// bare parameter as ".".
	var strEval func(e ast.Expr) (string, bool)
	strEval = func(e ast.Expr) (string, bool) {
		switch x := e.(type) {
		case *ast.BasicLit:
			if x.Kind == token.STRING {
				v, err := strconv.Unquote(x.Value)
				return v, err == nil
			}
		case *ast.Ident:
			if v, ok := strConst(rc, x.Name); ok {
				return v, true
			}
		case *ast.BinaryExpr:
			if x.Op == token.ADD {
				a, ok1 := strEval(x.X)
				b, ok2 := strEval(x.Y)
				return a + b, ok1 && ok2
			}
		case *ast.ParenExpr:
			return strEval(x.X)
		}
		return "", false
	}
	var patterns, dirs []string
	if fd := funcDecl(cf, "deleteTempFiles"); fd != nil {
		param := ""
		if fd.Type.Params != nil && len(fd.Type.Params.List) > 0 && len(fd.Type.Params.List[0].Names) > 0 {
			param = fd.Type.Params.List[0].Names[0].Name
		}
		seen := map[string]bool{}
		ast.Inspect(fd, func(n ast.Node) bool {
			switch x := n.(type) {
			case *ast.CompositeLit:
				for _, el := range x.Elts {
					if v, ok := strEval(el); ok {
						if strings.Contains(v, "*") && !seen[v] {
							patterns = append(patterns, v)
							seen[v] = true
						}
					} else if id, ok := el.(*ast.Ident); ok && id.Name == param {
						dirs = append(dirs, ".")
					} else if call, ok := el.(*ast.CallExpr); ok && len(call.Args) == 2 {
						if v, ok := strEval(call.Args[1]); ok {
							dirs = append(dirs, v)
						}
					}
				}
			case *ast.CallExpr: // the original single-pattern form: filepath.Glob(filepath.Join(directory, "*."+cptvTempExt))
				if sel, ok := x.Fun.(*ast.SelectorExpr); ok && sel.Sel.Name == "Join" && len(x.Args) == 2 {
					if v, ok := strEval(x.Args[1]); ok && strings.Contains(v, "*") && !seen[v] {
						patterns = append(patterns, v)
						seen[v] = true
						if id, ok := x.Args[0].(*ast.Ident); ok && id.Name == param {
							dirs = append(dirs, ".")
						}
					}
				}
			}
			return true
		})
	}
	qs := func(ss []string) string {
		var p []string
		for _, s := range ss {
			p = append(p, "\""+s+"\"")
		}
		return "[" + strings.Join(p, "; ") + "]"
	}
	o.lines = append(o.lines, fmt.Sprintf("Definition delete_temp_patterns : list string := %s. (* cmd/thermal-recorder/cptvfilerecorder.go: deleteTempFiles *)", qs(patterns)))
	o.lines = append(o.lines, fmt.Sprintf("Definition delete_temp_dirs : list string := %s. (* directories deleteTempFiles covers, relative to the output directory *)", qs(dirs)))

	// ---- cmd/leptond/main.go
	lm := parse(*repo, "cmd/leptond/main.go")
	lc := consts(lm)
	if s, ok := strConst(lc, "clearBuffer"); ok {
		o.bytes("leptond_clear_marker", s, "cmd/leptond/main.go: clearBuffer")
	} else {
		o.bytes("leptond_clear_marker", "?", "NOT FOUND cmd/leptond/main.go: clearBuffer")
	}
	// keys sent in sendCameraSpecs: headers.<Name> selector keys of the map literal
	hc := consts(parse(*repo, "headers/headers.go"))
	var sent []string
	if fd := funcDecl(lm, "sendCameraSpecs"); fd != nil {
		ast.Inspect(fd, func(n ast.Node) bool {
			if kv, ok := n.(*ast.KeyValueExpr); ok {
				if sel, ok := kv.Key.(*ast.SelectorExpr); ok {
					if id, ok := sel.X.(*ast.Ident); ok && id.Name == "headers" {
						if s, ok := strConst(hc, sel.Sel.Name); ok {
							sent = append(sent, s)
						}
					}
				}
			}
			return true
		})
	}
	sort.Strings(sent)
	// keys read in ReadHeaderInfo: h[<Name>] index expressions
	hi := parse(*repo, "headers/headerinfo.go")
	var read []string
	if fd := funcDecl(hi, "ReadHeaderInfo"); fd != nil {
		ast.Inspect(fd, func(n ast.Node) bool {
			if ie, ok := n.(*ast.IndexExpr); ok {
				if id, ok := ie.Index.(*ast.Ident); ok {
					if s, ok := strConst(hc, id.Name); ok {
						read = append(read, s)
					}
				}
			}
			return true
		})
	}
	sort.Strings(read)
	q := func(ss []string) string {
		var p []string
		for _, s := range ss {
			p = append(p, "\""+s+"\"")
		}
		return "[" + strings.Join(p, "; ") + "]"
	}
	o.lines = append(o.lines, fmt.Sprintf("Definition header_keys_sent : list string := %s. (* cmd/leptond/main.go: sendCameraSpecs *)", q(sent)))
	o.lines = append(o.lines, fmt.Sprintf("Definition header_keys_read : list string := %s. (* headers/headerinfo.go: ReadHeaderInfo *)", q(read)))

	// ---- cmd/thermal-writer
	tw := consts(parse(*repo, "cmd/thermal-writer/thermalraw.go"))
	if s, ok := strConst(tw, "thermalRawMagic"); ok {
		o.bytes("cptr_magic", s, "cmd/thermal-writer/thermalraw.go: thermalRawMagic")
	} else {
		o.bytes("cptr_magic", "", "NOT FOUND thermalRawMagic")
	}
	for _, kv := range [][2]string{{"thermalRawVersion", "cptr_version"}, {"headerSection", "cptr_header_section"}, {"frameSection", "cptr_frame_section"}} {
		if v, ok := eval(tw[kv[0]], tw); ok {
			o.z(kv[1], v, "cmd/thermal-writer/thermalraw.go: "+kv[0])
		} else {
			o.missing(kv[1], "cmd/thermal-writer/thermalraw.go: "+kv[0])
		}
	}
	wm := consts(parse(*repo, "cmd/thermal-writer/main.go"))
	if v, ok := eval(wm["inFlight"], wm); ok {
		o.z("writer_in_flight", v, "cmd/thermal-writer/main.go: inFlight")
	} else {
		o.missing("writer_in_flight", "cmd/thermal-writer/main.go: inFlight")
	}

	// ---- go.mod: versions of the modelled dependencies
	gm, _ := os.ReadFile(filepath.Join(*repo, "go.mod"))
	for _, dep := range [][2]string{{"github.com/juju/ratelimit", "dep_ratelimit"}, {"github.com/TheCacophonyProject/go-cptv", "dep_go_cptv"},
		{"github.com/TheCacophonyProject/lepton3", "dep_lepton3"}, {"github.com/TheCacophonyProject/window", "dep_window"}} {
		ver := "NOT FOUND"
		for _, line := range strings.Split(string(gm), "\n") {
			f := strings.Fields(line)
			if len(f) >= 2 && f[0] == dep[0] {
				ver = f[1]
			}
		}
		o.str(dep[1], ver, "go.mod")
	}

	fmt.Println("(* GENERATED by /verif/translate from /repo's Go sources on every check run - do not edit. *)")
	fmt.Println("From Coq Require Import ZArith List String.")
	fmt.Println("Import ListNotations.")
	fmt.Println("Open Scope Z_scope.")
	fmt.Println("Open Scope string_scope.")
	fmt.Println()
	for _, l := range o.lines {
		fmt.Println(l)
	}
}
