// outside.go: what units marked `outside: true` add to the function-level translator (fn.go).
//
// Such a unit is code that mostly wires things of the outside world together (handleConn in
// cmd/thermal-recorder/main.go).  In it
//   - a package-level variable is state of the outside world: reading it is
//     `call_ext ext "read:<name>" []`, assigning it `call_ext ext "set:<name>" [v]`;
//   - a package-qualified name (lepton3.Model) or a package-level function used as a value is
//     `call_ext ext "ref:<name>" []`;
//   - a value of an `opaque` slice type is a token: make(T, n) is `"make:<T>" [n]`, x[lo:hi] is
//     `"slice" [x; lo; hi]` (hi = -1: to the end) - bounds are checked by the handler;
//   - a composite literal of a type outside the translation is `"lit:<T>" [fields...]`, its field
//     values evaluated in source order (struct keys are passed as ASym, map keys as values);
//   - `_, ok := x.(T)` is `"is:<T>" [x]`;
//   - errors.New / fmt.Errorf are ordinary external calls (their arguments are evaluated);
//   - `switch v { case a, b: ...; default: ... }` on a local variable is the corresponding if-chain;
//   - `for { ... }` is GoSem.forever: its body becomes a definition of its own
//     (<function>_loop<n>), the function takes `fuel : nat` and yields an option (None = out of
//     fuel); `continue` hands the loop state to the next iteration.  Deferred calls run when the
//     loop hands a result back.
//   - `break` directly inside an endless loop (units that need it: headers.ReadHeaderInfo): the body
//     then yields `LRet (inl <loop state>)` for break and `LRet (inr <value>)` for return, and the
//     statements after the loop are translated in the `inl` branch of the match on forever's result;
//   - `v, ok := x.(T)` is `"is:<T>" [x]` for ok and `"as:<T>" [x]` for v (the zero value of T when the
//     assertion fails - decided by the handler); T must be a type the translation represents;
//   - `var x T` for a type T listed in the unit's zeroObj is `"zero:<T>" []` (a fresh object, as a token),
//     make(T) for an opaque T is `"make:<T>" []`, x[k] on a token is `"index" [x; k]`;
//   - a character literal is its code point.
//
// Everything else, and every construct not listed, is handled (or refused) by fn.go.
package main

import (
	"fmt"
	"go/ast"
	"go/token"
	"regexp"
	"strconv"
	"strings"
)

// definitions that take fuel (they cannot be called from translated code)
var fuelFns = map[string]bool{}

var universe = map[string]bool{"iota": true, "string": true, "int": true, "int8": true, "int16": true, "int32": true, "int64": true,
	"uint": true, "uint8": true, "uint16": true, "uint32": true, "uint64": true, "uintptr": true, "byte": true, "rune": true, "bool": true,
	"float32": true, "float64": true, "complex64": true, "complex128": true, "error": true, "any": true,
	"append": true, "cap": true, "len": true, "make": true, "new": true, "panic": true, "print": true, "println": true, "copy": true,
	"delete": true, "close": true, "complex": true, "real": true, "imag": true, "recover": true, "true": true, "false": true, "nil": true, "_": true}

// package-level variables and imported package names of an outside unit
func outsideNames(u *unit, files []*ast.File) (map[string]bool, map[string]bool) {
	if !u.outside {
		return nil, nil
	}
	globals, pkgs := map[string]bool{}, map[string]bool{}
	for _, af := range files {
		for _, d := range af.Decls {
			gd, ok := d.(*ast.GenDecl)
			if !ok {
				continue
			}
			for _, sp := range gd.Specs {
				switch x := sp.(type) {
				case *ast.ValueSpec:
					if gd.Tok == token.VAR {
						for _, n := range x.Names {
							globals[n.Name] = true
						}
					}
				case *ast.ImportSpec:
					p, err := strconv.Unquote(x.Path.Value)
					if err != nil {
						continue
					}
					name := p[strings.LastIndex(p, "/")+1:]
					if x.Name != nil {
						name = x.Name.Name
					} else if m := regexp.MustCompile(`^(.+)\.v[0-9]+$`).FindStringSubmatch(name); m != nil {
						name = m[1] // gopkg.in/yaml.v1 is package yaml
					}
					pkgs[name] = true
				}
			}
		}
	}
	return globals, pkgs
}

func (f *fnTr) visibleUnit(name string) bool {
	return name == f.u.name || contains(f.u.imports, name)
}

// outsideName: in an outside unit, is e a name whose value lives outside the translation - a
// package-level variable, a package-level function used as a value, or pkg.Name?
func (f *fnTr) outsideName(e ast.Expr, en env) bool {
	if !f.u.outside {
		return false
	}
	switch x := e.(type) {
	case *ast.Ident:
		if _, local := en.lookup(x.Name); local || universe[x.Name] || f.w.pkgs[x.Name] {
			return false
		}
		if f.w.globals[x.Name] {
			return true
		}
		_, isConst := f.w.consts[x.Name]
		return !isConst
	case *ast.SelectorExpr:
		r := rootIdent(x)
		if r == "" {
			return false
		}
		if _, local := en.lookup(r); local {
			return false
		}
		if _, ok := eval(x, f.w.consts); ok { // time.Minute and the like
			return false
		}
		return f.w.pkgs[r] || f.w.globals[r]
	}
	return false
}

func (f *fnTr) outsideRead(e ast.Expr, en env, k func(val, env) string) string {
	kind := "ref:"
	if f.w.globals[rootIdent(e)] {
		kind = "read:"
	}
	t := f.newTmp()
	return fmt.Sprintf("%s <- call_ext ext %s [] ;;\n%s", t, coqString(kind+exprString(e)), k(val{t, ty{k: kExt}}, en))
}

func (f *fnTr) outsideSet(id *ast.Ident, v val, src ast.Expr, en env, cont func(env) string) string {
	if !f.w.globals[id.Name] {
		fail("assignment to %s, which is not a variable", id.Name)
	}
	if v.t.k == kUnknown || v.t.k == kUnit || v.t.k == kTuple || v.t.k == kStruct {
		fail("assignment of an untranslated value to the package-level variable %s", id.Name)
	}
	t := f.newTmp()
	return fmt.Sprintf("%s <- call_ext ext %s [%s] ;;\n%s", t, coqString("set:"+id.Name), f.asArg(v, src), cont(en))
}

// an argument of an external call: its value if it has a translation, its source text otherwise
func (f *fnTr) extArg(a ast.Expr, en env, k func(string, env) string) string {
	if f.isOpaque(a, en) || !f.translatable(a, en) {
		return k("ASym "+coqString(f.path(a)), en)
	}
	return f.expr(a, en, func(v val, en env) string { return k(f.asArg(v, a), en) })
}

// make(T, n) for an opaque slice type T
func (f *fnTr) makeTok(c *ast.CallExpr, en env, k func(val, env) string) string {
	return f.expr(c.Args[1], en, func(n val, en env) string {
		if n.t.k != kInt && n.t.k != kExt {
			fail("make with a size that is not an integer: %s", exprString(c))
		}
		t := f.newTmp()
		return fmt.Sprintf("%s <- call_ext ext %s [AInt %s] ;;\n%s", t, coqString("make:"+exprString(c.Args[0])), n.code, k(val{t, ty{k: kTok}}, en))
	})
}

// x[lo:hi] on a token
func (f *fnTr) sliceTok(x *ast.SliceExpr, l val, en env, k func(val, env) string) string {
	bound := func(e ast.Expr, dflt string, en env, k2 func(string, env) string) string {
		if e == nil {
			return k2(dflt, en)
		}
		return f.expr(e, en, func(v val, en env) string {
			if v.t.k != kInt && v.t.k != kExt {
				fail("slice bound that is not an integer: %s", exprString(x))
			}
			return k2(v.code, en)
		})
	}
	return bound(x.Low, "0", en, func(lo string, en env) string {
		return bound(x.High, "(-1)", en, func(hi string, en env) string {
			t := f.newTmp()
			return fmt.Sprintf("%s <- call_ext ext \"slice\"%%string [AInt %s; AInt %s; AInt %s] ;;\n%s", t, l.code, lo, hi, k(val{t, ty{k: kTok}}, en))
		})
	})
}

// T{...} for a type outside the translation
func (f *fnTr) foreignLit(cl *ast.CompositeLit, en env, k func(val, env) string) string {
	if cl.Type == nil {
		fail("composite literal without a type")
	}
	_, isMap := cl.Type.(*ast.MapType)
	var parts []string
	var rec func(i int, en env) string
	rec = func(i int, en env) string {
		if i == len(cl.Elts) {
			t := f.newTmp()
			return fmt.Sprintf("%s <- call_ext ext %s [%s] ;;\n%s", t, coqString("lit:"+exprString(cl.Type)), strings.Join(parts, "; "), k(val{t, ty{k: kExt}}, en))
		}
		value := func(e ast.Expr, en env) string {
			return f.extArg(e, en, func(a string, en env) string {
				parts = append(parts, a)
				return rec(i+1, en)
			})
		}
		kv, ok := cl.Elts[i].(*ast.KeyValueExpr)
		if !ok {
			return value(cl.Elts[i], en)
		}
		if id, isIdent := kv.Key.(*ast.Ident); isIdent && !isMap {
			parts = append(parts, "ASym "+coqString(id.Name))
			return value(kv.Value, en)
		}
		return f.extArg(kv.Key, en, func(a string, en env) string {
			parts = append(parts, a)
			return value(kv.Value, en)
		})
	}
	return rec(0, en)
}

// _, ok := x.(T)
func (f *fnTr) typeAssert(s *ast.AssignStmt, ta *ast.TypeAssertExpr, en env, cont func(env) string) string {
	v0, ok0 := s.Lhs[0].(*ast.Ident)
	okID, ok1 := s.Lhs[1].(*ast.Ident)
	if !ok0 || !ok1 || ta.Type == nil {
		fail("type assertion form %s", exprString(s.Rhs[0]))
	}
	if v0.Name != "_" {
		return f.typeAssertValue(s, ta, v0, okID, en, cont)
	}
	return f.expr(ta.X, en, func(v val, en env) string {
		switch v.t.k {
		case kErr, kExt, kTok, kStrTok:
		default:
			fail("type assertion on %s", exprString(ta.X))
		}
		t := f.newTmp()
		line := fmt.Sprintf("%s <- call_ext ext %s [%s] ;;\n", t, coqString("is:"+exprString(ta.Type)), f.asArg(v, ta.X))
		if okID.Name == "_" {
			return line + cont(en)
		}
		if b, exists := en.lookup(okID.Name); exists && (s.Tok != token.DEFINE || f.sameScope(en, okID.Name)) {
			if b.t.k != kBool {
				fail("type assertion result assigned to %s", okID.Name)
			}
			return line + fmt.Sprintf("let %s := (z_to_bool %s) in\n%s", b.coq, t, cont(en))
		}
		if s.Tok != token.DEFINE {
			fail("assignment to undeclared %s", okID.Name)
		}
		cn := f.declName(okID)
		return line + fmt.Sprintf("let %s := (z_to_bool %s) in\n%s", cn, t, cont(en.bind(binding{goName: okID.Name, coq: cn, t: ty{k: kBool}})))
	})
}

// jumps other than `continue` (and `continue` with a label) have no translation
func checkJumps(n ast.Node, what string) {
	ast.Inspect(n, func(n ast.Node) bool {
		if _, isFn := n.(*ast.FuncLit); isFn {
			return false
		}
		if b, ok := n.(*ast.BranchStmt); ok && (b.Tok != token.CONTINUE || b.Label != nil) {
			if b.Tok == token.BREAK && b.Label == nil && what == "an endless loop" {
				return true // where it stands is checked when it is translated (branchStmt)
			}
			fail("%s inside %s", b.Tok, what)
		}
		return true
	})
}

// does the body of an endless loop contain a `break` that belongs to it?  (one inside a nested loop,
// switch or select belongs to that statement and is refused when it is reached)
func hasOwnBreak(body *ast.BlockStmt) bool {
	found := false
	ast.Inspect(body, func(n ast.Node) bool {
		switch x := n.(type) {
		case *ast.FuncLit, *ast.ForStmt, *ast.RangeStmt, *ast.SwitchStmt, *ast.TypeSwitchStmt, *ast.SelectStmt:
			return false
		case *ast.BranchStmt:
			if x.Tok == token.BREAK && x.Label == nil {
				found = true
			}
		}
		return !found
	})
	return found
}

// switch v { case a, b: A; case c: B; default: C }  ->  if v == a || v == b { A } else if v == c { B } else { C }
func (f *fnTr) switchAsIf(s *ast.SwitchStmt, en env) ast.Stmt {
	if !f.u.outside {
		fail("statement %T", s)
	}
	tag, ok := s.Tag.(*ast.Ident)
	if s.Init != nil || !ok {
		fail("switch form (only `switch <local variable> {`)")
	}
	if _, local := en.lookup(tag.Name); !local {
		fail("switch on %s, which is not a local variable", tag.Name)
	}
	checkJumps(s.Body, "a switch")
	var dflt ast.Stmt
	var head, last *ast.IfStmt
	for i, c := range s.Body.List {
		cc := c.(*ast.CaseClause)
		body := &ast.BlockStmt{List: cc.Body}
		if cc.List == nil {
			if i != len(s.Body.List)-1 {
				fail("switch with a default clause that is not the last")
			}
			dflt = body
			continue
		}
		var cond ast.Expr
		for _, e := range cc.List {
			eq := &ast.BinaryExpr{X: &ast.Ident{Name: tag.Name}, Op: token.EQL, Y: e}
			if cond == nil {
				cond = eq
			} else {
				cond = &ast.BinaryExpr{X: cond, Op: token.LOR, Y: eq}
			}
		}
		is := &ast.IfStmt{Cond: cond, Body: body}
		if head == nil {
			head = is
		} else {
			last.Else = is
		}
		last = is
	}
	if head == nil {
		if dflt == nil {
			return &ast.EmptyStmt{}
		}
		return dflt
	}
	if dflt != nil {
		last.Else = dflt
	}
	return head
}

func hasEndlessLoop(fd *ast.FuncDecl) bool {
	found := false
	ast.Inspect(fd.Body, func(n ast.Node) bool {
		if _, isFn := n.(*ast.FuncLit); isFn {
			return false
		}
		if s, ok := n.(*ast.ForStmt); ok && s.Init == nil && s.Cond == nil && s.Post == nil {
			found = true
		}
		return !found
	})
	return found
}

// is the variable `name` of the enclosing scopes (not one declared inside body) assigned in body?
func assignedOuter(body *ast.BlockStmt, name string) bool {
	found := false
	check := func(e ast.Expr) {
		for {
			switch x := e.(type) {
			case *ast.SelectorExpr:
				e = x.X
				continue
			case *ast.IndexExpr:
				e = x.X
				continue
			case *ast.Ident:
				if x.Name == name && (x.Obj == nil || x.Obj.Pos() < body.Pos() || x.Obj.Pos() >= body.End()) {
					found = true
				}
			}
			return
		}
	}
	ast.Inspect(body, func(n ast.Node) bool {
		switch x := n.(type) {
		case *ast.AssignStmt:
			if x.Tok != token.DEFINE {
				for _, l := range x.Lhs {
					check(l)
				}
			}
		case *ast.IncDecStmt:
			check(x.X)
		}
		return !found
	})
	return found
}

func (f *fnTr) branchStmt(s *ast.BranchStmt, en env) string {
	if s.Tok == token.BREAK && s.Label == nil && f.breaks && f.inEndless && len(f.loops) == 1 {
		return "ret (LRet (inl " + f.loopState(en) + "))"
	}
	if s.Tok != token.CONTINUE || s.Label != nil || !f.inEndless || len(f.loops) != 1 {
		fail("statement %s (only `continue`, and `break` of an endless loop, directly inside that loop are translated)", s.Tok)
	}
	return "ret (LCont " + f.loopState(en) + ")"
}

// for { body }
func (f *fnTr) foreverStmt(s *ast.ForStmt, rest []item, outer env, defers []deferred) string {
	if !f.u.outside || !f.fuel {
		fail("loop without a condition")
	}
	if len(f.loops) > 0 || f.inEndless {
		fail("endless loop inside a loop")
	}
	if f.recv != "" {
		fail("endless loop in a method")
	}
	breaks := hasOwnBreak(s.Body)
	if realStmts(rest) > 0 && !breaks {
		fail("statements after an endless loop")
	}
	checkJumps(s.Body, "an endless loop")
	en := outer.push()
	var state []binding
	for _, b := range f.assignedIn(s.Body, en, "") {
		if b.t.k == kStruct || assignedOuter(s.Body, b.goName) {
			state = append(state, b)
		}
	}
	var stateNames, stateTypes []string
	for _, b := range state {
		stateNames = append(stateNames, b.goName)
		stateTypes = append(stateTypes, b.t.coq())
	}
	f.loops = append(f.loops, stateNames)
	f.inEndless, f.endlessEntry, f.breaks = true, len(en), breaks
	pat := f.loopState(en)
	bodyCode := f.block(append(stmts(s.Body.List), item{pop: true}), en.push(), nil)
	f.loops = f.loops[:len(f.loops)-1]
	f.inEndless, f.breaks = false, false

	stType, unpack := "unit", ""
	switch len(state) {
	case 0:
	case 1:
		stType, unpack = stateTypes[0], fmt.Sprintf("let %s := st in\n", pat)
	default:
		stType, unpack = "("+strings.Join(stateTypes, " * ")+")", fmt.Sprintf("let '%s := st in\n", pat)
	}
	// the variables of the enclosing function that the body mentions become parameters
	isState := map[string]bool{}
	for _, n := range stateNames {
		isState[n] = true
	}
	seen := map[string]bool{}
	var params, args []string
	for i := len(en) - 1; i >= 0; i-- {
		b := en[i]
		if b.marker || seen[b.goName] {
			continue
		}
		seen[b.goName] = true
		if isState[b.goName] || b.t.k == kUnknown || b.t.k == kUnit {
			continue
		}
		if regexp.MustCompile(`(^|[^A-Za-z0-9_'])` + regexp.QuoteMeta(b.coq) + `($|[^A-Za-z0-9_'])`).MatchString(bodyCode) {
			params = append([]string{fmt.Sprintf("(%s : %s)", b.coq, b.t.coq())}, params...)
			args = append([]string{b.coq}, args...)
		}
	}
	name := fmt.Sprintf("%s_loop%d", f.coqName, len(f.extra)+1)
	if breaks {
		return f.foreverWithBreak(name, params, args, stType, unpack, pat, bodyCode, rest, outer, defers)
	}
	f.extra = append(f.extra, fmt.Sprintf("Definition %s {W : Type} (ext : string -> list arg -> W -> Z * W) %s(st : %s) : M W (loopres %s %s) :=\n%s.\n",
		name, joinSp(params), stType, stType, f.result.coq(), indent(unpack+bodyCode)))

	lr, rv := f.newTmp(), f.newTmp()
	exit := fmt.Sprintf("let %s := r in\n%s", rv, f.finishReturn(rv, outer, defers))
	return fmt.Sprintf("%s <- forever fuel (%s ext%s) %s ;;\nmatch %s with\n| None => ret None\n| Some r => (\n%s\n)\nend",
		lr, name, prefixSpace(strings.Join(args, " ")), pat, lr, indent(exit))
}

func joinSp(l []string) string {
	if len(l) == 0 {
		return ""
	}
	return strings.Join(l, " ") + " "
}

func (f *fnTr) fuelDefinition(s sig, params []string, rt, body string) string {
	fuelFns[s.coqName] = true
	return strings.Join(f.extra, "\n") + "\n" +
		fmt.Sprintf("Definition %s {W : Type} (ext : string -> list arg -> W -> Z * W) (fuel : nat) %s : M W (option %s) :=\n%s.\n",
			s.coqName, strings.Join(params, " "), rt, indent(body))
}

// for { body } with `break`: the body yields LRet (inl state) for break, LRet (inr value) for return;
// the statements after the loop are the `inl` branch
func (f *fnTr) foreverWithBreak(name string, params, args []string, stType, unpack, pat, bodyCode string, rest []item, outer env, defers []deferred) string {
	f.extra = append(f.extra, fmt.Sprintf("Definition %s {W : Type} (ext : string -> list arg -> W -> Z * W) %s(st : %s) : M W (loopres %s (%s + %s)) :=\n%s.\n",
		name, joinSp(params), stType, stType, stType, f.result.coq(), indent(unpack+bodyCode)))
	lr, rv := f.newTmp(), f.newTmp()
	exit := fmt.Sprintf("let %s := r in\n%s", rv, f.finishReturn(rv, outer, defers))
	after := unpack + f.block(rest, outer, defers)
	return fmt.Sprintf("%s <- forever fuel (%s ext%s) %s ;;\nmatch %s with\n| None => ret None\n| Some (inr r) => (\n%s\n)\n| Some (inl st) => (\n%s\n)\nend",
		lr, name, prefixSpace(strings.Join(args, " ")), pat, lr, indent(exit), indent(after))
}

// 'c'
func (f *fnTr) charLit(x *ast.BasicLit) val {
	if !f.u.outside {
		fail("literal %s", x.Value)
	}
	r, _, tail, err := strconv.UnquoteChar(strings.TrimSuffix(strings.TrimPrefix(x.Value, "'"), "'"), '\'')
	if err != nil || tail != "" {
		fail("character literal %s", x.Value)
	}
	return val{fmt.Sprintf("(%d)", r), ty{k: kInt}}
}

// make(T) for an opaque type T (a map)
func (f *fnTr) makeTok0(c *ast.CallExpr, en env, k func(val, env) string) string {
	t := f.newTmp()
	return fmt.Sprintf("%s <- call_ext ext %s [] ;;\n%s", t, coqString("make:"+exprString(c.Args[0])), k(val{t, ty{k: kTok}}, en))
}

// x[key] on a token: the element is asked of the outside world
func (f *fnTr) indexTok(x *ast.IndexExpr, l val, en env, k func(val, env) string) string {
	return f.expr(x.Index, en, func(i val, en env) string {
		switch i.t.k {
		case kInt, kExt, kTok, kStrTok:
		default:
			fail("index %s of %s", exprString(x.Index), exprString(x.X))
		}
		t := f.newTmp()
		return fmt.Sprintf("%s <- call_ext ext \"index\"%%string [AInt %s; %s] ;;\n%s", t, l.code, f.asArg(i, x.Index), k(val{t, ty{k: kExt}}, en))
	})
}

// var x T, T a type whose zero value is an object of the outside world
func (f *fnTr) zeroObjDecl(name *ast.Ident, typ ast.Expr, en env, cont func(env) string) string {
	cn := f.declName(name)
	return fmt.Sprintf("%s <- call_ext ext %s [] ;;\n%s", cn, coqString("zero:"+exprString(typ)), cont(en.bind(binding{goName: name.Name, coq: cn, t: ty{k: kTok}})))
}

// v, ok := x.(T) with T a type the translation represents (int, string, a token type)
func (f *fnTr) typeAssertValue(s *ast.AssignStmt, ta *ast.TypeAssertExpr, v0, okID *ast.Ident, en env, cont func(env) string) string {
	if s.Tok != token.DEFINE {
		fail("type assertion form %s (only `v, ok := x.(T)`)", exprString(s.Rhs[0]))
	}
	vt := f.w.goType(ta.Type)
	switch vt.k {
	case kInt, kStrTok, kTok, kErr:
		if vt.unsigned {
			fail("type assertion to %s", exprString(ta.Type))
		}
	default:
		fail("type assertion to %s", exprString(ta.Type))
	}
	if f.sameScope(en, v0.Name) || (okID.Name != "_" && f.sameScope(en, okID.Name)) || v0.Name == okID.Name {
		fail("type assertion redeclares a variable: %s", exprString(s.Rhs[0]))
	}
	return f.expr(ta.X, en, func(v val, en env) string {
		switch v.t.k {
		case kErr, kExt, kTok, kStrTok:
		default:
			fail("type assertion on %s", exprString(ta.X))
		}
		tok, tv := f.newTmp(), f.newTmp()
		code := fmt.Sprintf("%s <- call_ext ext %s [%s] ;;\n", tok, coqString("is:"+exprString(ta.Type)), f.asArg(v, ta.X))
		code += fmt.Sprintf("%s <- call_ext ext %s [%s] ;;\n", tv, coqString("as:"+exprString(ta.Type)), f.asArg(v, ta.X))
		cn := f.declName(v0)
		code += fmt.Sprintf("let %s := %s in\n", cn, tv)
		en = en.bind(binding{goName: v0.Name, coq: cn, t: vt})
		if okID.Name != "_" {
			on := f.declName(okID)
			code += fmt.Sprintf("let %s := (z_to_bool %s) in\n", on, tok)
			en = en.bind(binding{goName: okID.Name, coq: on, t: ty{k: kBool}})
		}
		return code + cont(en)
	})
}

// the name under which the further results of a two-valued call are asked for: the call's own name
func (f *fnTr) multiBase(call *ast.CallExpr, en env) string {
	if sel, ok := call.Fun.(*ast.SelectorExpr); ok && f.u.outside && !f.isOpaque(sel.X, en) && f.translatable(sel.X, en) {
		if kd := f.kindOf(sel.X, en); kd == kTok || kd == kStrTok || f.extObjKind(kd) {
			return "obj." + sel.Sel.Name
		}
	}
	return f.path(call.Fun)
}
