// strlist.go: what units marked `strList: true` add to the function-level translator (fn.go).
//
// Such a unit handles lists of strings (the start-up clean-up of cmd/thermal-recorder walks over
// directories, glob patterns and the file names filepath.Glob returns).  Strings are tokens
// (strTok); a list of them exists in two forms:
//   - a literal `[]string{e1, ..., en}` is built by the translated code: a Gallina `list Z` of the
//     elements' tokens, the elements evaluated once, in source order (kind kSList);
//   - a list that comes out of a call that leaves the translation (`matches, _ := filepath.Glob(p)`)
//     lives in the outside world and is held as a token; its length is `call_ext "list.len" [l]`,
//     its i-th element `call_ext "list.at" [l; i]` (a string token).  `len(l)` is the former;
//     `l[i]` asks for the length first and panics out of range, as Go does.
//   - `for _, s := range L { body }` over either form is the counting loop
//     { l := L; for i := 0; i < len(l); i++ { s := l[i]; body } }
//     i.e. GoSem.for_range with the loop state and early `return` of every other counting loop:
//     L and its length are evaluated once, before the first iteration, as in Go.  The element is
//     taken without a bounds check (the index is in range by construction: go_index on a Gallina
//     list cannot fail there, and "list.at" is asked for indices below "list.len" only).
//
// An index variable (`for i, s := range`), assignment instead of `:=`, a range over anything else
// and a []string that is passed to the outside world are refused.
package main

import (
	"fmt"
	"go/ast"
	"go/token"
	"strings"
)

func isStringSlice(at *ast.ArrayType) bool {
	if at.Len != nil {
		return false
	}
	id, ok := at.Elt.(*ast.Ident)
	return ok && id.Name == "string"
}

// a list held by the outside world: the answer of an external call (or a token)
func (f *fnTr) isListTok(t ty) bool {
	return f.u.strList && (t.k == kExt || (t.k == kTok && t.name == "[]string"))
}

func (f *fnTr) isListTokIdent(args []ast.Expr, en env) bool {
	if !f.u.strList || len(args) != 1 {
		return false
	}
	id, ok := args[0].(*ast.Ident)
	if !ok {
		return false
	}
	b, ok := en.lookup(id.Name)
	return ok && f.isListTok(b.t)
}

// []string{e1, ..., en}
func (f *fnTr) strListLit(cl *ast.CompositeLit, en env, k func(val, env) string) string {
	var parts []string
	var rec func(i int, en env) string
	rec = func(i int, en env) string {
		if i == len(cl.Elts) {
			return k(val{"[" + strings.Join(parts, "; ") + "]", ty{k: kSList}}, en)
		}
		if _, keyed := cl.Elts[i].(*ast.KeyValueExpr); keyed {
			fail("keyed []string literal")
		}
		return f.expr(cl.Elts[i], en, func(v val, en env) string {
			if v.t.k != kStrTok && v.t.k != kExt {
				fail("element of a []string literal that is not a string: %s", exprString(cl.Elts[i]))
			}
			parts = append(parts, v.code)
			return rec(i+1, en)
		})
	}
	return rec(0, en)
}

// len(l)
func (f *fnTr) strListLen(v val, en env, k func(val, env) string) (string, bool) {
	if !f.u.strList {
		return "", false
	}
	if v.t.k == kSList {
		return k(val{"(go_len " + v.code + ")", ty{k: kInt}}, en), true
	}
	if f.isListTok(v.t) {
		t := f.newTmp()
		return fmt.Sprintf("%s <- call_ext ext \"list.len\"%%string [AInt %s] ;;\n%s", t, v.code, k(val{t, ty{k: kInt}}, en)), true
	}
	return "", false
}

// l[i] written in the source: out of range panics
func (f *fnTr) strListIndex(x *ast.IndexExpr, l val, en env, k func(val, env) string) (string, bool) {
	if !f.u.strList || !(l.t.k == kSList || f.isListTok(l.t)) {
		return "", false
	}
	return f.expr(x.Index, en, func(i val, en env) string {
		if i.t.k != kInt && i.t.k != kExt {
			fail("index that is not an integer: %s", exprString(x))
		}
		t := f.newTmp()
		if l.t.k == kSList {
			return fmt.Sprintf("%s <- lift_opt (go_index %s %s) ;;\n%s", t, l.code, i.code, k(val{t, ty{k: kStrTok}}, en))
		}
		n := f.newTmp()
		return fmt.Sprintf("%s <- call_ext ext \"list.len\"%%string [AInt %s] ;;\n%s <- (if ((%s <? 0) || (%s >=? %s)) then panic else call_ext ext \"list.at\"%%string [AInt %s; AInt %s]) ;;\n%s",
			n, l.code, t, i.code, i.code, n, l.code, i.code, k(val{t, ty{k: kStrTok}}, en))
	}), true
}

// __listelem(l, i): the element a range loop takes (i is in range by construction)
func (f *fnTr) strListElem(c *ast.CallExpr, en env, k func(val, env) string) string {
	return f.expr(c.Args[0], en, func(l val, en env) string {
		return f.expr(c.Args[1], en, func(i val, en env) string {
			t := f.newTmp()
			switch {
			case l.t.k == kSList:
				return fmt.Sprintf("%s <- lift_opt (go_index %s %s) ;;\n%s", t, l.code, i.code, k(val{t, ty{k: kStrTok}}, en))
			case f.isListTok(l.t):
				return fmt.Sprintf("%s <- call_ext ext \"list.at\"%%string [AInt %s; AInt %s] ;;\n%s", t, l.code, i.code, k(val{t, ty{k: kStrTok}}, en))
			}
			fail("range over something that is not a list of strings")
			return ""
		})
	})
}

func mentions(n ast.Node, name string) bool {
	found := false
	ast.Inspect(n, func(n ast.Node) bool {
		if id, ok := n.(*ast.Ident); ok && id.Name == name {
			found = true
		}
		return !found
	})
	return found
}

// for _, s := range L { body }   becomes   { l := L; for i := 0; i < len(l); i++ { s := __listelem(l, i); body } }
func (f *fnTr) rangeStrList(s *ast.RangeStmt, en env) (ast.Stmt, bool) {
	if !f.u.strList || s.Value == nil {
		return nil, false
	}
	if key, ok := s.Key.(*ast.Ident); s.Key != nil && (!ok || key.Name != "_") {
		fail("range over a list of strings with an index variable")
	}
	v, ok := s.Value.(*ast.Ident)
	if !ok || s.Tok != token.DEFINE {
		fail("range over a list of strings: loop form")
	}
	if f.rangeIDs == nil {
		f.rangeIDs = map[token.Pos]int{}
	}
	id, seen := f.rangeIDs[s.For]
	if !seen {
		id = len(f.rangeIDs) + 1
		f.rangeIDs[s.For] = id
	}
	ln, in := fmt.Sprintf("range_l%d", id), fmt.Sprintf("range_i%d", id)
	if mentions(s, ln) || mentions(s, in) {
		fail("range over a list of strings: the source uses the name %s or %s", ln, in)
	}
	// the two declaring occurrences get positions of their own (declName keys by position)
	lDecl, iDecl := &ast.Ident{Name: ln, NamePos: s.For}, &ast.Ident{Name: in, NamePos: s.For + 1}
	body := s.Body
	if v.Name != "_" {
		take := &ast.AssignStmt{Lhs: []ast.Expr{v}, Tok: token.DEFINE,
			Rhs: []ast.Expr{&ast.CallExpr{Fun: &ast.Ident{Name: "__listelem"}, Args: []ast.Expr{&ast.Ident{Name: ln}, &ast.Ident{Name: in}}}}}
		body = &ast.BlockStmt{Lbrace: s.Body.Lbrace, List: append([]ast.Stmt{take}, s.Body.List...), Rbrace: s.Body.Rbrace}
	}
	loop := &ast.ForStmt{
		Init: &ast.AssignStmt{Lhs: []ast.Expr{iDecl}, Tok: token.DEFINE, Rhs: []ast.Expr{&ast.BasicLit{Kind: token.INT, Value: "0"}}},
		Cond: &ast.BinaryExpr{X: &ast.Ident{Name: in}, Op: token.LSS, Y: &ast.CallExpr{Fun: &ast.Ident{Name: "len"}, Args: []ast.Expr{&ast.Ident{Name: ln}}}},
		Post: &ast.IncDecStmt{X: &ast.Ident{Name: in}, Tok: token.INC},
		Body: body,
	}
	bind := &ast.AssignStmt{Lhs: []ast.Expr{lDecl}, Tok: token.DEFINE, Rhs: []ast.Expr{s.X}}
	return &ast.BlockStmt{List: []ast.Stmt{bind, loop}}, true
}
