// request.go: what the unit `Snapshot` (the D-Bus request path: cmd/thermal-recorder/snapshot.go and the
// three service methods of service.go) adds to the function-level translator.  Three hooks in fn.go, each
// behind a field of the unit, so every other unit is printed exactly as before:
//
//   - noRecv: methods of a field-less struct type (`type service struct{}`) are translated as plain functions
//     named <Type>_<Method>.  The receiver carries no state; a body that mentions it is refused.
//   - extResults: the Go types of the results of a named call that leaves the translation
//     (`frameNum, f := processor.GetRecentFrame()` yields a uint32 and a frame HANDLE, so that `f == nil`,
//     `f.Status.FrameCount` and `return f, nil` read f as every other unit reads a *cptvframe.Frame).
//     The first result is the call's answer, the others are asked for as `<name>#i`, as before.
//   - errObj: `err.Error()` on an error value is `call_ext ext "error.Error" [AInt err]` (without it the
//     call would be named after the VARIABLE and lose the value).
//
// Everything else the unit needs is outside.go's: package-level variables (`processor`, `headerInfo`,
// `previousSnapshotTime`) are `read:<name>` / `read:<name>.<Field>` / `set:<name>.<Field>`, a method called
// on one is `<name>.<Method>`, `mu.Lock()` / `mu.Unlock()` are the external calls "mu.Lock" / "mu.Unlock"
// (a deferred call runs after the result has been evaluated, on every return path), errors.New, time.Since,
// log.Println are ordinary external calls, `&dbus.Error{...}`, `[]interface{}{...}` and the map literal are
// `lit:<T>` calls whose field values are evaluated in source order.
package main

import (
	"fmt"
	"go/ast"
	"go/parser"
	"go/token"
)

func parseTypeExpr(src string) (ast.Expr, error) { return parser.ParseExpr(src) }

// noRecvMethod: is fd a method of one of the unit's field-less receiver types?  Returns the type name.
func noRecvMethod(u *unit, fd *ast.FuncDecl) (string, bool) {
	if len(u.noRecv) == 0 || fd.Recv == nil || len(fd.Recv.List) != 1 {
		return "", false
	}
	t := fd.Recv.List[0].Type
	if st, ok := t.(*ast.StarExpr); ok {
		t = st.X
	}
	id, ok := t.(*ast.Ident)
	if !ok || !contains(u.noRecv, id.Name) {
		return "", false
	}
	return id.Name, true
}

// the receiver of such a method is dropped: the body must not mention it
func checkRecvUnused(fd *ast.FuncDecl) {
	names := fd.Recv.List[0].Names
	if len(names) != 1 || names[0].Name == "_" {
		return
	}
	if mentions(fd.Body, names[0].Name) {
		fail("the receiver %s of a method translated without its receiver is used in the body", names[0].Name)
	}
}

// the struct types listed in noRecv must really have no fields
func checkNoRecvTypes(u *unit, decls map[string]*ast.StructType) error {
	for _, n := range u.noRecv {
		st, ok := decls[n]
		if !ok {
			return fmt.Errorf("unit %s: receiver type %s not found", u.name, n)
		}
		if st.Fields != nil && len(st.Fields.List) != 0 {
			return fmt.Errorf("unit %s: receiver type %s has fields; its methods cannot be translated without the receiver", u.name, n)
		}
	}
	return nil
}

// err.Error() on an error value
func (f *fnTr) errMethod(c *ast.CallExpr, en env, k func(val, env) string) (string, bool) {
	if !f.u.errObj {
		return "", false
	}
	sel, ok := c.Fun.(*ast.SelectorExpr)
	if !ok || sel.Sel.Name != "Error" || len(c.Args) != 0 {
		return "", false
	}
	id, ok := sel.X.(*ast.Ident)
	if !ok {
		return "", false
	}
	b, local := en.lookup(id.Name)
	if !local || (b.t.k != kErr && b.t.k != kExt) {
		return "", false // kExt: the error came out of a call that leaves the translation
	}
	t := f.newTmp()
	return fmt.Sprintf("%s <- call_ext ext \"error.Error\"%%string [AInt %s] ;;\n%s", t, b.coq, k(val{t, ty{k: kExt}}, en)), true
}

// a, b := g(...) where g leaves the translation and the unit declares the types of its results
func (f *fnTr) typedResults(s *ast.AssignStmt, base string, v val, rest []item, en env, defers []deferred) (string, bool) {
	typs, ok := f.u.extResults[base]
	if !ok {
		return "", false
	}
	if len(typs) != len(s.Lhs) {
		fail("%s has %d declared results, %d are assigned", base, len(typs), len(s.Lhs))
	}
	if s.Tok != token.DEFINE {
		fail("results of %s must be declared with := ", base)
	}
	code := ""
	for i, l := range s.Lhs {
		id, ok := l.(*ast.Ident)
		if !ok {
			fail("tuple assignment target %s", exprString(l))
		}
		te, err := parseTypeExpr(typs[i])
		if err != nil {
			fail("declared result type %s of %s", typs[i], base)
		}
		t := f.w.goType(te)
		switch t.k {
		case kInt, kHandle, kErr, kBool, kTok, kStrTok:
		default:
			fail("declared result type %s of %s has no translation", typs[i], base)
		}
		src := v.code
		if i > 0 {
			tmp := f.newTmp()
			code += fmt.Sprintf("%s <- call_ext ext %s [] ;;\n", tmp, coqString(fmt.Sprintf("%s#%d", base, i)))
			src = tmp
		}
		if id.Name == "_" {
			continue
		}
		if f.sameScope(en, id.Name) {
			fail("result %s of %s redeclares a variable", id.Name, base)
		}
		switch {
		case t.k == kBool:
			src = "(z_to_bool " + src + ")"
		case t.unsigned && t.bits > 0:
			src = fmt.Sprintf("(wrap_u %d %s)", t.bits, src) // whatever the outside world answers is read as a value of the declared type
		}
		cn := f.declName(id)
		code += fmt.Sprintf("let %s := %s in\n", cn, src)
		en = en.bind(binding{goName: id.Name, coq: cn, t: t})
	}
	return code + f.block(rest, en, defers), true
}

// h.Status.<Field> with h a local variable holding a frame handle (fn.go reads it as "Frame.Status.<Field>" [h]):
// an integer, so `h.Status.FrameCount == 0` is an ordinary comparison, not a nil test of something opaque
func (f *fnTr) isStatusField(x *ast.SelectorExpr, en env) bool {
	st, ok := x.X.(*ast.SelectorExpr)
	if !ok || st.Sel.Name != "Status" {
		return false
	}
	id, ok := st.X.(*ast.Ident)
	if !ok {
		return false
	}
	b, local := en.lookup(id.Name)
	return local && b.t.k == kHandle
}
