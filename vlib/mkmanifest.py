#!/usr/bin/env python3
"""Regenerates /verif/MANIFEST.json from vlib/props.py (run after editing the table)."""
import json, os, sys
ROOT = os.path.dirname(os.path.dirname(os.path.abspath(__file__)))
sys.path.insert(0, ROOT)
from vlib.props import PROPS  # noqa

ALL = ["C%02d" % i for i in range(1, 21)]
BASELINE = ("cd /repo && GOFLAGS=-mod=mod GOPROXY=off GOSUMDB=off go test -mod=mod -json -vet=off -count=1 -timeout 25m ./...")

def main():
    checks = []
    for pid in ALL:
        if pid not in PROPS:
            continue
        P = PROPS[pid]
        checks.append({
            "property_id": pid,
            "quick_cmd": "./check %s --tier quick" % pid,
            "thorough_cmd": "./check %s --tier thorough" % pid,
            "evidence_file": "/verif/evidence/%s.json" % pid,
            "replay_cmd_template": "./check %s --replay {path}" % pid,
            "engine": "coq-models",
            "level_claimed": {
                "category": P.get("level", "proof"),
                "text": P.get("level_text", "Coq theorems (all inputs/histories, no bound) about an executable Gallina model of the code, "
                              "tied to /repo on every run in two ways: source-tie theorems re-checked against a Gallina translation of the Go source that is "
                              "regenerated from /repo on every run (for the files the translator covers), and a correspondence check that runs the real Go code, "
                              "the model and the translated source on the same generated inputs and evaluates the theorem's spec predicate on the implementation's own traces."),
                "design_ref": "DESIGN.md sections 4 (%s) and 11" % pid,
            },
            "level_note": P.get("level_note", "; ".join(P["trusted_base"])),
            "technique": P.get("technique", "machine-checked proof in Coq 8.16 (invariants/refinement on an executable model; source-tie theorems against a Gallina translation of the Go source regenerated on every run) + model/implementation correspondence by differential execution"),
        })
    na = [{"property_id": pid, "reason": "check not built yet in this round (planned: see DESIGN.md section 4); no claim made"}
          for pid in ALL if pid not in PROPS]
    man = {
        "version": 1,
        "setup_cmd": "./check --setup",
        "hooks": {
            "guard": "verif",
            "enable": "go build -tags verif (harness module /verif/harness with `replace github.com/TheCacophonyProject/thermal-recorder => /repo`; driver binaries built from /repo/cmd/* with -tags verif)",
            "baseline_off_cmd": BASELINE,
            "source_commits": [l.strip() for l in open(os.path.join(ROOT, "HOOK_COMMITS.txt")) if l.strip()] if os.path.exists(os.path.join(ROOT, "HOOK_COMMITS.txt")) else [],
            "add_only": True,
        },
        "engines": [{
            "name": "coq-models", "path": "/verif/coq",
            "serves_properties": [c["property_id"] for c in checks],
            "kind_free_text": "Coq 8.16.1 development: executable models (coq/model), proofs (coq/proofs), property theorems (coq/props), "
                              "correspondence evaluators (coq/corr); Go harness (/verif/harness) runs the real code; Go-AST translator (/verif/translate) regenerates coq/Extracted.v",
        }],
        "checks": checks,
        "notes": "All checks share ./check (python3). Each run: translator -> Extracted.v, `make` of the whole Coq development, harness built from /repo's working tree with -tags verif, "
                 "cases evaluated by coqc/vm_compute. Known findings: /verif/KNOWN_FINDINGS.txt.",
    }
    if na:
        man["not_applicable"] = na
    with open(os.path.join(ROOT, "MANIFEST.json"), "w") as f:
        json.dump(man, f, indent=1)
    print("MANIFEST.json: %d checks, %d not claimed" % (len(checks), len(na)))

main()
