#!/usr/bin/env python3
"""Prints the markdown table of seeded changes (optionally only the given round letters) from seeded/*/meta.json."""
import json, os, sys, glob
ROOT = os.path.dirname(os.path.dirname(os.path.abspath(__file__)))
rounds = sys.argv[1] if len(sys.argv) > 1 else None
print("| id | caught by | needs |\n|---|---|---|")
for d in sorted(glob.glob(os.path.join(ROOT, "seeded", "*"))):
    sid = os.path.basename(d)
    if rounds and sid[-1] not in rounds:
        continue
    m = json.load(open(os.path.join(d, "meta.json")))
    print("| %s | %s | %s |" % (sid, ", ".join(m["caught_by_checks"]), m["needs_to_manifest"].replace("|", "/")))
