"""Generic property runner: proofs status + correspondence + spec evaluation + verdict."""
import os, json, time, re, subprocess, collections

from .props import PROPS

ALLOWED_AXIOM_PREFIXES = (
    # standard-library axioms that may appear (named in DESIGN.md section 2 when they do)
    "Coq.Logic.FunctionalExtensionality.functional_extensionality_dep",
    "FunctionalExtensionality.functional_extensionality_dep",
    "functional_extensionality_dep",
    "Coq.Logic.Classical_Prop.classic", "classic",
    "ClassicalDedekindReals.sig_forall_dec", "ClassicalDedekindReals.sig_not_dec",
    "sig_forall_dec", "sig_not_dec",
    "Eqdep.Eq_rect_eq.eq_rect_eq", "JMeq_eq", "proof_irrelevance",
)


def print_assumptions(ck, prop, thm_file, rundir):
    """run Print Assumptions for every Theorem in the property file; returns (ok, text, axioms)"""
    src = os.path.join(ck.COQ, thm_file)
    if not os.path.exists(src):
        return False, "missing " + thm_file, []
    names = [m.group(2) for m in ck.STMT.finditer(open(src).read()) if m.group(1) == "Theorem"]
    mod = thm_file[:-2].replace("/", ".")
    vf = os.path.join(rundir, "assumptions_%s.v" % prop)
    with open(vf, "w") as f:
        f.write("From TR Require Import %s.\n" % mod)
        for n in names:
            f.write('Print Assumptions %s.\n' % n)
    rc, o = ck.sh(["timeout", "900", "coqc", "-Q", ck.COQ, "TR", vf], cwd=rundir)
    axioms = []
    if rc == 0:
        for line in o.split("\n"):
            m = re.match(r"^([A-Za-z_][A-Za-z0-9_.']*)\s*(:|$)", line)
            if m and not line.startswith(" ") and m.group(1) not in ("Axioms", "Closed"):
                axioms.append(m.group(1))
    return rc == 0, o, sorted(set(axioms))


def run_harness(ck, prop, hp, n, seed, tier, rundir, replay=None, extra_args=()):
    out = os.path.join(rundir, "cases_%s_%s.jsonl" % (prop, hp))
    cmd = [os.path.join(ck.BUILD, "harness"), "-prop", hp, "-seed", str(seed), "-n", str(n), "-tier", tier, "-out", out]
    if replay:
        cmd += ["-replay", replay]
    cmd += list(extra_args)
    env = dict(ck.ENV, VERIF_BUILD=ck.BUILD, VERIF_RUNDIR=rundir, VERIF_REPO=ck.REPO)
    try:
        rc, o = ck.sh(cmd, timeout=(420 if tier == "quick" else 3000), env=env, cwd=rundir)
    except Exception as e:  # noqa  (a stage that hangs is reported, not waited for)
        rc, o = 124, "harness stage %s did not finish in time: %s" % (hp, str(e)[-300:])
    cases = []
    if os.path.exists(out):
        for line in open(out):
            line = line.strip()
            if line:
                cases.append(json.loads(line))
    return rc, o, cases


REPLAY_TAG = None


def write_replay(ck, prop, seed, k, payload):
    d = os.path.join(ck.ROOT, "replays")
    os.makedirs(d, exist_ok=True)
    p = os.path.join(d, "%s-%s-%d.json" % (prop, REPLAY_TAG or seed, k))
    with open(p, "w") as f:
        json.dump(payload, f, indent=1, default=str)
    return p


def run_property(a, ck):
    t0 = time.time()
    global REPLAY_TAG
    if a.replay:
        a.replay = os.path.abspath(a.replay)
        REPLAY_TAG = "replayed"
    prop = a.prop
    P = PROPS[prop]
    tier = a.tier
    seed = a.seed
    rundir = os.path.join(ck.BUILD, "run", prop)
    subprocess.run(["rm", "-rf", rundir])
    os.makedirs(rundir, exist_ok=True)
    log = []
    violations = []       # (kind, replay path, tail words)
    known_lines = []
    known, fixed = ck.load_known()
    known_keys = {k["key"]: k for k in known if k["property"] == prop}

    res = ck.prepare(log)

    # ---- proof obligations ----
    thm_file = P["theorems"]
    files = ck.coq_deps(thm_file)
    obligations = ck.count_obligations(files)
    broken_files = [f for f in files if not res["vo"].get(f, False)]
    discharged = [o for o in obligations if o.split(":")[0] not in broken_files]
    ax_ok, ax_text, axioms = (False, "not run", [])
    if not broken_files:
        ax_ok, ax_text, axioms = print_assumptions(ck, prop, thm_file, rundir)
    bad_axioms = [x for x in axioms if not x.endswith(ALLOWED_AXIOM_PREFIXES)]
    gate = [g for g in res["axiom_gate"] if g.split(":")[0] in files]
    proof_ok = (not broken_files) and ax_ok and not bad_axioms and not gate and len(obligations) > 0
    proof_problem = None
    if not proof_ok:
        if broken_files:
            m = re.findall(r'File "\./([^"]+)", line (\d+)[^\n]*\n(?:[^\n]*\n){0,6}?Error:[^\n]*(?:\n[^\n]+){0,4}', res["coq_log"])
            err = re.search(r'File "[^"]+", line \d+, characters[^\n]*\nError:(?:\n?[^\n]+){0,8}', res["coq_log"])
            proof_problem = {"what": "Coq files no longer compile", "files": broken_files,
                             "first_error": err.group(0) if err else res["coq_log"][-2500:]}
        elif gate:
            proof_problem = {"what": "axiom/admit gate", "lines": gate}
        elif bad_axioms:
            proof_problem = {"what": "theorem depends on non-allowed axioms", "axioms": bad_axioms}
        else:
            proof_problem = {"what": "Print Assumptions failed or no obligations", "output": ax_text[-2000:]}

    # ---- correspondence + spec evaluation on implementation traces ----
    cases_all, codes_all = [], []
    corr_errors = []
    src_broken = []
    tags = collections.Counter()
    stages = P.get("stages") or [{"harness": P["harness"], "corr": P["corr"], "corr_src": P.get("corr_src"), "n": P["n"], "shard": P.get("shard", 250)}]
    if not res["go_ok"]:
        corr_errors.append({"what": "go build of harness/hooks against /repo failed", "log": res["go_log"][-3000:]})
    else:
        replay_stage = None
        if a.replay:
            try:
                replay_stage = json.load(open(a.replay)).get("harness")
            except Exception:  # noqa
                replay_stage = None
        # stages marked "background" (long, mostly sleeping) run while the others do
        import threading
        bg = {}
        for st in stages:
            if st.get("background") and not (replay_stage and st["harness"] != replay_stage):
                n = a.n or st["n"][tier]
                box = {}
                th = threading.Thread(target=lambda st=st, n=n, box=box: box.update(
                    r=run_harness(ck, prop, st["harness"], n, seed, tier, rundir, replay=a.replay)))
                th.start()
                bg[st["harness"]] = (th, box)
        for st in sorted(stages, key=lambda st: 1 if st.get("background") else 0):
            if replay_stage and st["harness"] != replay_stage:
                continue
            n = a.n or st["n"][tier]
            try:
                if st["harness"] in bg:
                    th, box = bg[st["harness"]]
                    th.join()
                    rc, o, cases = box["r"]
                else:
                    rc, o, cases = run_harness(ck, prop, st["harness"], n, seed, tier, rundir, replay=a.replay)
                if rc != 0:
                    corr_errors.append({"what": "harness %s exited %d" % (st["harness"], rc), "log": o[-3000:]})
                mod = st["corr"]
                modfile = mod.replace(".", "/") + ".v"
                if not res["vo"].get(modfile, False):
                    corr_errors.append({"what": "correspondence module %s does not compile" % mod})
                    continue
                codes = ck.eval_cases(prop, cases, os.path.join(rundir, st["harness"]), mod, shard=st.get("shard", 250))
                # the translated source run on the same inputs (separate module: the comparison above
                # must still run when a change to the Go code breaks the translation-dependent files)
                smod = st.get("corr_src")
                if smod:
                    if res["vo"].get(smod.replace(".", "/") + ".v", False):
                        scodes = ck.eval_cases(prop, cases, os.path.join(rundir, st["harness"]), smod, shard=st.get("shard", 250), fn="check_src")
                        codes = [a | b for a, b in zip(codes, scodes)]
                    else:
                        src_broken.append(smod)
                for c, code in zip(cases, codes):
                    c["_stage"] = st
                    c["_code"] = code
                cases_all += cases
                codes_all += codes
            except Exception as e:  # noqa
                corr_errors.append({"what": "stage %s failed" % st["harness"], "log": str(e)[-3000:]})

    spec_fail, mismatch, known_hits, spec_model_fail = [], [], [], []
    src_mismatch, src_spec_fail = [], []
    for c in cases_all:
        for t in c.get("tags") or []:
            tags[t] += 1
        code = c["_code"]
        fk = (c.get("extra") or {}).get("finding")
        if code & 2:
            if fk and fk in known_keys:
                known_hits.append(c)
            else:
                spec_fail.append(c)
        elif fk and fk in known_keys and (c.get("extra") or {}).get("expect_fail"):
            # a probe of a known finding that no longer fails: noted in evidence, not an alarm
            pass
        if (code & 1) and not (fk and fk in known_keys):
            mismatch.append(c)
        if code & 4 and not (fk and fk in known_keys):
            spec_model_fail.append(c)
        if code & 8 and not (fk and fk in known_keys):
            src_mismatch.append(c)
        if code & 16 and not (fk and fk in known_keys):
            src_spec_fail.append(c)

    k = 0
    for c in spec_fail[:3]:
        st = c["_stage"]
        ex = ck.explain_case(prop, c, rundir, st["corr"])
        p = write_replay(ck, prop, seed, k, {
            "property": prop, "kind": "spec-violated-on-implementation-trace",
            "clause": "the executable spec predicate of %s (the one the theorems of %s are about) is false on the trace the real code produced" % (st["corr"], thm_file),
            "input": c["input"], "impl": c["impl"], "model_explain": ex, "coq_case": c["coq"],
            "replay_cmd": "./check %s --replay <this file>" % prop, "harness": st["harness"], "seed": seed})
        violations.append(("spec", p, ""))
        k += 1
    # the source as translated now violates the spec predicate on this input UNDER THE MODELLED OUTSIDE WORLD
    # (model/*Ext.v) while the real code, run on the same input, does not: not a failing input of the
    # implementation (a rewrite that calls the outside world under new names has this effect too)
    if not spec_fail:
        for c in src_spec_fail[:2]:
            st = c["_stage"]
            ex = ck.explain_case(prop, c, rundir, st["corr"])
            p = write_replay(ck, prop, seed, k, {
                "property": prop, "kind": "spec-violated-on-translated-source-trace",
                "clause": "the executable spec predicate of %s is false on the trace that the Gallina translation of /repo's current source (coq/translated) produces for this input under the modelled outside world (model/*Ext.v); the implementation, run on the same input, satisfies it - so this names the broken source tie, not a failing input of the real code" % st["corr"],
                "input": c["input"], "impl": c["impl"], "model_explain": ex, "coq_case": c["coq"],
                "replay_cmd": "./check %s --replay <this file>" % prop, "harness": st["harness"], "seed": seed})
            violations.append(("srcspec", p, "no-failing-input-found"))
            k += 1
    if not spec_fail and not src_spec_fail:
        for c in src_mismatch[:1]:
            st = c["_stage"]
            ex = ck.explain_case(prop, c, rundir, st["corr"])
            p = write_replay(ck, prop, seed, k, {
                "property": prop, "kind": "source-tie-broken",
                "correspondence": "%s: the Gallina translation of /repo's current source (coq/translated) departs from the hand-written model on this input; the spec predicate still holds on its trace" % st["corr"],
                "input": c["input"], "impl": c["impl"], "model_explain": ex, "coq_case": c["coq"],
                "replay_cmd": "./check %s --replay <this file>" % prop, "harness": st["harness"], "seed": seed})
            violations.append(("srctie", p, "no-failing-input-found"))
            k += 1
    if not spec_fail:
        for c in mismatch[:2]:
            st = c["_stage"]
            ex = ck.explain_case(prop, c, rundir, st["corr"])
            p = write_replay(ck, prop, seed, k, {
                "property": prop, "kind": "correspondence-broken",
                "correspondence": "%s.check: model trace <> implementation trace (first diverging input below); the spec predicate still holds on this trace" % st["corr"],
                "input": c["input"], "impl": c["impl"], "model_explain": ex, "coq_case": c["coq"],
                "replay_cmd": "./check %s --replay <this file>" % prop, "harness": st["harness"], "seed": seed})
            violations.append(("corr", p, "no-failing-input-found"))
            k += 1
        for c in spec_model_fail[:1]:
            if c in mismatch:
                continue
            p = write_replay(ck, prop, seed, k, {
                "property": prop, "kind": "spec-false-on-model-trace", "input": c["input"], "coq_case": c["coq"]})
            violations.append(("specmodel", p, "no-failing-input-found"))
            k += 1
        for e in corr_errors[:1]:
            p = write_replay(ck, prop, seed, k, {"property": prop, "kind": "correspondence-could-not-run", "detail": e})
            violations.append(("corr-error", p, "no-failing-input-found"))
            k += 1
        if not proof_ok:
            p = write_replay(ck, prop, seed, k, {
                "property": prop, "kind": "proof-obligation-broken", "theorem_file": thm_file, "detail": proof_problem,
                "note": "no input on which the implementation violates the spec predicate was found by this run's search"})
            violations.append(("proof", p, "no-failing-input-found"))
            k += 1

    # extra, property specific stage (crash enumeration, race detector, static agreement...)
    extra_cov = {}
    if P.get("extra") and res["go_ok"]:
        ev, kl, ec = P["extra"](ck, a, rundir, known_keys)
        for (kind, payload, tail) in ev:
            p = write_replay(ck, prop, seed, k, payload)
            violations.append((kind, p, tail))
            k += 1
        known_lines += kl
        extra_cov = ec

    seen_keys = set()
    for c in known_hits:
        fk = c["extra"]["finding"]
        if fk not in seen_keys:
            seen_keys.add(fk)
            known_lines.append("KNOWN-FINDING: property=%s %s [key=%s]" % (prop, known_keys[fk]["text"], fk))

    distinct = len({c.get("key", str(c["id"])) for c in cases_all if c.get("nontriv")})
    samples = [{"input": c["input"], "impl": c["impl"]} for c in cases_all[:2]]
    for s in samples:
        js = json.dumps(s)
        if len(js) > 6000:
            s.clear()
            s["truncated"] = js[:6000]
    cov = {
        "obligations": len(obligations), "discharged": len(discharged) if proof_ok or broken_files else 0,
        "checker_cmd": "coqc 8.16.1 via `make -k -j16` in /verif/coq (full .vo build of %d files: %s) + Print Assumptions on every Theorem of %s"
                       % (len(files), " ".join(files), thm_file) + ("; coqchk -silent -o on the property's .vo" if tier == "thorough" else ""),
        "trusted_base": P["trusted_base"],
        "print_assumptions": ax_text[-3000:],
        "axioms": axioms,
        "theorems": [o for o in obligations if o.startswith(thm_file)],
        "evaluations": len(cases_all), "distinct_nontrivial": distinct,
        "traces_validated_against_impl": sum(1 for c in cases_all if not (c["_code"] & 1)),
        "rule": P["rule"], "samples": samples or [{"note": "no correspondence cases in this run"}],
        "input_distribution": dict(tags.most_common(60)),
        "model_mismatches": len(mismatch), "spec_failures_on_impl": len(spec_fail),
        "source_run_modules_not_compiling": src_broken,
        "translated_source_mismatches": len(src_mismatch), "spec_failures_on_translated_source": len(src_spec_fail),
        "known_finding_probes_reproduced": sorted(seen_keys),
        "translator": res.get("tr_log", ""),
    }
    cov.update(extra_cov)

    if tier == "thorough" and proof_ok:
        vo = thm_file[:-2].replace("/", ".")
        rc, o = ck.sh("timeout 3400 coqchk -silent -o -Q %s TR TR.%s 2>&1 | tail -40" % (ck.COQ, vo), cwd=ck.COQ)
        cov["coqchk"] = o[-3000:]
        if rc != 0 or "Error" in o:
            p = write_replay(ck, prop, seed, k, {"property": prop, "kind": "coqchk-failed", "output": o[-3000:]})
            violations.append(("coqchk", p, "no-failing-input-found"))

    ev = {
        "property_id": prop, "tier": tier, "seed": seed, "level": P.get("level", "proof"),
        "coverage": cov, "assumptions": P["trusted_base"], "wall_s": round(time.time() - t0, 2),
        "violations": len(violations),
    }
    os.makedirs(os.path.join(ck.ROOT, "evidence"), exist_ok=True)
    with open(os.path.join(ck.ROOT, "evidence", prop + ".json"), "w") as f:
        json.dump(ev, f, indent=1)

    for l in known_lines:
        print(l)
    print("%s tier=%s seed=%d: obligations %d/%d, cases %d (nontrivial distinct %d), model mismatches %d, spec failures %d, wall %.1fs"
          % (prop, tier, seed, cov["discharged"], cov["obligations"], len(cases_all), distinct, len(mismatch), len(spec_fail), time.time() - t0))
    if violations:
        for kind, p, tail in violations:
            print("VIOLATION property=%s replay=%s %s" % (prop, p, tail))
        return 1
    return 0
