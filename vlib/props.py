"""Per-property configuration of the checks."""

TB_COMMON = [
    "Coq 8.16.1 kernel + coqc (full .vo build); vm_compute for evaluating models/specs on cases; no native_compute",
    "no axioms declared by the development (grep gate on every run); Print Assumptions output of every property theorem recorded in this file",
    "two ties to /repo, both checked on every run: (1) source-tie theorems (proofs/Tie*.v) proving that the Gallina translation of the current Go source computes what the hand-written model computes, for all inputs; "
    "(2) differential runs of the real Go code (harness built from /repo's working tree with -tags verif) against the model on generated inputs - generator reach bounds this second tie, which also covers the code outside the translated files",
    "translator /verif/translate (Go over go/ast, ~4000 lines): main.go reads constants and wiring expressions into coq/Extracted.v; fn.go and its companion files translate, function by function, "
    "frameloop.go, motionprocessor.go, motion.go, motionconfig.go, throttled_recorder.go, throttled_event_recorder.go, throttle/config.go, recorderconfig.go, loglimiter.go, headerinfo.go, "
    "cmd/thermal-recorder/{main.go (handleConn, frameParser, runMain's start-up and accept loop), cptvfilerecorder.go, boson.go, snapshot.go, service.go, config.go}, cmd/thermal-writer/thermalraw.go and "
    "cmd/leptond/main.go (the sender) syntactically into coq/translated/*.v on every run - trusted to be a faithful reading of the Go subset "
    "(int as Z without overflow, frames as handles, slices by value, left-to-right evaluation, defer order; constructs it does not know are refused loudly); every call leaving the translated code is an external call whose meaning "
    "is given by the hand-written handlers model/*Ext.v (modelling assumptions, validated by running translated code + handler, hand-written model and the real Go code on the same inputs; a call a handler has no clause for is logged as a bad call, never a silent no-op)",
    "Go runtime/stdlib and the libraries (go-cptv, lepton3, ratelimit, window, go-config, yaml, dbus) trusted / hand-modelled; int overflow at 2^63 out of scope; thorough tier: coqchk -o on the property's .vo",
]

PROC_TB = TB_COMMON + [
    "processor family: the detector's verdict per frame is observed through RecordingListener.MotionDetected and fed to the model as an input bit; "
    "frames carry their id in two border pixels through an injected FrameParser; sinks are scripted recorder.Recorder implementations; "
    "window.Window.Now is injected (the real window library answers)",
]
PROC_RULE = ("event lists (20-200 accepted frames; motion bits from a run-length grammar with runs of trigger-1/trigger/trigger+1, gaps of min-1/min/min+1, "
             "sustained motion past max, re-triggers within pre-trigger reach; bad frames, resets, test-recording requests; window boundaries; fps in {1,2,3,9}, "
             "preview 0-3 s, trigger 0-4, min 0-3 s, max min..5 s) run through the real MotionProcessor.Process; %s; "
             "non-trivial = at least two motion recordings; distinct by configuration + event/motion string")


def proc(corr, harness, thm, faults):
    return {"stages": [{"harness": harness, "corr": corr, "corr_src": corr + "src", "n": {"quick": 400, "thorough": 4000}, "shard": 20}],
            "theorems": thm, "rule": PROC_RULE % faults, "trusted_base": PROC_TB}


DET_TB = TB_COMMON + [
    "detector family: float32/float64 arithmetic modelled bit-exactly with the standard library's SpecFloat (binary32/binary64, round-to-nearest-even); "
    "Go's float conversions uint16->float, float64->uint16 (truncation) and math.Max/Min on non-NaN values trusted to be IEEE-754; "
    "detector internals (threshold, background, weights) read through the verif hook",
]
DET_RULE = ("frame streams (8-35 events) on grids 5x4..12x9 (dynamic threshold: 5x4..7x6), edge 0-2, gap 1-5, all four one-diff/warmer-only combinations, "
            "delta in {0,1,10,50,200}, count 1-4, pixel values planted at temp-thresh-1/=/+1, +delta-1/=/+1, 0 and 65535, FFC events (periods of 1-10 frames), resets; %s; "
            "non-trivial = the stream has both motion and no-motion verdicts; distinct by configuration + verdict/shape string")


def det(corr, harness, thm, what):
    return {"stages": [{"harness": harness, "corr": corr, "corr_src": corr + "src", "n": {"quick": 300, "thorough": 4000}, "shard": 20}],
            "theorems": thm, "rule": DET_RULE % what, "trusted_base": DET_TB}


THR_TB = TB_COMMON + [
    "throttle: juju/ratelimit v1.0.1 modelled line by line (currentTick, adjustavailableTokens with its early return, takeAvailable, available); "
    "NewBucketWithRateAndClock's float search for (quantum, fillInterval) is NOT modelled: the three integers are read from the real bucket through the verif hook, "
    "and the one fact used about them (rate_ok: at most 1.010000001 x the configured rate) is checked in exact integer arithmetic on every case; "
    "ratelimit.Clock is injected; clock assumed non-decreasing (monotone); int64 overflow of (tick-latestTick)*quantum out of scope",
]
THR_RULE = ("request schedules (40-180 calls) from a grammar (idle gaps of 0, fi-1, fi, fi+1, k*fi+-1, full-refill idles; triggers of 0, minlen+-1, cap+-2, cap+minlen+ frames; "
            "clock read twice per restarting write) with bucket 1-60 s, refill 1 s..2 h, min+preview 1-15 s, fps 1-9, base-recorder failures 0-20 %%; 1 in 8 schedules is an arbitrary "
            "(non-conforming) call sequence; %s; non-trivial = at least one 'throttled' event and one forwarded frame; distinct by parameters + base-call string")

PROPS = {
    "C01": proc("corr.C01", "PROC", "props/C01.v", "refused starts and stop failures on the motion sink, no write faults; compared projection: motion-sink starts/stops/ids; spec S01 && S02"),
    "C02": proc("corr.C02", "PROC", "props/C02.v", "refused starts and stop failures, no write faults; compared projection: motion-sink starts/stops/ids; spec S02 (first id of every recording)"),
    "C03": dict(proc("corr.C03", "PROC", "props/C03.v", "refused starts and stop failures; second stage: the fault histories of C12 (write faults on every sink, 1-20 %) judged by the same spec - a failed write still counts towards the length; compared projection: per event started/stopped; spec S03 (stop iff position >= limit)"),
                **{"stages": [{"harness": "PROC", "corr": "corr.C03", "corr_src": "corr.C03src", "n": {"quick": 400, "thorough": 4000}, "shard": 20},
                              {"harness": "PROCFAULT", "corr": "corr.C03", "corr_src": "corr.C03src", "n": {"quick": 40, "thorough": 1500}, "shard": 20}]}),
    "C04": dict(proc("corr.C04", "PROC", "props/C04.v", "refused starts at every gate; compared projection: window consultations, gate calls, stops; spec S04; the real window library is run next to window_active"),
                **{"stages": [{"harness": "PROC", "corr": "corr.C04", "corr_src": "corr.C04src", "n": {"quick": 400, "thorough": 4000}, "shard": 20},
                              {"harness": "E2E", "corr": "corr.E2E14", "n": {"quick": 10, "thorough": 150}, "shard": 1}]}),
    "C05": {"stages": [{"harness": "THROTTLE", "corr": "corr.C05", "corr_src": "corr.C05src", "n": {"quick": 300, "thorough": 5000}, "shard": 18},
                       {"harness": "E2ETHR", "corr": "corr.C18lag", "n": {"quick": 2, "thorough": 12}, "shard": 8}],
            "theorems": "props/C05.v", "rule": THR_RULE % "spec: all O(n^2) windows of forwarded-write timestamps within cap+1+q*(floor((b-a)/fi)+1), cap = bucket frames, minlen = (min+preview)*fps, rate_ok",
            "trusted_base": THR_TB},
    "C06": {"stages": [{"harness": "THROTTLE", "corr": "corr.C06", "corr_src": "corr.C06src", "n": {"quick": 300, "thorough": 5000}, "shard": 18}],
            "theorems": "props/C06.v", "rule": THR_RULE % "spec S06 (transparent / paired / cut length / one event) on conforming schedules",
            "trusted_base": THR_TB},
    "C19": {
        "harness": "C19", "corr": "corr.C19", "corr_src": "corr.C19src", "n": {"quick": 600, "thorough": 6000},
        "theorems": "props/C19.v",
        "rule": "random op sequences over {put,move,mark,reset} for capacities 1..9 run on the real FrameLoop (weights favouring wrap-1/=/+1, marks at every phase, Reset, "
                "moves without put); non-trivial = the ring wrapped at least once AND a mark or reset occurred; distinct by (size, op-kind string)",
        "trusted_base": TB_COMMON + ["frames are tagged by a sequence number in two pixels; CreateCopy/copy of pixel rows trusted"],
    },
    "C20": {
        "harness": "C20", "corr": "corr.C20", "corr_src": "corr.C20src", "n": {"quick": 800, "thorough": 20000},
        "theorems": "props/C20.v",
        "rule": "histories of (message, time) over 5 messages incl. the empty one, intervals {0,1ns,1s,1min,90min}, gaps at interval-1ns/interval/"
                "interval+1ns, zero, negative (non-monotone clock), 300-year jumps (saturating Sub), starts at Go's zero time; through Print and Printf; "
                "non-trivial = at least one suppressed and two printed messages; distinct by full history",
        "trusted_base": TB_COMMON + ["messages are identified by small integers (injective map to the strings the harness prints); fmt.Sprintf and log.Print trusted; "
                                     "the captured line must equal the message byte for byte (observation code 2 otherwise)"],
    },
    "C07": det("corr.C07", "DET07", "props/C07.v", "fixed threshold, FFC-free streams with resets; spec S07 (history-based verdict) on the implementation's verdicts"),
    "C08": dict(det("corr.C08", "DET08", "props/C08.v", "paired streams differing only in border pixels (fixed and dynamic threshold) or only in pixels at/below temp-thresh (fixed); both streams run on real detectors; spec: equal verdicts, thresholds, interior background || parser half: raw Lepton/Boson frames with zeros planted on every border ring (and just inside it) through the real parsers: a border pixel never makes a frame bad"),
                **{"stages": [{"harness": "DET08", "corr": "corr.C08", "corr_src": "corr.C08src", "n": {"quick": 300, "thorough": 4000}, "shard": 20},
                              {"harness": "PARSE", "corr": "corr.C13p", "n": {"quick": 300, "thorough": 6000}, "shard": 60}]}),
    "C09": det("corr.C09", "DET09", "props/C09.v", "streams with FFC events at every offset/parity, resets, fixed and dynamic threshold; paired same-shape streams agreeing from the first affected frame of an FFC period; spec S09_supp + equal verdicts from the pairing point"),
    "C12": proc("corr.C12", "PROCFAULT", "props/C12.v", "failures (1-20 %) on every kind of call of all three sinks, continuous recorder on/off; each history ends with a fault-free recovery tail "
                "(max+1 motionless frames, then max(1,trigger) motion frames, window open); compared projection: all calls with ids erased + panics; spec S12 && S12_recovers"),
    "C13": {"stages": [{"harness": "PROCFAULT", "corr": "corr.C13", "corr_src": "corr.C13src", "n": {"quick": 300, "thorough": 3000}, "shard": 20},
                       {"harness": "PARSE", "corr": "corr.C13p", "n": {"quick": 300, "thorough": 6000}, "shard": 60},
                       {"harness": "E2E", "corr": "corr.E2E14", "n": {"quick": 5, "thorough": 100}, "shard": 1}],
            "theorems": "props/C13.v",
            "rule": (PROC_RULE % "faults on all sinks, bad frames at rate 0-20 % incl. doubled bad frames; full trace compared; spec S13") +
                    " || parser stage: raw Lepton/Boson frames 2x2..8x7, edge 0-4, zeros planted per position class (border, first/last interior pixel, just inside/outside the border), "
                    "extreme values, random telemetry words, through the real lepton3.ParseRawFrame / convertRawBosonFrame (driver binary); non-trivial = contains a zero pixel"
                    " || handleConn's bad-frame branch (event + camera-restart request, failing fast without D-Bus) inside end-to-end sessions with bad frames: the frames each file holds",
            "trusted_base": PROC_TB + ["parser stage: frames are parsed into a fresh (zeroed) frame by the driver; temperatures compared as float64 bit patterns; encoding/binary trusted"]},
    "C15": det("corr.C15", "DET15", "props/C15.v", "dynamic threshold with all four unset/set combinations of temp-thresh-min/max, scene mean below/inside/above the range, slow warming, preview 0-3 frames; "
               "background (all pixels), weights (checksum of float32 bit patterns), threshold and backgroundFrames compared after every frame; spec S15"),
    "C17": proc("corr.C17", "PROC", "props/C17.v", "fault-free continuous and test sinks, motion-sink refusals; compared projection: continuous and test sinks; spec S17c && S17t"),
    "C18": {"stages": [{"harness": "WRITER", "corr": "corr.C18", "n": {"quick": 36, "thorough": 400}, "shard": 3},
                       {"harness": "WRITERLAG", "corr": "corr.C18lag", "n": {"quick": 1, "thorough": 8}, "shard": 8},
                       {"harness": "WRITERRACE", "corr": "corr.C18lag", "n": {"quick": 1, "thorough": 4}, "shard": 8, "background": True},
                       {"harness": "WRECONN", "corr": "corr.C18lag", "n": {"quick": 2, "thorough": 8}, "shard": 8, "background": True},
                       {"harness": "WRITERROT", "corr": "corr.C18lag", "n": {"quick": 1, "thorough": 4}, "shard": 8, "background": True}],
            "theorems": "props/C18.v",
            "level_text": "Coq theorems on a transition system of handleConn's reader loop and the writer goroutine (every schedule) and on the CPTR byte encoder/parser - partial: real goroutine "
                          "scheduling and the channel implementation are outside the theorem; tied by running the real code with GOMAXPROCS 1..16, random read segmentations and an strace-stalled writer.",
            "rule": "connections to the real thermal-writer handleConn/writer (driver binary): frame sizes 1-32 bytes (Coq-evaluated byte-for-byte) with 0-520 frames (more than 2 x 256 in flight), "
                    "GOMAXPROCS in {1,2,4,16}, random read segmentations (1 byte .. several frames), truncated last frame; every third case is ONE writer process serving three connections in a row "
                    "(the camera reconnects at once, the second time as a camera with another frame size), each connection judged like a single one from the files that appeared while it was served; lag stage: 600-800 frames of 128 KB with every write system call of the daemon "
                    "delayed 0.7 s by strace so that the 256-deep queue fills and drains (judged by the harness' own CPTR parser: files too large for Coq); rotation stage: one connection kept open for 63 s "
                    "(240-280 small frames trickling in) so that the writer starts a second file after newFileInterval, then the camera disconnects: at least two files, all frames once, in order, flushed; non-trivial = at least 2 frames / backlog > 10 logged; distinct by (size, count, content seed) || reconnection stages: one process, 34-41 connections of a 60 fps camera, and 258-267 connections (more than the 256 buffers a connection circulates), handleConn must return within 30 s of the disconnect; every third WRITER case is one process serving three connections (also accepted WITHOUT waiting for the previous writer goroutine), frame sizes differ || race stage: the writer built with the Go race detector, a burst, 5.6 s of silence, disconnect: no data race reported",
            "trusted_base": TB_COMMON + ["Go channels are FIFO and close() delivers buffered items first; bufio/os file writes; an unused file name is picked per file (fix d06182c)"]},
    "C10": {"stages": [{"harness": "FILEREC", "corr": "corr.C10", "n": {"quick": 1, "thorough": 1}, "shard": 40},
                       {"harness": "RECHDR", "corr": "corr.C18lag", "n": {"quick": 12, "thorough": 200}, "shard": 50}],
            "theorems": "props/C10.v",
            "level_text": "Coq theorems on a file life-cycle model (every prefix of every well-formed call sequence; recovery) - partial: the kernel's file-system behaviour is outside the theorem "
                          "and is tied to the model by fault enumeration on the real recorder: SIGKILL injected by strace at every system call of scripted scenarios, the real start-up clean-up run afterwards, "
                          "every *.cptv fully decoded; plus namespace-operation traces compared with the model's step expansion and a concurrent observer.",
            "rule": "3 scenarios (5 in the thorough tier, with 400-frame recordings that flush the scratch file) on the real CPTVFileRecorder (motion recorder: two finished + one open recording; "
                    "constant recorder; Stop() on connection loss): one case per (system call name, k): the driver is killed on entering that call, the tree is listed and every .cptv decoded, the real "
                    "deleteTempFiles runs in a fresh process, listed and decoded again; one case per observation of a concurrent observer; one namespace-trace case per scenario; "
                    "non-trivial = killed with temporaries present; distinct by (scenario, system call, k) || failed-header stage: the real recorder with a configured device name of 256 / 300 bytes (the CPTV header cannot be written): every StartRecording must fail, a following StopRecording must not give anything a .cptv name, the start-up clean-up removes what is left (header-failure runs); and with valid names: sequences of recordings with starts failing at file creation, every finished file decoded || a kill scenario with TWO recorders on one directory (a test recording made while a motion recording is open: an unfinished file older than a finished one), one whose output directory is a symbolic link; one recording of 65 600 frames followed at once by the next",
            "trusted_base": TB_COMMON + ["strace 6.x inject=...:signal=KILL delivers the kill on entry of the selected system call; power-loss durability, partial write() calls and disk-full are not covered; "
                                         "distinct recordings get distinct millisecond time stamps (hypothesis wf_calls; the harness waits 2 ms between recordings)",
                                         "go-cptv's reader is the decoder: a file 'decodes' if every frame reads without error up to EOF and the count equals the header's NumFrames"]},
    "C16": {"stages": [{"harness": "RACE", "corr": "corr.C16", "n": {"quick": 1, "thorough": 1}, "shard": 20},
                       {"harness": "TESTREC", "corr": "corr.C18lag", "n": {"quick": 4, "thorough": 16}, "shard": 8},
                       {"harness": "PROCSNAP", "corr": "corr.C18lag", "n": {"quick": 150, "thorough": 2000}, "shard": 100}],
            "theorems": "props/C16.v",
            "level_text": "Coq theorem on an interleaving model (every schedule of the frame loop and a snapshot requester over ring + mutex: the copy is one whole frame) - partial; "
                          "the data-race clause is a finite access table decided by vm_compute and tied to the code by the Go race detector (level 'other' for that clause): "
                          "a reported race outside the table is a violation, the four in it are known findings.",
            "rule": "the real handleConn fed 300 (thorough: 3000) uniform-valued frames per connection over a unix socket while 6-8 requester goroutines call TakeSnapshot / TakeTestRecording / CameraInfo "
                    "(driver mode race): (1) ring capacity 11, two connections: snapshots must be uniform; (2) ring capacity 1 (known finding); (3) race-detector build, two connections: "
                    "one case per racy variable reported; non-trivial = more than 100 snapshots taken / a race reported; distinct by case kind || test-recording stage (driver mode snapseq, 4 shapes: continuous recorder on; dynamic threshold off + throttle on with a 6 s bucket; the camera reconnecting with ONE request per connection at the same frame count; a scene that is motion all the time so that test recordings overlap motion recordings): one finished file of exactly 21 consecutive frames per request, background = the detector's || sequential freshness probe also after a BAD frame || snapshot-source stage: the C12 fault histories on the real processor, after every accepted frame GetRecentFrame() hands back that frame",
            "trusted_base": TB_COMMON + ["Go memory model effects beyond sequential consistency and scheduler fairness are outside the model; the race detector finds only races that occur in the run; "
                                         "race reports are classified into variables by the functions and source lines of the two top frames"]},
    "C11": {"stages": [{"harness": "E2E", "corr": "corr.E2E11", "n": {"quick": 16, "thorough": 200}, "shard": 1},
                       {"harness": "E2ETHR", "corr": "corr.C18lag", "n": {"quick": 2, "thorough": 12}, "shard": 8},
                       {"harness": "RECHDR", "corr": "corr.C18lag", "n": {"quick": 12, "thorough": 200}, "shard": 50},
                       {"harness": "TESTREC", "corr": "corr.C18lag", "n": {"quick": 4, "thorough": 16}, "shard": 8},
                       {"harness": "CODEC", "corr": "corr.C11codec", "n": {"quick": 300, "thorough": 10000}, "shard": 50},
                       {"harness": "CPTVHDR", "corr": "corr.C11hdr", "n": {"quick": 150, "thorough": 3000}, "shard": 30}],
            "theorems": "props/C11.v",
            "level_text": "Coq theorems for the field/section layer, the header view, the frame fields and the pixel codec (lossless for all 16-bit frames) - partial: gzip and TOML/YAML decoding are "
                          "not modelled; tied by byte-exact comparison with the real go-cptv writer/compressor and by end-to-end sessions through the real daemon code.",
            "rule": "end-to-end sessions: generated config.toml (min/max/preview secs or defaults, trigger frames, throttle off / transparent / impossible, constant recorder, window none / closed, min-disk-space 0 / huge, device id/name, location, 11 motion keys each written or left to the camera-model default for lepton3 / lepton3.5 / boson), camera header encoded as the camera daemon does, 60-180 frames (8x6..16x12, a flickering hot blob that appears/moves/disappears, FFC events, bad frames, 'clear' markers, extreme values) sent in random chunk sizes over a unix socket to the real ParseConfig + handleConn (driver binary), every finished .cptv decoded with the standard reader and compared with model/System.v: per file threshold, background, frame ids; frame contents (pixels, times, temperatures) and header view compared by the harness || codec stage: frame sequences 1x1..7x6 (constant, identical-to-previous, 0/65535 alternation, random) through the real Compressor: bit width and bytes compared, "
                    "the model's decompressor applied to the implementation's bytes || header stage: real Writer header / frame fields (gunzipped) for strings of 0..300 bytes, ids/serials at cast boundaries, "
                    "signed zeros, durations around 2^32 ms; non-trivial = files produced / more than one frame / header written; distinct by input",
            "trusted_base": TB_COMMON + ["gzip (compress/gzip), viper/toml/mapstructure, yaml.v2 trusted; the expected effective configuration (defaults per camera model) is the harness' own table; "
                                         "file names have millisecond resolution: the harness paces frames (SIOCOUTQ) so that recordings get distinct names"]},
    "C14": {"stages": [{"harness": "HEADER", "corr": "corr.C14h", "n": {"quick": 300, "thorough": 5000}, "shard": 40},
                       {"harness": "E2E", "corr": "corr.E2E14", "n": {"quick": 6, "thorough": 150}, "shard": 1},
                       {"harness": "INBAND", "corr": "corr.E2E14", "n": {"quick": 1, "thorough": 1}, "shard": 1},
                       {"harness": "RECONN", "corr": "corr.C18lag", "n": {"quick": 2, "thorough": 8}, "shard": 8}],
            "theorems": "props/C14.v",
            "level_text": "Coq theorems on a reader model over chunked byte streams (chunking irrelevant, round trip, truncation errors) + static agreement of both daemons' constants from the Go AST - partial: "
                          "the YAML codec enters as validated hypotheses; tied by the real ReadHeaderInfo on arbitrary segmentations and by end-to-end sessions through the real handleConn.",
            "rule": "header stage: camera descriptions with YAML-hostile strings (1.2, true, ~, leading/trailing spaces, '#', ': ', unicode, empty) encoded by yaml.v1 Marshal of the map exactly as cmd/leptond does, read by the real "
                    "ReadHeaderInfo from a reader returning arbitrary chunk sizes (1 byte .. 4096), with trailing data, plus EVERY truncation point || stream stage: end-to-end sessions: generated config.toml (min/max/preview secs or defaults, trigger frames, throttle off / transparent / impossible, constant recorder, window none / closed, min-disk-space 0 / huge, device id/name, location, 11 motion keys each written or left to the camera-model default for lepton3 / lepton3.5 / boson), camera header encoded as the camera daemon does, 60-180 frames (8x6..16x12, a flickering hot blob that appears/moves/disappears, FFC events, bad frames, 'clear' markers, extreme values) sent in random chunk sizes over a unix socket to the real ParseConfig + handleConn (driver binary), every finished .cptv decoded with the standard reader and compared with model/System.v: per file threshold, background, frame ids; frame contents (pixels, times, temperatures) and header view compared by the harness (compared projection: frame ids per file) || "
                    "one probe of the known in-band-marker finding; non-trivial = split into more than one read / files produced; distinct by description + chunking || reconnection stage: ONE daemon process serving 34-41 (thorough: 70) connections of a 60 / 30 / 9 fps camera in a row: every connection served like the first, the process must not die || header lines of 4095..4098 bytes, values other YAML dialects read as non-strings, long and multi-line values || a bad frame sent in one piece with the two items after it",
            "trusted_base": TB_COMMON + ["yaml.v1 Marshal/Unmarshal: assumed decode(encode d) = d and encoder output ends with newline and has no blank line (header_text_ok evaluated on every generated header); bufio/io.ReadFull semantics = byte stream"]},
    "C15": {"stages": [{"harness": "DET15", "corr": "corr.C15", "corr_src": "corr.C15src", "n": {"quick": 300, "thorough": 4000}, "shard": 20},
                       {"harness": "E2E", "corr": "corr.E2E15", "n": {"quick": 6, "thorough": 150}, "shard": 1},
                       {"harness": "E2ETHR", "corr": "corr.C18lag", "n": {"quick": 2, "thorough": 12}, "shard": 8}],
            "theorems": "props/C15.v",
            "rule": (DET_RULE % "dynamic threshold with all four unset/set combinations of temp-thresh-min/max, scene mean below/inside/above the range, slow warming, preview 0-3 frames; background (all pixels), weights (checksum of float32 bit patterns), threshold and backgroundFrames compared after every frame; spec S15") +
                    " || start-arguments clause: end-to-end sessions: generated config.toml (min/max/preview secs or defaults, trigger frames, throttle off / transparent / impossible, constant recorder, window none / closed, min-disk-space 0 / huge, device id/name, location, 11 motion keys each written or left to the camera-model default for lepton3 / lepton3.5 / boson), camera header encoded as the camera daemon does, 60-180 frames (8x6..16x12, a flickering hot blob that appears/moves/disappears, FFC events, bad frames, 'clear' markers, extreme values) sent in random chunk sizes over a unix socket to the real ParseConfig + handleConn (driver binary), every finished .cptv decoded with the standard reader and compared with model/System.v: per file threshold, background, frame ids; frame contents (pixels, times, temperatures) and header view compared by the harness (compared projection: threshold and background stored with each recording = the model detector's values after the trigger frame)",
            "trusted_base": DET_TB + ["theorem C15_background_and_threshold depends on the standard library's classical real-number axioms through Flocq (named in Print Assumptions); C15_partial is the axiom-free form with the four IEEE-754 facts as hypotheses"]},
    "C17": {"stages": [{"harness": "PROC", "corr": "corr.C17", "corr_src": "corr.C17src", "n": {"quick": 400, "thorough": 4000}, "shard": 20},
                       {"harness": "E2E", "corr": "corr.E2E14", "n": {"quick": 16, "thorough": 150}, "shard": 1},
                       {"harness": "TESTREC", "corr": "corr.C18lag", "n": {"quick": 4, "thorough": 16}, "shard": 8},
                       {"harness": "RECHDR", "corr": "corr.C18lag", "n": {"quick": 3, "thorough": 40}, "shard": 50}],
            "theorems": "props/C17.v",
            "rule": (PROC_RULE % "fault-free continuous and test sinks, motion-sink refusals; compared projection: continuous and test sinks; spec S17c && S17t") +
                    " || wiring: end-to-end sessions: generated config.toml (min/max/preview secs or defaults, trigger frames, throttle off / transparent / impossible, constant recorder, window none / closed, min-disk-space 0 / huge, device id/name, location, 11 motion keys each written or left to the camera-model default for lepton3 / lepton3.5 / boson), camera header encoded as the camera daemon does, 60-180 frames (8x6..16x12, a flickering hot blob that appears/moves/disappears, FFC events, bad frames, 'clear' markers, extreme values) sent in random chunk sizes over a unix socket to the real ParseConfig + handleConn (driver binary), every finished .cptv decoded with the standard reader and compared with model/System.v: per file threshold, background, frame ids; frame contents (pixels, times, temperatures) and header view compared by the harness || test recordings through the real wiring: service.TakeTestRecording() called after every k-th completed frame of a connection fed one uniform frame at a time (driver mode snapseq): one finished file per request holding exactly the 21 following frames, no temporaries left (compared projection of the sessions: frame ids of every file in constant-recordings/ and in the output directory - the continuous recorder tiles the stream and leaves the motion recorder's files alone - with throttling / window / disk refusals active on the motion recorder) || recorder stage: the real CPTVFileRecorder: sequences of recordings with failing starts, a device name the header cannot hold, and one recording of 65 600 frames followed at once by the next: every finished file decodes to exactly its frames",
            "trusted_base": PROC_TB},
}
