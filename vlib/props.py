"""Per-property configuration of the checks."""

TB_COMMON = [
    "Coq 8.16.1 kernel + coqc; vm_compute for evaluating models/specs on cases; no native_compute",
    "no axioms declared by the development (grep gate); Print Assumptions output recorded in this file",
    "hand-written Gallina model tied to /repo by differential runs of the real Go code (harness built from /repo's working tree with -tags verif); generator reach bounds the tie",
    "Go runtime/stdlib, int overflow at 2^63 out of scope",
]

PROPS = {
    "C19": {
        "harness": "C19", "corr": "corr.C19", "n": {"quick": 400, "thorough": 6000},
        "theorems": "props/C19.v",
        "rule": "random op sequences over {put,move,mark,reset} for capacities 1..9 run on the real FrameLoop; "
                "non-trivial = the ring wrapped at least once AND a mark or reset occurred; distinct by (size, op-kind string)",
        "trusted_base": TB_COMMON + ["frames are tagged by a sequence number in two pixels; CreateCopy/copy of pixel rows trusted"],
    },
    "C20": {
        "harness": "C20", "corr": "corr.C20", "n": {"quick": 500, "thorough": 20000},
        "theorems": "props/C20.v",
        "rule": "histories of (message, time) over 5 messages incl. the empty one, intervals {0,1ns,1s,1min,90min}, gaps at interval-1ns/interval/"
                "interval+1ns, zero, negative (non-monotone clock), 300-year jumps (saturating Sub), starts at Go's zero time; through Print and Printf; "
                "non-trivial = at least one suppressed and two printed messages; distinct by full history",
        "trusted_base": TB_COMMON + ["messages are identified by small integers (injective map to the strings the harness prints); fmt.Sprintf and log.Print trusted; "
                                     "the captured line must equal the message byte for byte (observation code 2 otherwise)"],
    },
    "C01": {"stages": [{"harness": "PROC", "corr": "corr.C01", "n": {"quick": 300, "thorough": 4000}, "shard": 25}],
            "theorems": "props/C19.v", "rule": "x", "trusted_base": TB_COMMON},
    "C02": {"stages": [{"harness": "PROC", "corr": "corr.C02", "n": {"quick": 300, "thorough": 4000}, "shard": 25}],
            "theorems": "props/C19.v", "rule": "x", "trusted_base": TB_COMMON},
    "C03": {"stages": [{"harness": "PROC", "corr": "corr.C03", "n": {"quick": 300, "thorough": 4000}, "shard": 25}],
            "theorems": "props/C19.v", "rule": "x", "trusted_base": TB_COMMON},
    "C04": {"stages": [{"harness": "PROC", "corr": "corr.C04", "n": {"quick": 300, "thorough": 4000}, "shard": 25}],
            "theorems": "props/C19.v", "rule": "x", "trusted_base": TB_COMMON},
    "C12": {"stages": [{"harness": "PROCFAULT", "corr": "corr.C12", "n": {"quick": 300, "thorough": 4000}, "shard": 25}],
            "theorems": "props/C19.v", "rule": "x", "trusted_base": TB_COMMON},
    "C13": {"stages": [{"harness": "PROCFAULT", "corr": "corr.C13", "n": {"quick": 300, "thorough": 4000}, "shard": 25}],
            "theorems": "props/C19.v", "rule": "x", "trusted_base": TB_COMMON},
    "C17": {"stages": [{"harness": "PROC", "corr": "corr.C17", "n": {"quick": 300, "thorough": 4000}, "shard": 25}],
            "theorems": "props/C19.v", "rule": "x", "trusted_base": TB_COMMON},
    "C05": {"stages": [{"harness": "THROTTLE", "corr": "corr.C05", "n": {"quick": 300, "thorough": 5000}, "shard": 25}],
            "theorems": "props/C19.v", "rule": "x", "trusted_base": TB_COMMON},
    "C06": {"stages": [{"harness": "THROTTLE", "corr": "corr.C06", "n": {"quick": 300, "thorough": 5000}, "shard": 25}],
            "theorems": "props/C19.v", "rule": "x", "trusted_base": TB_COMMON},
    "C07": {"stages": [{"harness": "DET07", "corr": "corr.C07", "n": {"quick": 200, "thorough": 4000}, "shard": 20}],
            "theorems": "props/C19.v", "rule": "x", "trusted_base": TB_COMMON},
    "C08": {"stages": [{"harness": "DET08", "corr": "corr.C08", "n": {"quick": 200, "thorough": 4000}, "shard": 20}],
            "theorems": "props/C19.v", "rule": "x", "trusted_base": TB_COMMON},
    "C09": {"stages": [{"harness": "DET09", "corr": "corr.C09", "n": {"quick": 200, "thorough": 4000}, "shard": 20}],
            "theorems": "props/C19.v", "rule": "x", "trusted_base": TB_COMMON},
    "C15": {"stages": [{"harness": "DET15", "corr": "corr.C15", "n": {"quick": 200, "thorough": 4000}, "shard": 20}],
            "theorems": "props/C19.v", "rule": "x", "trusted_base": TB_COMMON},
}
