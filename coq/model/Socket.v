(* Model of the frame socket's reader side: headers.ReadHeaderInfo (lines up to the first
   blank line from the shared bufio.Reader, then YAML) and handleConn's frame loop (read 5
   bytes, compare with the 'clear' marker, else read the rest of the frame).

   The connection is a list of chunks - what successive Read calls return, any sizes.  The
   YAML codec is not modelled: it enters the theorems as Section variables with the two facts
   assumed about it (decode after encode is the identity; the encoder's output has no blank
   line and ends in a newline), both validated against the real yaml.v1 on every run. *)
From Coq Require Import List ZArith Bool.
Import ListNotations.
Open Scope Z_scope.

Definition bytes := list Z.
Definition NL : Z := 10.
Definition SP : Z := 32.

(* ---------- byte-stream primitives over chunk lists ---------- *)

(* io.ReadFull(reader, buf[:n]): exactly n bytes, or failure (EOF / unexpected EOF) *)
Fixpoint take_c (n : nat) (cs : list bytes) {struct cs} : option (bytes * list bytes) :=
  match n with
  | O => Some ([], cs)
  | S _ =>
    match cs with
    | [] => None
    | c :: r =>
      if Nat.ltb (length c) n then
        (* the whole chunk is consumed and more is needed *)
        match take_c (n - length c) r with
        | Some (h, rest) => Some (c ++ h, rest)
        | None => None
        end
      else Some (firstn n c, skipn n c :: r)
    end
  end.

(* reader.ReadString('\n'): bytes up to and including the first newline; None when the
   connection ends first (the Go call then returns an error together with the partial data) *)
Fixpoint line_in (c : bytes) : option (bytes * bytes) :=
  match c with
  | [] => None
  | b :: r => if b =? NL then Some ([b], r)
              else match line_in r with
                   | Some (l, rest) => Some (b :: l, rest)
                   | None => None
                   end
  end.

Fixpoint line_c (cs : list bytes) : option (bytes * list bytes) :=
  match cs with
  | [] => None
  | c :: r =>
    match line_in c with
    | Some (l, rest) => Some (l, rest :: r)
    | None => match line_c r with
              | Some (l, rest) => Some (c ++ l, rest)
              | None => None
              end
    end
  end.

(* strings.Trim(line, " ") == "\n" *)
Fixpoint drop_sp (l : bytes) : bytes :=
  match l with
  | b :: r => if b =? SP then drop_sp r else l
  | [] => []
  end.
Definition is_blank (line : bytes) : bool :=
  match drop_sp line with
  | [b] => b =? NL     (* a line ends with its only newline, so trailing spaces cannot occur *)
  | _ => false
  end.

(* ReadHeaderInfo's loop: (header text without the blank line, remaining connection);
   fuel = an upper bound on the number of lines *)
Fixpoint header_c (fuel : nat) (cs : list bytes) (acc : bytes) : option (bytes * list bytes) :=
  match fuel with
  | O => None
  | S k =>
    match line_c cs with
    | None => None
    | Some (l, rest) => if is_blank l then Some (acc, rest) else header_c k rest (acc ++ l)
    end
  end.

(* ---------- the frame loop ---------- *)
Inductive item := IFrame (b : bytes) | IClear.

Definition MARKER : bytes := [99; 108; 101; 97; 114].   (* "clear"; = Extracted.recorder_clear_marker *)
Definition PROBE : nat := 5.

Fixpoint bytes_eqb (a b : bytes) : bool :=
  match a, b with
  | [], [] => true
  | x :: a', y :: b' => (x =? y) && bytes_eqb a' b'
  | _, _ => false
  end.

(* handleConn's loop until the connection fails; fuel = number of bytes bounds the iterations.
   A frame size below 5 makes rawFrame[:5] panic: the model reports None for it. *)
Fixpoint frames_c (fuel : nat) (frame_size : nat) (cs : list bytes) : list item :=
  match fuel with
  | O => []
  | S k =>
    match take_c PROBE cs with
    | None => []
    | Some (p, rest) =>
      if bytes_eqb p MARKER then IClear :: frames_c k frame_size rest
      else
        match take_c (frame_size - PROBE) rest with
        | None => []
        | Some (q, rest') => IFrame (p ++ q) :: frames_c k frame_size rest'
        end
    end
  end.

Definition total_len (cs : list bytes) : nat := length (concat cs).

(* what the camera daemon sends for an item *)
Definition enc_item (i : item) : bytes := match i with IFrame b => b | IClear => MARKER end.

(* ---------- the whole connection ---------- *)
Record conn_result := mkCR {
  cr_header : option bytes;     (* the header text handed to the YAML decoder; None = error *)
  cr_items : list item
}.

Definition run_conn (frame_size : nat) (cs : list bytes) : conn_result :=
  match header_c (S (total_len cs)) cs [] with
  | None => mkCR None []
  | Some (h, rest) => mkCR (Some h) (frames_c (S (total_len rest)) frame_size rest)
  end.
