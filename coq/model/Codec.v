(* Model of go-cptv's pixel codec (compress.go): Compressor.Next / PackBits and
   Decompressor.Next / BitUnpacker.Next, with the 32-bit scratch registers and uint8 counters
   written as the Go code has them (arithmetic modulo 2^32 where the Go types wrap). *)
From Coq Require Import List ZArith Bool.
Import ListNotations.
Open Scope Z_scope.

Definition W32 : Z := 2 ^ 32.
Definition u32 (v : Z) : Z := v mod W32.

(* ---------- snake order ---------- *)
(* frames are given as the flat list of pixels in row-major order; [cols] columns *)

(* position in row-major order of the i-th element of the snake order *)
Definition snake_pos (cols : Z) (i : Z) : Z :=
  let y := i / cols in
  let x := i mod cols in
  y * cols + (if Z.odd y then cols - x - 1 else x).

Definition zth (l : list Z) (i : Z) : Z := nth (Z.to_nat i) l 0.

(* the frame read in snake order *)
Definition snake (cols : Z) (f : list Z) : list Z :=
  map (fun i => zth f (snake_pos cols (Z.of_nat i))) (seq 0 (length f)).

(* ---------- compressor ---------- *)
Fixpoint adj_deltas (l : list Z) : list Z :=
  match l with
  | a :: ((b :: _) as r) => (b - a) :: adj_deltas r
  | _ => []
  end.

(* numBits(x) = uint8(floor(log2(x) + 1)); for x = 0 the float is -Inf and the conversion
   yields 0 (amd64 and arm alike) *)
Definition num_bits (x : Z) : Z := if x <=? 0 then 0 else Z.log2 x + 1.

Definition max_abs (l : list Z) : Z := fold_left (fun m d => Z.max m (Z.abs d)) l 0.

(* twosComp(v, width) *)
Definition twos_comp (v width : Z) : Z :=
  if 0 <=? v then u32 v else u32 (u32 (W32 - 1 - u32 (- v)) + 1) mod 2 ^ width.

(* the inner loop of PackBits: emit whole bytes from the top of the scratch register *)
Fixpoint flush_bytes (fuel : nat) (bits nbits : Z) : list Z * Z * Z :=
  match fuel with
  | O => ([], bits, nbits)
  | S k =>
    if 8 <=? nbits then
      let '(out, b', n') := flush_bytes k (u32 (bits * 256)) (nbits - 8) in
      ((bits / 2 ^ 24) :: out, b', n')
    else ([], bits, nbits)
  end.

(* PackBits(width, input, w) *)
Fixpoint pack_bits (width : Z) (input : list Z) (bits nbits : Z) : list Z :=
  match input with
  | [] => if 0 <? nbits then [bits / 2 ^ 24] else []
  | d :: r =>
    let bits1 := Z.lor bits (u32 (twos_comp d width * 2 ^ (32 - width - nbits))) in
    let '(out, bits2, nbits2) := flush_bytes 4 bits1 (nbits + width) in
    out ++ pack_bits width r bits2 nbits2
  end.

(* int32 little-endian, two's complement *)
Definition le32 (v : Z) : list Z :=
  let u := u32 v in [u mod 256; (u / 256) mod 256; (u / 65536) mod 256; (u / 16777216) mod 256].

(* Compressor.Next: (bit width, compressed bytes); [prev]/[cur] flat row-major frames *)
Definition compress (cols : Z) (prev cur : list Z) : Z * list Z :=
  let fd := snake cols (map (fun p => fst p - snd p) (combine cur prev)) in   (* frameDelta in snake order *)
  let ad := adj_deltas fd in
  let width := num_bits (max_abs ad) + 1 in
  (width, le32 (hd 0 fd) ++ pack_bits width ad 0 0).

(* ---------- decompressor ---------- *)
Definition from_le32 (b : list Z) : Z :=
  let u := zth b 0 + 256 * zth b 1 + 65536 * zth b 2 + 16777216 * zth b 3 in
  if u <? 2 ^ 31 then u else u - W32.

(* twosUncomp(v, width) *)
Definition twos_uncomp (v width : Z) : Z :=
  if Z.land v (2 ^ (width - 1)) =? 0 then v
  else - (u32 (u32 (W32 - 1 - v) + 1) mod 2 ^ width).

(* BitUnpacker.Next's refill loop *)
Fixpoint refill (fuel : nat) (bitw : Z) (input : list Z) (bits nbits : Z) : option (list Z * Z * Z) :=
  match fuel with
  | O => Some (input, bits, nbits)
  | S k =>
    if nbits <? bitw then
      match input with
      | [] => None
      | b :: r => refill k bitw r (Z.lor bits (u32 (b * 2 ^ (24 - nbits)))) (nbits + 8)
      end
    else Some (input, bits, nbits)
  end.

(* n values of width bitw *)
Fixpoint unpack (n : nat) (bitw : Z) (input : list Z) (bits nbits : Z) : option (list Z) :=
  match n with
  | O => Some []
  | S k =>
    match refill 4 bitw input bits nbits with
    | None => None
    | Some (input', bits', nbits') =>
      let v := twos_uncomp (bits' / 2 ^ (32 - bitw)) bitw in
      match unpack k bitw input' (u32 (bits' * 2 ^ bitw)) (nbits' - bitw) with
      | Some vs => Some (v :: vs)
      | None => None
      end
    end
  end.

Fixpoint prefix_sums (v : Z) (ds : list Z) : list Z :=
  match ds with
  | [] => []
  | d :: r => (v + d) :: prefix_sums (v + d) r
  end.

(* inverse of [snake]: place the i-th snake element at its row-major position *)
Definition unsnake (cols : Z) (s : list Z) : list Z :=
  map (fun p =>
         let y := Z.of_nat p / cols in
         let x := Z.of_nat p mod cols in
         zth s (y * cols + (if Z.odd y then cols - x - 1 else x))) (seq 0 (length s)).

(* Decompressor.Next: the decoded flat frame (out = uint16(int32(prev) + delta)) *)
Definition decompress (cols : Z) (npix : nat) (bitw : Z) (data : list Z) (prev : list Z) : option (list Z) :=
  let v0 := from_le32 (firstn 4 data) in
  match unpack (npix - 1) bitw (skipn 4 data) 0 0 with
  | None => None
  | Some dvs =>
    let deltas := unsnake cols (v0 :: prefix_sums v0 dvs) in
    Some (map (fun p => (fst p + snd p) mod 65536) (combine prev deltas))
  end.

(* a sequence of frames through one compressor / one decompressor (both keep the previous
   frame; the first previous frame is all zeros) *)
Fixpoint roundtrip_seq (cols : Z) (npix : nat) (prev : list Z) (frames : list (list Z)) : option (list (list Z)) :=
  match frames with
  | [] => Some []
  | f :: r =>
    let '(w, data) := compress cols prev f in
    match decompress cols npix w data prev with
    | None => None
    | Some f' => match roundtrip_seq cols npix f' r with
                 | Some fs => Some (f' :: fs)
                 | None => None
                 end
    end
  end.
