(* Semantics support for coq/Translated.v, the Gallina code that /verif/translate (fn.go)
   regenerates from /repo's Go sources on every run.

   The translator is syntactic: every Go statement becomes the corresponding term below.
   Everything the translated code does not define itself (calls through interfaces, library
   calls, functions outside the translated set, mutexes, logging) is a call of the section
   variable [ext] with the Go selector path as its name, so the meaning of the outside
   world is supplied - and stated - on the proof side, never by the translator.

   Conventions (the translator's trusted reading of Go):
     int, int64, ... : Z (no overflow; sized unsigned fields are wrapped on assignment);
     bool : bool;  error : Z (0 = nil);  string : string;
     *cptvframe.Frame : Z, a frame handle (pointer identity; contents live outside);
     []*cptvframe.Frame : list Z (value semantics: results are consumed before the next call);
     time.Time / time.Duration : Z nanoseconds, Sub saturating as in package time;
     x % y and x / y panic when y = 0, indexing and slicing panic out of range.
   No proofs in this file. *)
From Coq Require Import List ZArith Bool String.
Import ListNotations.
Open Scope Z_scope.

Set Implicit Arguments.

(* the line feed, for string literals of the Go source that contain one *)
Definition nl : string := String (Ascii.ascii_of_nat 10) EmptyString.

(* arguments of calls that leave the translated code *)
Inductive arg :=
| AInt (z : Z)
| ABool (b : bool)
| AStr (s : string)
| AFrame (h : Z)          (* a frame handle *)
| AFrames (hs : list Z)
| ASym (s : string)       (* an expression the translator does not evaluate, as source text *)
| ABytes (bs : list Z).   (* a []byte value built by the translated code (literal, append) *)

Inductive outcome (W A : Type) :=
| Ok (a : A) (w : W)
| Panicked (w : W).
Arguments Ok {W A} a w.
Arguments Panicked {W A} w.

Definition M (W A : Type) := W -> outcome W A.

Definition ret {W A} (a : A) : M W A := fun w => Ok a w.
Definition bind {W A B} (m : M W A) (k : A -> M W B) : M W B :=
  fun w => match m w with
           | Ok a w' => k a w'
           | Panicked w' => Panicked w'
           end.
Definition panic {W A} : M W A := fun w => Panicked w.

Definition lift_opt {W A} (o : option A) : M W A :=
  match o with Some a => ret a | None => panic end.

(* a call that leaves the translated code *)
Definition call_ext {W} (ext : string -> list arg -> W -> Z * W) (name : string) (args : list arg) : M W Z :=
  fun w => let (r, w') := ext name args w in Ok r w'.

Declare Scope go_scope.
Delimit Scope go_scope with go.
Notation "x <- e ;; k" := (bind e (fun x => k))
  (at level 61, e at next level, right associativity) : go_scope.
Notation "' p <- e ;; k" := (bind e (fun p => k))
  (at level 61, p pattern, e at next level, right associativity) : go_scope.

(* ---------- integers ---------- *)
Definition go_rem (a b : Z) : option Z := if b =? 0 then None else Some (Z.rem a b).
Definition go_quot (a b : Z) : option Z := if b =? 0 then None else Some (Z.quot a b).
Definition wrap_u (bits : Z) (x : Z) : Z := x mod (2 ^ bits).
Definition z_to_bool (z : Z) : bool := negb (z =? 0).
Definition bool_to_z (b : bool) : Z := if b then 1 else 0.

(* ---------- slices (value semantics, len = cap) ---------- *)
Definition go_len {A} (l : list A) : Z := Z.of_nat (List.length l).
Definition go_index {A} (l : list A) (i : Z) : option A :=
  if (i <? 0) || (i >=? go_len l) then None else nth_error l (Z.to_nat i).
Definition go_slice {A} (l : list A) (lo hi : Z) : option (list A) :=
  if (lo <? 0) || (hi <? lo) || (hi >? go_len l) then None
  else Some (firstn (Z.to_nat (hi - lo)) (skipn (Z.to_nat lo) l)).
(* l[i] = v *)
Fixpoint list_upd {A} (l : list A) (n : nat) (v : A) : list A :=
  match l, n with
  | [], _ => []
  | _ :: t, O => v :: t
  | a :: t, S k => a :: list_upd t k v
  end.
Definition go_set_index {A} (l : list A) (i : Z) (v : A) : option (list A) :=
  if (i <? 0) || (i >=? go_len l) then None else Some (list_upd l (Z.to_nat i) v).
(* copy(dst, src): the first min(len dst, len src) elements of dst are replaced *)
Definition go_copy {A} (dst src : list A) : list A :=
  let n := Nat.min (List.length dst) (List.length src) in firstn n src ++ skipn n dst.
(* copy(x[lo:hi], src), written through to x *)
Definition go_copy_at {A} (x : list A) (lo hi : Z) (src : list A) : option (list A) :=
  match go_slice x lo hi with
  | None => None
  | Some d => Some (firstn (Z.to_nat lo) x ++ go_copy d src ++ skipn (Z.to_nat hi) x)
  end.

(* ---------- time ---------- *)
Definition MAX_DUR : Z := 9223372036854775807.
Definition MIN_DUR : Z := -9223372036854775808.
Definition go_time_sub (a b : Z) : Z :=
  let d := a - b in if d >? MAX_DUR then MAX_DUR else if d <? MIN_DUR then MIN_DUR else d.

(* ---------- counting loops ----------
   for i < hi { body; i++ }   and   for i := lo; i < hi; i++ { body }
   where the body neither assigns i nor changes hi.  The body either continues with a new
   loop state or returns from the enclosing function. *)
Inductive loopres (S R : Type) :=
| LCont (s : S)
| LRet (r : R).
Arguments LCont {S R} s.
Arguments LRet {S R} r.

Fixpoint for_loop {W S R} (n : nat) (i : Z) (body : Z -> S -> M W (loopres S R)) (s : S) : M W (loopres S R) :=
  match n with
  | O => ret (LCont s)
  | Datatypes.S n' =>
    bind (body i s) (fun r =>
      match r with
      | LCont s' => for_loop n' (i + 1) body s'
      | LRet v => ret (LRet v)
      end)
  end.

Definition for_range {W S R} (lo hi : Z) (body : Z -> S -> M W (loopres S R)) (s : S) : M W (loopres S R) :=
  for_loop (Z.to_nat (hi - lo)) lo body s.

(* ---------- endless loops ----------
   for { body }   with `return` (and `continue`) as the only ways out of / around the body.
   Gallina has no unbounded iteration: the loop is given fuel, and the function that contains it
   takes [fuel : nat] and yields an option; [None] = the fuel ran out before the loop returned
   (not a behaviour of the Go code - the tie theorems state how much fuel is enough). *)
Fixpoint forever {W S R} (fuel : nat) (body : S -> M W (loopres S R)) (s : S) : M W (option R) :=
  match fuel with
  | O => ret None
  | Datatypes.S n =>
    bind (body s) (fun r =>
      match r with
      | LCont s' => forever n body s'
      | LRet v => ret (Some v)
      end)
  end.
