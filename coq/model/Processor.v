(* Executable model of motion/motionprocessor.go (MotionProcessor.Process / Reset and the
   test-recording request flag), mirroring the Go code statement by statement.

   The detector's verdict for a frame is an input bit here (model/System.v plugs the
   detector model in); the recording window's answer is an input bit (C04 plugs
   window_active in); each sink has a fault script: one boolean per call made on that
   sink, in call order, true = the call returns an error.

   The three recorders (motion, continuous, test) keep disjoint state in the Go struct
   (isRecording/framesWritten/writeUntil/triggered + ring; crFrames; StartSnapshot/
   SnapshotRecording/snapshotFrames), so the model is written as three machines whose
   outputs are concatenated in the order Process() calls them. *)
From Coq Require Import List ZArith Bool.
From TR Require Import model.Ring.
Import ListNotations.
Open Scope Z_scope.

Record pcfg := mkCfg {
  p_size : Z;    (* ring capacity: PreviewSecs*fps + TriggerFrames *)
  p_min : Z;     (* minFrames = MinSecs*fps *)
  p_max : Z;     (* maxFrames = MaxSecs*fps *)
  p_trig : Z;    (* triggerFrames *)
  p_const : bool (* constantRecording *)
}.

Inductive sink := SMotion | SConst | STest.
Inductive call := Check | Start | Write (id : Z) | Stop.

Inductive out :=
| Call (s : sink) (c : call) (failed : bool) (* a call on a sink and whether it returned an error *)
| LMotion | LStarted | LEnded                (* RecordingListener callbacks *)
| WinQ (open : bool)                         (* the recording window was consulted *)
| Panic.                                     (* the Go code would panic here *)

Inductive ev :=
| EFrame (id : Z) (motion : bool) (win : bool)  (* an accepted frame: its id, detector verdict, window state *)
| EBad                                          (* a frame the parser rejects (BadFrameErr) *)
| EReset                                        (* MotionProcessor.Reset ('clear' marker) *)
| ESnapReq.                                     (* newSnapshotRecording(): StartSnapshot = true *)

Definition BAD_ID : Z := -1.

(* next scripted result of a sink; an exhausted script means "no error" *)
Definition pop (f : list bool) : bool * list bool :=
  match f with
  | [] => (false, [])
  | b :: t => (b, t)
  end.

(* ------------------------------------------------------------------ *)
(* motion recorder                                                      *)

Record mstate := mkM {
  m_ring : ring Z;
  m_rec : bool;      (* isRecording *)
  m_fw : Z;          (* framesWritten *)
  m_wu : Z;          (* writeUntil *)
  m_trig : Z;        (* triggered *)
  m_faults : list bool
}.

Definition minit (c : pcfg) (faults : list bool) : mstate :=
  mkM (new_ring (p_size c) 0) false 0 0 0 faults.

(* stopRecording() *)
Definition stop_recording (s : mstate) : mstate * list out :=
  if negb (m_rec s) then (s, [])
  else
    let (failed, f') := pop (m_faults s) in
    (mkM (set_as_oldest (m_ring s)) false 0 0 0 f',
     [LEnded; Call SMotion Stop failed]).

(* recordPreTriggerFrames(): write frames[0 .. len-2], stop at the first error.
   Returns (completed without error, remaining faults, outputs). *)
Fixpoint write_pre (ids : list Z) (f : list bool) : bool * list bool * list out :=
  match ids with
  | [] => (true, f, [])
  | [_] => (true, f, [])          (* the current frame is never written here *)
  | id :: rest =>
    let (failed, f') := pop f in
    if failed then (false, f', [Call SMotion (Write id) true])
    else
      let '(ok, f'', o) := write_pre rest f' in
      (ok, f'', Call SMotion (Write id) false :: o)
  end.

(* process(frame) *)
Definition mprocess (c : pcfg) (s : mstate) (id : Z) (motion win : bool) : mstate * list out :=
  (* detection branch *)
  let '(s1, o1) :=
    if motion then
      let t := m_trig s + 1 in
      if m_rec s then
        (mkM (m_ring s) true (m_fw s) (Z.min (m_fw s + p_min c) (p_max c)) t (m_faults s), [LMotion])
      else if t <? p_trig c then
        (mkM (m_ring s) false (m_fw s) (m_wu s) t (m_faults s), [LMotion])
      else if negb win then
        (* canStartWriting: window closed *)
        (mkM (m_ring s) false (m_fw s) (m_wu s) t (m_faults s), [LMotion; WinQ false])
      else
        let (cfail, f1) := pop (m_faults s) in
        if cfail then
          (mkM (m_ring s) false (m_fw s) (m_wu s) t f1, [LMotion; WinQ true; Call SMotion Check true])
        else
          let (sfail, f2) := pop f1 in
          if sfail then
            (mkM (m_ring s) false (m_fw s) (m_wu s) t f2,
             [LMotion; WinQ true; Call SMotion Check false; Call SMotion Start true])
          else
            (* startRecording succeeded: isRecording = true, listener, pre-trigger frames *)
            match get_history (m_ring s) with
            | None => (mkM (m_ring s) true (m_fw s) (m_wu s) t f2,
                       [LMotion; WinQ true; Call SMotion Check false; Call SMotion Start false; LStarted; Panic])
            | Some h =>
              let '(ok, f3, ow) := write_pre h f2 in
              (mkM (m_ring s) true (m_fw s) (if ok then p_min c else m_wu s) t f3,
               [LMotion; WinQ true; Call SMotion Check false; Call SMotion Start false; LStarted] ++ ow)
            end
    else
      (mkM (m_ring s) (m_rec s) (m_fw s) (m_wu s) 0 (m_faults s), [])
  in
  (* if recording, write the frame *)
  let '(s2, o2) :=
    if m_rec s1 then
      let (failed, f') := pop (m_faults s1) in
      (mkM (m_ring s1) true (m_fw s1 + 1) (m_wu s1) (m_trig s1) f', [Call SMotion (Write id) failed])
    else (s1, [])
  in
  (* frameLoop.Move() *)
  let s3 := mkM (move (m_ring s2)) (m_rec s2) (m_fw s2) (m_wu s2) (m_trig s2) (m_faults s2) in
  (* stop when framesWritten >= writeUntil *)
  let '(s4, o4) :=
    if m_rec s3 && (m_fw s3 >=? m_wu s3) then stop_recording s3 else (s3, [])
  in
  (s4, o1 ++ o2 ++ o4).

Definition mstep (c : pcfg) (s : mstate) (e : ev) : mstate * list out :=
  match e with
  | EFrame id motion win =>
    (* parseFrame writes into frameLoop.Current() *)
    let s0 := mkM (put (m_ring s) id) (m_rec s) (m_fw s) (m_wu s) (m_trig s) (m_faults s) in
    mprocess c s0 id motion win
  | EBad =>
    (* the parser has already clobbered (part of) the current slot *)
    let s0 := mkM (put (m_ring s) BAD_ID) (m_rec s) (m_fw s) (m_wu s) (m_trig s) (m_faults s) in
    stop_recording s0
  | EReset => stop_recording s
  | ESnapReq => (s, [])
  end.

(* ------------------------------------------------------------------ *)
(* continuous ("constant") recorder                                     *)

Record cstate := mkC { c_frames : Z; (* crFrames *) c_faults : list bool }.

Definition cinit (faults : list bool) : cstate := mkC 0 faults.

(* processConstantRecorder(frame) *)
Definition cprocess (c : pcfg) (s : cstate) (id : Z) : cstate * list out :=
  if negb (p_const c) then (s, [])
  else
    let '(started, f1, o1) :=
      if c_frames s =? 0 then
        let (failed, f') := pop (c_faults s) in (negb failed, f', [Call SConst Start failed])
      else (true, c_faults s, []) in
    if negb started then (mkC (c_frames s) f1, o1)
    else
      let (wfailed, f2) := pop f1 in
      let n := c_frames s + 1 in
      if n >? p_max c then
        let (sfailed, f3) := pop f2 in
        (* crFrames is reset whether or not StopRecording returned an error *)
        (mkC 0 f3, o1 ++ [Call SConst (Write id) wfailed; Call SConst Stop sfailed])
      else (mkC n f2, o1 ++ [Call SConst (Write id) wfailed]).

Definition cstep (c : pcfg) (s : cstate) (e : ev) : cstate * list out :=
  match e with
  | EFrame id _ _ => cprocess c s id
  | EBad =>
    (* stopConstantRecorder(): StopRecording is called whenever the continuous recorder is
       configured, open or not; the frame count restarts so that the next frame opens a new file *)
    if negb (p_const c) then (s, [])
    else let (failed, f') := pop (c_faults s) in (mkC 0 f', [Call SConst Stop failed])
  | _ => (s, [])
  end.

(* ------------------------------------------------------------------ *)
(* test ("snapshot") recording                                          *)

Record tstate := mkT {
  t_start : bool;    (* StartSnapshot *)
  t_rec : bool;      (* SnapshotRecording *)
  t_frames : Z;      (* snapshotFrames *)
  t_faults : list bool
}.

Definition tinit (faults : list bool) : tstate := mkT false false 0 faults.

Definition SNAP_LAST : Z := 20.   (* `mp.snapshotFrames > 20` *)

(* processSnapshot(frame) *)
Definition tprocess (s : tstate) (id : Z) : tstate * list out :=
  let '(s1, o1, abort) :=
    if t_start s then
      if t_rec s then
        (* a request that arrives while a test recording is open is dropped *)
        (mkT false true (t_frames s) (t_faults s), [], false)
      else
        let (failed, f') := pop (t_faults s) in
        if failed then (mkT false false (t_frames s) f', [Call STest Start true], true)
        else (mkT false true (t_frames s) f', [Call STest Start false], false)
    else (s, [], false) in
  if abort then (s1, o1)
  else if negb (t_rec s1) then (s1, o1)
  else
    let (wfailed, f2) := pop (t_faults s1) in
    let n := t_frames s1 + 1 in
    if n >? SNAP_LAST then
      let (sfailed, f3) := pop f2 in
      (mkT (t_start s1) false 0 f3, o1 ++ [Call STest (Write id) wfailed; Call STest Stop sfailed])
    else (mkT (t_start s1) true n f2, o1 ++ [Call STest (Write id) wfailed]).

Definition tstep (s : tstate) (e : ev) : tstate * list out :=
  match e with
  | EFrame id _ _ => tprocess s id
  | ESnapReq => (mkT true (t_rec s) (t_frames s) (t_faults s), [])
  | _ => (s, [])
  end.

(* ------------------------------------------------------------------ *)
(* the processor                                                        *)

Record pstate := mkP { p_m : mstate; p_c : cstate; p_t : tstate }.

Definition pinit (c : pcfg) (fm fc ft : list bool) : pstate :=
  mkP (minit c fm) (cinit fc) (tinit ft).

Definition pstep (c : pcfg) (s : pstate) (e : ev) : pstate * list out :=
  let (m', om) := mstep c (p_m s) e in
  let (c', oc) := cstep c (p_c s) e in
  let (t', ot) := tstep (p_t s) e in
  (mkP m' c' t', om ++ oc ++ ot).

(* outputs per event, in event order *)
Fixpoint prun (c : pcfg) (s : pstate) (evs : list ev) : list (list out) :=
  match evs with
  | [] => []
  | e :: t => let (s', o) := pstep c s e in o :: prun c s' t
  end.

Fixpoint pfinal (c : pcfg) (s : pstate) (evs : list ev) : pstate :=
  match evs with
  | [] => s
  | e :: t => pfinal c (fst (pstep c s e)) t
  end.
