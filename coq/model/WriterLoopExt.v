(* The outside world of thermal-writer's two goroutines (coq/translated/WriterLoop.v, from
   cmd/thermal-writer/main.go: handleConn with its frame loop, and writer), and the scheduler model the
   tie theorems (proofs/TieWriterLoop.v) quantify over.

   The translation (translate/chans.go) stays sequential: one goroutine's code is one definition in the
   monad of GoSem.v; every channel operation, `select`, `go` is a call that leaves the translation.  What
   such a call means is said here:

     channels            tokens into [wl_chans].  A channel of frame buffers is [CFrames cap q closed]: the
                         QUEUE OF model/Writer.v (FIFO, a list of buffer tokens), its capacity, whether it
                         was closed.  send appends, receive takes the head; a receive from a closed and
                         drained channel yields the zero value and ok = false; close delivers what is
                         queued first (trusted: Go channels are FIFO).  time.After(d) is a fresh
                         [CTimer d false]; it fires at most once.
     BLOCKING            an operation that cannot proceed - a receive from an empty open channel, a send to
                         a full one, a select none of whose cases is ready - is SIMPLY NOT SCHEDULED: the
                         theorems are about iterations started in a state in which the goroutine's next
                         blocking operation can proceed ([r_enabled], [w_enabled]), and [sys_step] skips a
                         goroutine that cannot.  Should such a call be made all the same, or a send on /
                         close of a closed channel (a Go panic), the world is marked [wl_bad]; the tie
                         theorems show that this never happens.  The sends of this code never block: there
                         are as many buffers as either channel has room for (model/Writer.v's ownership
                         invariant) - that is a THEOREM about the handler's answer, not an assumption.
     select              the arguments are the channel operands in source order.  The rotation timer fires
                         when the script [wl_timer] says so at this select (one entry per select executed;
                         exhausted: it does not fire) and the timer among the operands has not fired yet;
                         otherwise the first frame channel among the operands that is non-empty or closed
                         is received from.  The answer is the INDEX of that operand, whatever the order of
                         the cases in the source; value and ok are asked for separately ("select#value",
                         "select#ok").  When both the timer and a frame are ready Go chooses at random: the
                         script is that choice.
     frame buffers       byte slices of the CPTR builder's world ([wl_raw], model/RawExt.v: the SAME tokens
                         writeFrame hands to Write): make([]byte, n) is a fresh slice of n zero bytes.
     the socket          what is left of the connection AFTER the header, as chunks ([wl_in], the reading of
                         model/Socket.v): io.ReadFull(reader, buf) is Socket.take_c of len(buf) bytes; when
                         the connection ends first, the bytes there were overwrite the beginning of the
                         buffer, everything is consumed and the error is io.EOF (nothing read) or
                         io.ErrUnexpectedEOF.
     the header          headers.ReadHeaderInfo answers with the token HDR and the error [wc_hdr_err] (the
                         function itself is unit HeaderReader / proofs/TieHdr.v); FrameSize() is [wc_fs],
                         FPS / ResX / ResY are the values the CPTR builder reads (the SAME *HeaderInfo is
                         handed to writer); Brand / Model are only logged.
     files               the io.WriteClosers of [wl_raw] (model/RawExt.v: nextFile yields a fresh one, Write
                         appends everything or - fault script - nothing); Close is logged in [wl_closed].
     the clock           time.Now answers from a script ([wl_clock]; exhausted: 0).
     go writer(a, c, h, b)   logged in [wl_spawned] as (a, b): the channels the new goroutine is given.
     package-level variables frameLogIntervalFirstMin / frameLogInterval: [wc_int1] / [wc_int2].
     logging, float arithmetic for the frame-rate line, Time.Sub: no effect on anything modelled.
   Every other name is a call of the CPTR builder's code and is answered by model/RawExt.v's [rext] on
   [wl_raw].  No proofs in this file. *)
From Coq Require Import String List ZArith Bool.
From TR Require Import model.GoSem model.Writer model.Socket model.RawExt translated.ThermalRaw translated.WriterLoop.
Import ListNotations.
Open Scope Z_scope.

Definition WERR_EOF : Z := 1.     (* io.EOF *)
Definition WERR_UEOF : Z := 2.    (* io.ErrUnexpectedEOF *)
Definition READER : Z := 1.       (* the *bufio.Reader *)
Definition HDR : Z := 2.          (* the *headers.HeaderInfo *)

Inductive chan :=
| CFrames (cap : nat) (q : list Z) (closed : bool)
| CTimer (d : Z) (fired : bool).

(* what does not change during a connection *)
Record wconf := mkWC {
  wc_hdr_err : Z;     (* the error of headers.ReadHeaderInfo (0 = nil) *)
  wc_fs : Z;          (* header.FrameSize() *)
  wc_int1 : Z;        (* frameLogIntervalFirstMin *)
  wc_int2 : Z         (* frameLogInterval *)
}.

Record wworld := mkWW {
  wl_conf : wconf;
  wl_raw : rworld;            (* files, byte slices (the frame buffers among them), header values, write faults *)
  wl_chans : list chan;       (* channels, by token *)
  wl_in : list Socket.bytes;  (* what is left of the connection, as chunks *)
  wl_pend : Z;                (* second result of the last two-valued call / ok of the last receive *)
  wl_val : Z;                 (* the value received by the last select *)
  wl_timer : list bool;       (* does the rotation timer fire at the next select? then at the one after it? ... *)
  wl_clock : list Z;          (* answers of time.Now *)
  wl_closed : list Z;         (* files closed, in order *)
  wl_spawned : list (Z * Z);  (* go writer(in, _, _, out) *)
  wl_bad : bool               (* a call that makes no sense was made *)
}.

Definition with_raw (w : wworld) (r : rworld) : wworld :=
  mkWW (wl_conf w) r (wl_chans w) (wl_in w) (wl_pend w) (wl_val w) (wl_timer w) (wl_clock w) (wl_closed w) (wl_spawned w) (wl_bad w).
Definition with_chans (w : wworld) (l : list chan) : wworld :=
  mkWW (wl_conf w) (wl_raw w) l (wl_in w) (wl_pend w) (wl_val w) (wl_timer w) (wl_clock w) (wl_closed w) (wl_spawned w) (wl_bad w).
Definition with_in (w : wworld) (l : list Socket.bytes) : wworld :=
  mkWW (wl_conf w) (wl_raw w) (wl_chans w) l (wl_pend w) (wl_val w) (wl_timer w) (wl_clock w) (wl_closed w) (wl_spawned w) (wl_bad w).
Definition with_pend (w : wworld) (p : Z) : wworld :=
  mkWW (wl_conf w) (wl_raw w) (wl_chans w) (wl_in w) p (wl_val w) (wl_timer w) (wl_clock w) (wl_closed w) (wl_spawned w) (wl_bad w).
Definition with_val (w : wworld) (v : Z) : wworld :=
  mkWW (wl_conf w) (wl_raw w) (wl_chans w) (wl_in w) (wl_pend w) v (wl_timer w) (wl_clock w) (wl_closed w) (wl_spawned w) (wl_bad w).
Definition with_timer (w : wworld) (l : list bool) : wworld :=
  mkWW (wl_conf w) (wl_raw w) (wl_chans w) (wl_in w) (wl_pend w) (wl_val w) l (wl_clock w) (wl_closed w) (wl_spawned w) (wl_bad w).
Definition with_clock (w : wworld) (l : list Z) : wworld :=
  mkWW (wl_conf w) (wl_raw w) (wl_chans w) (wl_in w) (wl_pend w) (wl_val w) (wl_timer w) l (wl_closed w) (wl_spawned w) (wl_bad w).
Definition with_closed (w : wworld) (l : list Z) : wworld :=
  mkWW (wl_conf w) (wl_raw w) (wl_chans w) (wl_in w) (wl_pend w) (wl_val w) (wl_timer w) (wl_clock w) l (wl_spawned w) (wl_bad w).
Definition with_spawned (w : wworld) (l : list (Z * Z)) : wworld :=
  mkWW (wl_conf w) (wl_raw w) (wl_chans w) (wl_in w) (wl_pend w) (wl_val w) (wl_timer w) (wl_clock w) (wl_closed w) l (wl_bad w).
Definition set_bad (w : wworld) : wworld :=
  mkWW (wl_conf w) (wl_raw w) (wl_chans w) (wl_in w) (wl_pend w) (wl_val w) (wl_timer w) (wl_clock w) (wl_closed w) (wl_spawned w) true.

(* ---- channels ---- *)
Definition chan_at (w : wworld) (c : Z) : option chan :=
  if c <? 0 then None else nth_error (wl_chans w) (Z.to_nat c).
Definition set_chan (w : wworld) (c : Z) (ch : chan) : wworld :=
  with_chans w (list_upd (wl_chans w) (Z.to_nat c) ch).
Definition new_chan (w : wworld) (ch : chan) : Z * wworld :=
  (Z.of_nat (List.length (wl_chans w)), with_chans w (wl_chans w ++ [ch])).

(* v := <-c   (ok in [wl_pend]) *)
Definition do_recv (w : wworld) (c : Z) : Z * wworld :=
  match chan_at w c with
  | Some (CFrames cap (v :: q) cl) => (v, with_pend (set_chan w c (CFrames cap q cl)) 1)
  | Some (CFrames cap [] true) => (0, with_pend w 0)
  | _ => (0, set_bad w)        (* an empty open channel (the receive blocks), a timer, no channel *)
  end.

(* c <- v *)
Definition do_send (w : wworld) (c v : Z) : Z * wworld :=
  match chan_at w c with
  | Some (CFrames cap q false) =>
    if Nat.ltb (List.length q) cap then (0, set_chan w c (CFrames cap (q ++ [v]) false))
    else (0, set_bad w)        (* full: the send blocks *)
  | _ => (0, set_bad w)        (* closed: Go panics *)
  end.

Definition do_close (w : wworld) (c : Z) : Z * wworld :=
  match chan_at w c with
  | Some (CFrames cap q false) => (0, set_chan w c (CFrames cap q true))
  | _ => (0, set_bad w)        (* close of a closed channel: Go panics *)
  end.

Definition do_len (w : wworld) (c : Z) : Z * wworld :=
  match chan_at w c with
  | Some (CFrames _ q _) => (Z.of_nat (List.length q), w)
  | _ => (0, w)
  end.

(* the first operand (index counted from i) that is a timer which has not fired *)
Fixpoint find_timer (w : wworld) (cs : list arg) (i : Z) : option (Z * Z * Z) :=
  match cs with
  | [] => None
  | AInt c :: r =>
    match chan_at w c with
    | Some (CTimer d false) => Some (i, c, d)
    | _ => find_timer w r (i + 1)
    end
  | _ :: r => find_timer w r (i + 1)
  end.

(* the first operand that is a frame channel from which a receive can proceed *)
Fixpoint find_frames (w : wworld) (cs : list arg) (i : Z) : option (Z * Z) :=
  match cs with
  | [] => None
  | AInt c :: r =>
    match chan_at w c with
    | Some (CFrames _ (_ :: _) _) => Some (i, c)
    | Some (CFrames _ [] true) => Some (i, c)
    | _ => find_frames w r (i + 1)
    end
  | _ :: r => find_frames w r (i + 1)
  end.

Definition do_select (w : wworld) (cs : list arg) : Z * wworld :=
  let w1 := with_timer w (tl (wl_timer w)) in
  match (if hd false (wl_timer w) then find_timer w cs 0 else None) with
  | Some (i, c, d) => (i, set_chan w1 c (CTimer d true))
  | None =>
    match find_frames w cs 0 with
    | Some (i, c) => let (v, w2) := do_recv w1 c in (i, with_val w2 v)
    | None => (-1, set_bad w1)      (* no case is ready: the select blocks *)
    end
  end.

(* ---- the socket ---- *)
Definition set_bytes (r : rworld) (t : Z) (b : Writer.bytes) : rworld :=
  with_bytes r (list_upd (rw_bytes r) (Z.to_nat t) b).

Definition do_readfull (w : wworld) (rd buf : Z) : Z * wworld :=
  if negb (rd =? READER) || (buf <? 0) || negb (Nat.ltb (Z.to_nat buf) (List.length (rw_bytes (wl_raw w)))) then (0, set_bad w)
  else
    let old := rbytes (wl_raw w) buf in
    match take_c (List.length old) (wl_in w) with
    | Some (h, rest) =>
      (Z.of_nat (List.length old), with_pend (with_in (with_raw w (set_bytes (wl_raw w) buf h)) rest) 0)
    | None =>
      let d := List.concat (wl_in w) in
      (Z.of_nat (List.length d),
       with_pend (with_in (with_raw w (set_bytes (wl_raw w) buf (d ++ skipn (List.length d) old))) [])
                 (match d with [] => WERR_EOF | _ => WERR_UEOF end))
    end.

Definition lift_raw (w : wworld) (p : Z * rworld) : Z * wworld := (fst p, with_raw w (snd p)).

Definition hdr_int (w : wworld) (args : list arg) (v : Z) : Z * wworld :=
  match args with
  | [AInt h] => if h =? HDR then (v, w) else (0, set_bad w)
  | _ => (0, set_bad w)
  end.

(* the names answered here; every other name is answered by RawExt.rext on [wl_raw] *)
Definition wext (name : string) (args : list arg) (w : wworld) : Z * wworld :=
  if String.eqb name "chan.recv" then
    match args with [AInt c] => do_recv w c | _ => (0, set_bad w) end
  else if String.eqb name "chan.recv#1" then (wl_pend w, w)
  else if String.eqb name "chan.send" then
    match args with [AInt c; AInt v] => do_send w c v | _ => (0, set_bad w) end
  else if String.eqb name "chan.close" then
    match args with [AInt c] => do_close w c | _ => (0, set_bad w) end
  else if String.eqb name "chan.len" then
    match args with [AInt c] => do_len w c | _ => (0, set_bad w) end
  else if String.eqb name "select" then do_select w args
  else if String.eqb name "select#value" then (wl_val w, w)
  else if String.eqb name "select#ok" then (wl_pend w, w)
  else if String.eqb name "make:chan" then
    match args with [AInt n] => new_chan w (CFrames (Z.to_nat n) [] false) | _ => (0, set_bad w) end
  else if String.eqb name "time.After" then
    match args with [AInt d] => new_chan w (CTimer d false) | _ => (0, set_bad w) end
  else if String.eqb name "time.Now" then (hd 0 (wl_clock w), with_clock w (tl (wl_clock w)))
  else if String.eqb name "make:[]byte" then
    match args with
    | [AInt n] => lift_raw w (alloc_bytes (wl_raw w) (repeat 0 (Z.to_nat n)))
    | _ => (0, set_bad w)
    end
  else if String.eqb name "io.ReadFull" then
    match args with [AInt rd; AInt buf] => do_readfull w rd buf | _ => (0, set_bad w) end
  else if String.eqb name "io.ReadFull#1" then (wl_pend w, w)
  else if String.eqb name "bufio.NewReader" then (READER, w)
  else if String.eqb name "headers.ReadHeaderInfo" then
    match args with
    | [AInt rd] => if rd =? READER then (HDR, with_pend w (wc_hdr_err (wl_conf w))) else (0, set_bad w)
    | _ => (0, set_bad w)
    end
  else if String.eqb name "headers.ReadHeaderInfo#1" then (wl_pend w, w)
  else if String.eqb name "obj.FrameSize" then hdr_int w args (wc_fs (wl_conf w))
  else if String.eqb name "obj.FPS" then hdr_int w args (rc_fps (rw_cfg (wl_raw w)))
  else if String.eqb name "obj.ResX" then hdr_int w args (rc_resx (rw_cfg (wl_raw w)))
  else if String.eqb name "obj.ResY" then hdr_int w args (rc_resy (rw_cfg (wl_raw w)))
  else if String.eqb name "obj.Brand" then hdr_int w args 0
  else if String.eqb name "obj.Model" then hdr_int w args 0
  else if String.eqb name "read:frameLogIntervalFirstMin" then (wc_int1 (wl_conf w), w)
  else if String.eqb name "read:frameLogInterval" then (wc_int2 (wl_conf w), w)
  else if String.eqb name "go:writer" then
    match args with
    | [AInt a; _; AInt h; AInt b] => if h =? HDR then (0, with_spawned w (wl_spawned w ++ [(a, b)])) else (0, set_bad w)
    | _ => (0, set_bad w)
    end
  else if String.eqb name "obj.Close" then
    match args with [AInt o] => (0, with_closed w (wl_closed w ++ [o])) | _ => (0, set_bad w) end
  else if String.eqb name "log.Print" then (0, w)
  else if String.eqb name "log.Printf" then (0, w)
  else if String.eqb name "f64.of_int" then (0, w)
  else if String.eqb name "f64.div" then (0, w)
  else if String.eqb name "obj.Sub" then (0, w)
  else if String.eqb name "obj.Seconds" then (0, w)
  else lift_raw w (rext name args (wl_raw w)).

(* ---- when can a goroutine's next blocking operation proceed? ---- *)
(* the reader's `frame := <-spentFrames` *)
Definition r_enabled (w : wworld) (sf : Z) : bool :=
  match chan_at w sf with
  | Some (CFrames _ (_ :: _) _) => true
  | Some (CFrames _ [] true) => true
  | _ => false
  end.

(* the writer's select on (changeFile, inFrames) *)
Definition w_enabled (w : wworld) (tm inF : Z) : bool :=
  (hd false (wl_timer w) && match chan_at w tm with Some (CTimer _ false) => true | _ => false end)
  || r_enabled w inF.

(* ---- the two goroutines under a scheduler ----
   The state of a goroutine between two iterations of its loop is the loop state of the translated
   code.  One scheduling step runs ONE ITERATION of one goroutine's translated loop body (for the
   writer's first step: the part of writer before its loop), provided its first - and, as the theorems
   show, only - blocking operation can proceed; otherwise the step is skipped.  Iterations are the
   granularity of this scheduler; model/Writer.v's theorems are about every interleaving of the finer
   steps (take, fill, send / receive, write, return), of which these are particular ones. *)
Record rparams := mkRP {
  rp_lfr : bool; rp_reader : Z; rp_header : Z; rp_wf : Z; rp_sf : Z; rp_i1 : Z; rp_i2 : Z
}.

Inductive rthread :=
| RRun (st : Z * Z * Z)      (* totalFrames, count, t0 *)
| RDone (err : Z)            (* handleConn returned err *)
| RPanic.

Inductive wthread :=
| WStart                     (* spawned, nothing run yet *)
| WRun (st : Builder * Z * Z)    (* builder, err, changeFile *)
| WDone                      (* writer returned *)
| WPanic.

Record sys := mkSys { sy_w : wworld; sy_r : rthread; sy_wr : wthread }.

Inductive who := StepR | StepW.

Definition reader_body (p : rparams) :=
  WriterLoop_fn_handleConn_loop1 wext (rp_lfr p) (rp_reader p) (rp_header p) (rp_wf p) (rp_sf p) (rp_i1 p) (rp_i2 p).
Definition writer_body (p : rparams) := WriterLoop_fn_writer_loop1 wext (rp_wf p) (rp_sf p).

(* writer before its loop = writer with no fuel for the loop: the world it leaves, and the loop state
   it would start the loop with *)
Definition writer_start (p : rparams) (w : wworld) : outcome wworld (Builder * Z * Z) :=
  (bind (call_ext wext "time.Now" [])
     (fun t1 => bind (ThermalRaw_fn_newThermalRaw wext t1)
     (fun t2 => let '(builder, err) := t2 in
                if negb (err =? 0) then panic
                else bind (call_ext wext "time.After" [AInt 60000000000])
                       (fun t3 => ret (builder, err, t3))))) w.

Definition sys_step (p : rparams) (x : sys) (c : who) : sys :=
  match c with
  | StepR =>
    match sy_r x with
    | RRun st =>
      if r_enabled (sy_w x) (rp_sf p) then
        match reader_body p st (sy_w x) with
        | Ok (LCont st') w' => mkSys w' (RRun st') (sy_wr x)
        | Ok (LRet e) w' => mkSys w' (RDone e) (sy_wr x)
        | Panicked w' => mkSys w' RPanic (sy_wr x)
        end
      else x
    | _ => x
    end
  | StepW =>
    match sy_wr x with
    | WStart =>
      match writer_start p (sy_w x) with
      | Ok st w' => mkSys w' (sy_r x) (WRun st)
      | Panicked w' => mkSys w' (sy_r x) WPanic
      end
    | WRun st =>
      if w_enabled (sy_w x) (snd st) (rp_wf p) then
        match writer_body p st (sy_w x) with
        | Ok (LCont st') w' => mkSys w' (sy_r x) (WRun st')
        | Ok (LRet _) w' => mkSys w' (sy_r x) WDone
        | Panicked w' => mkSys w' (sy_r x) WPanic
        end
      else x
    | _ => x
    end
  end.

Fixpoint sys_run (p : rparams) (x : sys) (sched : list who) : sys :=
  match sched with
  | [] => x
  | c :: r => sys_run p (sys_step p x c) r
  end.

(* ---- the stream's frames: the complete frames of the byte stream, an incomplete tail dropped ---- *)
Fixpoint chop (fuel : nat) (fs : nat) (b : Writer.bytes) : list Writer.bytes :=
  match fuel with
  | O => []
  | S k => if Nat.ltb (List.length b) fs then [] else firstn fs b :: chop k fs (skipn fs b)
  end.
Definition stream_frames (fs : nat) (b : Writer.bytes) : list Writer.bytes := chop (List.length b) fs b.

(* ---- a fresh connection ---- *)
Definition ww_init (c : wconf) (cfg : rcfg) (input : list Socket.bytes) (timer : list bool) (clock : list Z) : wworld :=
  mkWW c (mkRW cfg [] [] [] [] false 0) [] input 0 0 timer clock [] [] false.

(* run handleConn's part before the loop (fuel 0 ends the function where the loop would start), then
   the schedule; the loop parameters are those the translated handleConn computes (proofs/TieWriterLoop.v,
   handleConn_prelude) *)
Definition conn_params (lfr : bool) (c : wconf) (cfg : rcfg) : rparams :=
  mkRP lfr READER HDR 0 1 (wc_int1 c * rc_fps cfg) (wc_int2 c * rc_fps cfg).
