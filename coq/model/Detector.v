(* Executable model of motion/motion.go (motionDetector.Detect / Reset).

   Frames are W x H grids of 16-bit values plus the two telemetry durations Detect reads.
   The two FrameLoops (floored frames, capacity gap+1; diff frames, capacity 2) are the ring
   model of model/Ring.v, used exactly as the Go code uses them.  float32 (background
   weights) and float64 (mean) arithmetic is IEEE-754 binary32/binary64 via the standard
   library's SpecFloat (bit-exact, executable, axiom-free).

   The per-pixel loops of updateBackground are written pointwise (each pixel's new
   background/weight depends only on its own old values and the new frame) and the running
   mean is a left fold over the interior in row-major order, which is the order the Go loop
   visits pixels in. *)
From Coq Require Import List ZArith Bool.
From Coq Require Import Floats.SpecFloat.
From TR Require Import model.Ring.
Import ListNotations.
Open Scope Z_scope.

Definition grid := list (list Z).

Definition gget (g : grid) (y x : nat) : Z := nth x (nth y g []) 0.

Definition gbuild (h w : nat) (f : nat -> nat -> Z) : grid :=
  map (fun y => map (fun x => f y x) (seq 0 w)) (seq 0 h).

Record frame := mkF {
  f_pix : grid;
  f_timeon : Z;      (* Status.TimeOn, ns *)
  f_lastffc : Z      (* Status.LastFFCTime, ns *)
}.

Record dcfg := mkD {
  d_w : nat; d_h : nat;
  d_edge : nat;          (* EdgePixels = start *)
  d_gap : Z;             (* FrameCompareGap *)
  d_one : bool;          (* UseOneDiffOnly *)
  d_delta : Z;           (* DeltaThresh *)
  d_count : Z;           (* CountThresh *)
  d_warmer : bool;       (* WarmerOnly *)
  d_dynamic : bool;      (* DynamicThreshold *)
  d_thresh0 : Z;         (* TempThresh (initial / fixed) *)
  d_tmin : Z; d_tmax : Z;(* TempThreshMin / Max, 0 = unset *)
  d_preview : Z          (* previewFrames = PreviewSecs * fps *)
}.

Definition FFC_PERIOD : Z := 10000000000.   (* ffcPeriod = 10 s; checked against Extracted.v *)

Definition interior (c : dcfg) (y x : nat) : bool :=
  (Nat.leb (d_edge c) y) && (Nat.ltb y (d_h c - d_edge c)) &&
  (Nat.leb (d_edge c) x) && (Nat.ltb x (d_w c - d_edge c)).

(* interior coordinates in row-major order *)
Definition icoords (c : dcfg) : list (nat * nat) :=
  flat_map (fun y => map (fun x => (y, x)) (seq (d_edge c) (d_w c - d_edge c - d_edge c)))
           (seq (d_edge c) (d_h c - d_edge c - d_edge c)).

(* ---------------- floats ---------------- *)
Definition f32 := spec_float.
Definition f64 := spec_float.
Definition f32_of_Z (z : Z) : f32 := binary_normalize 24 128 z 0 false.
Definition f64_of_Z (z : Z) : f64 := binary_normalize 53 1024 z 0 false.
Definition f32_sub := SFsub 24 128.
Definition f32_add := SFadd 24 128.
Definition f64_add := SFadd 53 1024.
Definition f64_div := SFdiv 53 1024.
Definition f32_zero : f32 := S754_zero false.
Definition f64_zero : f64 := S754_zero false.
Definition f32_tenth : f32 := S754_finite false 13421773 (-27).   (* float32(0.1) *)

(* Go's uint16(float64) for finite non-negative values below 2^16: truncation *)
Definition f64_trunc (f : f64) : Z :=
  match f with
  | S754_finite s m e =>
    let v := match e with
             | Zneg p => Z.shiftr (Zpos m) (Zpos p)
             | _ => Z.shiftl (Zpos m) e
             end in
    if s then - v else v
  | _ => 0
  end.

Definition f64_max (a b : f64) : f64 := if SFltb a b then b else a.  (* math.Max, no NaNs here *)
Definition f64_min (a b : f64) : f64 := if SFltb b a then b else a.  (* math.Min *)

(* ---------------- state ---------------- *)
Record dstate := mkDS {
  s_floored : ring frame;
  s_diffs : ring grid;
  s_firstdiff : bool;
  s_affected : bool;       (* affectedByFCC *)
  s_thresh : Z;            (* tempThresh *)
  s_bg : grid;             (* background.Pix *)
  s_wts : list (list f32); (* backgroundWeight *)
  s_bgframes : Z           (* backgroundFrames *)
}.

Definition zero_grid (c : dcfg) : grid := gbuild (d_h c) (d_w c) (fun _ _ => 0).
Definition blank_frame (c : dcfg) : frame := mkF (zero_grid c) 0 0.

Definition dinit (c : dcfg) : dstate :=
  mkDS (new_ring (d_gap c + 1) (blank_frame c)) (new_ring 2 (zero_grid c))
       false false (d_thresh0 c) (zero_grid c)
       (map (fun _ => map (fun _ => f32_zero) (seq 0 (d_w c))) (seq 0 (d_h c))) 0.

(* motionDetector.Reset *)
Definition dreset (s : dstate) : dstate :=
  mkDS (reset (s_floored s)) (reset (s_diffs s)) (s_firstdiff s) (s_affected s) (s_thresh s)
       (s_bg s) (s_wts s) 0.

Definition affected_by_ffc (f : frame) : bool := f_timeon f - f_lastffc f <? FFC_PERIOD.

(* ---------------- diffs ---------------- *)
Definition floor_to (t v : Z) : Z := if v <? t then t else v.
Definition abs_diff (a b : Z) : Z := Z.abs (a - b).
Definition warmer_diff (a b : Z) : Z := if a - b <? 0 then 0 else a - b.

(* absDiffFrames / warmerDiffFrames into a zeroed diff frame (only the interior is written) *)
Definition diff_grid (c : dcfg) (thresh : Z) (a b : grid) : grid :=
  gbuild (d_h c) (d_w c) (fun y x =>
    if interior c y x then
      let va := floor_to thresh (gget a y x) in
      let vb := floor_to thresh (gget b y x) in
      if d_warmer c then warmer_diff va vb else abs_diff va vb
    else 0).

Definition icount (c : dcfg) (p : nat -> nat -> bool) : Z :=
  fold_left (fun n yx => if p (fst yx) (snd yx) then n + 1 else n) (icoords c) 0.

(* hasMotion *)
Definition has_motion (c : dcfg) (d1 d2 : grid) : bool :=
  let n := if d_one c then icount c (fun y x => d_delta c <? gget d1 y x)
           else icount c (fun y x => (d_delta c <? gget d1 y x) && (d_delta c <? gget d2 y x)) in
  d_count c <=? n.

(* ---------------- background / threshold ---------------- *)
Definition wget (w : list (list f32)) (y x : nat) : f32 := nth x (nth y w []) f32_zero.

Definition clampn (lo hi v : nat) : nat := Nat.min (Nat.max v lo) hi.

(* nearest interior pixel of (y, x) *)
Definition near_y (c : dcfg) (y : nat) : nat := clampn (d_edge c) (d_h c - d_edge c - 1) y.
Definition near_x (c : dcfg) (x : nat) : nat := clampn (d_edge c) (d_w c - d_edge c - 1) x.

(* does the new frame replace the background at this (interior) pixel? *)
Definition replaces (s : dstate) (f : frame) (prev_ffc seed : bool) (y x : nat) : bool :=
  seed || prev_ffc ||
  SFltb (f32_sub (f32_of_Z (gget (f_pix f) y x)) (wget (s_wts s) y x)) (f32_of_Z (gget (s_bg s) y x)).

(* updateBackground: (new background, new weights, mean, changed) *)
Definition update_background (c : dcfg) (s : dstate) (f : frame) (prev_ffc : bool)
  : grid * list (list f32) * f64 * bool :=
  let seed := s_bgframes s + 1 =? 1 in
  let bgi := fun y x => if replaces s f prev_ffc seed y x then gget (f_pix f) y x else gget (s_bg s) y x in
  let bg' := gbuild (d_h c) (d_w c) (fun y x => bgi (near_y c y) (near_x c x)) in
  let wts' :=
    if seed then s_wts s
    else map (fun y => map (fun x =>
           if interior c y x then
             if replaces s f prev_ffc false y x then f32_zero
             else f32_add (wget (s_wts s) y x) f32_tenth
           else wget (s_wts s) y x) (seq 0 (d_w c))) (seq 0 (d_h c)) in
  let npix := f64_of_Z (Z.of_nat ((d_h c - d_edge c - d_edge c) * (d_w c - d_edge c - d_edge c))) in
  let avg := fold_left (fun a yx => f64_add a (f64_div (f64_of_Z (bgi (fst yx) (snd yx))) npix)) (icoords c) f64_zero in
  let changed := seed || existsb (fun yx => replaces s f prev_ffc false (fst yx) (snd yx)) (icoords c) in
  (bg', wts', avg, changed).

(* calculateThreshold *)
Definition calc_threshold (c : dcfg) (avg : f64) : Z :=
  let t1 := if d_tmin c =? 0 then avg else f64_max avg (f64_of_Z (d_tmin c)) in
  let t2 := if d_tmax c =? 0 then t1 else f64_min t1 (f64_of_Z (d_tmax c)) in
  f64_trunc t2.

(* ---------------- Detect ---------------- *)
Definition detect (c : dcfg) (s : dstate) (f : frame) : dstate * bool :=
  let prev_ffc := s_affected s in
  let aff := affected_by_ffc f in
  (* dynamic threshold / background *)
  let '(bg1, wts1, bgframes1, thresh1) :=
    if d_dynamic c && negb aff then
      let '(bg', wts', avg, changed) := update_background c s f prev_ffc in
      let n := s_bgframes s + 1 in
      (bg', wts', n, if changed && (d_preview c <? n) then calc_threshold c avg else s_thresh s)
    else (s_bg s, s_wts s, s_bgframes s, s_thresh s) in
  (* pixelsChanged *)
  let fl1 := put (s_floored s) f in                         (* setFloor: copy into Current() *)
  let cmp := oldest_slot (blank_frame c) fl1 in             (* flooredFrames.Oldest() *)
  let dg := diff_grid c thresh1 (f_pix f) (f_pix cmp) in
  let df1 := put (s_diffs s) dg in
  let df2 := move df1 in                                    (* diffFrames.Move() *)
  let prev_diff := current (zero_grid c) df2 in
  if negb (s_firstdiff s) then
    (mkDS (move fl1) df2 true aff thresh1 bg1 wts1 bgframes1, false)
  else if aff || prev_ffc then
    (mkDS (move (set_as_oldest fl1)) df2 false aff thresh1 bg1 wts1 bgframes1, false)
  else
    (mkDS (move fl1) df2 true aff thresh1 bg1 wts1 bgframes1, has_motion c dg prev_diff).

(* streams: frames and resets *)
Inductive dev := DFrame (f : frame) | DReset.

(* per event: the verdict (false for a reset) and the threshold afterwards *)
Fixpoint drun (c : dcfg) (s : dstate) (evs : list dev) : list (bool * Z) :=
  match evs with
  | [] => []
  | DFrame f :: t => let (s', m) := detect c s f in (m, s_thresh s') :: drun c s' t
  | DReset :: t => let s' := dreset s in (false, s_thresh s') :: drun c s' t
  end.

Fixpoint dfinal (c : dcfg) (s : dstate) (evs : list dev) : dstate :=
  match evs with
  | [] => s
  | DFrame f :: t => dfinal c (fst (detect c s f)) t
  | DReset :: t => dfinal c (dreset s) t
  end.
