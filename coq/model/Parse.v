(* Executable model of the two raw-frame parsers: lepton3.ParseRawFrame (telemetry words in
   "Big16" order, big-endian pixels after 640 telemetry bytes) and convertRawBosonFrame
   (little-endian pixels, fixed telemetry).  Both write pixels row by row into the frame they
   are given and stop at the first zero pixel outside the edge border - after having stored it,
   so the frame (the ring's current slot) is left partially overwritten. *)
From Coq Require Import List ZArith Bool.
From Coq Require Import Floats.SpecFloat.
From TR Require Import model.Detector.
Import ListNotations.
Open Scope Z_scope.

Definition byte_at (raw : list Z) (i : nat) : Z := nth i raw 0.

Definition be16 (raw : list Z) (off : nat) : Z := byte_at raw off * 256 + byte_at raw (off + 1).
Definition le16 (raw : list Z) (off : nat) : Z := byte_at raw off + 256 * byte_at raw (off + 1).

(* Big16.Uint32: low 16 bits in the first (big-endian) word, high 16 bits in the second *)
Definition big16_u32 (raw : list Z) (off : nat) : Z := be16 raw off + 65536 * be16 raw (off + 2).

Definition TELEMETRY_BYTES : nat := 640.

Inductive fmt := Lepton | Boson.

Definition pix_off (f : fmt) (w y x : nat) : nat :=
  match f with
  | Lepton => TELEMETRY_BYTES + 2 * (y * w + x)
  | Boson => 2 * (y * w + x)
  end.

Definition raw_pixel (f : fmt) (raw : list Z) (w y x : nat) : Z :=
  match f with
  | Lepton => be16 raw (pix_off f w y x)
  | Boson => le16 raw (pix_off f w y x)
  end.

Definition on_edge (h w edge y x : nat) : bool :=
  Nat.ltb y edge || Nat.ltb x edge || Nat.leb (h - edge) y || Nat.leb (w - edge) x.

(* row-major coordinates *)
Definition coords (h w : nat) : list (nat * nat) :=
  flat_map (fun y => map (fun x => (y, x)) (seq 0 w)) (seq 0 h).

(* position (in row-major order) of the first zero pixel that is not on the edge *)
Fixpoint first_bad (f : fmt) (raw : list Z) (h w edge : nat) (cs : list (nat * nat)) (k : nat) : option nat :=
  match cs with
  | [] => None
  | (y, x) :: r =>
    if negb (on_edge h w edge y x) && (raw_pixel f raw w y x =? 0) then Some k
    else first_bad f raw h w edge r (S k)
  end.

Record telemetry := mkTel {
  t_timeon : Z;        (* ns *)
  t_ffcstate : Z;      (* 0 never, 1 imminent, 2 running, 3 complete *)
  t_framecount : Z;
  t_framemean : Z;
  t_tempc : spec_float;       (* float64 *)
  t_lastffctempc : spec_float;
  t_lastffc : Z        (* ns *)
}.

Definition MS : Z := 1000000.

(* centiK.ToC: float64(int(c) - 27315) / 100 *)
Definition centik_to_c (c : Z) : spec_float := f64_div (f64_of_Z (c - 27315)) (f64_of_Z 100).

(* lepton3.ParseTelemetry: word offsets of telemetryWords, in bytes *)
Definition lepton_telemetry (raw : list Z) : telemetry :=
  mkTel (big16_u32 raw 2 * MS)
        ((big16_u32 raw 6 / 16) mod 4)      (* status & (3<<4) >> 4 *)
        (big16_u32 raw 40)
        (be16 raw 44)
        (centik_to_c (be16 raw 48))
        (centik_to_c (be16 raw 58))
        (big16_u32 raw 60 * MS).

(* convertRawBosonFrame: LastFFCTime = 1 s, TimeOn = 1 min, everything else zero *)
Definition boson_telemetry : telemetry :=
  mkTel 60000000000 (-1) 0 0 (S754_zero false) (S754_zero false) 1000000000.

Record parsed := mkParsed {
  p_bad : bool;              (* BadFrameErr returned *)
  p_pix : grid;              (* the frame's pixels after the call *)
  p_tel : telemetry
}.

(* [old]: the pixels the frame held before the call *)
Definition parse_raw (f : fmt) (raw : list Z) (h w edge : nat) (old : grid) : parsed :=
  let bad := first_bad f raw h w edge (coords h w) 0 in
  let pix := gbuild h w (fun y x =>
               match bad with
               | Some k => if Nat.leb (y * w + x) k then raw_pixel f raw w y x else gget old y x
               | None => raw_pixel f raw w y x
               end) in
  mkParsed (match bad with Some _ => true | None => false end) pix
           (match f with Lepton => lepton_telemetry raw | Boson => boson_telemetry end).

(* ---- specification ---- *)
(* some pixel outside the edge border is zero *)
Definition has_bad_pixel (f : fmt) (raw : list Z) (h w edge : nat) : bool :=
  existsb (fun yx => negb (on_edge h w edge (fst yx) (snd yx)) && (raw_pixel f raw w (fst yx) (snd yx) =? 0)) (coords h w).

(* IEEE-754 binary64 bit pattern *)
Definition f64_bits (f : spec_float) : Z :=
  match f with
  | S754_zero s => if s then 9223372036854775808 else 0
  | S754_infinity s => (if s then 9223372036854775808 else 0) + 9218868437227405312
  | S754_nan => 9221120237041090560
  | S754_finite s m e =>
    (if s then 9223372036854775808 else 0) +
    (if Zpos m <? 4503599627370496 then Zpos m else (e + 1075) * 4503599627370496 + (Zpos m - 4503599627370496))
  end.
