(* Interleaving model for C16: the frame-processing loop and a snapshot requester sharing the
   pre-trigger ring and its mutex.

   Frame loop, per frame k = 1, 2, ...:  parse frame k into the current slot one pixel per step
   WITHOUT the lock (MotionProcessor.Process writes through frameLoop.Current());  then
   FrameLoop.Move(): lock, advance the current index, unlock.
   Requester (GetRecentFrame -> FrameLoop.CopyRecent): lock; idx := (cur - 1 + size) mod size;
   copy slot idx one pixel per step with the lock held; unlock; return the copy.
   Frames are uniform-valued (every pixel of frame k is k), so a mixture is visible. *)
From Coq Require Import List ZArith Bool.
Import ListNotations.
Open Scope Z_scope.

Inductive tid := TLoop | TReq.

Inductive loop_pc :=
| LWrite (p : nat)     (* about to write pixel p of the frame being parsed *)
| LWantLock            (* Move(): waiting for the mutex *)
| LAdvance             (* holds the mutex: about to advance the index *)
| LUnlock.             (* about to release *)

Inductive req_pc :=
| RIdle                               (* no request yet *)
| RWantLock (at_request : Z)          (* request made when [at_request] frames were complete *)
| RCopy (at_request : Z) (idx : Z) (p : nat) (acc : list Z)   (* holds the mutex, copying *)
| RUnlock (at_request : Z) (acc : list Z)
| RDone (at_request at_return : Z) (result : list Z).

Record cstate := mkCS {
  cs_size : Z;                 (* ring capacity *)
  cs_npix : nat;               (* pixels per frame *)
  cs_slots : list (list Z);    (* slot contents *)
  cs_cur : Z;                  (* currentIndex *)
  cs_lock : option tid;        (* who holds the mutex *)
  cs_frame : Z;                (* number of the frame being parsed (1-based) *)
  cs_done : Z;                 (* frames whose processing has completed (= Moves done) *)
  cs_lpc : loop_pc;
  cs_rpc : req_pc
}.

Definition cs_init (size : Z) (npix : nat) : cstate :=
  mkCS size npix (repeat (repeat 0 npix) (Z.to_nat size)) 0 None 1 0 (LWrite 0) RIdle.

Fixpoint upd_nth {A} (l : list A) (n : nat) (v : A) : list A :=
  match l, n with
  | [], _ => []
  | _ :: t, O => v :: t
  | h :: t, S k => h :: upd_nth t k v
  end.

Definition slot (s : cstate) (i : Z) : list Z := nth (Z.to_nat i) (cs_slots s) [].

Definition set_pixel (s : cstate) (i : Z) (p : nat) (v : Z) : list (list Z) :=
  upd_nth (cs_slots s) (Z.to_nat i) (upd_nth (slot s i) p v).

(* one step of thread [t]; None = the thread cannot move (blocked on the mutex / finished) *)
Definition cstep (s : cstate) (t : tid) : option cstate :=
  match t with
  | TLoop =>
    match cs_lpc s with
    | LWrite p =>
      let slots' := set_pixel s (cs_cur s) p (cs_frame s) in
      Some (mkCS (cs_size s) (cs_npix s) slots' (cs_cur s) (cs_lock s) (cs_frame s) (cs_done s)
                 (if Nat.ltb (S p) (cs_npix s) then LWrite (S p) else LWantLock) (cs_rpc s))
    | LWantLock =>
      match cs_lock s with
      | None => Some (mkCS (cs_size s) (cs_npix s) (cs_slots s) (cs_cur s) (Some TLoop) (cs_frame s) (cs_done s) LAdvance (cs_rpc s))
      | Some _ => None
      end
    | LAdvance =>
      Some (mkCS (cs_size s) (cs_npix s) (cs_slots s) ((cs_cur s + 1) mod cs_size s) (cs_lock s) (cs_frame s) (cs_done s) LUnlock (cs_rpc s))
    | LUnlock =>
      (* the frame's processing is complete; the next frame is parsed into the new current slot *)
      Some (mkCS (cs_size s) (cs_npix s) (cs_slots s) (cs_cur s) None (cs_frame s + 1) (cs_done s + 1) (LWrite 0) (cs_rpc s))
    end
  | TReq =>
    match cs_rpc s with
    | RIdle =>
      Some (mkCS (cs_size s) (cs_npix s) (cs_slots s) (cs_cur s) (cs_lock s) (cs_frame s) (cs_done s) (cs_lpc s) (RWantLock (cs_done s)))
    | RWantLock a =>
      match cs_lock s with
      | None =>
        Some (mkCS (cs_size s) (cs_npix s) (cs_slots s) (cs_cur s) (Some TReq) (cs_frame s) (cs_done s) (cs_lpc s)
                   (RCopy a ((cs_cur s - 1 + cs_size s) mod cs_size s) 0 []))
      | Some _ => None
      end
    | RCopy a idx p acc =>
      let acc' := acc ++ [nth p (slot s idx) 0] in
      Some (mkCS (cs_size s) (cs_npix s) (cs_slots s) (cs_cur s) (cs_lock s) (cs_frame s) (cs_done s) (cs_lpc s)
                 (if Nat.ltb (S p) (cs_npix s) then RCopy a idx (S p) acc' else RUnlock a acc'))
    | RUnlock a acc =>
      Some (mkCS (cs_size s) (cs_npix s) (cs_slots s) (cs_cur s) None (cs_frame s) (cs_done s) (cs_lpc s) (RDone a (cs_done s) acc))
    | RDone _ _ _ => None
    end
  end.

(* a schedule is any list of thread choices; a choice that cannot move is skipped *)
Fixpoint crun (s : cstate) (sched : list tid) : cstate :=
  match sched with
  | [] => s
  | t :: r => match cstep s t with Some s' => crun s' r | None => crun s r end
  end.

(* the frame loop alone: its visible state after n of its own steps *)
Fixpoint loop_only (s : cstate) (n : nat) : cstate :=
  match n with
  | O => s
  | S k => match cstep s TLoop with Some s' => loop_only s' k | None => s end
  end.

(* number of loop steps that actually happened in a schedule *)
Fixpoint loop_steps (s : cstate) (sched : list tid) : nat :=
  match sched with
  | [] => O
  | t :: r => match cstep s t with
              | Some s' => (match t with TLoop => S (loop_steps s' r) | TReq => loop_steps s' r end)
              | None => loop_steps s r
              end
  end.

(* ---- data-race clause: shared variables and how each thread accesses them ---- *)
Inductive lockset := NoLock | RingMu | SnapMu.    (* FrameLoop.mu ; snapshot.go's package mutex *)
Inductive accesskind := Rd | Wr.
Inductive thread := FrameLoopThread | RequestThread.

Record access := mkAcc { a_var : nat; a_thread : thread; a_kind : accesskind; a_lock : lockset }.

(* variables: 0 ring.currentIndex, 1 ring slot pixels (previous slot), 2 processor.CurrentFrame,
   3 processor.StartSnapshot, 4 package var processor, 5 package var headerInfo *)
Definition access_table : list access :=
  [ mkAcc 0 FrameLoopThread Wr RingMu;  mkAcc 0 RequestThread Rd RingMu;     (* Move / CopyRecent *)
    mkAcc 1 FrameLoopThread Rd NoLock;  mkAcc 1 RequestThread Rd RingMu;     (* detection reads / CreateCopy reads: read-read *)
    mkAcc 2 FrameLoopThread Wr NoLock;  mkAcc 2 RequestThread Rd SnapMu;     (* mp.CurrentFrame += 1 / newSnapshot reads it *)
    mkAcc 3 FrameLoopThread Wr NoLock;  mkAcc 3 FrameLoopThread Rd NoLock; mkAcc 3 RequestThread Wr SnapMu;  (* processSnapshot / newSnapshotRecording *)
    mkAcc 4 FrameLoopThread Wr NoLock;  mkAcc 4 RequestThread Rd SnapMu;     (* handleConn assigns processor / newSnapshot reads it *)
    mkAcc 5 FrameLoopThread Wr NoLock;  mkAcc 5 RequestThread Rd NoLock ].   (* handleConn assigns headerInfo / CameraInfo reads it *)

Definition conflicting (a b : access) : bool :=
  Nat.eqb (a_var a) (a_var b) &&
  negb (match a_thread a, a_thread b with FrameLoopThread, FrameLoopThread | RequestThread, RequestThread => true | _, _ => false end) &&
  (match a_kind a, a_kind b with Rd, Rd => false | _, _ => true end) &&
  negb (match a_lock a, a_lock b with RingMu, RingMu | SnapMu, SnapMu => true | _, _ => false end).

Definition racy_vars : list nat :=
  nodup Nat.eq_dec (flat_map (fun a => flat_map (fun b => if conflicting a b then [a_var a] else []) access_table) access_table).
