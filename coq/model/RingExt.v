(* Running the translated FrameLoop (coq/translated/FrameLoop.v) on the op sequences of the
   ring model: frame contents live in the world (a list indexed by handle), the mutex is
   free, CreateCopy returns the handle it is given.  No proofs in this file. *)
From Coq Require Import List ZArith Bool String.
From TR Require Import model.GoSem model.Ring translated.FrameLoop.
Import ListNotations.
Open Scope Z_scope.

Definition rext (name : string) (args : list arg) (w : list Z) : Z * list Z :=
  if String.eqb name "Frame.CreateCopy" then
    match args with [AFrame h] => (h, w) | _ => (-1, w) end
  else (0, w).

Definition fl_init (sz : Z) : FrameLoop :=
  mkFrameLoop sz 0 (map Z.of_nat (seq 0 (Z.to_nat sz))) (repeat (-1) (Z.to_nat sz)) false 0.

Definition content (w : list Z) (h : Z) : Z := nth (Z.to_nat h) w 0.

(* what the harness observes after every op: GetHistory, Oldest, CopyRecent, Current
   (-99 marks a panic of the translated code) *)
Definition src_observe (fl : FrameLoop) (w : list Z) : list Z * Z * Z * Z :=
  let hist := match FrameLoop_GetHistory rext fl w with
              | Ok (_, h) _ => map (content w) h
              | Panicked _ => [-99]
              end in
  let old := match FrameLoop_Oldest rext fl w with Ok (_, h) _ => content w h | Panicked _ => -99 end in
  let rec := match FrameLoop_CopyRecent rext fl w with Ok (_, h) _ => content w h | Panicked _ => -99 end in
  let cur := match FrameLoop_Current rext fl w with Ok (_, h) _ => content w h | Panicked _ => -99 end in
  (hist, old, rec, cur).

Definition src_rstep (fw : FrameLoop * list Z) (o : rop Z) : FrameLoop * list Z :=
  let (fl, w) := fw in
  match o with
  | OPut v =>
    match FrameLoop_Current rext fl w with
    | Ok (fl', h) w' => (fl', upd w' (Z.to_nat h) v)
    | Panicked w' => (fl, w')
    end
  | OMove => match FrameLoop_Move rext fl w with Ok (fl', _) w' => (fl', w') | Panicked w' => (fl, w') end
  | OMark => match FrameLoop_SetAsOldest rext fl w with Ok (fl', _) w' => (fl', w') | Panicked w' => (fl, w') end
  | OReset => match FrameLoop_Reset rext fl w with Ok (fl', _) w' => (fl', w') | Panicked w' => (fl, w') end
  end.

Fixpoint src_ring_trace (fw : FrameLoop * list Z) (ops : list (rop Z)) : list (list Z * Z * Z * Z) :=
  match ops with
  | [] => []
  | o :: t => let fw' := src_rstep fw o in src_observe (fst fw') (snd fw') :: src_ring_trace fw' t
  end.

Definition src_ring_run (sz : Z) (ops : list (rop Z)) : list (list Z * Z * Z * Z) :=
  src_ring_trace (fl_init sz, repeat 0 (Z.to_nat sz)) ops.
