(* The outside world of the translated MotionProcessor (coq/translated/MotionProcessor.v).

   The translated code calls [ext name args] for everything it does not define: the frame
   parser, the detector, the recording window, the three recorders (sinks), the listener,
   logging.  This file gives those calls the meaning the hand-written model
   (model/Processor.v) assumes - scripted verdicts and fault scripts, one output per call -
   so that the translated processor can be run on the same event lists as the model
   ([src_run]) and proved equal to it (proofs/TieProc.v).

   A call the handler does not know, or a known call with unexpected arguments (e.g. a sink
   started with anything but the detector's background and threshold), emits [Panic]: the
   equality with the model then fails, which is the point.  No proofs in this file. *)
From Coq Require Import List ZArith Bool String.
From TR Require Import model.GoSem model.Ring model.Processor translated.FrameLoop translated.MotionProcessor.
Import ListNotations.
Open Scope Z_scope.

Record pworld := mkPW {
  pw_slots : list Z;        (* contents (frame ids) of the ring's frames, by handle *)
  pw_id : Z;                (* the frame being delivered *)
  pw_bad : bool;            (* ... is rejected by the parser *)
  pw_motion : bool;         (* ... the detector's verdict for it *)
  pw_win : bool;            (* ... the window's answer at that time *)
  pw_fm : list bool;        (* fault scripts of the motion / continuous / test sink *)
  pw_fc : list bool;
  pw_ft : list bool;
  pw_out : list out         (* outputs so far, oldest first *)
}.

Definition emit (o : out) (w : pworld) : pworld :=
  mkPW (pw_slots w) (pw_id w) (pw_bad w) (pw_motion w) (pw_win w) (pw_fm w) (pw_fc w) (pw_ft w) (pw_out w ++ [o]).

Definition set_slot (h v : Z) (w : pworld) : pworld :=
  mkPW (upd (pw_slots w) (Z.to_nat h) v) (pw_id w) (pw_bad w) (pw_motion w) (pw_win w) (pw_fm w) (pw_fc w) (pw_ft w) (pw_out w).

Definition slot (w : pworld) (h : Z) : Z := nth (Z.to_nat h) (pw_slots w) 0.

Definition sink_call (s : sink) (c : call) (w : pworld) : Z * pworld :=
  match s with
  | SMotion => let (f, r) := pop (pw_fm w) in
               (bool_to_z f, mkPW (pw_slots w) (pw_id w) (pw_bad w) (pw_motion w) (pw_win w) r (pw_fc w) (pw_ft w) (pw_out w ++ [Call s c f]))
  | SConst => let (f, r) := pop (pw_fc w) in
              (bool_to_z f, mkPW (pw_slots w) (pw_id w) (pw_bad w) (pw_motion w) (pw_win w) (pw_fm w) r (pw_ft w) (pw_out w ++ [Call s c f]))
  | STest => let (f, r) := pop (pw_ft w) in
             (bool_to_z f, mkPW (pw_slots w) (pw_id w) (pw_bad w) (pw_motion w) (pw_win w) (pw_fm w) (pw_fc w) r (pw_out w ++ [Call s c f]))
  end.

Definition BG : arg := ASym "MotionProcessor.motionDetector.background".
Definition TH : arg := ASym "MotionProcessor.motionDetector.tempThresh".

Definition arg_eqb (a b : arg) : bool :=
  match a, b with
  | AInt x, AInt y => x =? y
  | ABool x, ABool y => Bool.eqb x y
  | AStr x, AStr y => String.eqb x y
  | AFrame x, AFrame y => x =? y
  | ASym x, ASym y => String.eqb x y
  | _, _ => false
  end.

Fixpoint args_eqb (a b : list arg) : bool :=
  match a, b with
  | [], [] => true
  | x :: a', y :: b' => arg_eqb x y && args_eqb a' b'
  | _, _ => false
  end.

(* the three recorders *)
Definition sink_ext (s : sink) (start_args : list arg) (meth : string) (args : list arg) (w : pworld) : Z * pworld :=
  if String.eqb meth "CheckCanRecord" then
    match args with [] => sink_call s Check w | _ => (0, emit Panic w) end
  else if String.eqb meth "StartRecording" then
    if args_eqb args start_args then sink_call s Start w else (0, emit Panic w)
  else if String.eqb meth "WriteFrame" then
    match args with [AFrame h] => sink_call s (Write (slot w h)) w | _ => (0, emit Panic w) end
  else if String.eqb meth "StopRecording" then
    match args with [] => sink_call s Stop w | _ => (0, emit Panic w) end
  else (0, emit Panic w).

Definition strip (pre s : string) : option string :=
  if String.prefix pre s then Some (String.substring (String.length pre) (String.length s - String.length pre) s) else None.

Definition pext (name : string) (args : list arg) (w : pworld) : Z * pworld :=
  if String.eqb name "MotionProcessor.parseFrame" then
    match args with
    | [ASym "rawFrame"; AFrame h; ASym "MotionProcessor.motionDetector.start"] =>
      if pw_bad w then (1, set_slot h BAD_ID w) else (0, set_slot h (pw_id w) w)
    | _ => (0, emit Panic w)
    end
  else if String.eqb name "MotionProcessor.motionDetector.Detect" then
    match args with [AFrame _] => (bool_to_z (pw_motion w), w) | _ => (0, emit Panic w) end
  else if String.eqb name "MotionProcessor.motionDetector.Reset" then (0, w)
  else if String.eqb name "MotionProcessor.window.Active" then
    (bool_to_z (pw_win w), emit (WinQ (pw_win w)) w)
  else if String.eqb name "nonnil:MotionProcessor.listener" then (1, w)
  else if String.eqb name "MotionProcessor.listener.MotionDetected" then (0, emit LMotion w)
  else if String.eqb name "MotionProcessor.listener.RecordingStarted" then (0, emit LStarted w)
  else if String.eqb name "MotionProcessor.listener.RecordingEnded" then (0, emit LEnded w)
  else if String.eqb name "MotionProcessor.log.Printf" then (0, w)
  else if String.eqb name "FrameLoop.mu.Lock" then (0, w)      (* single-threaded run: the ring's mutex is free *)
  else if String.eqb name "FrameLoop.mu.Unlock" then (0, w)
  else match strip "MotionProcessor.recorder." name with
  | Some m => sink_ext SMotion [BG; TH] m args w
  | None =>
  match strip "MotionProcessor.constantRecorder." name with
  | Some m => sink_ext SConst [BG; AInt 0] m args w
  | None =>
  match strip "MotionProcessor.snapshotRecorder." name with
  | Some m => sink_ext STest [BG; AInt 0] m args w
  | None => (0, emit Panic w)
  end end end.

(* ---- running the translated processor on the model's events ---- *)

Definition handles (n : Z) : list Z := map Z.of_nat (seq 0 (Z.to_nat n)).

(* NewMotionProcessor / NewFrameLoop for the configuration c (the constructor's arithmetic -
   ring capacity, minFrames, maxFrames - is read by the translator into Extracted.v) *)
Definition mp_init (c : pcfg) : MotionProcessor :=
  mkMotionProcessor (p_min c) (p_max c) 0
    (mkFrameLoop (p_size c) 0 (handles (p_size c)) (repeat (-1) (Z.to_nat (p_size c))) false 0)
    false 0 (p_trig c) 0 (p_const c) 0 0 false false 0.

Definition pw_init (c : pcfg) (fm fc ft : list bool) : pworld :=
  mkPW (repeat 0 (Z.to_nat (p_size c))) 0 false false false fm fc ft [].

Definition feed (w : pworld) (id : Z) (bad motion win : bool) : pworld :=
  mkPW (pw_slots w) id bad motion win (pw_fm w) (pw_fc w) (pw_ft w) [].

(* one event: the new state and world, and the outputs of this step ([Panic] appended when
   the translated code panics) *)
Definition src_step (mw : MotionProcessor * pworld) (e : ev) : (MotionProcessor * pworld) * list out :=
  let (mp, w) := mw in
  match e with
  | EFrame id motion win =>
    match MotionProcessor_Process pext mp (feed w id false motion win) with
    | Ok (mp', _) w' => ((mp', w'), pw_out w')
    | Panicked w' => ((mp, w'), pw_out w' ++ [Panic])
    end
  | EBad =>
    match MotionProcessor_Process pext mp (feed w 0 true false false) with
    | Ok (mp', _) w' => ((mp', w'), pw_out w')
    | Panicked w' => ((mp, w'), pw_out w' ++ [Panic])
    end
  | EReset =>
    match MotionProcessor_Reset pext mp (feed w 0 false false false) with
    | Ok (mp', _) w' => ((mp', w'), pw_out w')
    | Panicked w' => ((mp, w'), pw_out w' ++ [Panic])
    end
  | ESnapReq => ((MotionProcessor_set_StartSnapshot true mp, w), [])
  end.

Fixpoint src_run_from (mw : MotionProcessor * pworld) (evs : list ev) : list (list out) :=
  match evs with
  | [] => []
  | e :: t => let (mw', o) := src_step mw e in o :: src_run_from mw' t
  end.

Definition src_run (c : pcfg) (fm fc ft : list bool) (evs : list ev) : list (list out) :=
  src_run_from (mp_init c, pw_init c fm fc ft) evs.
