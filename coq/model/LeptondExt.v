(* The outside world of the translated camera daemon's sending side (coq/translated/Leptond.v, from
   sendCameraSpecs, runCamera and the restart loop of runMain in cmd/leptond/main.go), and the model
   the tie theorems (proofs/TieLeptond.v) compare it with.

   What is outside the translated code, and what this file says it means:
     the camera          a SCRIPT of NextFrame results ([sw_cam]: a frame's bytes | an error; exhausted:
                         an error).  NextFrame(frame) on the camera that is open fills the frame buffer
                         (whose contents live here, [sw_frame]) or returns an error and leaves it alone.
                         ResX / ResY / FPS / GetSerial / GetSoftwareVersion / GetModel answer from the
                         configuration [scfg]; a failing GetSerial / GetSoftwareVersion ALSO hands back a
                         junk value ([s_junk]) - the Go code must not use it;
     restarting          camera.Close() closes the open camera; cycleCameraPower answers from a script
                         ([sw_power]: true = it fails; exhausted: it fails) and makes sense only while no
                         camera is open; startCamera answers from a script ([sw_start]) and yields a NEW
                         camera (a fresh token) that is then the open one, or nil and an error;
     the D-Bus service   service.actions.reset is set by another goroutine: each READ of it answers from a
                         script ([sw_flag]; exhausted: false); clearing it, removeCamera and setCamera are
                         logged;
     yaml.Marshal        a PARAMETER ([s_encode], a field of the configuration - every theorem is for every
                         encoder): the field map, as the list of the (key, value) pairs of the map literal
                         SORTED BY KEY (a Go map has no order), to the header text; None = it returns an error.  fmt.Sprintf with
                         the one format the code uses is a parameter too ([s_fmt]);
     the connection      the list of byte strings written so far ([sw_out]): each Write appends one chunk.
                         Writes answer from a fault script ([sw_wf]: ok | an error after the first n bytes
                         were delivered; exhausted: ok).  NOTHING is assumed about faults: a failed Write may
                         be followed by a successful one;
     values              integers are themselves; strings, byte slices, the software revision, the map and
                         views of the frame buffer are entries of a value table addressed by tokens that lie
                         ABOVE EVERY GO INTEGER (>= 2^64), so that an interface{} value of the map literal is
                         an int or a string without ambiguity ([ival]);
     errors              small positive codes; &nextFrameErr{e} is NFE + e, and err.( *nextFrameErr) asks
                         whether the code is >= NFE;
     logging, the systemd watchdog, conn.SetWriteBuffer: no effect on anything modelled here.
   A call that makes no sense (NextFrame on a camera that is not open, a Write to something that is not the
   connection, ...) is logged as [SBad]; the tie theorems show that none occurs.

   The MODEL (second half): the items the sender means to send, read off the scripts ([rc_plan],
   [main_plan] - Socket.v's [item]: a frame's bytes | the 'clear' marker), what reaches the connection given
   the write faults ([walk], [sender_chunks]) and the value returned.  No proofs in this file. *)
From Coq Require Import String List ZArith Bool.
From TR Require Import model.GoSem model.Socket model.ConnExt model.HdrExt translated.Leptond.
Import ListNotations.
Open Scope Z_scope.

(* ---- scripts ---- *)
Inductive camres := CamFrame (b : bytes) | CamErr.
Inductive wres := WOk | WFail (delivered : nat).

(* ---- error values (0 = nil) ---- *)
Definition SERR_CAM : Z := 11.      (* camera.NextFrame failed *)
Definition SERR_WRITE : Z := 12.    (* conn.Write failed *)
Definition SERR_POWER : Z := 13.    (* cycleCameraPower failed *)
Definition SERR_START : Z := 14.    (* startCamera failed *)
Definition SERR_MODEL : Z := 15.    (* camera.GetModel failed *)
Definition SERR_YAML : Z := 16.     (* yaml.Marshal failed *)
Definition SERR_INFO : Z := 17.     (* camera.GetSerial / GetSoftwareVersion failed *)
Definition SERR_OTHER : Z := 18.
Definition NFE : Z := 1000.         (* &nextFrameErr{e} is NFE + e *)

(* ---- values by token; tokens lie above every Go integer ---- *)
Definition TOKB : Z := 18446744073709551616.   (* 2^64 *)

Inductive lval :=
| LStr (b : bytes)                  (* a string or a []byte *)
| LRev (major minor build : Z)      (* a lepton3.LeptonSoftwareRevision: the three fields the code reads *)
| LMap (kvs : list (bytes * yval))  (* a map[string]interface{} literal, in source order *)
| LView (buf lo hi : Z)             (* buf[lo:hi], bounds already checked *)
| LNone.

Inductive sev :=
| SFlagCleared          (* service.actions.reset = false *)
| SRemoveCamera         (* service.removeCamera() *)
| SClose (c : Z)        (* camera.Close() of the open camera c *)
| SPower (ok : bool)    (* cycleCameraPower: true = it returned nil *)
| SStart (c : Z)        (* startCamera: the new camera; 0 = it failed *)
| SSetCamera (c : Z)    (* service.setCamera(c) *)
| SBad.                 (* a call that makes no sense *)

(* the camera's answers, the libraries that are parameters *)
Record scfg := mkSCfg {
  s_encode : list (bytes * yval) -> option bytes;   (* yaml.Marshal *)
  s_fmt : Z -> Z -> Z -> bytes;                     (* fmt.Sprintf("%d.%d.%d", a, b, c) *)
  s_fs : nat;                                       (* lepton3.BytesPerFrame *)
  s_resx : Z; s_resy : Z; s_fps : Z;
  s_serial : option Z;                              (* GetSerial; None = error *)
  s_rev : option (Z * Z * Z);                       (* GetSoftwareVersion *)
  s_model : option bytes;                           (* GetModel *)
  s_junk : Z                                        (* what a failing GetSerial / GetSoftwareVersion hands back *)
}.

Record sworld := mkSW {
  sw_cam : list camres;     (* results of the coming NextFrame calls *)
  sw_flag : list bool;      (* what the coming reads of service.actions.reset find *)
  sw_power : list bool;     (* the coming cycleCameraPower calls: true = fails *)
  sw_start : list bool;     (* the coming startCamera calls: true = fails *)
  sw_wf : list wres;        (* the coming Writes *)
  sw_out : list bytes;      (* the connection: chunks written so far *)
  sw_frame : bytes;         (* contents of the frame buffer made last *)
  sw_frametok : Z;          (* its token (0: none yet) *)
  sw_open : Z;              (* the camera that is open (0: none) *)
  sw_conn : Z;              (* the connection *)
  sw_nobj : Z;              (* cameras and buffers made so far (tokens 1 .. sw_nobj; the connection is one of them) *)
  sw_pending : Z;           (* second result of the last two-valued call *)
  sw_vals : list lval;
  sw_log : list sev
}.

Definition sset_cam (w : sworld) (c : list camres) (fr : bytes) : sworld :=
  mkSW c (sw_flag w) (sw_power w) (sw_start w) (sw_wf w) (sw_out w) fr (sw_frametok w) (sw_open w) (sw_conn w)
       (sw_nobj w) (sw_pending w) (sw_vals w) (sw_log w).
Definition sset_flag (w : sworld) (f : list bool) : sworld :=
  mkSW (sw_cam w) f (sw_power w) (sw_start w) (sw_wf w) (sw_out w) (sw_frame w) (sw_frametok w) (sw_open w) (sw_conn w)
       (sw_nobj w) (sw_pending w) (sw_vals w) (sw_log w).
Definition sset_power (w : sworld) (p : list bool) : sworld :=
  mkSW (sw_cam w) (sw_flag w) p (sw_start w) (sw_wf w) (sw_out w) (sw_frame w) (sw_frametok w) (sw_open w) (sw_conn w)
       (sw_nobj w) (sw_pending w) (sw_vals w) (sw_log w).
Definition sset_start (w : sworld) (s : list bool) (op nobj pend : Z) : sworld :=
  mkSW (sw_cam w) (sw_flag w) (sw_power w) s (sw_wf w) (sw_out w) (sw_frame w) (sw_frametok w) op (sw_conn w)
       nobj pend (sw_vals w) (sw_log w).
Definition sset_write (w : sworld) (f : list wres) (o : list bytes) (pend : Z) : sworld :=
  mkSW (sw_cam w) (sw_flag w) (sw_power w) (sw_start w) f o (sw_frame w) (sw_frametok w) (sw_open w) (sw_conn w)
       (sw_nobj w) pend (sw_vals w) (sw_log w).
Definition sset_buf (w : sworld) (fr : bytes) (tok : Z) : sworld :=
  mkSW (sw_cam w) (sw_flag w) (sw_power w) (sw_start w) (sw_wf w) (sw_out w) fr tok (sw_open w) (sw_conn w)
       tok (sw_pending w) (sw_vals w) (sw_log w).
Definition sset_open (w : sworld) (op : Z) : sworld :=
  mkSW (sw_cam w) (sw_flag w) (sw_power w) (sw_start w) (sw_wf w) (sw_out w) (sw_frame w) (sw_frametok w) op (sw_conn w)
       (sw_nobj w) (sw_pending w) (sw_vals w) (sw_log w).
Definition sset_pending (w : sworld) (p : Z) : sworld :=
  mkSW (sw_cam w) (sw_flag w) (sw_power w) (sw_start w) (sw_wf w) (sw_out w) (sw_frame w) (sw_frametok w) (sw_open w) (sw_conn w)
       (sw_nobj w) p (sw_vals w) (sw_log w).
Definition sset_vals (w : sworld) (l : list lval) : sworld :=
  mkSW (sw_cam w) (sw_flag w) (sw_power w) (sw_start w) (sw_wf w) (sw_out w) (sw_frame w) (sw_frametok w) (sw_open w) (sw_conn w)
       (sw_nobj w) (sw_pending w) l (sw_log w).
Definition slog (w : sworld) (e : sev) : sworld :=
  mkSW (sw_cam w) (sw_flag w) (sw_power w) (sw_start w) (sw_wf w) (sw_out w) (sw_frame w) (sw_frametok w) (sw_open w) (sw_conn w)
       (sw_nobj w) (sw_pending w) (sw_vals w) (sw_log w ++ [e]).

(* the value table: token TOKB + k is the k-th entry (k >= 1) *)
Definition svget (w : sworld) (tok : Z) : lval := tget LNone (sw_vals w) (tok - TOKB).
Definition svnext (w : sworld) : Z := TOKB + tlen (sw_vals w).
Definition svalloc (w : sworld) (v : lval) : sworld := sset_vals w (sw_vals w ++ [v]).

(* an interface{} value of the map literal: below 2^64 an integer, else the string behind the token *)
Definition ival (w : sworld) (z : Z) : yval :=
  if z <? TOKB then YInt z else match svget w z with LStr b => YStr b | _ => YOther end.

Definition sbad (w : sworld) : Z * sworld := (0, slog (sset_pending w SERR_OTHER) SBad).

(* ---- the calls ---- *)
Definition FLIR : bytes := bytes_of_string "flir".    (* lepton3.Brand *)

Definition sdo_nextframe (args : list arg) (w : sworld) : Z * sworld :=
  match args with
  | [AInt c; AInt f] =>
    if (c =? sw_open w) && negb (c =? 0) && (f =? sw_frametok w) && negb (f =? 0) then
      match sw_cam w with
      | CamFrame b :: r => (0, sset_cam w r b)
      | CamErr :: r => (SERR_CAM, sset_cam w r (sw_frame w))
      | [] => (SERR_CAM, w)
      end
    else (SERR_OTHER, slog w SBad)
  | _ => (SERR_OTHER, slog w SBad)
  end.

Definition sdo_slice (args : list arg) (w : sworld) : Z * sworld :=
  match args with
  | [AInt b; AInt lo; AInt hi] =>
    let hi' := if hi =? -1 then blen (sw_frame w) else hi in
    if (b =? sw_frametok w) && negb (b =? 0) && (0 <=? lo) && (lo <=? hi') && (hi' <=? blen (sw_frame w))
    then (svnext w, svalloc w (LView b lo hi'))
    else sbad w
  | _ => sbad w
  end.

(* the bytes a Write is given *)
Definition write_data (w : sworld) (a : arg) : option bytes :=
  match a with
  | ABytes bs => Some bs
  | AInt t =>
    match svget w t with
    | LStr b => Some b
    | LView buf lo hi => if buf =? sw_frametok w then Some (view_bytes (sw_frame w) lo hi) else None
    | _ => None
    end
  | _ => None
  end.

Definition sdo_write (args : list arg) (w : sworld) : Z * sworld :=
  match args with
  | [AInt c; a] =>
    match write_data w a with
    | Some d =>
      if (c =? sw_conn w) && negb (c =? 0) then
        match sw_wf w with
        | WFail n :: r => (Z.of_nat (List.length (firstn n d)), sset_write w r (sw_out w ++ [firstn n d]) SERR_WRITE)
        | _ => (blen d, sset_write w (tl (sw_wf w)) (sw_out w ++ [d]) 0)
        end
      else sbad w
    | None => sbad w
    end
  | _ => sbad w
  end.

Definition sdo_cam_int (v : Z) (args : list arg) (w : sworld) : Z * sworld :=
  match args with
  | [AInt c] => if (c =? sw_open w) && negb (c =? 0) then (v, w) else sbad w
  | _ => sbad w
  end.

Definition sdo_serial (cfg : scfg) (args : list arg) (w : sworld) : Z * sworld :=
  match args with
  | [AInt c] =>
    if (c =? sw_open w) && negb (c =? 0) then
      match s_serial cfg with
      | Some z => (z, sset_pending w 0)
      | None => (s_junk cfg, sset_pending w SERR_INFO)
      end
    else sbad w
  | _ => sbad w
  end.

Definition sdo_version (cfg : scfg) (args : list arg) (w : sworld) : Z * sworld :=
  match args with
  | [AInt c] =>
    if (c =? sw_open w) && negb (c =? 0) then
      match s_rev cfg with
      | Some (a, b, d) => (svnext w, sset_pending (svalloc w (LRev a b d)) 0)
      | None => (svnext w, sset_pending (svalloc w (LRev (s_junk cfg) (s_junk cfg) (s_junk cfg))) SERR_INFO)
      end
    else sbad w
  | _ => sbad w
  end.

Definition sdo_model (cfg : scfg) (args : list arg) (w : sworld) : Z * sworld :=
  match args with
  | [AInt c] =>
    if (c =? sw_open w) && negb (c =? 0) then
      match s_model cfg with
      | Some m => (svnext w, sset_pending (svalloc w (LStr m)) 0)
      | None => (0, sset_pending w SERR_MODEL)
      end
    else sbad w
  | _ => sbad w
  end.

Definition sdo_field (sel : Z * Z * Z -> Z) (args : list arg) (w : sworld) : Z * sworld :=
  match args with
  | [AInt r] => match svget w r with LRev a b d => (sel (a, b, d), w) | _ => sbad w end
  | _ => sbad w
  end.

Definition sdo_sprintf (cfg : scfg) (args : list arg) (w : sworld) : Z * sworld :=
  match args with
  | [AStr f; AInt a; AInt b; AInt d] =>
    if String.eqb f "%d.%d.%d" then (svnext w, svalloc w (LStr (s_fmt cfg a b d))) else sbad w
  | _ => sbad w
  end.

(* map[string]interface{}{k1: v1, ...}: keys are string literals of the source *)
Fixpoint map_pairs (w : sworld) (args : list arg) : option (list (bytes * yval)) :=
  match args with
  | [] => Some []
  | AStr k :: AInt v :: r =>
    match map_pairs w r with
    | Some l => Some ((bytes_of_string k, ival w v) :: l)
    | None => None
    end
  | _ => None
  end.

Definition sdo_map (args : list arg) (w : sworld) : Z * sworld :=
  match map_pairs w args with
  | Some l => (svnext w, svalloc w (LMap l))
  | None => sbad w
  end.

(* a Go map has no order: the encoder is handed the pairs sorted by key (bytewise; the keys of a map literal
   are distinct - the Go compiler rejects duplicate constant keys) *)
Fixpoint bytes_ltb (a b : bytes) : bool :=
  match a, b with
  | [], [] => false
  | [], _ :: _ => true
  | _ :: _, [] => false
  | x :: a', y :: b' => if x <? y then true else if y <? x then false else bytes_ltb a' b'
  end.
Fixpoint insert_pair (p : bytes * yval) (l : list (bytes * yval)) : list (bytes * yval) :=
  match l with
  | [] => [p]
  | q :: r => if bytes_ltb (fst q) (fst p) then q :: insert_pair p r else p :: l
  end.
Definition sort_pairs (l : list (bytes * yval)) : list (bytes * yval) := fold_right insert_pair [] l.

Definition sdo_marshal (cfg : scfg) (args : list arg) (w : sworld) : Z * sworld :=
  match args with
  | [AInt m] =>
    match svget w m with
    | LMap l =>
      match s_encode cfg (sort_pairs l) with
      | Some text => (svnext w, sset_pending (svalloc w (LStr text)) 0)
      | None => (0, sset_pending w SERR_YAML)
      end
    | _ => sbad w
    end
  | _ => sbad w
  end.

Definition sdo_newframe (cfg : scfg) (w : sworld) : Z * sworld :=
  (sw_nobj w + 1, sset_buf w (repeat 0 (s_fs cfg)) (sw_nobj w + 1)).

Definition sdo_close (args : list arg) (w : sworld) : Z * sworld :=
  match args with
  | [AInt c] => if (c =? sw_open w) && negb (c =? 0) then (0, slog (sset_open w 0) (SClose c)) else (0, slog w SBad)
  | _ => (0, slog w SBad)
  end.

Definition sdo_power (w : sworld) : Z * sworld :=
  if sw_open w =? 0 then
    match sw_power w with
    | false :: r => (0, slog (sset_power w r) (SPower true))
    | _ => (SERR_POWER, slog (sset_power w (tl (sw_power w))) (SPower false))
    end
  else (SERR_POWER, slog w SBad).

Definition sdo_startcamera (w : sworld) : Z * sworld :=
  if sw_open w =? 0 then
    match sw_start w with
    | false :: r => (sw_nobj w + 1, slog (sset_start w r (sw_nobj w + 1) (sw_nobj w + 1) 0) (SStart (sw_nobj w + 1)))
    | _ => (0, slog (sset_start w (tl (sw_start w)) 0 (sw_nobj w) SERR_START) (SStart 0))
    end
  else (0, slog (sset_pending w SERR_START) SBad).

Definition sdo_readflag (w : sworld) : Z * sworld :=
  (bool_to_z (hd false (sw_flag w)), sset_flag w (tl (sw_flag w))).

(* &nextFrameErr{e} and &nextFrameErr{cause: e} *)
Definition nfe_arg (args : list arg) : Z :=
  match args with
  | [AInt e] => e
  | [ASym _; AInt e] => e
  | _ => 0
  end.

Definition sext (cfg : scfg) (name : string) (args : list arg) (w : sworld) : Z * sworld :=
  if String.eqb name "obj.NextFrame" then sdo_nextframe args w
  else if String.eqb name "lit:nextFrameErr" then (NFE + nfe_arg args, w)
  else if String.eqb name "is:*nextFrameErr" then (bool_to_z (NFE <=? arg_z args), w)
  else if String.eqb name "read:service.actions.reset" then sdo_readflag w
  else if String.eqb name "set:service.actions.reset" then
    match args with [ABool false] => (0, slog w SFlagCleared) | _ => (0, slog w SBad) end
  else if String.eqb name "slice" then sdo_slice args w
  else if String.eqb name "obj.Write" then sdo_write args w
  else if String.eqb name "obj.Write#1" then (sw_pending w, w)
  else if String.eqb name "lepton3.NewRawFrame" then sdo_newframe cfg w
  else if String.eqb name "obj.ResX" then sdo_cam_int (s_resx cfg) args w
  else if String.eqb name "obj.ResY" then sdo_cam_int (s_resy cfg) args w
  else if String.eqb name "obj.FPS" then sdo_cam_int (s_fps cfg) args w
  else if String.eqb name "obj.GetSerial" then sdo_serial cfg args w
  else if String.eqb name "obj.GetSerial#1" then (sw_pending w, w)
  else if String.eqb name "obj.GetSoftwareVersion" then sdo_version cfg args w
  else if String.eqb name "obj.GetSoftwareVersion#1" then (sw_pending w, w)
  else if String.eqb name "obj.GetModel" then sdo_model cfg args w
  else if String.eqb name "obj.GetModel#1" then (sw_pending w, w)
  else if String.eqb name "lit:lepton3.LeptonSoftwareRevision" then
    match args with [] => (svnext w, svalloc w (LRev 0 0 0)) | _ => sbad w end
  else if String.eqb name "field:Gpp_major" then sdo_field (fun r => fst (fst r)) args w
  else if String.eqb name "field:Gpp_minor" then sdo_field (fun r => snd (fst r)) args w
  else if String.eqb name "field:Gpp_build" then sdo_field (fun r => snd r) args w
  else if String.eqb name "fmt.Sprintf" then sdo_sprintf cfg args w
  else if String.eqb name "ref:lepton3.BytesPerFrame" then (Z.of_nat (s_fs cfg), w)
  else if String.eqb name "ref:lepton3.Brand" then (svnext w, svalloc w (LStr FLIR))
  else if String.eqb name "lit:map[string]interface{}" then sdo_map args w
  else if String.eqb name "yaml.Marshal" then sdo_marshal cfg args w
  else if String.eqb name "yaml.Marshal#1" then (sw_pending w, w)
  else if String.eqb name "service.removeCamera" then (0, slog w SRemoveCamera)
  else if String.eqb name "service.setCamera" then (0, slog w (SSetCamera (arg_z args)))
  else if String.eqb name "obj.Close" then sdo_close args w
  else if String.eqb name "cycleCameraPower" then sdo_power w
  else if String.eqb name "startCamera" then sdo_startcamera w
  else if String.eqb name "startCamera#1" then (sw_pending w, w)
  else (0, w).
  (* log.Print / Printf / Println, resetWatchdog, obj.SetWriteBuffer *)

(* ---- running the translated sender ---- *)
Definition CAM0 : Z := 1.     (* the camera runMain opened before it calls sendCameraSpecs *)
Definition CONN : Z := 2.     (* the connection it dialled *)

Definition sender_init (cam : list camres) (flag power start : list bool) (wf : list wres) : sworld :=
  mkSW cam flag power start wf [] [] 0 CAM0 CONN 2 0 [] [].

(* runMain from `err = sendCameraSpecs(conf, camera, conn)` on *)
Definition src_sender (cfg : scfg) (fuel : nat) (w : sworld) : outcome sworld (option Z) :=
  Leptond_fn_runMain_tail (sext cfg) fuel CAM0 CONN 0 w.

(* ================= the model ================= *)

(* the field map sendCameraSpecs builds, as the encoder gets it (sorted by key) *)
Definition sender_specs (cfg : scfg) (model : bytes) : list (bytes * yval) :=
  [ (K_BRAND, YStr FLIR);
    (K_SERIAL, YInt (match s_serial cfg with Some z => z | None => 0 end));
    (K_FPS, YInt (s_fps cfg));
    (K_FIRMWARE, YStr (match s_rev cfg with Some (a, b, d) => s_fmt cfg a b d | None => s_fmt cfg 0 0 0 end));
    (K_FRAMESIZE, YInt (Z.of_nat (s_fs cfg)));
    (K_MODEL, YStr model);
    (K_RESX, YInt (s_resx cfg)); (K_RESY, YInt (s_resy cfg)) ].

(* the header text; None = GetModel or yaml.Marshal fails and nothing is written *)
Definition header_of (cfg : scfg) : option bytes :=
  match s_model cfg with
  | Some m => s_encode cfg (sender_specs cfg m)
  | None => None
  end.

(* one call of runCamera, all writes succeeding: the frames it writes, whether it ended because the service
   asked for a reset (else: NextFrame failed), and what is left of the two scripts.  The frame read in the
   iteration that sees the reset flag is NOT written. *)
Fixpoint rc_plan (cam : list camres) (flag : list bool) : list bytes * bool * list camres * list bool :=
  match cam with
  | [] => ([], false, [], flag)
  | CamErr :: r => ([], false, r, flag)
  | CamFrame b :: r =>
    if hd false flag then ([], true, r, tl flag)
    else let '(fs, by_reset, cam', flag') := rc_plan r (tl flag) in (b :: fs, by_reset, cam', flag')
  end.

(* the restart loop, all writes succeeding: per round the frames of runCamera, then - when power cycling
   and startCamera succeed - the marker *)
Fixpoint main_plan (cam : list camres) (flag : list bool) (power start : list bool) {struct power} : list item :=
  let '(fs, _, cam', flag') := rc_plan cam flag in
  map IFrame fs ++
  match power with
  | false :: power' =>
    match start with
    | false :: start' => IClear :: main_plan cam' flag' power' start'
    | _ => []
    end
  | _ => []
  end.

(* what reaches the connection: a frame whose Write fails ends everything (the part delivered is there);
   the error of a marker's Write is ignored *)
Fixpoint walk (items : list item) (wf : list wres) : list bytes :=
  match items with
  | [] => []
  | IFrame b :: r =>
    match wf with
    | WFail n :: _ => [firstn n b]
    | _ => b :: walk r (tl wf)
    end
  | IClear :: r =>
    match wf with
    | WFail n :: _ => firstn n MARKER :: walk r (tl wf)
    | _ => MARKER :: walk r (tl wf)
    end
  end.

(* the chunks the sender writes, for every script: header text, the newline (its error is ignored), the items *)
Definition sender_chunks (cfg : scfg) (cam : list camres) (flag power start : list bool) (wf : list wres) : list bytes :=
  match header_of cfg with
  | None => []
  | Some h =>
    match wf with
    | WFail n :: _ => [firstn n h]
    | _ =>
      h :: (match tl wf with WFail n :: _ => firstn n [NL] | _ => [NL] end)
        :: walk (main_plan cam flag power start) (tl (tl wf))
    end
  end.

(* the items that reached the connection completely (up to the first frame whose Write fails; a Write that
   reports an error after delivering everything did deliver the frame), and the part of that frame that was
   delivered *)
Fixpoint sent (items : list item) (wf : list wres) : list item * bytes :=
  match items with
  | [] => ([], [])
  | IFrame b :: r =>
    match wf with
    | WFail n :: _ => if Nat.leb (List.length b) n then ([IFrame b], []) else ([], firstn n b)
    | _ => let (s, t) := sent r (tl wf) in (IFrame b :: s, t)
    end
  | IClear :: r => let (s, t) := sent r (tl wf) in (IClear :: s, t)
  end.

(* no Write whose error the Go code ignores (the markers) fails before the first failing frame Write *)
Fixpoint ignored_ok (items : list item) (wf : list wres) : bool :=
  match items with
  | [] => true
  | IFrame b :: r => match wf with WFail _ :: _ => true | _ => ignored_ok r (tl wf) end
  | IClear :: r => match wf with WFail _ :: _ => false | _ => ignored_ok r (tl wf) end
  end.

Definition wok (wf : list wres) : bool := match wf with WFail _ :: _ => false | _ => true end.

(* do the Writes of these frames all succeed? *)
Fixpoint frames_ok (fs : list bytes) (wf : list wres) : bool :=
  match fs with
  | [] => true
  | _ :: r => match wf with WFail _ :: _ => false | _ => frames_ok r (tl wf) end
  end.

(* the value the sender returns (never nil: it only returns on an error) *)
Fixpoint main_result (cam : list camres) (flag : list bool) (power start : list bool) (wf : list wres) {struct power} : Z :=
  let '(fs, _, cam', flag') := rc_plan cam flag in
  if negb (frames_ok fs wf) then SERR_WRITE
  else
    match power with
    | false :: power' =>
      match start with
      | false :: start' => main_result cam' flag' power' start' (tl (skipn (List.length fs) wf))
      | _ => SERR_START
      end
    | _ => SERR_POWER
    end.

Definition sender_result (cfg : scfg) (cam : list camres) (flag power start : list bool) (wf : list wres) : Z :=
  match s_model cfg with
  | None => SERR_MODEL
  | Some _ =>
    match header_of cfg with
    | None => SERR_YAML
    | Some _ => if wok wf then main_result cam flag power start (tl (tl wf)) else SERR_WRITE
    end
  end.

(* the field map as the receiver's decoder sees it after a faithful round trip through the codec *)
Definition ymap_of (kvs : list (bytes * yval)) : ymap :=
  fun k => match find (fun p => bytes_eqb (fst p) k) kvs with Some (_, v) => v | None => YNil end.

(* THE GUARD of the in-band marker: every frame the camera yields has the frame size and does not begin with
   the marker bytes (SocketProofs.item_ok; see C14_inband_marker_refuted) *)
Definition cam_ok (fs : nat) (cam : list camres) : bool :=
  forallb (fun r => match r with
                    | CamFrame b => Nat.eqb (List.length b) fs && negb (bytes_eqb (firstn PROBE b) MARKER)
                    | CamErr => true
                    end) cam.
