(* The outside world of the translated connection handler (coq/translated/ConnLoop.v, from
   handleConn and frameParser in cmd/thermal-recorder/main.go).

   The socket is a list of chunks (what successive reads return, any sizes - the same reading as
   model/Socket.v); io.ReadFull and headers.ReadHeaderInfo consume it through the one bufio.Reader
   with Socket.v's own primitives ([take_c], [header_c]).  rawFrame is a buffer whose contents
   live here; slices of it are views (buffer, lo, hi), bounds checked when the slice is taken
   (a violation is logged as [EPanic]: external calls cannot panic in GoSem's monad).  Strings
   are byte strings in a table of values, so `message == clearBuffer` is Socket.v's [bytes_eqb]
   of the five bytes read and the bytes of the literal "clear".  processor.Process answers from a
   script (ok / bad frame / other error).  The package-level variables processor, headerInfo,
   frameLogIntervalFirstMin and frameLogInterval are fields of the world, read and written by
   the "read:" / "set:" calls (since /repo 927eb9c handleConn only READS the two intervals and
   scales them into per-connection locals: the "set:" calls for them keep their meaning here but
   no longer occur in the translated code, so the package-level values never change).  What the handler does to the rest of the program is logged:
   recorders, throttle and processor as they are built (with the tokens they are given: the
   wiring), Reset, Process with the bytes of rawFrame at that moment, the bad-frame event,
   RestartCamera, the deferred Stop.  Log lines are ignored.

   Assumptions stated here about what is not translated: io.ReadFull returns io.EOF when nothing
   could be read and io.ErrUnexpectedEOF after a partial read, and has then consumed what
   there was; ReadHeaderInfo consumes exactly the lines up to and including the first blank line
   (Socket.v's header_c, validated against the real function in the C14 stages) and hands the
   text to a decoder that is a parameter ([c_decode]); lepton3.Model = "lepton3",
   lepton3.Model35 = "lepton3.5".  No proofs in this file. *)
From Coq Require Import String List ZArith Bool.
From TR Require Import model.GoSem model.Socket translated.ConnLoop.
Import ListNotations.
Open Scope Z_scope.

Definition bytes_of_string (s : string) : bytes :=
  map (fun a => Z.of_nat (Ascii.nat_of_ascii a)) (list_ascii_of_string s).

(* error values (0 = nil) *)
Definition ERR_EOF : Z := 1.      (* io.EOF *)
Definition ERR_UEOF : Z := 2.     (* io.ErrUnexpectedEOF *)
Definition ERR_BAD : Z := 3.      (* a *lepton3.BadFrameErr *)
Definition ERR_OTHER : Z := 4.    (* any other error *)

(* function values *)
Definition PARSER_LEPTON : Z := 1.   (* lepton3.ParseRawFrame *)
Definition PARSER_BOSON : Z := 2.    (* convertRawBosonFrame *)

Inductive presult := PROk | PRBad | PRErr.

(* what the header decoder returns (the fields this code asks for) *)
Record hdr := mkHdr { h_fs : Z; h_fps : Z; h_brand : bytes; h_model : bytes }.

(* long-lived objects, by token (token k+1 is the k-th entry) *)
Inductive obj :=
| OReader                  (* bufio.NewReader(conn) *)
| OHeader (h : hdr)        (* a *headers.HeaderInfo *)
| OBuf                     (* a []byte made by make *)
| ORecorder                (* a *CPTVFileRecorder *)
| OThrottle                (* a *throttle.ThrottledRecorder *)
| OProcessor               (* a *motion.MotionProcessor *)
| ONone.

(* short-lived values, by token *)
Inductive cval :=
| VStr (b : bytes)
| VView (buf lo hi : Z)    (* buf[lo:hi], bounds already checked *)
| VMap (k v : Z)           (* map[string]interface{}{k: v} *)
| VEvent (ty details : Z)  (* eventclient.Event{Type: ty, Details: details} *)
| VErrText (e : Z)         (* e.Error() *)
| VNone.

Inductive cev :=
| EAutoFFC (on : bool)
| ENewRecorder (tok : Z)
| ESetConstant (tok : Z)
| ENewThrottle (wrapped minsecs tok : Z)
| ENewProcessor (parser rec const snap tok : Z)
| EReset (p : Z)
| EProcess (p : Z) (frame : bytes)
| EBadFrameEvent (e : Z)   (* AddEvent of an event of type "bad-thermal-frame" whose Details.description.details is e.Error() *)
| EOtherEvent
| ERestart
| EStop (tok : Z)
| EPanic.

(* the parts of the configuration and of the libraries that are inputs *)
Record ccfg := mkCfg {
  c_decode : bytes -> option hdr;   (* yaml.Unmarshal + the HeaderInfo literal; None = error *)
  c_throttle : bool;                (* conf.Throttler.Activate *)
  c_const : bool;                   (* conf.Recorder.ConstantRecorder *)
  c_minsecs : Z;
  c_preview : Z
}.

Record cworld := mkCW {
  cw_in : list bytes;         (* what the socket has still to deliver, per read *)
  cw_raw : bytes;             (* contents of the buffer made by make([]byte, n) *)
  cw_rawtok : Z;              (* its token (0: none yet) *)
  cw_script : list presult;   (* results of the coming processor.Process calls (exhausted: ok) *)
  cw_log : list cev;
  cw_pending : Z;             (* second result of the last two-valued call *)
  cw_objs : list obj;
  cw_vals : list cval;
  cw_headerInfo : Z;          (* package-level variables *)
  cw_processor : Z;
  cw_int1 : Z;                (* frameLogIntervalFirstMin *)
  cw_int2 : Z                 (* frameLogInterval *)
}.

Definition set_read (w : cworld) (i : list bytes) (r : bytes) (p : Z) : cworld :=
  mkCW i r (cw_rawtok w) (cw_script w) (cw_log w) p (cw_objs w) (cw_vals w)
       (cw_headerInfo w) (cw_processor w) (cw_int1 w) (cw_int2 w).
Definition set_buf (w : cworld) (r : bytes) (t : Z) : cworld :=
  mkCW (cw_in w) r t (cw_script w) (cw_log w) (cw_pending w) (cw_objs w) (cw_vals w)
       (cw_headerInfo w) (cw_processor w) (cw_int1 w) (cw_int2 w).
Definition set_script (w : cworld) (s : list presult) : cworld :=
  mkCW (cw_in w) (cw_raw w) (cw_rawtok w) s (cw_log w) (cw_pending w) (cw_objs w) (cw_vals w)
       (cw_headerInfo w) (cw_processor w) (cw_int1 w) (cw_int2 w).
Definition logev (w : cworld) (e : cev) : cworld :=
  mkCW (cw_in w) (cw_raw w) (cw_rawtok w) (cw_script w) (cw_log w ++ [e]) (cw_pending w) (cw_objs w) (cw_vals w)
       (cw_headerInfo w) (cw_processor w) (cw_int1 w) (cw_int2 w).
Definition set_pending (w : cworld) (p : Z) : cworld :=
  mkCW (cw_in w) (cw_raw w) (cw_rawtok w) (cw_script w) (cw_log w) p (cw_objs w) (cw_vals w)
       (cw_headerInfo w) (cw_processor w) (cw_int1 w) (cw_int2 w).
Definition set_objs (w : cworld) (l : list obj) : cworld :=
  mkCW (cw_in w) (cw_raw w) (cw_rawtok w) (cw_script w) (cw_log w) (cw_pending w) l (cw_vals w)
       (cw_headerInfo w) (cw_processor w) (cw_int1 w) (cw_int2 w).
Definition set_vals (w : cworld) (l : list cval) : cworld :=
  mkCW (cw_in w) (cw_raw w) (cw_rawtok w) (cw_script w) (cw_log w) (cw_pending w) (cw_objs w) l
       (cw_headerInfo w) (cw_processor w) (cw_int1 w) (cw_int2 w).
Definition set_globals (w : cworld) (h p i1 i2 : Z) : cworld :=
  mkCW (cw_in w) (cw_raw w) (cw_rawtok w) (cw_script w) (cw_log w) (cw_pending w) (cw_objs w) (cw_vals w) h p i1 i2.

(* ---- the two tables ---- *)
Definition tget {A} (d : A) (l : list A) (t : Z) : A := if t <=? 0 then d else nth (Z.to_nat (t - 1)) l d.
Definition tlen {A} (l : list A) : Z := Z.of_nat (List.length l) + 1.

Definition oget (w : cworld) (tok : Z) : obj := tget ONone (cw_objs w) tok.
Definition onext (w : cworld) : Z := tlen (cw_objs w).
Definition oalloc (w : cworld) (o : obj) : cworld := set_objs w (cw_objs w ++ [o]).

Definition vget (w : cworld) (tok : Z) : cval := tget VNone (cw_vals w) tok.
Definition vnext (w : cworld) : Z := tlen (cw_vals w).
Definition valloc (w : cworld) (v : cval) : cworld := set_vals w (cw_vals w ++ [v]).

(* ---- buffers ---- *)
Definition blen (b : bytes) : Z := Z.of_nat (List.length b).
(* the bytes of raw[lo:hi] *)
Definition view_bytes (raw : bytes) (lo hi : Z) : bytes :=
  firstn (Z.to_nat (hi - lo)) (skipn (Z.to_nat lo) raw).
(* raw with d written at lo *)
Definition splice (raw : bytes) (lo : Z) (d : bytes) : bytes :=
  firstn (Z.to_nat lo) raw ++ d ++ skipn (Z.to_nat lo + List.length d) raw.

(* the error of a read that could not be satisfied, d being what was left of the stream *)
Definition eof_code (d : bytes) : Z := match d with [] => ERR_EOF | _ => ERR_UEOF end.

(* ---- the calls ---- *)
Definition do_lit (args : list arg) (w : cworld) : Z * cworld :=
  match args with
  | [AStr s] => (vnext w, valloc w (VStr (bytes_of_string s)))
  | _ => (0, logev w EPanic)   (* a call of this name with other arguments: not the code that was modelled *)
  end.

Definition do_streq (args : list arg) (w : cworld) : Z * cworld :=
  match args with
  | [AInt a; AInt b] =>
    match vget w a, vget w b with
    | VStr x, VStr y => (bool_to_z (bytes_eqb x y), w)
    | _, _ => (0, w)
    end
  | _ => (0, logev w EPanic)   (* a call of this name with other arguments: not the code that was modelled *)
  end.

Definition do_make (args : list arg) (w : cworld) : Z * cworld :=
  match args with
  | [AInt n] =>
    if n <? 0 then (0, logev w EPanic)
    else (onext w, set_buf (oalloc w OBuf) (repeat 0 (Z.to_nat n)) (onext w))
  | _ => (0, logev w EPanic)   (* a call of this name with other arguments: not the code that was modelled *)
  end.

Definition do_slice (args : list arg) (w : cworld) : Z * cworld :=
  match args with
  | [AInt b; AInt lo; AInt hi] =>
    let hi' := if hi =? -1 then blen (cw_raw w) else hi in
    if (b =? cw_rawtok w) && negb (b =? 0) && (0 <=? lo) && (lo <=? hi') && (hi' <=? blen (cw_raw w))
    then (vnext w, valloc w (VView b lo hi'))
    else (0, logev w EPanic)
  | _ => (0, logev w EPanic)   (* a call of this name with other arguments: not the code that was modelled *)
  end.

Definition do_string (args : list arg) (w : cworld) : Z * cworld :=
  match args with
  | [AInt v] =>
    match vget w v with
    | VView b lo hi =>
      if b =? cw_rawtok w then (vnext w, valloc w (VStr (view_bytes (cw_raw w) lo hi)))
      else (vnext w, valloc w VNone)
    | _ => (vnext w, valloc w VNone)
    end
  | _ => (0, logev w EPanic)   (* a call of this name with other arguments: not the code that was modelled *)
  end.

(* io.ReadFull(reader, view) *)
Definition do_readfull (args : list arg) (w : cworld) : Z * cworld :=
  match args with
  | [AInt r; AInt v] =>
    match oget w r, vget w v with
    | OReader, VView b lo hi =>
      if b =? cw_rawtok w then
        match take_c (Z.to_nat (hi - lo)) (cw_in w) with
        | Some (h, rest) => (hi - lo, set_read w rest (splice (cw_raw w) lo h) 0)
        | None =>
          let d := concat (cw_in w) in
          (blen d, set_read w [] (splice (cw_raw w) lo d) (eof_code d))
        end
      else (0, set_pending w ERR_OTHER)
    | _, _ => (0, set_pending w ERR_OTHER)
    end
  | _ => (0, set_pending w ERR_OTHER)
  end.

(* headers.ReadHeaderInfo(reader) *)
Definition do_readheader (cfg : ccfg) (args : list arg) (w : cworld) : Z * cworld :=
  match args with
  | [AInt r] =>
    match oget w r with
    | OReader =>
      match header_c (S (total_len (cw_in w))) (cw_in w) [] with
      | Some (text, rest) =>
        match c_decode cfg text with
        | Some h => (onext w, set_read (oalloc w (OHeader h)) rest (cw_raw w) 0)
        | None => (0, set_read w rest (cw_raw w) ERR_OTHER)
        end
      | None => (0, set_read w [] (cw_raw w) ERR_EOF)
      end
    | _ => (0, set_pending w ERR_OTHER)
    end
  | _ => (0, set_pending w ERR_OTHER)
  end.

Definition hdr_of (w : cworld) (tok : Z) : option hdr :=
  match oget w tok with OHeader h => Some h | _ => None end.

Definition do_hdr_int (f : hdr -> Z) (args : list arg) (w : cworld) : Z * cworld :=
  match args with
  | [AInt t] => match hdr_of w t with Some h => (f h, w) | None => (0, w) end
  | _ => (0, logev w EPanic)   (* a call of this name with other arguments: not the code that was modelled *)
  end.
Definition do_hdr_str (f : hdr -> bytes) (args : list arg) (w : cworld) : Z * cworld :=
  match args with
  | [AInt t] => match hdr_of w t with Some h => (vnext w, valloc w (VStr (f h))) | None => (vnext w, valloc w VNone) end
  | _ => (0, logev w EPanic)   (* a call of this name with other arguments: not the code that was modelled *)
  end.

Definition do_new_recorder (args : list arg) (w : cworld) : Z * cworld :=
  (onext w, logev (oalloc w ORecorder) (ENewRecorder (onext w))).

Definition do_new_throttle (args : list arg) (w : cworld) : Z * cworld :=
  match args with
  | [AInt r; _; AInt m; _; _] => (onext w, logev (oalloc w OThrottle) (ENewThrottle r m (onext w)))
  | _ => (0, logev w EPanic)   (* a call of this name with other arguments: not the code that was modelled *)
  end.

Definition do_new_processor (args : list arg) (w : cworld) : Z * cworld :=
  match args with
  | [AInt parser; _; _; _; _; AInt rec; _; AInt const; AInt snap] =>
    (onext w, logev (oalloc w OProcessor) (ENewProcessor parser rec const snap (onext w)))
  | _ => (0, logev w EPanic)   (* a call of this name with other arguments: not the code that was modelled *)
  end.

Definition do_reset (args : list arg) (w : cworld) : Z * cworld :=
  match args with
  | [AInt p; AInt h] =>
    match oget w p, hdr_of w h with
    | OProcessor, Some _ => (0, logev w (EReset p))
    | _, _ => (0, logev w EPanic)
    end
  | _ => (0, logev w EPanic)   (* a call of this name with other arguments: not the code that was modelled *)
  end.

Definition presult_code (r : presult) : Z :=
  match r with PROk => 0 | PRBad => ERR_BAD | PRErr => ERR_OTHER end.

Definition do_process (args : list arg) (w : cworld) : Z * cworld :=
  match args with
  | [AInt p; AInt b] =>
    match oget w p with
    | OProcessor =>
      if b =? cw_rawtok w then
        (presult_code (hd PROk (cw_script w)), set_script (logev w (EProcess p (cw_raw w))) (tl (cw_script w)))
      else (0, logev w EPanic)
    | _ => (0, logev w EPanic)
    end
  | _ => (0, logev w EPanic)   (* a call of this name with other arguments: not the code that was modelled *)
  end.

Definition do_map (args : list arg) (w : cworld) : Z * cworld :=
  match args with
  | [AInt k; AInt v] => (vnext w, valloc w (VMap k v))
  | _ => (vnext w, valloc w VNone)
  end.

Definition do_event (args : list arg) (w : cworld) : Z * cworld :=
  match args with
  | [ASym f1; AInt _; ASym f2; AInt ty; ASym f3; AInt d] =>
    if String.eqb f1 "Timestamp" && String.eqb f2 "Type" && String.eqb f3 "Details"
    then (vnext w, valloc w (VEvent ty d)) else (vnext w, valloc w VNone)
  | _ => (vnext w, valloc w VNone)
  end.

Definition BAD_FRAME_TYPE : bytes := bytes_of_string "bad-thermal-frame".
Definition KEY_DESCRIPTION : bytes := bytes_of_string "description".
Definition KEY_DETAILS : bytes := bytes_of_string "details".

(* what an event token stands for *)
Definition event_of (w : cworld) (e : Z) : cev :=
  match vget w e with
  | VEvent ty d =>
    match vget w ty, vget w d with
    | VStr t, VMap k1 v1 =>
      match vget w k1, vget w v1 with
      | VStr s1, VMap k2 v2 =>
        match vget w k2, vget w v2 with
        | VStr s2, VErrText err =>
          if bytes_eqb t BAD_FRAME_TYPE && bytes_eqb s1 KEY_DESCRIPTION && bytes_eqb s2 KEY_DETAILS
          then EBadFrameEvent err else EOtherEvent
        | _, _ => EOtherEvent
        end
      | _, _ => EOtherEvent
      end
    | _, _ => EOtherEvent
    end
  | _ => EOtherEvent
  end.

Definition do_addevent (args : list arg) (w : cworld) : Z * cworld :=
  match args with
  | [AInt e] => (0, logev w (event_of w e))
  | _ => (0, logev w EOtherEvent)
  end.

Definition do_errtext (args : list arg) (w : cworld) : Z * cworld :=
  match args with
  | [AInt e] => (vnext w, valloc w (VErrText e))
  | _ => (0, logev w EPanic)   (* a call of this name with other arguments: not the code that was modelled *)
  end.

Definition arg_z (args : list arg) : Z := match args with [AInt z] => z | _ => 0 end.

(* calls whose effect no property of the connection loop depends on (logging, configuration tokens nobody
   inspects, the clock): they return 0 and leave the world alone.  EVERY other name without a clause in
   [cext] is logged as EPanic, so that code calling something new is not silently taken for harmless. *)
Definition inert_names : list string :=
  ["log.Print"; "log.Printf"; "log.Println"; "logConfig"; "conf.LoadMotionConfig"; "time.Now";
   "obj.ResX"; "obj.ResY"; "obj.CameraSerial";
   "read:conf.Motion"; "read:conf.Recorder"; "read:conf.Location"; "read:conf.Throttler"]%string.

Definition cext (cfg : ccfg) (name : string) (args : list arg) (w : cworld) : Z * cworld :=
  if String.eqb name "str.lit" then do_lit args w
  else if String.eqb name "str.eq" then do_streq args w
  else if String.eqb name "slice" then do_slice args w
  else if String.eqb name "string" then do_string args w
  else if String.eqb name "io.ReadFull" then do_readfull args w
  else if String.eqb name "io.ReadFull#1" then (cw_pending w, w)
  else if String.eqb name "read:processor" then (cw_processor w, w)
  else if String.eqb name "read:headerInfo" then (cw_headerInfo w, w)
  else if String.eqb name "read:frameLogIntervalFirstMin" then (cw_int1 w, w)
  else if String.eqb name "read:frameLogInterval" then (cw_int2 w, w)
  else if String.eqb name "obj.Reset" then do_reset args w
  else if String.eqb name "obj.Process" then do_process args w
  else if String.eqb name "obj.FPS" then do_hdr_int h_fps args w
  else if String.eqb name "is:*lepton3.BadFrameErr" then (bool_to_z (arg_z args =? ERR_BAD), w)
  else if String.eqb name "obj.Error" then do_errtext args w
  else if String.eqb name "lit:map[string]interface{}" then do_map args w
  else if String.eqb name "lit:eventclient.Event" then do_event args w
  else if String.eqb name "eventclient.AddEvent" then do_addevent args w
  else if String.eqb name "leptondController.RestartCamera" then (0, logev w ERestart)
  else if String.eqb name "leptondController.SetAutoFFC" then
    match args with [ABool b] => (0, logev w (EAutoFFC b)) | _ => (0, logev w EPanic) end
  else if String.eqb name "bufio.NewReader" then (onext w, oalloc w OReader)
  else if String.eqb name "headers.ReadHeaderInfo" then do_readheader cfg args w
  else if String.eqb name "headers.ReadHeaderInfo#1" then (cw_pending w, w)
  else if String.eqb name "set:headerInfo" then (0, set_globals w (arg_z args) (cw_processor w) (cw_int1 w) (cw_int2 w))
  else if String.eqb name "set:processor" then (0, set_globals w (cw_headerInfo w) (arg_z args) (cw_int1 w) (cw_int2 w))
  else if String.eqb name "set:frameLogIntervalFirstMin" then (0, set_globals w (cw_headerInfo w) (cw_processor w) (arg_z args) (cw_int2 w))
  else if String.eqb name "set:frameLogInterval" then (0, set_globals w (cw_headerInfo w) (cw_processor w) (cw_int1 w) (arg_z args))
  else if String.eqb name "obj.FrameSize" then do_hdr_int h_fs args w
  else if String.eqb name "obj.Brand" then do_hdr_str h_brand args w
  else if String.eqb name "obj.Model" then do_hdr_str h_model args w
  else if String.eqb name "obj.Firmware" then (vnext w, valloc w VNone)
  else if String.eqb name "ref:lepton3.Model" then (vnext w, valloc w (VStr (bytes_of_string "lepton3")))
  else if String.eqb name "ref:lepton3.Model35" then (vnext w, valloc w (VStr (bytes_of_string "lepton3.5")))
  else if String.eqb name "ref:lepton3.ParseRawFrame" then (PARSER_LEPTON, w)
  else if String.eqb name "ref:convertRawBosonFrame" then (PARSER_BOSON, w)
  else if String.eqb name "fmt.Errorf" then (ERR_OTHER, w)
  else if String.eqb name "NewCPTVFileRecorder" then do_new_recorder args w
  else if String.eqb name "obj.SetAsConstantRecorder" then (0, logev w (ESetConstant (arg_z args)))
  else if String.eqb name "throttle.NewThrottledRecorder" then do_new_throttle args w
  else if String.eqb name "motion.NewMotionProcessor" then do_new_processor args w
  else if String.eqb name "read:conf.Throttler.Activate" then (bool_to_z (c_throttle cfg), w)
  else if String.eqb name "read:conf.Recorder.ConstantRecorder" then (bool_to_z (c_const cfg), w)
  else if String.eqb name "read:conf.Recorder.MinSecs" then (c_minsecs cfg, w)
  else if String.eqb name "read:conf.Recorder.PreviewSecs" then (c_preview cfg, w)
  else if String.eqb name "make:[]byte" then do_make args w
  else if String.eqb name "obj.Stop" then (0, logev w (EStop (arg_z args)))
  else if existsb (String.eqb name) inert_names then (0, w)
  else (0, logev w EPanic).   (* a call nobody gave a meaning to: not the code that was modelled *)
  (* log.Print / Printf / Println, logConfig, conf.LoadMotionConfig, time.Now, obj.ResX / ResY /
     CameraSerial, read:conf.Motion / Recorder / Location / Throttler (tokens nobody inspects) *)

(* ---- what the properties read off the log ---- *)
Definition item_of (e : cev) : list item :=
  match e with
  | EReset _ => [IClear]
  | EProcess _ b => [IFrame b]
  | _ => []
  end.
Definition items_of (log : list cev) : list item := flat_map item_of log.

(* what follows a Process call in the log, by its result *)
Definition bad_events (r : presult) : list cev :=
  match r with PRBad => [EBadFrameEvent ERR_BAD; ERestart] | _ => [] end.

(* what the frame loop is expected to log for a list of items and a result script *)
Fixpoint loop_log (p : Z) (items : list item) (script : list presult) : list cev :=
  match items with
  | [] => []
  | IClear :: r => EReset p :: loop_log p r script
  | IFrame b :: r => EProcess p b :: bad_events (hd PROk script) ++ loop_log p r (tl script)
  end.

(* the error the frame loop returns when the stream ends: nothing left (or exactly the five probe
   bytes of a frame, when frames are longer) -> io.EOF, a partial read -> io.ErrUnexpectedEOF *)
Fixpoint end_err (fuel : nat) (fs : nat) (cs : list bytes) : Z :=
  match fuel with
  | O => 0
  | S k =>
    match take_c PROBE cs with
    | None => eof_code (concat cs)
    | Some (p, rest) =>
      if bytes_eqb p MARKER then end_err k fs rest
      else
        match take_c (fs - PROBE) rest with
        | None => eof_code (concat rest)
        | Some (_, rest') => end_err k fs rest'
        end
    end
  end.

(* frameParser's table *)
Definition parser_of (brand model : bytes) : Z :=
  if negb (bytes_eqb brand (bytes_of_string "flir")) then 0
  else if bytes_eqb model (bytes_of_string "lepton3") || bytes_eqb model (bytes_of_string "lepton3.5") then PARSER_LEPTON
  else if bytes_eqb model (bytes_of_string "boson") then PARSER_BOSON
  else 0.

(* ---- running the translated handler ---- *)
Definition conn_init (cs : list bytes) (script : list presult) (i1 i2 : Z) : cworld :=
  mkCW cs [] 0 script [] 0 [] [] 0 0 i1 i2.

Definition src_conn (cfg : ccfg) (fuel : nat) (w : cworld) : outcome cworld (option Z) :=
  ConnLoop_fn_handleConn (cext cfg) fuel w.
