(* End-to-end model of one camera connection of thermal-recorder's handleConn: raw frames and
   'clear' markers -> parser -> detector -> processor -> recording files.  It composes the
   models of model/Parse.v, model/Detector.v and model/Processor.v in the order the Go code
   calls them, and collects what each recorder is asked to store:
     for each finished file, the threshold and background passed to StartRecording (the
     detector's values after processing the frame on which the recording starts) and the ids
     of the frames written. *)
From Coq Require Import List ZArith Bool.
From TR Require Import model.Ring model.Detector model.Parse model.Processor.
Import ListNotations.
Open Scope Z_scope.

Record scfg := mkS {
  s_fmt : fmt; s_h : nat; s_w : nat;
  s_proc : pcfg;          (* ring size, min/max frames, trigger frames, continuous recorder *)
  s_det : dcfg;           (* motion configuration in force (camera-model defaults + config.toml) *)
  s_window_open : bool;   (* the recording window is open during the whole connection *)
  s_disk_ok : bool;       (* CheckCanRecord passes (min-disk-space) *)
  s_throttle_blocks : bool(* throttling active with a bucket smaller than one minimum recording:
                             the base recorder is never started *)
}.

Inductive sitem := SFrame (raw : list Z) | SClear.

Record sfile := mkSF { sf_thresh : Z; sf_bg : grid; sf_ids : list Z }.

Record sstate := mkSS {
  ss_det : dstate;
  ss_proc : pstate;
  ss_next : Z;                       (* id of the next accepted frame *)
  ss_motion_open : option sfile;     (* file being written by the motion recorder *)
  ss_const_open : option sfile;
  ss_motion_done : list sfile;       (* finished files, oldest first *)
  ss_const_done : list sfile
}.

Definition sinit (c : scfg) (nitems : nat) : sstate :=
  mkSS (dinit (s_det c))
       (pinit (s_proc c) (if s_disk_ok c then [] else repeat true nitems) [] [])
       0 None None [] [].

(* apply the processor's outputs of one event to the files; [th]/[bg]: the detector's
   threshold / background at this moment *)
Definition apply_out (th : Z) (bg : grid) (st : option sfile * list sfile * option sfile * list sfile) (o : out)
  : option sfile * list sfile * option sfile * list sfile :=
  let '(mo, md, co, cd) := st in
  match o with
  | Call SMotion Start false => (Some (mkSF th bg []), md, co, cd)
  | Call SMotion (Write id) _ =>
    (match mo with Some f => Some (mkSF (sf_thresh f) (sf_bg f) (sf_ids f ++ [id])) | None => None end, md, co, cd)
  | Call SMotion Stop _ => (None, match mo with Some f => md ++ [f] | None => md end, co, cd)
  | Call SConst Start false => (mo, md, Some (mkSF 0 bg []), cd)
  | Call SConst (Write id) _ =>
    (mo, md, match co with Some f => Some (mkSF (sf_thresh f) (sf_bg f) (sf_ids f ++ [id])) | None => None end, cd)
  | Call SConst Stop _ => (mo, md, None, match co with Some f => cd ++ [f] | None => cd end)
  | _ => st
  end.

Definition sstep (c : scfg) (s : sstate) (it : sitem) : sstate :=
  match it with
  | SClear =>
    (* processor.Reset: stopRecording, then motionDetector.Reset *)
    let (p', outs) := pstep (s_proc c) (ss_proc s) EReset in
    let '(mo, md, co, cd) := fold_left (apply_out (s_thresh (ss_det s)) (s_bg (ss_det s)))
                                       outs (ss_motion_open s, ss_motion_done s, ss_const_open s, ss_const_done s) in
    mkSS (dreset (ss_det s)) p' (ss_next s) mo co md cd
  | SFrame raw =>
    let p := parse_raw (s_fmt c) raw (s_h c) (s_w c) (d_edge (s_det c)) (zero_grid (s_det c)) in
    if p_bad p then
      let (p', outs) := pstep (s_proc c) (ss_proc s) EBad in
      let '(mo, md, co, cd) := fold_left (apply_out (s_thresh (ss_det s)) (s_bg (ss_det s)))
                                         outs (ss_motion_open s, ss_motion_done s, ss_const_open s, ss_const_done s) in
      mkSS (ss_det s) p' (ss_next s) mo co md cd
    else
      let fr := mkF (p_pix p) (t_timeon (p_tel p)) (t_lastffc (p_tel p)) in
      let (d', motion) := detect (s_det c) (ss_det s) fr in
      let (p', outs) := pstep (s_proc c) (ss_proc s) (EFrame (ss_next s) motion (s_window_open c)) in
      let '(mo, md, co, cd) := fold_left (apply_out (s_thresh d') (s_bg d'))
                                         outs (ss_motion_open s, ss_motion_done s, ss_const_open s, ss_const_done s) in
      mkSS d' p' (ss_next s + 1) mo co md cd
  end.

(* the finished files when the connection ends: the motion recorder's open file is discarded
   (deferred Stop()), the continuous recorder's open file stays a temporary *)
Definition srun (c : scfg) (items : list sitem) : list sfile * list sfile :=
  let s := fold_left (sstep c) items (sinit c (length items)) in
  (if s_throttle_blocks c then [] else ss_motion_done s, ss_const_done s).

(* ---- building raw frames from compact descriptions (used by the correspondence) ---- *)
Definition be16_bytes (v : Z) : list Z := [v / 256; v mod 256].
Definition le16_bytes (v : Z) : list Z := [v mod 256; v / 256].
(* Big16 32-bit word: low 16 bits first, each big-endian *)
Definition big16_u32_bytes (v : Z) : list Z := be16_bytes (v mod 65536) ++ be16_bytes (v / 65536).

Fixpoint set_bytes (l : list Z) (off : nat) (b : list Z) : list Z :=
  match b with
  | [] => l
  | x :: r => set_bytes (upd l off x) (S off) r
  end.

Definition lepton_raw (timeon_ms lastffc_ms framecount framemean fpatemp fpatemp_lastffc : Z) (pix : grid) : list Z :=
  let t := repeat 0 640 in
  let t := set_bytes t 2 (big16_u32_bytes timeon_ms) in
  let t := set_bytes t 40 (big16_u32_bytes framecount) in
  let t := set_bytes t 44 (be16_bytes framemean) in
  let t := set_bytes t 48 (be16_bytes fpatemp) in
  let t := set_bytes t 58 (be16_bytes fpatemp_lastffc) in
  let t := set_bytes t 60 (big16_u32_bytes lastffc_ms) in
  t ++ flat_map (fun row => flat_map be16_bytes row) pix.

Definition boson_raw (pix : grid) : list Z := flat_map (fun row => flat_map le16_bytes row) pix.
