(* Abstract specification of the frame ring buffer (property C19), written
   without any index arithmetic: a ghost log of the values committed by Move
   since creation / the last Reset, and the number of Moves since the last
   mark (SetAsOldest), creation or Reset.  Executable, so it is evaluated on
   traces of the real FrameLoop as well as being the right-hand side of the
   refinement theorems in proofs/RingProofs.v. *)
From Coq Require Import List ZArith Bool Arith.
From TR Require Import model.Ring.
Import ListNotations.

Set Implicit Arguments.

Section Spec.
  Variable A : Type.

  Record ghost := mkGhost {
    committed : list A;   (* contents of the current slot at each Move since creation/Reset, oldest first *)
    since_mark : nat      (* Moves since the last SetAsOldest / creation / Reset *)
  }.

  Definition ghost0 : ghost := mkGhost [] 0.

  (* [curv] is what Current() held just before the operation *)
  Definition gstep (curv : A) (g : ghost) (o : rop A) : ghost :=
    match o with
    | OPut _ => g
    | OMove => mkGhost (committed g ++ [curv]) (S (since_mark g))
    | OMark => mkGhost (committed g) 0
    | OReset => mkGhost [] 0
    end.

  Definition lastn (m : nat) (l : list A) : list A := skipn (length l - m) l.

  (* what GetHistory must return when Current() holds [curv] *)
  Definition spec_history (sz : nat) (g : ghost) (curv : A) : list A :=
    lastn (Nat.min sz (S (since_mark g))) (committed g ++ [curv]).

  (* what Oldest() must return: the marked element while buffered, otherwise the
     element about to be overwritten = the first element of the history *)
  Definition spec_oldest (d : A) (sz : nat) (g : ghost) (curv : A) : A :=
    hd d (spec_history sz g curv).

  (* what CopyRecent() must return: the value committed by the latest Move;
     None = unconstrained (nothing committed since creation/Reset).  With
     capacity 1 "previous" and "current" are the same slot. *)
  Definition spec_recent (sz : nat) (g : ghost) (curv : A) : option A :=
    if Nat.eqb sz 1 then Some curv
    else match rev (committed g) with
         | [] => None
         | x :: _ => Some x
         end.
End Spec.

(* Ghost-instrumented run of the concrete model: used to state the refinement. *)
Section GRun.
  Variable A : Type.
  Variable d : A.

  Definition grstep (s : ring A * ghost A) (o : rop A) : ring A * ghost A :=
    (rstep (fst s) o, gstep (current d (fst s)) (snd s) o).

  Definition grrun (s : ring A * ghost A) (ops : list (rop A)) : ring A * ghost A :=
    fold_left grstep ops s.
End GRun.
