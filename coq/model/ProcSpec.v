(* Executable specification predicates for the processor properties, written over the
   observable trace only (events with their outputs), without the ring buffer and without
   the processor's state variables.  The same predicates are (a) proved to hold of every
   trace of the model (proofs/Proc*.v) and (b) evaluated on the traces of the real
   MotionProcessor by the correspondence check. *)
From Coq Require Import List ZArith Bool.
From TR Require Import model.Ring model.Processor model.ProcAbs.
Import ListNotations.
Open Scope Z_scope.

Definition step := (ev * list out)%type.

(* ---- projections ---- *)
Definition writes_of (s : sink) (o : list out) : list Z :=
  flat_map (fun x => match x with
                     | Call s' (Write id) _ => if match s, s' with SMotion, SMotion | SConst, SConst | STest, STest => true | _, _ => false end then [id] else []
                     | _ => [] end) o.

Definition is_sink (s s' : sink) : bool :=
  match s, s' with SMotion, SMotion | SConst, SConst | STest, STest => true | _, _ => false end.

Definition has_start_ok (s : sink) (o : list out) : bool :=
  existsb (fun x => match x with Call s' Start false => is_sink s s' | _ => false end) o.
Definition has_stop (s : sink) (o : list out) : bool :=
  existsb (fun x => match x with Call s' Stop _ => is_sink s s' | _ => false end) o.
Definition has_start_any (s : sink) (o : list out) : bool :=
  existsb (fun x => match x with Call s' Start _ => is_sink s s' | _ => false end) o.

(* gate calls on the motion sink, in order: (is_start, failed) *)
Definition gates_of (o : list out) : list (bool * bool) :=
  flat_map (fun x => match x with
                     | Call SMotion Check f => [(false, f)]
                     | Call SMotion Start f => [(true, f)]
                     | _ => [] end) o.
Definition winq_of (o : list out) : list bool :=
  flat_map (fun x => match x with WinQ b => [b] | _ => [] end) o.

Fixpoint zlist_eq (a b : list Z) : bool :=
  match a, b with
  | [], [] => true
  | x :: a', y :: b' => (x =? y) && zlist_eq a' b'
  | _, _ => false
  end.

(* ================================================================== *)
(* C04: a recording starts iff motion persisted, window open, storage OK; gates consulted
   in order; a refused start is retried on the next motion frame of the run.
   State: motion sink open?, run length of consecutive motion frames (restarted after a
   motionless frame and after the end of a recording). [nowin]: the window is NoWindow
   (never consults the clock, so no WinQ is observable). *)
Record s04 := mk04 { s04_open : bool; s04_run : Z; s04_ok : bool }.

Definition s04_step (c : pcfg) (nowin : bool) (st : s04) (x : step) : s04 :=
  let (e, o) := x in
  match e with
  | EFrame id motion win =>
    let run := if motion then s04_run st + 1 else 0 in
    let should := negb (s04_open st) && motion && (p_trig c <=? run) in
    let gates := gates_of o in
    let ok_win := match winq_of o with
                  | [] => negb should || nowin
                  | [b] => should && negb nowin && Bool.eqb b win
                  | _ => false end in
    let ok_gates := match gates with
                    | [] => negb (should && win)
                    | [(false, true)] => should && win                 (* disk check refused *)
                    | [(false, false); (true, _)] => should && win     (* check passed, start attempted *)
                    | _ => false end in
    let started := has_start_ok SMotion o in
    let stopped := has_stop SMotion o in
    mk04 ((s04_open st || started) && negb stopped)
         (if stopped then 0 else run)
         (s04_ok st && ok_win && ok_gates)
  | EBad | EReset =>
    let stopped := has_stop SMotion o in
    mk04 (s04_open st && negb stopped) (if stopped then 0 else s04_run st)
         (s04_ok st && match gates_of o, winq_of o with [], [] => true | _, _ => false end)
  | ESnapReq => mk04 (s04_open st) (s04_run st) (s04_ok st && match gates_of o, winq_of o with [], [] => true | _, _ => false end)
  end.

Definition S04 (c : pcfg) (nowin : bool) (tr : list step) : bool :=
  s04_ok (fold_left (s04_step c nowin) tr (mk04 false 0 true)).

(* ================================================================== *)
(* C01 (flat form): over the motion sink's call sequence alone - inside a recording ids are
   consecutive (+1), and the first id of a recording is greater than every id written before. *)
Record s01 := mk01 { s01_prev : Z; s01_first : bool; s01_ok : bool }.

Definition s01_out (st : s01) (x : out) : s01 :=
  match x with
  | Call SMotion Start false => mk01 (s01_prev st) true (s01_ok st)
  | Call SMotion (Write id) _ =>
    mk01 id false (s01_ok st && (if s01_first st then s01_prev st <? id else id =? s01_prev st + 1))
  | _ => st
  end.

Definition S01 (tr : list step) : bool :=
  s01_ok (fold_left s01_out (flat_map snd tr) (mk01 (-1) true true)).

(* ================================================================== *)
(* C02 (+ the tiling clause of C01): at the frame t on which a recording starts, the motion
   sink receives exactly the ids first..t in order, first = max (t-(size-1)) (E+1), E the last
   id handed to the motion sink before (-1 if none); while a recording is open every frame
   contributes exactly its own id, which is E+1; otherwise nothing is written. *)
Record s02 := mk02 { s02_open : bool; s02_last : Z; s02_ok : bool }.

Definition s02_step (c : pcfg) (st : s02) (x : step) : s02 :=
  let (e, o) := x in
  let w := writes_of SMotion o in
  let started := has_start_ok SMotion o in
  let stopped := has_stop SMotion o in
  let last' := last w (s02_last st) in
  match e with
  | EFrame id _ _ =>
    let ok :=
      if started then
        let first := Z.max (id - (p_size c - 1)) (s02_last st + 1) in
        negb (s02_open st) && zlist_eq w (zseq first (Z.to_nat (id - first + 1)))
      else if s02_open st then zlist_eq w [id] && (id =? s02_last st + 1)
      else zlist_eq w [] in
    mk02 ((s02_open st || started) && negb stopped) last' (s02_ok st && ok)
  | _ => mk02 (s02_open st && negb stopped) last' (s02_ok st && zlist_eq w [] && negb started)
  end.

Definition S02 (c : pcfg) (tr : list step) : bool :=
  s02_ok (fold_left (s02_step c) tr (mk02 false (-1) true)).

(* ================================================================== *)
(* C03: counting from the trigger frame (position 1), the recording is stopped on the frame
   at position p iff p >= min (k_last - 1 + minFrames) maxFrames, k_last the position of the
   most recent motion frame (the trigger frame is one).  A bad frame or reset may cut it. *)
Record s03 := mk03 { s03_open : bool; s03_p : Z; s03_k : Z; s03_ok : bool }.

Definition s03_step (c : pcfg) (st : s03) (x : step) : s03 :=
  let (e, o) := x in
  let started := has_start_ok SMotion o in
  let stopped := has_stop SMotion o in
  match e with
  | EFrame id motion _ =>
    if started || s03_open st then
      let p := if started then 1 else s03_p st + 1 in
      let k := if started || motion then p else s03_k st in
      let limit := Z.min (k - 1 + p_min c) (p_max c) in
      mk03 (negb stopped) p k (s03_ok st && Bool.eqb stopped (limit <=? p))
    else mk03 false 0 0 (s03_ok st && negb stopped)
  | _ => mk03 (s03_open st && negb stopped) (s03_p st) (s03_k st) (s03_ok st)
  end.

Definition S03 (c : pcfg) (tr : list step) : bool :=
  s03_ok (fold_left (s03_step c) tr (mk03 false 0 0 true)).

(* ================================================================== *)
(* C12: per sink protocol automaton.  Rejected: a write on a closed sink (a nil dereference
   in the real file recorder), a start on an open sink, a panic. *)
Record s12 := mk12 { s12_m : bool; s12_c : bool; s12_t : bool; s12_ok : bool }.

Definition s12_get (st : s12) (s : sink) : bool :=
  match s with SMotion => s12_m st | SConst => s12_c st | STest => s12_t st end.
Definition s12_set (st : s12) (s : sink) (v ok : bool) : s12 :=
  match s with
  | SMotion => mk12 v (s12_c st) (s12_t st) (s12_ok st && ok)
  | SConst => mk12 (s12_m st) v (s12_t st) (s12_ok st && ok)
  | STest => mk12 (s12_m st) (s12_c st) v (s12_ok st && ok)
  end.

Definition s12_out (st : s12) (x : out) : s12 :=
  match x with
  | Call s Start failed => s12_set st s (negb failed) (negb (s12_get st s))
  | Call s (Write _) _ => s12_set st s (s12_get st s) (s12_get st s)
  | Call s Stop _ => s12_set st s false true
  | Call s Check _ => st
  | Panic => mk12 (s12_m st) (s12_c st) (s12_t st) false
  | _ => st
  end.

Definition S12 (tr : list step) : bool :=
  s12_ok (fold_left s12_out (flat_map snd tr) (mk12 false false false true)).

(* recovery: the events from index [tail] on are fault-free, reset-free, window open:
   enough motionless frames to end any recording, then a motion run >= trigger; a recording
   must start (successfully) in that tail *)
Definition S12_recovers (tail : nat) (tr : list step) : bool :=
  existsb (fun x => has_start_ok SMotion (snd x)) (skipn tail tr).

(* ================================================================== *)
(* C13 (processor half): a bad frame writes nothing anywhere, ends an open motion recording
   with exactly one stop (and nothing else on the motion sink), and no sink ever receives
   an id that is not the id of an already accepted frame (in particular never the slot
   contents a bad frame left behind). State: motion sink open?, highest accepted id. *)
Record s13 := mk13 { s13_open : bool; s13_hi : Z; s13_ok : bool }.

Definition motion_outs (o : list out) : list out :=
  filter (fun x => match x with
                   | Call SMotion _ _ | LStarted | LEnded | LMotion | WinQ _ => true
                   | _ => false end) o.

Definition s13_step (c : pcfg) (st : s13) (x : step) : s13 :=
  let (e, o) := x in
  let started := has_start_ok SMotion o in
  let stopped := has_stop SMotion o in
  let allw := writes_of SMotion o ++ writes_of SConst o ++ writes_of STest o in
  match e with
  | EFrame id _ _ =>
    mk13 ((s13_open st || started) && negb stopped) id
         (s13_ok st && forallb (fun w => (0 <=? w) && (w <=? id)) allw)
  | EBad =>
    let ok_motion := match motion_outs o with
                     | [] => negb (s13_open st)
                     | [LEnded; Call SMotion Stop _] => s13_open st
                     | _ => false end in
    mk13 false (s13_hi st) (s13_ok st && ok_motion && zlist_eq allw [] && negb (has_start_any SConst o) && negb (has_start_any STest o))
  | _ => mk13 (s13_open st && negb stopped) (s13_hi st) (s13_ok st && zlist_eq allw [])
  end.

Definition S13 (c : pcfg) (tr : list step) : bool :=
  s13_ok (fold_left (s13_step c) tr (mk13 false (-1) true)).

(* ================================================================== *)
(* equality of outputs *)
Definition call_eqb (a b : call) : bool :=
  match a, b with
  | Check, Check | Start, Start | Stop, Stop => true
  | Write x, Write y => x =? y
  | _, _ => false
  end.
Definition out_eqb (a b : out) : bool :=
  match a, b with
  | Call s c f, Call s' c' f' => is_sink s s' && call_eqb c c' && Bool.eqb f f'
  | LMotion, LMotion | LStarted, LStarted | LEnded, LEnded | Panic, Panic => true
  | WinQ x, WinQ y => Bool.eqb x y
  | _, _ => false
  end.
Fixpoint outs_eqb (a b : list out) : bool :=
  match a, b with
  | [], [] => true
  | x :: a', y :: b' => out_eqb x y && outs_eqb a' b'
  | _, _ => false
  end.

(* ================================================================== *)
(* C17, continuous recorder (fault-free sinks): every accepted frame is written exactly
   once, to the continuous sink, in its own step; a file is started when none is open and
   closed exactly with its (maxFrames+1)-th frame (or by a bad frame); nothing depends on
   motion, window or resets.  State: open?, frames in the open file. *)
Record s17c := mk17c { s17c_open : bool; s17c_cnt : Z; s17c_ok : bool }.

Definition const_outs (o : list out) : list out :=
  filter (fun x => match x with Call SConst _ _ => true | _ => false end) o.

Definition s17c_step (c : pcfg) (st : s17c) (x : step) : s17c :=
  let (e, o) := x in
  let co := const_outs o in
  if negb (p_const c) then mk17c false 0 (s17c_ok st && outs_eqb co [])
  else
    match e with
    | EFrame id _ _ =>
      let cnt := (if s17c_open st then s17c_cnt st else 0) + 1 in
      let closes := p_max c <? cnt in
      let expect := (if s17c_open st then [] else [Call SConst Start false]) ++
                    [Call SConst (Write id) false] ++
                    (if closes then [Call SConst Stop false] else []) in
      mk17c (negb closes) (if closes then 0 else cnt) (s17c_ok st && outs_eqb expect co)
    | EBad => mk17c false 0 (s17c_ok st && outs_eqb co [Call SConst Stop false])
    | _ => mk17c (s17c_open st) (s17c_cnt st) (s17c_ok st && outs_eqb co [])
    end.

Definition S17c (c : pcfg) (tr : list step) : bool :=
  s17c_ok (fold_left (s17c_step c) tr (mk17c false 0 true)).

(* C17, test recording (fault-free sink): a request yields Start; 21 consecutive frames
   beginning with the next accepted frame; Stop with the 21st.  A request that arrives while
   a test recording is open is dropped at the next frame (outside the property's quantifier,
   which speaks of non-overlapping requests).  State: request pending?, open?, frames written. *)
Record s17t := mk17t { s17t_pend : bool; s17t_open : bool; s17t_cnt : Z; s17t_ok : bool }.

Definition test_outs (o : list out) : list out :=
  filter (fun x => match x with Call STest _ _ => true | _ => false end) o.

Definition TEST_FRAMES : Z := 21.

Definition s17t_step (st : s17t) (x : step) : s17t :=
  let (e, o) := x in
  let to := test_outs o in
  match e with
  | EFrame id _ _ =>
    let starts := s17t_pend st && negb (s17t_open st) in
    let open := s17t_open st || starts in
    if open then
      let cnt := (if starts then 0 else s17t_cnt st) + 1 in
      let closes := TEST_FRAMES <=? cnt in
      let expect := (if starts then [Call STest Start false] else []) ++
                    [Call STest (Write id) false] ++
                    (if closes then [Call STest Stop false] else []) in
      mk17t false (negb closes) (if closes then 0 else cnt) (s17t_ok st && outs_eqb expect to)
    else mk17t false false 0 (s17t_ok st && outs_eqb to [])
  | ESnapReq => mk17t true (s17t_open st) (s17t_cnt st) (s17t_ok st && outs_eqb to [])
  | _ => mk17t (s17t_pend st) (s17t_open st) (s17t_cnt st) (s17t_ok st && outs_eqb to [])
  end.

Definition S17t (tr : list step) : bool :=
  s17t_ok (fold_left s17t_step tr (mk17t false false 0 true)).

(* ================================================================== *)
(* hypothesis of C01-C03: no write on the motion sink fails in this run *)
Definition nowf (tr : list step) : bool :=
  forallb (fun x => match x with Call SMotion (Write _) true => false | _ => true end) (flat_map snd tr).

(* which machine an output belongs to *)
Definition is_motion_out (x : out) : bool :=
  match x with Call SMotion _ _ | LMotion | LStarted | LEnded | WinQ _ | Panic => true | _ => false end.
Definition is_const_out (x : out) : bool := match x with Call SConst _ _ => true | _ => false end.
Definition is_test_out (x : out) : bool := match x with Call STest _ _ => true | _ => false end.
