(* Model of the CPTV header / frame-field layer as thermal-recorder uses it:
   NewCPTVFileRecorder + StartRecording build a cptv.Header; go-cptv's Writer.WriteHeader lays
   it out as a field list (presence rules, integer casts); Writer.WriteFrame adds the per-frame
   fields; the standard reader (Reader.* accessors over readFieldsN's map) reads them back.
   The section/field byte layer is the one of model/Writer.v (length, code, data).
   gzip and the pixel codec are below this layer (model/Codec.v models the pixel codec). *)
From Coq Require Import List ZArith Bool.
From TR Require Import model.Writer.
Import ListNotations.
Open Scope Z_scope.

(* field codes (go-cptv const.go) *)
Definition C_NUMFRAMES := 74.   (* 'J' *)
Definition C_MAXTEMP := 75.     (* 'K' *)
Definition C_MINTEMP := 81.     (* 'Q' *)
Definition C_TIMESTAMP := 84.   (* 'T' *)
Definition C_XRES := 88.        (* 'X' *)
Definition C_YRES := 89.        (* 'Y' *)
Definition C_COMPRESSION := 67. (* 'C' *)
Definition C_SERIAL := 78.      (* 'N' *)
Definition C_DEVNAME := 68.     (* 'D' *)
Definition C_FIRMWARE := 86.    (* 'V' *)
Definition C_MODEL := 69.       (* 'E' *)
Definition C_BRAND := 66.       (* 'B' *)
Definition C_FPS := 90.         (* 'Z' *)
Definition C_DEVID := 73.       (* 'I' *)
Definition C_PREVIEW := 80.     (* 'P' *)
Definition C_MOTION := 77.      (* 'M' *)
Definition C_LAT := 76.         (* 'L' *)
Definition C_LONG := 79.        (* 'O' *)
Definition C_LOCTS := 83.       (* 'S' *)
Definition C_ALT := 65.         (* 'A' *)
Definition C_ACC := 85.         (* 'U' *)
Definition C_BACKGROUND := 103. (* 'g' *)
Definition C_TIMEON := 116.     (* 't' *)
Definition C_BITWIDTH := 119.   (* 'w' *)
Definition C_FRAMESIZE := 102.  (* 'f' *)
Definition C_LASTFFC := 99.     (* 'c' *)
Definition C_TEMPC := 97.       (* 'a' *)
Definition C_LASTFFCTEMP := 98. (* 'b' *)

(* what the recorder hands to the writer *)
Record header_in := mkHI {
  hi_timestamp_us : Z;       (* time.Now() in microseconds *)
  hi_resx : Z; hi_resy : Z;  (* camera resolution *)
  hi_serial : Z;             (* CameraSerial (int) *)
  hi_devname : bytes;
  hi_firmware : bytes;
  hi_model : bytes;
  hi_brand : bytes;
  hi_fps : Z;
  hi_devid : Z;              (* config DeviceID; the recorder copies it only if > 0 *)
  hi_preview : Z;            (* PreviewSecs *)
  hi_motion : bytes;         (* motion YAML ++ "triggeredthresh: N\n" *)
  hi_lat_bits : Z; hi_long_bits : Z;   (* float32 bit patterns *)
  hi_lat_zero : bool; hi_long_zero : bool;   (* value == 0.0 (either sign) *)
  hi_locts_us : Z; hi_locts_zero : bool;     (* LocTimestamp, IsZero() *)
  hi_alt_bits : Z; hi_alt_nonneg : bool;     (* Altitude >= 0.0 *)
  hi_acc_bits : Z; hi_acc_zero : bool;
  hi_background : bool       (* BackgroundFrame != nil (always true from StartRecording) *)
}.

Definition u8 (code v : Z) : field := mkField code [v mod 256].
Definition u16 (code v : Z) : field := mkField code (le_bytes 2 v).
Definition u32 (code v : Z) : field := mkField code (le_bytes 4 v).
Definition u64 (code v : Z) : field := mkField code (le_bytes 8 v).
Definition opt (b : bool) (f : field) : list field := if b then [f] else [].

(* Writer.WriteHeader: None = it returns an error (a string longer than 255 bytes) *)
Definition header_fields (h : header_in) : option (list field) :=
  let too_long (s : bytes) := Nat.ltb 255 (length s) in
  if too_long (hi_devname h) || too_long (hi_firmware h) || too_long (hi_model h) || too_long (hi_brand h) || too_long (hi_motion h)
  then None
  else Some (
    [u16 C_NUMFRAMES 0; u16 C_MAXTEMP 0; u16 C_MINTEMP 0;
     u64 C_TIMESTAMP (hi_timestamp_us h);
     u32 C_XRES (hi_resx h); u32 C_YRES (hi_resy h);
     u8 C_COMPRESSION 1;
     u32 C_SERIAL (hi_serial h)] ++
    opt (negb (Nat.eqb (length (hi_devname h)) 0)) (mkField C_DEVNAME (hi_devname h)) ++
    opt (negb (Nat.eqb (length (hi_firmware h)) 0)) (mkField C_FIRMWARE (hi_firmware h)) ++
    opt (negb (Nat.eqb (length (hi_model h)) 0)) (mkField C_MODEL (hi_model h)) ++
    opt (negb (Nat.eqb (length (hi_brand h)) 0)) (mkField C_BRAND (hi_brand h)) ++
    opt (0 <? hi_fps h) (u8 C_FPS (hi_fps h)) ++
    opt (0 <? hi_devid h) (u32 C_DEVID (hi_devid h)) ++
    [u8 C_PREVIEW (hi_preview h)] ++
    opt (negb (Nat.eqb (length (hi_motion h)) 0)) (mkField C_MOTION (hi_motion h)) ++
    opt (negb (hi_lat_zero h)) (u32 C_LAT (hi_lat_bits h)) ++
    opt (negb (hi_long_zero h)) (u32 C_LONG (hi_long_bits h)) ++
    opt (negb (hi_locts_zero h)) (u64 C_LOCTS (hi_locts_us h)) ++
    opt (hi_alt_nonneg h) (u32 C_ALT (hi_alt_bits h)) ++
    opt (negb (hi_acc_zero h)) (u32 C_ACC (hi_acc_bits h)) ++
    opt (hi_background h) (u8 C_BACKGROUND 1)).

(* ---- reader side: Fields accessors ---- *)
Definition get_n (fs : list field) (code : Z) (n : nat) : option bytes :=
  match find_field code fs with
  | Some d => if Nat.eqb (length d) n then Some d else None
  | None => None
  end.
Definition rd_u8 fs code : Z := match get_n fs code 1 with Some d => le_value d | None => 0 end.
Definition rd_u16 fs code : Z := match get_n fs code 2 with Some d => le_value d | None => 0 end.
Definition rd_u32 fs code : Z := match get_n fs code 4 with Some d => le_value d | None => 0 end.
Definition rd_u64 fs code : Z := match get_n fs code 8 with Some d => le_value d | None => 0 end.
Definition rd_str fs code : bytes := match find_field code fs with Some d => d | None => [] end.

(* what the standard reader reports (Reader.DeviceName, DeviceID, ...) *)
Record header_view := mkHV {
  hv_timestamp_us : Z; hv_resx : Z; hv_resy : Z; hv_fps : Z;
  hv_devname : bytes; hv_devid : Z; hv_brand : bytes; hv_model : bytes; hv_serial : Z; hv_firmware : bytes;
  hv_preview : Z; hv_motion : bytes;
  hv_lat_bits : Z; hv_long_bits : Z; hv_locts_us : Z; hv_alt_bits : Z; hv_acc_bits : Z;
  hv_has_background : bool; hv_compression : Z
}.

Definition view (fs : list field) : header_view :=
  mkHV (rd_u64 fs C_TIMESTAMP) (rd_u32 fs C_XRES) (rd_u32 fs C_YRES) (rd_u8 fs C_FPS)
       (rd_str fs C_DEVNAME) (rd_u32 fs C_DEVID) (rd_str fs C_BRAND) (rd_str fs C_MODEL) (rd_u32 fs C_SERIAL) (rd_str fs C_FIRMWARE)
       (rd_u8 fs C_PREVIEW) (rd_str fs C_MOTION)
       (rd_u32 fs C_LAT) (rd_u32 fs C_LONG) (rd_u64 fs C_LOCTS) (rd_u32 fs C_ALT) (rd_u32 fs C_ACC)
       (negb (rd_u8 fs C_BACKGROUND =? 0)) (rd_u8 fs C_COMPRESSION).

(* what the view must be for a given input (absent optional fields read as zero / empty) *)
Definition expected_view (h : header_in) : header_view :=
  mkHV (hi_timestamp_us h) (hi_resx h) (hi_resy h) (if 0 <? hi_fps h then hi_fps h else 0)
       (hi_devname h) (if 0 <? hi_devid h then hi_devid h else 0) (hi_brand h) (hi_model h) (hi_serial h) (hi_firmware h)
       (hi_preview h) (hi_motion h)
       (if hi_lat_zero h then 0 else hi_lat_bits h) (if hi_long_zero h then 0 else hi_long_bits h)
       (if hi_locts_zero h then 0 else hi_locts_us h) (if hi_alt_nonneg h then hi_alt_bits h else 0)
       (if hi_acc_zero h then 0 else hi_acc_bits h)
       (hi_background h) 1.

(* the guards of the property: values in the ranges the casts preserve *)
Definition header_in_ok (h : header_in) : Prop :=
  0 <= hi_timestamp_us h < 2 ^ 64 /\ 0 <= hi_resx h < 2 ^ 32 /\ 0 <= hi_resy h < 2 ^ 32 /\
  0 <= hi_serial h < 2 ^ 32 /\ 0 <= hi_fps h <= 255 /\ hi_devid h < 2 ^ 32 /\ 0 <= hi_preview h <= 255 /\
  (length (hi_devname h) <= 255)%nat /\ (length (hi_firmware h) <= 255)%nat /\ (length (hi_model h) <= 255)%nat /\
  (length (hi_brand h) <= 255)%nat /\ (length (hi_motion h) <= 255)%nat /\
  0 <= hi_lat_bits h < 2 ^ 32 /\ 0 <= hi_long_bits h < 2 ^ 32 /\ 0 <= hi_alt_bits h < 2 ^ 32 /\ 0 <= hi_acc_bits h < 2 ^ 32 /\
  0 <= hi_locts_us h < 2 ^ 64.

(* ---- frames ---- *)
Record frame_in := mkFI {
  fi_background : bool;     (* Status.BackgroundFrame *)
  fi_timeon_ns : Z; fi_lastffc_ns : Z;   (* durations *)
  fi_tempc_bits : Z; fi_lastffctempc_bits : Z;   (* float32(TempC), float32(LastFFCTempC) bit patterns *)
  fi_bitwidth : Z; fi_compressed_len : Z
}.

(* durationToMillis: uint32(d / time.Millisecond) *)
Definition millis (ns : Z) : Z := (ns / 1000000) mod 2 ^ 32.

(* Writer.WriteFrame's field list *)
Definition frame_fields (f : frame_in) : list field :=
  (if fi_background f then [u8 C_BACKGROUND 1]
   else [u32 C_TIMEON (millis (fi_timeon_ns f)); u32 C_LASTFFC (millis (fi_lastffc_ns f));
         u32 C_TEMPC (fi_tempc_bits f); u32 C_LASTFFCTEMP (fi_lastffctempc_bits f)]) ++
  [u8 C_BITWIDTH (fi_bitwidth f); u32 C_FRAMESIZE (fi_compressed_len f)].

(* Reader.ReadFrame's view of the fields *)
Record frame_view := mkFV { fv_background : bool; fv_timeon_ms : Z; fv_lastffc_ms : Z; fv_tempc_bits : Z; fv_lastffctempc_bits : Z; fv_bitwidth : Z; fv_size : Z }.

Definition frame_view_of (fs : list field) : frame_view :=
  mkFV (negb (rd_u8 fs C_BACKGROUND =? 0)) (rd_u32 fs C_TIMEON) (rd_u32 fs C_LASTFFC) (rd_u32 fs C_TEMPC) (rd_u32 fs C_LASTFFCTEMP)
       (rd_u8 fs C_BITWIDTH) (rd_u32 fs C_FRAMESIZE).
