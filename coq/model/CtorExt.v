(* The outside world of the translated constructors (NewFrameLoop, NewMotionProcessor,
   NewMotionDetector, NewThrottledRecorderWithClock): configuration values are asked of the
   outside world by name ("read:recorderConf.MinSecs", "c.FPS", ...), frames are allocated by
   "cptvframe.NewFrame" (fresh handles 0, 1, 2, ... in allocation order), constructors of things
   outside the translation are recorded with their arguments.  No proofs in this file. *)
From Coq Require Import List ZArith Bool String.
From Coq Require Import Floats.SpecFloat.
From TR Require Import model.GoSem model.Ring model.Processor model.Detector model.Throttle
     model.ProcExt model.DetExt model.ThrExt
     translated.FrameLoop translated.MotionProcessor translated.MotionDetector translated.ThrottledRecorder.
Import ListNotations.
Open Scope Z_scope.

(* the configuration as the Go constructors see it *)
Record rawcfg := mkRaw {
  r_fps : Z; r_resx : Z; r_resy : Z;
  r_min_secs : Z; r_max_secs : Z; r_preview_secs : Z;      (* recorder.RecorderConfig *)
  r_trigger : Z; r_gap : Z; r_one : bool; r_delta : Z; r_count : Z; r_thresh : Z;
  r_tmin : Z; r_tmax : Z; r_warmer : bool; r_dynamic : bool; r_edge : Z; r_verbose : bool;  (* config.ThermalMotion *)
  r_const_nil : bool;                                        (* no continuous recorder configured *)
  r_bucket_secs : spec_float; r_refill_secs : spec_float;    (* ThermalThrottler.BucketSize / MinRefill .Seconds() *)
  r_listener_nil : bool
}.

Record cworld := mkCW {
  cw_cfg : rawcfg;
  cw_next : Z;                                  (* next frame handle *)
  cw_calls : list (string * list arg)           (* constructors of things outside the translation, oldest first *)
}.

Definition note (name : string) (args : list arg) (w : cworld) : cworld :=
  mkCW (cw_cfg w) (cw_next w) (cw_calls w ++ [(name, args)]).

Definition cext (name : string) (args : list arg) (w : cworld) : Z * cworld :=
  let c := cw_cfg w in
  if String.eqb name "cptvframe.NewFrame" then (cw_next w, mkCW c (cw_next w + 1) (cw_calls w))
  else if String.eqb name "c.FPS" then (r_fps c, w)
  else if String.eqb name "camera.FPS" then (r_fps c, w)
  else if String.eqb name "camera.ResX" then (r_resx c, w)
  else if String.eqb name "camera.ResY" then (r_resy c, w)
  else if String.eqb name "read:recorderConf.MinSecs" then (r_min_secs c, w)
  else if String.eqb name "read:recorderConf.MaxSecs" then (r_max_secs c, w)
  else if String.eqb name "read:recorderConf.PreviewSecs" then (r_preview_secs c, w)
  else if String.eqb name "read:motionConf.TriggerFrames" then (r_trigger c, w)
  else if String.eqb name "read:args.FrameCompareGap" then (r_gap c, w)
  else if String.eqb name "read:args.UseOneDiffOnly" then (bool_to_z (r_one c), w)
  else if String.eqb name "read:args.DeltaThresh" then (r_delta c, w)
  else if String.eqb name "read:args.CountThresh" then (r_count c, w)
  else if String.eqb name "read:args.TempThresh" then (r_thresh c, w)
  else if String.eqb name "read:args.TempThreshMin" then (r_tmin c, w)
  else if String.eqb name "read:args.TempThreshMax" then (r_tmax c, w)
  else if String.eqb name "read:args.WarmerOnly" then (bool_to_z (r_warmer c), w)
  else if String.eqb name "read:args.DynamicThreshold" then (bool_to_z (r_dynamic c), w)
  else if String.eqb name "read:args.EdgePixels" then (r_edge c, w)
  else if String.eqb name "read:args.Verbose" then (bool_to_z (r_verbose c), w)
  else if String.eqb name "isNullOrNullPointer" then (bool_to_z (r_const_nil c), w)
  else if String.eqb name "config.BucketSize.Seconds" then (fenc (r_bucket_secs c), w)
  else if String.eqb name "config.MinRefill.Seconds" then (fenc (r_refill_secs c), w)
  else if String.eqb name "nonnil:listener" then (bool_to_z (negb (r_listener_nil c)), w)
  else if String.eqb name "f64.to_int" then
    match args with [AInt a] => (f64_trunc (fdec a), w) | _ => (0, w) end
  else if String.eqb name "f64.of_int" then
    match args with [AInt a] => (fenc (f64_of_Z a), w) | _ => (0, w) end
  else if String.eqb name "f64.div" then
    match args with [AInt a; AInt b] => (fenc (f64_div (fdec a) (fdec b)), w) | _ => (0, w) end
  else (0, note name args w).   (* NewMotionDetector, loglimiter.New, ratelimit.NewBucketWithRateAndClock, newDebugTracker, Frame.Status.set..., weights make/makerow/len, log *)

Definition cw_init (c : rawcfg) : cworld := mkCW c 0 [].

(* the hand-written models' configurations, as the harness derives them *)
Definition pcfg_of (c : rawcfg) : pcfg :=
  mkCfg (r_preview_secs c * r_fps c + r_trigger c) (r_min_secs c * r_fps c) (r_max_secs c * r_fps c) (r_trigger c) (negb (r_const_nil c)).
