(* Executable specification predicates for the detector properties C07, C08, C09, C15,
   written from the property statements over frame histories - no ring buffers, no
   detector state. *)
From Coq Require Import List ZArith Bool.
From Coq Require Import Floats.SpecFloat.
From TR Require Import model.Ring model.Detector.
Import ListNotations.
Open Scope Z_scope.

(* ---- C07: fixed threshold, FFC-free streams ---- *)

(* 1 where an interior pixel of [cur] differs by more than delta from [cmp] after both are
   raised to the threshold (increase only, with warmer-only), else 0 *)
Definition hot (c : dcfg) (thresh : Z) (cur cmp : grid) : grid :=
  gbuild (d_h c) (d_w c) (fun y x =>
    if interior c y x then
      let a := Z.max (gget cur y x) thresh in
      let b := Z.max (gget cmp y x) thresh in
      let d := if d_warmer c then Z.max 0 (a - b) else Z.abs (a - b) in
      if d_delta c <? d then 1 else 0
    else 0).

Definition count_both (c : dcfg) (h1 h2 : grid) : Z :=
  fold_left (fun n yx => if (gget h1 (fst yx) (snd yx) =? 1) && (gget h2 (fst yx) (snd yx) =? 1) then n + 1 else n)
            (icoords c) 0.

(* verdict for the newest frame of an epoch (frames since start-up / the last reset, oldest
   first, newest last) *)
Definition epoch_hot (c : dcfg) (epoch : list grid) : grid :=
  let k := length epoch in
  match k with
  | O => zero_grid c
  | S k' =>
    let cur := nth k' epoch [] in
    let cmp := nth (k' - Z.to_nat (d_gap c)) epoch [] in   (* max 0 (k - gap): nat subtraction truncates *)
    hot c (d_thresh0 c) cur cmp
  end.

Definition spec_verdict (c : dcfg) (epoch : list grid) : bool :=
  let h := epoch_hot c epoch in
  let hp := match epoch with
            | [] | [_] => zero_grid c                     (* first frame since start-up / reset: no previous comparison *)
            | _ => epoch_hot c (removelast epoch)
            end in
  d_count c <=? (if d_one c then count_both c h h else count_both c h hp).

Fixpoint spec07_run (c : dcfg) (epoch : list grid) (evs : list dev) : list bool :=
  match evs with
  | [] => []
  | DReset :: t => false :: spec07_run c [] t
  | DFrame f :: t => let e := epoch ++ [f_pix f] in spec_verdict c e :: spec07_run c e t
  end.

Definition ffc_free (evs : list dev) : bool :=
  forallb (fun e => match e with DFrame f => negb (affected_by_ffc f) | DReset => true end) evs.

Fixpoint bools_eqb (a b : list bool) : bool :=
  match a, b with
  | [], [] => true
  | x :: a', y :: b' => Bool.eqb x y && bools_eqb a' b'
  | _, _ => false
  end.

(* the observed verdicts of an FFC-free fixed-threshold stream are exactly the specified ones *)
Definition S07 (c : dcfg) (evs : list dev) (verdicts : list bool) : bool :=
  bools_eqb verdicts (spec07_run c [] evs).

(* ---- C09: suppression during and directly after an FFC period ---- *)
Fixpoint S09_supp (prev_aff : bool) (evs : list dev) (verdicts : list bool) : bool :=
  match evs, verdicts with
  | [], [] => true
  | DReset :: t, v :: vt => negb v && S09_supp prev_aff t vt
  | DFrame f :: t, v :: vt =>
    let aff := affected_by_ffc f in
    (negb (aff || prev_aff) || negb v) && S09_supp aff t vt
  | _, _ => false
  end.

(* paired streams: equal from index [from] on *)
Fixpoint suffix_eqb (from : nat) (a b : list bool) : bool :=
  match from, a, b with
  | O, _, _ => bools_eqb a b
  | S k, _ :: a', _ :: b' => suffix_eqb k a' b'
  | S _, [], [] => true
  | _, _, _ => false
  end.

(* ---- C15: dynamic threshold / background ---- *)
Definition interior_le (c : dcfg) (bg fr : grid) : bool :=
  forallb (fun yx => gget bg (fst yx) (snd yx) <=? gget fr (fst yx) (snd yx)) (icoords c).
Definition interior_eq (c : dcfg) (a b : grid) : bool :=
  forallb (fun yx => gget a (fst yx) (snd yx) =? gget b (fst yx) (snd yx)) (icoords c).
Definition all_coords (c : dcfg) : list (nat * nat) :=
  flat_map (fun y => map (fun x => (y, x)) (seq 0 (d_w c))) (seq 0 (d_h c)).
Definition border_replicates (c : dcfg) (bg : grid) : bool :=
  forallb (fun yx => gget bg (fst yx) (snd yx) =? gget bg (near_y c (fst yx)) (near_x c (snd yx))) (all_coords c).

Definition interior_sum (c : dcfg) (g : grid) : Z :=
  fold_left (fun n yx => n + gget g (fst yx) (snd yx)) (icoords c) 0.
Definition clampZ (lo hi v : Z) : Z :=
  let v1 := if lo =? 0 then v else Z.max v lo in
  if hi =? 0 then v1 else Z.min v1 hi.

(* observation after one event: background, threshold *)
Record dobs := mkDO { do_bg : grid; do_thresh : Z }.

(* state of the monitor: threshold before, was the previous frame FFC-affected, is the next
   non-FFC frame the first after a reset / start-up (a re-seed) *)
Fixpoint S15_run (c : dcfg) (thresh_before : Z) (prev_aff reseed : bool) (evs : list dev) (obs : list dobs) : bool :=
  match evs, obs with
  | [], [] => true
  | DReset :: t, o :: ot =>
    (do_thresh o =? thresh_before) && S15_run c thresh_before prev_aff true t ot
  | DFrame f :: t, o :: ot =>
    let aff := affected_by_ffc f in
    let npix := Z.of_nat (length (icoords c)) in
    let ok :=
      if aff then do_thresh o =? thresh_before                                  (* nothing is updated on FFC frames *)
      else
        interior_le c (do_bg o) (f_pix f) &&                                      (* (a) *)
        border_replicates c (do_bg o) &&                                          (* (b) *)
        (negb (prev_aff || reseed) || interior_eq c (do_bg o) (f_pix f)) &&       (* (c) *)
        ((do_thresh o =? thresh_before) ||                                        (* (d) *)
         (let m := clampZ (d_tmin c) (d_tmax c) (interior_sum c (do_bg o) / npix) in
          (Z.abs (do_thresh o - m) <=? 1) &&
          ((d_tmin c =? 0) || (d_tmin c <=? do_thresh o)) &&
          ((d_tmax c =? 0) || (do_thresh o <=? d_tmax c)))) in
    ok && S15_run c (do_thresh o) aff (if aff then reseed else false) t ot
  | _, _ => false
  end.

Definition S15 (c : dcfg) (evs : list dev) (obs : list dobs) : bool :=
  S15_run c (d_thresh0 c) false true evs obs.
