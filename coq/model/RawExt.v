(* The outside world of the translated CPTR builder (coq/translated/ThermalRaw.v, from
   cmd/thermal-writer/thermalraw.go: newBuilder, newThermalRaw, writeFrame, Builder.WriteHeader,
   Builder.WriteFrame, Builder.Close).

   What the translated code computes itself: the byte slices it builds
   (append([]byte("CPTR"), version, 'H', byte(numFields)), []byte{'F', byte(numFields)}: Gallina
   lists, handed to Write as [ABytes]), the integer conversions (byte(..), uint8(..),
   uint32(..): wrap_u), the order of the writes and the error handling.  What it asks of the
   outside world, with the meaning given here:
     - byte slices and strings of the outside world ([]byte parameters, what FieldWriter.Bytes,
       h.Model(), h.Brand() return) are tokens into [rw_bytes]; "bytes.len" is len;
     - cptv.FieldWriter (go-cptv fields.go) is a token into [rw_fws]: the fields written so far,
       in model/Writer.v's [field] form.  Stated library behaviour: Uint8 / Uint32 / Timestamp
       (Uint64 of UnixNano()/1000, Go's truncating division) append a field of 1 / 4 / 8
       little-endian bytes; String appends the string's bytes - and appends NOTHING (it returns
       an error, which thermalraw.go ignores) when the string is longer than 255 bytes; Bytes
       returns the encoded fields (length, code, data each) and int(fieldCount), fieldCount
       being a uint8: the number of fields mod 256.  The field codes are go-cptv's const.go
       (model/Cptv.v's C_* constants), asked for by name ("cptv.FrameSize", ...);
     - io.WriteCloser ([Builder.w]) is a token into [rw_outs], the bytes written so far.  Write
       either appends all of its argument and returns a nil error, or - when the fault script
       [rw_faults] says so - appends nothing and returns an error;
     - nextFile (creates the next .cptr file) yields a fresh writer, or an error when
       [rw_open_fail]; the header values h.Model() ... conf.DeviceID are the inputs [rw_cfg];
     - the second result of a two-valued call is asked for separately ("<call>#1") and is kept
       in [rw_pending] meanwhile.
   No proofs in this file. *)
From Coq Require Import List ZArith Bool String.
From TR Require Import model.GoSem model.Writer model.Cptv translated.ThermalRaw.
Import ListNotations.
Open Scope Z_scope.

Record rcfg := mkRC {
  rc_model : bytes; rc_brand : bytes; rc_devname : bytes;
  rc_fps : Z; rc_resx : Z; rc_resy : Z; rc_devid : Z
}.

Record rworld := mkRW {
  rw_cfg : rcfg;
  rw_bytes : list bytes;          (* byte slices and strings, by token *)
  rw_fws : list (list field);     (* FieldWriters, by token: the fields written so far *)
  rw_outs : list bytes;           (* io.WriteClosers, by token: the bytes written so far *)
  rw_faults : list bool;          (* does the next Write fail? then the one after it? ... (none left: no) *)
  rw_open_fail : bool;            (* nextFile fails *)
  rw_pending : Z                  (* second result of the last two-valued call *)
}.

Definition rbytes (w : rworld) (t : Z) : bytes := nth (Z.to_nat t) (rw_bytes w) [].
Definition rfields (w : rworld) (t : Z) : list field := nth (Z.to_nat t) (rw_fws w) [].
Definition rout (w : rworld) (t : Z) : bytes := nth (Z.to_nat t) (rw_outs w) [].

Definition with_bytes (w : rworld) (l : list bytes) : rworld :=
  mkRW (rw_cfg w) l (rw_fws w) (rw_outs w) (rw_faults w) (rw_open_fail w) (rw_pending w).
Definition with_fws (w : rworld) (l : list (list field)) : rworld :=
  mkRW (rw_cfg w) (rw_bytes w) l (rw_outs w) (rw_faults w) (rw_open_fail w) (rw_pending w).
Definition with_outs (w : rworld) (l : list bytes) : rworld :=
  mkRW (rw_cfg w) (rw_bytes w) (rw_fws w) l (rw_faults w) (rw_open_fail w) (rw_pending w).
Definition with_faults (w : rworld) (l : list bool) : rworld :=
  mkRW (rw_cfg w) (rw_bytes w) (rw_fws w) (rw_outs w) l (rw_open_fail w) (rw_pending w).
Definition with_pending (w : rworld) (p : Z) : rworld :=
  mkRW (rw_cfg w) (rw_bytes w) (rw_fws w) (rw_outs w) (rw_faults w) (rw_open_fail w) p.

(* a fresh byte-slice token *)
Definition alloc_bytes (w : rworld) (b : bytes) : Z * rworld :=
  (Z.of_nat (List.length (rw_bytes w)), with_bytes w (rw_bytes w ++ [b])).

Definition add_field (w : rworld) (fw : Z) (f : field) : rworld :=
  with_fws w (list_upd (rw_fws w) (Z.to_nat fw) (rfields w fw ++ [f])).

(* go-cptv const.go *)
Definition code_of (name : string) : Z :=
  if String.eqb name "cptv.Timestamp" then C_TIMESTAMP
  else if String.eqb name "cptv.Model" then C_MODEL
  else if String.eqb name "cptv.Brand" then C_BRAND
  else if String.eqb name "cptv.FPS" then C_FPS
  else if String.eqb name "cptv.XResolution" then C_XRES
  else if String.eqb name "cptv.YResolution" then C_YRES
  else if String.eqb name "cptv.Compression" then C_COMPRESSION
  else if String.eqb name "cptv.DeviceName" then C_DEVNAME
  else if String.eqb name "cptv.DeviceID" then C_DEVID
  else if String.eqb name "cptv.FrameSize" then C_FRAMESIZE
  else 0.

(* FieldWriter.String: nothing is written for a string longer than 255 bytes *)
Definition add_string (w : rworld) (fw : Z) (code : Z) (s : bytes) : rworld :=
  if Nat.ltb 255 (List.length s) then w else add_field w fw (mkField code s).

(* Write: all or nothing; the head of the fault script (none left: no fault) decides *)
Definition do_write (w : rworld) (o : Z) (b : bytes) : Z * rworld :=
  let w1 := with_faults w (tl (rw_faults w)) in
  if hd false (rw_faults w) then (0, with_pending w1 1)
  else (Z.of_nat (List.length b),
        with_pending (with_outs w1 (list_upd (rw_outs w) (Z.to_nat o) (rout w o ++ b))) 0).

Definition rext (name : string) (args : list arg) (w : rworld) : Z * rworld :=
  match args with
  | [] =>
    if String.eqb name "cptv.NewFieldWriter" then
      (Z.of_nat (List.length (rw_fws w)), with_fws w (rw_fws w ++ [[]]))
    else if String.eqb name "f.Bytes#1" then (rw_pending w, w)
    else if String.eqb name "Builder.w.Write#1" then (rw_pending w, w)
    else if String.eqb name "nextFile#1" then (rw_pending w, w)
    else if String.eqb name "h.Model" then alloc_bytes w (rc_model (rw_cfg w))
    else if String.eqb name "h.Brand" then alloc_bytes w (rc_brand (rw_cfg w))
    else if String.eqb name "h.FPS" then (rc_fps (rw_cfg w), w)
    else if String.eqb name "h.ResX" then (rc_resx (rw_cfg w), w)
    else if String.eqb name "h.ResY" then (rc_resy (rw_cfg w), w)
    else if String.eqb name "read:conf.DeviceID" then (rc_devid (rw_cfg w), w)
    else (0, w)
  | [ASym _] =>
    if String.eqb name "nextFile" then
      if rw_open_fail w then (0, with_pending w 1)
      else (Z.of_nat (List.length (rw_outs w)), with_pending (with_outs w (rw_outs w ++ [[]])) 0)
    else (0, w)
  | [AInt t] =>
    if String.eqb name "bytes.len" then (Z.of_nat (List.length (rbytes w t)), w)
    else if String.eqb name "obj.Bytes" then
      let (tok, w') := alloc_bytes w (enc_fields (rfields w t)) in
      (tok, with_pending w' (Z.of_nat (List.length (rfields w t)) mod 256))
    else (0, w)                                            (* obj.Close *)
  | [AInt o; ABytes b] =>
    if String.eqb name "obj.Write" then do_write w o b else (0, w)
  | [AInt o; AInt t] =>
    if String.eqb name "obj.Write" then do_write w o (rbytes w t) else (0, w)
  | [AInt fw; ASym c; AInt v] =>
    if String.eqb name "obj.Uint8" then (0, add_field w fw (u8 (code_of c) v))
    else if String.eqb name "obj.Uint32" then (0, add_field w fw (u32 (code_of c) v))
    else if String.eqb name "obj.Timestamp" then (0, add_field w fw (u64 (code_of c) (Z.quot v 1000)))
    else if String.eqb name "obj.String" then (0, add_string w fw (code_of c) (rbytes w v))
    else (0, w)
  | [AInt fw; ASym c; ASym s] =>
    if String.eqb name "obj.String" then
      if String.eqb s "conf.DeviceName" then (0, add_string w fw (code_of c) (rc_devname (rw_cfg w))) else (0, w)
    else (0, w)
  | _ => (0, w)
  end.

(* ---- the model's view ---- *)
(* writing the chunks in order through a writer with the given fault script: the error, the
   bytes that reach the file, the script that is left *)
Fixpoint write_seq (faults : list bool) (chunks : list bytes) : Z * bytes * list bool :=
  match chunks with
  | [] => (0, [], faults)
  | c :: r =>
    if hd false faults then (1, [], tl faults)
    else let '(e, o, f') := write_seq (tl faults) r in (e, c ++ o, f')
  end.

(* a world for one file: the frames to be written are the byte slices 0 .. n-1 *)
Definition rw_init (c : rcfg) (frames : list bytes) (faults : list bool) (open_fail : bool) : rworld :=
  mkRW c frames [] [] faults open_fail 0.

(* newThermalRaw at time t (ns), then writeFrame for every frame, stopping at the first error *)
Fixpoint src_write_frames (b : Builder) (toks : list Z) (w : rworld) : outcome rworld Z :=
  match toks with
  | [] => Ok 0 w
  | t :: r =>
    match ThermalRaw_fn_writeFrame rext b t w with
    | Ok e w' => if e =? 0 then src_write_frames b r w' else Ok e w'
    | Panicked w' => Panicked w'
    end
  end.

Definition src_raw_file (c : rcfg) (t : Z) (frames : list bytes) (faults : list bool) (open_fail : bool) : outcome rworld Z :=
  match ThermalRaw_fn_newThermalRaw rext t (rw_init c frames faults open_fail) with
  | Ok (b, e) w' =>
    if e =? 0 then src_write_frames b (map Z.of_nat (seq 0 (List.length frames))) w' else Ok e w'
  | Panicked w' => Panicked w'
  end.
