(* Model of the recording files' life cycle (cmd/thermal-recorder/cptvfilerecorder.go on top
   of go-cptv's FileWriter / DualFileWriter): which names exist in the output directory tree
   and whether a full decode of each would succeed.

   A recording with timestamp T uses three names:  T.cptv.temp.tmp (uncompressed scratch file),
   T.cptv.temp (gzip stream, complete only once Close has written and closed it) and T.cptv
   (appears only through rename).  Directories: the output directory (motion and test
   recordings) and its constant-recordings sub-directory. *)
From Coq Require Import List ZArith Bool.
Import ListNotations.
Open Scope Z_scope.

Inductive ext := Cptv | Temp | TempTmp.
Inductive fdir := DOut | DConst.

Record name := mkName { n_dir : fdir; n_ts : Z; n_ext : ext }.

Inductive fstate :=
| Partial                        (* a full decode would fail / is not guaranteed *)
| Complete (frames : list Z).    (* decodes from header to last frame to exactly these frames *)

Definition ext_eqb (a b : ext) : bool :=
  match a, b with Cptv, Cptv | Temp, Temp | TempTmp, TempTmp => true | _, _ => false end.
Definition dir_eqb (a b : fdir) : bool :=
  match a, b with DOut, DOut | DConst, DConst => true | _, _ => false end.
Definition name_eqb (a b : name) : bool :=
  dir_eqb (n_dir a) (n_dir b) && (n_ts a =? n_ts b) && ext_eqb (n_ext a) (n_ext b).

Definition fs := list (name * fstate).   (* at most one entry per name *)

Definition fs_remove (d : fs) (n : name) : fs := filter (fun e => negb (name_eqb (fst e) n)) d.
Definition fs_set (d : fs) (n : name) (s : fstate) : fs := (n, s) :: fs_remove d n.
Fixpoint fs_get (d : fs) (n : name) : option fstate :=
  match d with
  | [] => None
  | (m, s) :: r => if name_eqb m n then Some s else fs_get r n
  end.

(* primitive steps: each is one or more system calls; a crash (kill) can fall between any two,
   and inside FFinish (then the file stays Partial: modelled by cutting before it) *)
Inductive fop :=
| FCreate (n : name)                    (* open(O_CREAT|O_TRUNC) *)
| FFinish (n : name) (frames : list Z)  (* the last write + close of the compressed stream *)
| FRename (a b : name)
| FUnlink (n : name).

Definition fop_apply (d : fs) (o : fop) : fs :=
  match o with
  | FCreate n => fs_set d n Partial
  | FFinish n frames => match fs_get d n with Some _ => fs_set d n (Complete frames) | None => d end
  | FRename a b => match fs_get d a with Some s => fs_set (fs_remove d a) b s | None => d end
  | FUnlink n => fs_remove d n
  end.

Definition fops_apply (d : fs) (ops : list fop) : fs := fold_left fop_apply ops d.

(* recorder calls. [ts] is the recording's time stamp (file name); [frames] what was written
   between start and stop *)
Inductive rcall :=
| RStart (dir : fdir) (ts : Z)                       (* StartRecording *)
| RStop (dir : fdir) (ts : Z) (frames : list Z)      (* StopRecording: Close, then rename *)
| RAbort (dir : fdir) (ts : Z) (frames : list Z).    (* Stop() on connection loss: Close, then remove *)

Definition expand (c : rcall) : list fop :=
  match c with
  | RStart d t =>
    (* NewFileWriter: os.Create(name); NewDualFileWriter: os.Create(name+".tmp"), os.Create(name) *)
    [FCreate (mkName d t Temp); FCreate (mkName d t TempTmp); FCreate (mkName d t Temp)]
  | RStop d t frames =>
    (* Writer.Close: Compress (gzip stream written and closed), DeleteTemp; then os.Rename *)
    [FFinish (mkName d t Temp) frames; FUnlink (mkName d t TempTmp);
     FRename (mkName d t Temp) (mkName d t Cptv)]
  | RAbort d t frames =>
    [FFinish (mkName d t Temp) frames; FUnlink (mkName d t TempTmp); FUnlink (mkName d t Temp)]
  end.

Definition expand_all (cs : list rcall) : list fop := flat_map expand cs.

(* start-up clean-up: deleteTempFiles removes every name whose extension matches one of the
   glob patterns, in the directories it covers *)
Definition recover (covers_tmp covers_const : bool) (d : fs) : fs :=
  filter (fun e =>
            let n := fst e in
            let in_dir := match n_dir n with DOut => true | DConst => covers_const end in
            negb (in_dir && match n_ext n with
                            | Cptv => false
                            | Temp => true
                            | TempTmp => covers_tmp
                            end)) d.

(* well-formed call sequences per recorder: Start T; (Stop T | Abort T), time stamps increasing
   (distinct recordings get distinct names - the code relies on the millisecond clock for it) *)
Fixpoint wf_calls (open : option (fdir * Z)) (last_ts : Z) (cs : list rcall) : bool :=
  match cs with
  | [] => true
  | RStart d t :: r => match open with None => (last_ts <? t) && wf_calls (Some (d, t)) t r | Some _ => false end
  | RStop d t _ :: r | RAbort d t _ :: r =>
    match open with
    | Some (d', t') => dir_eqb d d' && (t =? t') && wf_calls None last_ts r
    | None => false
    end
  end.
