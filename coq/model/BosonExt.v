(* The outside world of the translated Boson raw-frame parser (coq/translated/Boson.v, from
   cmd/thermal-recorder/boson.go: convertRawBosonFrame).

   The translated code leaves the translation for:
     - the raw bytes: [raw []byte] is a token; the bytes live here, by token.  The translator
       turns the argument [raw[i:i+2]] of binary.LittleEndian.Uint16 into Go's own bounds check
       (0 <= lo <= hi <= cap, the capacity asked for under "bytes.cap"; a failed check is
       [Panicked]) followed by the call with the token and the two offsets.  Here len = cap
       (GoSem's reading of slices; the recorder's raw buffer is made by make([]byte, n)), and
       "binary.LittleEndian.Uint16" on [lo, hi) is the little-endian 16-bit word at lo (library
       knowledge, stated here: b[0] | b[1]<<8; on a slice shorter than 2 the library panics -
       the translated code only ever passes hi = lo + 2);
     - the frame: [out *cptvframe.Frame] is a handle; pixels and telemetry live here, by handle.
       "Frame.Pix.len" is len(out.Pix), "Frame.Pix.rowlen" the length of the row a range loop
       takes, "Frame.Pix.set" / "Frame.Pix.get" store and read one pixel (as in model/DetExt.v);
       "Frame.Status.reset" followed by "Frame.Status.set.<Field>" is the assignment of a
       cptvframe.Telemetry literal: every field zero (FFCState: the zero value, -1 in
       model/Parse.v's coding), then the listed fields;
     - the error value: &lepton3.BadFrameErr{Cause: err} is built here; errors are integers,
       0 = nil, fmt.Errorf(...) is 1 (the translator's convention), a BadFrameErr is
       [ERR_BAD_FRAME].
   No proofs in this file. *)
From Coq Require Import List ZArith Bool String.
From Coq Require Import Floats.SpecFloat.
From TR Require Import model.GoSem model.Detector model.Parse model.DetExt translated.Boson.
Import ListNotations.
Open Scope Z_scope.

Record bframe := mkBF {
  bf_pix : grid;
  bf_tel : telemetry
}.

Record bworld := mkBW {
  bw_bytes : list (list Z);      (* byte slices, by token *)
  bw_frames : list bframe        (* frames, by handle *)
}.

(* the zero value of cptvframe.Telemetry *)
Definition zero_telemetry : telemetry :=
  mkTel 0 (-1) 0 0 (S754_zero false) (S754_zero false) 0.

Definition tel_set_timeon (t : telemetry) (v : Z) : telemetry :=
  mkTel v (t_ffcstate t) (t_framecount t) (t_framemean t) (t_tempc t) (t_lastffctempc t) (t_lastffc t).
Definition tel_set_lastffc (t : telemetry) (v : Z) : telemetry :=
  mkTel (t_timeon t) (t_ffcstate t) (t_framecount t) (t_framemean t) (t_tempc t) (t_lastffctempc t) v.

Definition bframe_of (w : bworld) (h : Z) : bframe := nth (Z.to_nat h) (bw_frames w) (mkBF [] zero_telemetry).
Definition bbytes (w : bworld) (t : Z) : list Z := nth (Z.to_nat t) (bw_bytes w) [].

Definition bset_frame (w : bworld) (h : Z) (f : bframe) : bworld :=
  mkBW (bw_bytes w) (lupd (bw_frames w) (Z.to_nat h) f).
Definition bset_pix (w : bworld) (h : Z) (g : grid) : bworld :=
  bset_frame w h (mkBF g (bf_tel (bframe_of w h))).
Definition bset_tel (w : bworld) (h : Z) (t : telemetry) : bworld :=
  bset_frame w h (mkBF (bf_pix (bframe_of w h)) t).

Definition ERR_BAD_FRAME : Z := 2.

Definition bext (name : string) (args : list arg) (w : bworld) : Z * bworld :=
  match args with
  | [AFrame h] =>
    if String.eqb name "Frame.Status.reset" then (0, bset_tel w h zero_telemetry)
    else if String.eqb name "Frame.Pix.len" then (Z.of_nat (List.length (bf_pix (bframe_of w h))), w)
    else (0, w)
  | [AFrame h; AInt v] =>
    if String.eqb name "Frame.Status.set.TimeOn" then (0, bset_tel w h (tel_set_timeon (bf_tel (bframe_of w h)) v))
    else if String.eqb name "Frame.Status.set.LastFFCTime" then (0, bset_tel w h (tel_set_lastffc (bf_tel (bframe_of w h)) v))
    else if String.eqb name "Frame.Pix.rowlen" then
      (Z.of_nat (List.length (nth (Z.to_nat v) (bf_pix (bframe_of w h)) [])), w)
    else (0, w)
  | [AFrame h; AInt y; AInt x] =>
    if String.eqb name "Frame.Pix.get" then (gget (bf_pix (bframe_of w h)) (Z.to_nat y) (Z.to_nat x), w) else (0, w)
  | [AFrame h; AInt y; AInt x; AInt v] =>
    if String.eqb name "Frame.Pix.set" then
      (0, bset_pix w h (gset (bf_pix (bframe_of w h)) (Z.to_nat y) (Z.to_nat x) v))
    else (0, w)
  | [AInt t] =>
    if String.eqb name "bytes.cap" then (Z.of_nat (List.length (bbytes w t)), w)
    else if String.eqb name "bytes.len" then (Z.of_nat (List.length (bbytes w t)), w)
    else if String.eqb name "new:lepton3.BadFrameErr{Cause}" then (ERR_BAD_FRAME, w)
    else (0, w)
  | [AInt t; AInt lo; AInt hi] =>
    if String.eqb name "binary.LittleEndian.Uint16" then (le16 (bbytes w t) (Z.to_nat lo), w) else (0, w)
  | _ => (0, w)
  end.

(* ---- the translated parser on the inputs of model/Parse.v's [parse_raw Boson] ----
   one byte slice (token 0) holding [raw], one frame (handle 0) holding the pixels [old] and
   any telemetry [tel] *)
Definition T_RAW : Z := 0.
Definition H_OUT : Z := 0.

Definition bw_init (raw : list Z) (old : grid) (tel : telemetry) : bworld :=
  mkBW [raw] [mkBF old tel].

Definition src_boson (raw : list Z) (edge : nat) (old : grid) (tel : telemetry) : outcome bworld Z :=
  Boson_fn_convertRawBosonFrame bext T_RAW H_OUT (Z.of_nat edge) (bw_init raw old tel).

(* what the model's parser says the same call leaves behind *)
Definition model_boson (raw : list Z) (h w edge : nat) (old : grid) : Z * bworld :=
  let p := parse_raw Boson raw h w edge old in
  (if p_bad p then ERR_BAD_FRAME else 0, mkBW [raw] [mkBF (p_pix p) (p_tel p)]).
