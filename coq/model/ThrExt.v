(* The outside world of the translated ThrottledRecorder and LogLimiter
   (coq/translated/ThrottledRecorder.v, coq/translated/LogLimiter.v): the token bucket
   (hand-written model of juju/ratelimit v1.0.1 in model/Throttle.v), the wrapped recorder
   with its fault script, the listener, the clock.  No proofs in this file. *)
From Coq Require Import List ZArith Bool String.
From TR Require Import model.GoSem model.Throttle model.LogLimiter translated.ThrottledRecorder translated.LogLimiter.
Import ListNotations.
Open Scope Z_scope.

(* ---------------- throttled recorder ---------------- *)

Record tworld := mkTW {
  tw_b : bucket;
  tw_clock : list Z;       (* clock readings this call will consume, in order *)
  tw_take : Z;             (* the reading of the last TakeAvailable *)
  tw_faults : list bool;   (* the wrapped recorder's results *)
  tw_out : list tout
}.

Definition tw_emit (o : tout) (w : tworld) : tworld :=
  mkTW (tw_b w) (tw_clock w) (tw_take w) (tw_faults w) (tw_out w ++ [o]).

Definition next_reading (w : tworld) : Z * list Z :=
  match tw_clock w with [] => (0, []) | t :: r => (t, r) end.

Definition base_call (mk : bool -> tout) (w : tworld) : Z * tworld :=
  let (f, r) := tpop (tw_faults w) in
  (bool_to_z f, mkTW (tw_b w) (tw_clock w) (tw_take w) r (tw_out w ++ [mk f])).

Definition text (name : string) (args : list arg) (w : tworld) : Z * tworld :=
  if String.eqb name "ThrottledRecorder.bucket.Available" then
    let (t, r) := next_reading w in
    let (b', av) := available (tw_b w) t in
    (av, mkTW b' r (tw_take w) (tw_faults w) (tw_out w))
  else if String.eqb name "ThrottledRecorder.bucket.TakeAvailable" then
    match args with
    | [AInt 1] =>
      let (t, r) := next_reading w in
      let (b', k) := take1 (tw_b w) t in
      (k, mkTW b' r t (tw_faults w) (tw_out w))
    | _ => (0, w)
    end
  else if String.eqb name "ThrottledRecorder.recorder.CheckCanRecord" then base_call BCheck w
  else if String.eqb name "ThrottledRecorder.recorder.StartRecording" then
    match args with
    | [AFrame bg; AInt th] => base_call (BStart bg th) w
    | _ => (0, w)
    end
  else if String.eqb name "ThrottledRecorder.recorder.WriteFrame" then
    match args with
    | [AFrame id] => base_call (BWrite id (tw_take w)) w
    | _ => (0, w)
    end
  else if String.eqb name "ThrottledRecorder.recorder.StopRecording" then base_call BStop w
  else if String.eqb name "ThrottledRecorder.listener.WhenThrottled" then (0, tw_emit Throttled w)
  else (0, w).   (* log.Print *)

Definition thr_init (minlen : Z) : ThrottledRecorder := mkThrottledRecorder false minlen 0 (-1).

Definition with_clock (w : tworld) (c : list Z) : tworld :=
  mkTW (tw_b w) c (tw_take w) (tw_faults w) [].

Definition ret_of (r : outcome tworld (ThrottledRecorder * Z)) (old : ThrottledRecorder) : (ThrottledRecorder * tworld) * list tout :=
  match r with
  | Ok (th, e) w => ((th, w), tw_out w ++ [Ret (z_to_bool e)])
  | Panicked w => ((old, w), tw_out w)
  end.

Definition src_thstep (tw : ThrottledRecorder * tworld) (u : ucall) : (ThrottledRecorder * tworld) * list tout :=
  let (th, w) := tw in
  match u with
  | UCheck => ret_of (ThrottledRecorder_CheckCanRecord text th (with_clock w [])) th
  | UStart bg thresh t1 => ret_of (ThrottledRecorder_StartRecording text th bg thresh (with_clock w [t1])) th
  | UWrite id t1 t2 => ret_of (ThrottledRecorder_WriteFrame text th id (with_clock w [t1; t2])) th
  | UStop => ret_of (ThrottledRecorder_StopRecording text th (with_clock w [])) th
  end.

Fixpoint src_thrun_from (tw : ThrottledRecorder * tworld) (us : list ucall) : list (list tout) :=
  match us with
  | [] => []
  | u :: r => let (tw', o) := src_thstep tw u in o :: src_thrun_from tw' r
  end.

Definition src_thrun (cap q fi minlen : Z) (faults : list bool) (us : list ucall) : list (list tout) :=
  src_thrun_from (thr_init minlen, mkTW (bucket_new cap q fi) [] 0 faults []) us.

(* ---------------- log limiter ---------------- *)

Record lworld := mkLW { lw_now : Z; lw_printed : list string }.

Definition lext (name : string) (args : list arg) (w : lworld) : Z * lworld :=
  if String.eqb name "LogLimiter.nowFunc" then (lw_now w, w)
  else if String.eqb name "log.Print" then
    match args with
    | [AStr s] => (0, mkLW (lw_now w) (lw_printed w ++ [s]))
    | _ => (0, w)
    end
  else (0, w).

(* one Print(enc m) at clock reading t: new limiter, and the lines handed to log.Print *)
Definition src_lstep (enc : Z -> string) (l : LogLimiter) (mt : Z * Z) : LogLimiter * list string :=
  let (m, t) := mt in
  match LogLimiter_Print lext l (enc m) (mkLW t []) with
  | Ok (l', _) w => (l', lw_printed w)
  | Panicked w => (l, lw_printed w)
  end.

Fixpoint src_lrun (enc : Z -> string) (l : LogLimiter) (h : list (Z * Z)) : list (list string) :=
  match h with
  | [] => []
  | mt :: t => let (l', o) := src_lstep enc l mt in o :: src_lrun enc l' t
  end.

Definition ll_init (interval : Z) : LogLimiter := mkLogLimiter interval ""%string 0.
