(* The outside world of the translated start-up clean-up and of the constant recorder's space
   reclaim (coq/translated/FileCleanup.v: deleteTempFiles and deleteExcessRecordings of
   cmd/thermal-recorder/cptvfilerecorder.go).

   The output directory tree: the recorder's own files are model/FileRec.v's file system [fs]
   (names <time stamp>.cptv / .cptv.temp / .cptv.temp.tmp in the output directory and in
   constant-recordings, with their state), every other file is a (directory, name text) pair.
   A directory entry has a TEXT: [render ts ++ ext_text e] for a recorder name ([render] - what
   time.Format makes of the time stamp - is a parameter: nothing below depends on it except the
   order of the listing), the text itself for another name.

   Stated here about libraries (not proved):
   - path.Join / filepath.Join of the output directory and "constant-recordings" is the constant
     recorder's directory; of a directory and any other literal, that directory's pattern;
   - filepath.Glob(dir/pattern), for the three patterns that occur, returns the paths of the entries
     of dir whose text ends with ".cptv.temp" ("*.cptv.temp"), ends with ".cptv.temp.tmp"
     ("*.cptv.temp.tmp"), contains ".cptv" ("*.cptv*") - filepath.Match's `*` is any sequence of
     non-separator characters - sorted by text (Glob reads the directory and sort.Strings the names),
     and a nil error.  Glob ignores every file-system error: a directory that does not exist yields
     no matches and a nil error - here a missing directory is one without entries.  A pattern the
     handler has no meaning for yields an error and no list.  (The directory's own path is assumed
     free of the metacharacters * ? [ \ - otherwise Glob would expand it as well.)
   - os.Remove(path) consumes one entry of the fault script (true = fails; exhausted = no fault):
     on a fault, or if the entry does not exist, it returns an error and the tree is unchanged;
     otherwise the entry is gone.  Every attempt is logged.
   - syscall.Statfs consumes one scripted answer (failure, or f_bavail and f_blocks, read back
     through fs.Bavail / fs.Blocks); the script exhausted, it fails.
   - errors.New yields a non-nil error; log.Println does nothing.
   Lists of strings that come out of Glob are tokens like strings ("list.len", "list.at").
   No proofs in this file. *)
From Coq Require Import List ZArith Bool String.
From TR Require Import model.GoSem model.FileRec translated.FileCleanup.
Import ListNotations.
Open Scope Z_scope.

(* ---------- directory entries ---------- *)
Inductive fname :=
| NRec (ts : Z) (e : ext)      (* a name the recorder makes *)
| NOther (s : string).         (* any other name, by its text *)

Definition ext_text (e : ext) : string :=
  match e with Cptv => ".cptv" | Temp => ".cptv.temp" | TempTmp => ".cptv.temp.tmp" end.
Definition text (render : Z -> string) (n : fname) : string :=
  match n with NRec ts e => (render ts ++ ext_text e)%string | NOther s => s end.

Definition fname_eqb (a b : fname) : bool :=
  match a, b with
  | NRec t1 e1, NRec t2 e2 => (t1 =? t2) && ext_eqb e1 e2
  | NOther s1, NOther s2 => String.eqb s1 s2
  | _, _ => false
  end.

Record ctree := mkTree {
  tr_fs : fs;                           (* the recorder's files, with their state *)
  tr_other : list (fdir * string)       (* all other files *)
}.

(* the listing of a directory (in no particular order) *)
Definition dir_names (t : ctree) (d : fdir) : list fname :=
  map (fun e => NRec (n_ts (fst e)) (n_ext (fst e))) (filter (fun e => dir_eqb (n_dir (fst e)) d) (tr_fs t))
  ++ map (fun e => NOther (snd e)) (filter (fun e => dir_eqb (fst e) d) (tr_other t)).

Definition tree_has (t : ctree) (d : fdir) (n : fname) : bool := existsb (fname_eqb n) (dir_names t d).

Definition tree_remove (t : ctree) (d : fdir) (n : fname) : ctree :=
  match n with
  | NRec ts e => mkTree (fs_remove (tr_fs t) (mkName d ts e)) (tr_other t)
  | NOther s => mkTree (tr_fs t) (filter (fun e => negb (dir_eqb (fst e) d && String.eqb (snd e) s)) (tr_other t))
  end.

(* ---------- glob patterns on texts ---------- *)
Fixpoint ends_with (s suf : string) : bool :=
  String.eqb s suf || match s with EmptyString => false | String _ r => ends_with r suf end.
Fixpoint contains (s sub : string) : bool :=
  String.prefix sub s || match s with EmptyString => false | String _ r => contains r sub end.

Definition PAT_TEMP : string := "*.cptv.temp".
Definition PAT_TEMPTMP : string := "*.cptv.temp.tmp".
Definition PAT_ANYCPTV : string := "*.cptv*".

Definition pat_pred (p : string) : option (string -> bool) :=
  if String.eqb p PAT_TEMP then Some (fun s => ends_with s ".cptv.temp")
  else if String.eqb p PAT_TEMPTMP then Some (fun s => ends_with s ".cptv.temp.tmp")
  else if String.eqb p PAT_ANYCPTV then Some (fun s => contains s ".cptv")
  else None.

(* sort.Strings on the names: insertion sort by text *)
Fixpoint insert_by (key : fname -> string) (x : fname) (l : list fname) : list fname :=
  match l with
  | [] => [x]
  | y :: r => if String.leb (key x) (key y) then x :: l else y :: insert_by key x r
  end.
Definition sort_by (key : fname -> string) (l : list fname) : list fname := fold_right (insert_by key) [] l.

Definition glob_pred (render : Z -> string) (t : ctree) (d : fdir) (m : string -> bool) : list fname :=
  sort_by (text render) (filter (fun n => m (text render n)) (dir_names t d)).
Definition glob (render : Z -> string) (t : ctree) (d : fdir) (p : string) : option (list fname) :=
  match pat_pred p with Some m => Some (glob_pred render t d m) | None => None end.

(* ---------- the world ---------- *)
Inductive cval :=
| VLit (s : string)
| VDir (d : fdir)                       (* the output directory / its constant-recordings sub-directory *)
| VPat (d : fdir) (p : string)          (* <directory>/<pattern> *)
| VFile (d : fdir) (n : fname)          (* the path of a directory entry *)
| VList (l : list cval)                 (* a []string *)
| VOther.

Inductive cev := CRm (d : fdir) (n : fname) (removed : bool).     (* an os.Remove and whether the entry went *)

Record cworld := mkCW {
  cw_strs : list cval;                  (* token k+1 is the k-th entry *)
  cw_tree : ctree;
  cw_rmfail : list bool;                (* os.Remove fault script *)
  cw_statfs : list (bool * (Z * Z));    (* Statfs answers: (fails, (f_bavail, f_blocks)) *)
  cw_cur : Z * Z;                       (* fs.Bavail, fs.Blocks as the last successful Statfs left them *)
  cw_pending : Z;                       (* second result of the last two-valued call *)
  cw_log : list cev
}.

Definition cget (w : cworld) (tok : Z) : cval :=
  if tok <=? 0 then VOther else nth (Z.to_nat (tok - 1)) (cw_strs w) VOther.

Definition cwith_strs (w : cworld) (l : list cval) : cworld :=
  mkCW l (cw_tree w) (cw_rmfail w) (cw_statfs w) (cw_cur w) (cw_pending w) (cw_log w).
Definition calloc (w : cworld) (v : cval) : Z * cworld :=
  (Z.of_nat (List.length (cw_strs w)) + 1, cwith_strs w (cw_strs w ++ [v])).
Definition cset_pending (w : cworld) (p : Z) : cworld :=
  mkCW (cw_strs w) (cw_tree w) (cw_rmfail w) (cw_statfs w) (cw_cur w) p (cw_log w).
Definition cset_rm (w : cworld) (t : ctree) (e : cev) : cworld :=
  mkCW (cw_strs w) t (tl (cw_rmfail w)) (cw_statfs w) (cw_cur w) (cw_pending w) (cw_log w ++ [e]).
Definition cset_statfs (w : cworld) (sf : list (bool * (Z * Z))) (cur : Z * Z) : cworld :=
  mkCW (cw_strs w) (cw_tree w) (cw_rmfail w) sf cur (cw_pending w) (cw_log w).

Definition CONST_DIR_NAME : string := "constant-recordings".
Definition ERR_REMOVE : Z := 1.
Definition ERR_NOTHING_LEFT : Z := 2.     (* errors.New("no more recordings to delete ...") *)
Definition ERR_STATFS : Z := 3.

Definition join_val (w : cworld) (a b : Z) : cval :=
  match cget w a, cget w b with
  | VDir DOut, VLit s => if String.eqb s CONST_DIR_NAME then VDir DConst else VPat DOut s
  | VDir DConst, VLit s => VPat DConst s
  | _, _ => VOther
  end.

Definition cext (render : Z -> string) (name : string) (args : list arg) (w : cworld) : Z * cworld :=
  if String.eqb name "str.lit" then
    match args with [AStr s] => calloc w (VLit s) | _ => (0, w) end
  else if String.eqb name "str.concat" then
    match args with
    | [AInt a; AInt b] =>
      match cget w a, cget w b with
      | VLit x, VLit y => calloc w (VLit (String.append x y))
      | _, _ => calloc w VOther
      end
    | _ => (0, w)
    end
  else if String.eqb name "path.Join" || String.eqb name "filepath.Join" then
    match args with
    | [AInt a; AInt b] => calloc w (join_val w a b)
    | _ => (0, w)
    end
  else if String.eqb name "filepath.Glob" then
    match args with
    | [AInt p] =>
      match cget w p with
      | VPat d pat =>
        match glob render (cw_tree w) d pat with
        | Some ns => let (tok, w1) := calloc w (VList (map (VFile d) ns)) in (tok, cset_pending w1 0)
        | None => (0, cset_pending w 1)
        end
      | _ => (0, cset_pending w 1)
      end
    | _ => (0, cset_pending w 1)
    end
  else if String.eqb name "filepath.Glob#1" then (cw_pending w, w)
  else if String.eqb name "list.len" then
    match args with
    | [AInt l] => match cget w l with VList vs => (Z.of_nat (List.length vs), w) | _ => (0, w) end
    | _ => (0, w)
    end
  else if String.eqb name "list.at" then
    match args with
    | [AInt l; AInt i] =>
      match cget w l with
      | VList vs => if (i <? 0) || (i >=? Z.of_nat (List.length vs)) then (0, w) else calloc w (nth (Z.to_nat i) vs VOther)
      | _ => (0, w)
      end
    | _ => (0, w)
    end
  else if String.eqb name "os.Remove" then
    match args with
    | [AInt a] =>
      match cget w a with
      | VFile d n =>
        if hd false (cw_rmfail w) || negb (tree_has (cw_tree w) d n)
        then (ERR_REMOVE, cset_rm w (cw_tree w) (CRm d n false))
        else (0, cset_rm w (tree_remove (cw_tree w) d n) (CRm d n true))
      | _ => (ERR_REMOVE, w)
      end
    | _ => (ERR_REMOVE, w)
    end
  else if String.eqb name "syscall.Statfs" then
    match cw_statfs w with
    | [] => (ERR_STATFS, w)
    | (true, _) :: r => (ERR_STATFS, cset_statfs w r (cw_cur w))
    | (false, cur) :: r => (0, cset_statfs w r cur)
    end
  else if String.eqb name "read:fs.Bavail" then (fst (cw_cur w), w)
  else if String.eqb name "read:fs.Blocks" then (snd (cw_cur w), w)
  else if String.eqb name "errors.New" then (ERR_NOTHING_LEFT, w)
  else (0, w).    (* log.Println *)

(* ---------- running the translated functions ---------- *)
Definition ROOT_TOK : Z := 1.
Definition CONST_TOK : Z := 2.
Definition dir_tok (d : fdir) : Z := match d with DOut => ROOT_TOK | DConst => CONST_TOK end.

Definition cworld_init (t : ctree) (rmfail : list bool) (statfs : list (bool * (Z * Z))) : cworld :=
  mkCW [VDir DOut; VDir DConst] t rmfail statfs (0, 0) 0 [].

(* deleteTempFiles(outputDir) on tree t *)
Definition src_clean (render : Z -> string) (t : ctree) (rmfail : list bool) : outcome cworld Z :=
  FileCleanup_fn_deleteTempFiles (cext render) ROOT_TOK (cworld_init t rmfail []).

(* deleteExcessRecordings(dir) *)
Definition src_excess (render : Z -> string) (fuel : nat) (d : fdir) (t : ctree) (rmfail : list bool)
           (statfs : list (bool * (Z * Z))) : outcome cworld (option Z) :=
  FileCleanup_fn_deleteExcessRecordings (cext render) fuel (dir_tok d) (cworld_init t rmfail statfs).
