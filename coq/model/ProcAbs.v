(* Abstract motion-recording machine: model/Processor.v's motion machine with the ring
   buffer replaced by two integers - the number of frames accepted so far (= id of the
   next frame, ids being 0,1,2,...) and the id below which pre-trigger history may not
   reach (the 'set as oldest' mark).  proofs/ProcRefine.v shows that the concrete machine
   (with the index arithmetic of frameloop.go) produces exactly the outputs of this one;
   the property proofs for C01-C04, C12, C13 are then pure arithmetic on this machine. *)
From Coq Require Import List ZArith Bool.
From TR Require Import model.Ring model.Processor.
Import ListNotations.
Open Scope Z_scope.

Record astate := mkA {
  a_n : Z;        (* frames accepted so far; the next accepted frame has this id *)
  a_mark : Z;     (* pre-trigger history never reaches below this id *)
  a_rec : bool;
  a_fw : Z;
  a_wu : Z;
  a_trig : Z;
  a_faults : list bool
}.

Definition ainit (faults : list bool) : astate := mkA 0 0 false 0 0 0 faults.

(* ids lo, lo+1, ..., lo+cnt-1 *)
Fixpoint zseq (lo : Z) (cnt : nat) : list Z :=
  match cnt with O => [] | S k => lo :: zseq (lo + 1) k end.

(* what GetHistory returns when the current frame is [id]: ids max(mark, id-size+1) .. id *)
Definition ahistory (c : pcfg) (mark id : Z) : list Z :=
  let lo := Z.max mark (id - p_size c + 1) in
  zseq lo (Z.to_nat (id - lo + 1)).

Definition astop (s : astate) : astate * list out :=
  if negb (a_rec s) then (s, [])
  else
    let (failed, f') := pop (a_faults s) in
    (mkA (a_n s) (a_n s) false 0 0 0 f', [LEnded; Call SMotion Stop failed]).

Definition aprocess (c : pcfg) (s : astate) (id : Z) (motion win : bool) : astate * list out :=
  let '(s1, o1) :=
    if motion then
      let t := a_trig s + 1 in
      if a_rec s then
        (mkA (a_n s) (a_mark s) true (a_fw s) (Z.min (a_fw s + p_min c) (p_max c)) t (a_faults s), [LMotion])
      else if t <? p_trig c then
        (mkA (a_n s) (a_mark s) false (a_fw s) (a_wu s) t (a_faults s), [LMotion])
      else if negb win then
        (mkA (a_n s) (a_mark s) false (a_fw s) (a_wu s) t (a_faults s), [LMotion; WinQ false])
      else
        let (cfail, f1) := pop (a_faults s) in
        if cfail then
          (mkA (a_n s) (a_mark s) false (a_fw s) (a_wu s) t f1, [LMotion; WinQ true; Call SMotion Check true])
        else
          let (sfail, f2) := pop f1 in
          if sfail then
            (mkA (a_n s) (a_mark s) false (a_fw s) (a_wu s) t f2,
             [LMotion; WinQ true; Call SMotion Check false; Call SMotion Start true])
          else
            let '(ok, f3, ow) := write_pre (ahistory c (a_mark s) id) f2 in
            (mkA (a_n s) (a_mark s) true (a_fw s) (if ok then p_min c else a_wu s) t f3,
             [LMotion; WinQ true; Call SMotion Check false; Call SMotion Start false; LStarted] ++ ow)
    else
      (mkA (a_n s) (a_mark s) (a_rec s) (a_fw s) (a_wu s) 0 (a_faults s), [])
  in
  let '(s2, o2) :=
    if a_rec s1 then
      let (failed, f') := pop (a_faults s1) in
      (mkA (a_n s1) (a_mark s1) true (a_fw s1 + 1) (a_wu s1) (a_trig s1) f', [Call SMotion (Write id) failed])
    else (s1, [])
  in
  (* the frame is now buffered: one more accepted frame *)
  let s3 := mkA (id + 1) (a_mark s2) (a_rec s2) (a_fw s2) (a_wu s2) (a_trig s2) (a_faults s2) in
  let '(s4, o4) :=
    if a_rec s3 && (a_fw s3 >=? a_wu s3) then astop s3 else (s3, [])
  in
  (s4, o1 ++ o2 ++ o4).

Definition astep (c : pcfg) (s : astate) (e : ev) : astate * list out :=
  match e with
  | EFrame id motion win => aprocess c s id motion win
  | EBad => astop s
  | EReset => astop s
  | ESnapReq => (s, [])
  end.

Fixpoint arun (c : pcfg) (s : astate) (evs : list ev) : list (list out) :=
  match evs with
  | [] => []
  | e :: t => let (s', o) := astep c s e in o :: arun c s' t
  end.

(* the motion machine alone, for comparison with [arun] *)
Fixpoint mrun (c : pcfg) (s : mstate) (evs : list ev) : list (list out) :=
  match evs with
  | [] => []
  | e :: t => let (s', o) := mstep c s e in o :: mrun c s' t
  end.

(* well-formed streams: accepted frames are numbered consecutively from [n] *)
Fixpoint wf_ids (n : Z) (evs : list ev) : Prop :=
  match evs with
  | [] => True
  | EFrame id _ _ :: t => id = n /\ wf_ids (n + 1) t
  | _ :: t => wf_ids n t
  end.

Fixpoint wf_idsb (n : Z) (evs : list ev) : bool :=
  match evs with
  | [] => true
  | EFrame id _ _ :: t => (id =? n) && wf_idsb (n + 1) t
  | _ :: t => wf_idsb n t
  end.

(* the continuous and test machines alone *)
Fixpoint crun (c : pcfg) (s : cstate) (evs : list ev) : list (list out) :=
  match evs with
  | [] => []
  | e :: t => let (s', o) := cstep c s e in o :: crun c s' t
  end.

Fixpoint trun (s : tstate) (evs : list ev) : list (list out) :=
  match evs with
  | [] => []
  | e :: t => let (s', o) := tstep s e in o :: trun s' t
  end.

Fixpoint mfinal (c : pcfg) (s : mstate) (evs : list ev) : mstate :=
  match evs with
  | [] => s
  | e :: t => mfinal c (fst (mstep c s e)) t
  end.

(* number of accepted frames in an event list *)
Fixpoint nframes (evs : list ev) : Z :=
  match evs with
  | [] => 0
  | EFrame _ _ _ :: t => 1 + nframes t
  | _ :: t => nframes t
  end.

(* per-event concatenation of three output streams *)
Fixpoint zip3 (a b c : list (list out)) : list (list out) :=
  match a, b, c with
  | x :: a', y :: b', z :: c' => (x ++ y ++ z) :: zip3 a' b' c'
  | _, _, _ => []
  end.

(* the observable trace of a whole run: each event with its outputs *)
Definition psteps (c : pcfg) (fm fc ft : list bool) (evs : list ev) : list (ev * list out) :=
  combine evs (prun c (pinit c fm fc ft) evs).
