(* The outside world of the translated header reader (coq/translated/HeaderReader.v, from
   ReadHeaderInfo, toInt, toStr and the accessors of headers/headerinfo.go).

   The stream behind the bufio.Reader is a list of chunks (what successive reads return, any
   sizes - the same reading as model/Socket.v and model/ConnExt.v).
     reader.ReadString('\n')   Socket.line_c: the bytes up to and including the first newline and
                               a nil error; when the stream ends first, everything that was left
                               and io.EOF (the stream is then exhausted);
     var buf bytes.Buffer      a fresh object holding no bytes; buf.WriteString(s) appends the bytes
                               of s; buf.Bytes() is its content;
     strings.Trim(s, cutset)   s without its leading and trailing bytes that occur in cutset
                               ([trim_bytes]; all strings here are byte strings, and the only cutset
                               of the code is " ", for which bytes and code points coincide);
     a == b on strings         equality of the byte strings (Socket.bytes_eqb);
     make(map[string]interface{})  a fresh object, the empty map;
     yaml.Unmarshal(text, &h)  the DECODER IS A PARAMETER of this file ([decode], a Section variable -
                               not an axiom): bytes -> option (key -> value), a value being an int, a
                               string, or anything else ([YOther]; [YNil] = no such key / null).
                               On success the (empty, just made) map becomes the decoded one and the
                               error is nil; on failure the map is left alone and an error returned.
                               Every text handed to the decoder is recorded in [hw_decoded];
     h[key]                    the map's value for the key, as an interface{} value;
     v.(int) / v.(string)      "is:<T>" answers whether the dynamic type is T, "as:<T>" yields the
                               value (Go's zero value of T when it is not: 0 / "").
   Strings, byte slices and interface values are entries of a value table addressed by tokens (as in
   ConnExt.v); the reader, the buffer and the map are entries of an object table.  A call with
   arguments of the wrong kind answers 0 and sets the pending error (it does not occur in the
   translated code; the tie theorems show it).  No proofs in this file. *)
From Coq Require Import String List ZArith Bool.
From TR Require Import model.GoSem model.Socket model.ConnExt translated.HeaderReader.
Import ListNotations.
Open Scope Z_scope.

(* ---- decoded YAML ---- *)
Inductive yval :=
| YInt (z : Z)          (* an int *)
| YStr (b : bytes)      (* a string *)
| YOther                (* a value of any other dynamic type (float, bool, list, map, ...) *)
| YNil.                 (* no such key, or a null *)
Definition ymap := bytes -> yval.
Definition ymap_empty : ymap := fun _ => YNil.

(* toInt / toStr as the Go source states them: the value when the dynamic type fits, else 0 / "" *)
Definition to_int (v : yval) : Z := match v with YInt z => z | _ => 0 end.
Definition to_str (v : yval) : bytes := match v with YStr b => b | _ => [] end.

(* the keys of headers/headers.go that ReadHeaderInfo asks for *)
Definition K_RESX : bytes := bytes_of_string "ResX".
Definition K_RESY : bytes := bytes_of_string "ResY".
Definition K_FPS : bytes := bytes_of_string "FPS".
Definition K_FRAMESIZE : bytes := bytes_of_string "FrameSize".
Definition K_BRAND : bytes := bytes_of_string "Brand".
Definition K_MODEL : bytes := bytes_of_string "Model".
Definition K_SERIAL : bytes := bytes_of_string "CameraSerial".
Definition K_FIRMWARE : bytes := bytes_of_string "Firmware".

(* a camera description with its strings spelled out *)
Record hfields := mkHF {
  f_resX : Z; f_resY : Z; f_fps : Z; f_framesize : Z;
  f_brand : bytes; f_model : bytes; f_serial : Z; f_firmware : bytes
}.
Definition fields_of (m : ymap) : hfields :=
  mkHF (to_int (m K_RESX)) (to_int (m K_RESY)) (to_int (m K_FPS)) (to_int (m K_FRAMESIZE))
       (to_str (m K_BRAND)) (to_str (m K_MODEL)) (to_int (m K_SERIAL)) (to_str (m K_FIRMWARE)).

(* ---- the world ---- *)
Inductive hobj :=
| HReader                 (* the *bufio.Reader *)
| HBuffer (c : bytes)     (* a bytes.Buffer and its content *)
| HMap (m : ymap)         (* a map[string]interface{} *)
| HNoObj.

Inductive hval :=
| HStr (b : bytes)        (* a string *)
| HBytes (b : bytes)      (* a []byte *)
| HIface (v : yval)       (* an interface{} value *)
| HNoVal.

Record hworld := mkHW {
  hw_in : list bytes;        (* what the stream has still to deliver, per read *)
  hw_pending : Z;            (* second result of the last two-valued call *)
  hw_objs : list hobj;
  hw_vals : list hval;
  hw_decoded : list bytes    (* the texts handed to yaml.Unmarshal so far *)
}.

Definition hset_in (w : hworld) (i : list bytes) (p : Z) : hworld :=
  mkHW i p (hw_objs w) (hw_vals w) (hw_decoded w).
Definition hset_pending (w : hworld) (p : Z) : hworld :=
  mkHW (hw_in w) p (hw_objs w) (hw_vals w) (hw_decoded w).
Definition hset_objs (w : hworld) (l : list hobj) : hworld :=
  mkHW (hw_in w) (hw_pending w) l (hw_vals w) (hw_decoded w).
Definition hset_vals (w : hworld) (l : list hval) : hworld :=
  mkHW (hw_in w) (hw_pending w) (hw_objs w) l (hw_decoded w).
Definition hlog_decoded (w : hworld) (t : bytes) : hworld :=
  mkHW (hw_in w) (hw_pending w) (hw_objs w) (hw_vals w) (hw_decoded w ++ [t]).

(* the two tables: token k+1 is the k-th entry (ConnExt.tget / tlen) *)
Definition hoget (w : hworld) (tok : Z) : hobj := tget HNoObj (hw_objs w) tok.
Definition honext (w : hworld) : Z := tlen (hw_objs w).
Definition hoalloc (w : hworld) (o : hobj) : hworld := hset_objs w (hw_objs w ++ [o]).
(* object tok becomes o (tok is a valid token) *)
Definition hoset (w : hworld) (tok : Z) (o : hobj) : hworld :=
  hset_objs w (list_upd (hw_objs w) (Z.to_nat (tok - 1)) o).

Definition hvget (w : hworld) (tok : Z) : hval := tget HNoVal (hw_vals w) tok.
Definition hvnext (w : hworld) : Z := tlen (hw_vals w).
Definition hvalloc (w : hworld) (v : hval) : hworld := hset_vals w (hw_vals w ++ [v]).

(* ---- strings.Trim ---- *)
Definition in_set (cut : bytes) (b : Z) : bool := existsb (Z.eqb b) cut.
Fixpoint drop_in (cut l : bytes) : bytes :=
  match l with
  | b :: r => if in_set cut b then drop_in cut r else l
  | [] => []
  end.
Definition trim_bytes (cut l : bytes) : bytes := rev (drop_in cut (rev (drop_in cut l))).

Section Hdr.
(* yaml.Unmarshal into a map[string]interface{}: None = it returns an error *)
Variable decode : bytes -> option ymap.

(* ---- the calls ---- *)
Definition hdo_lit (args : list arg) (w : hworld) : Z * hworld :=
  match args with
  | [AStr s] => (hvnext w, hvalloc w (HStr (bytes_of_string s)))
  | _ => (0, hset_pending w ERR_OTHER)
  end.

(* reader.ReadString(delim) *)
Definition hdo_readstring (args : list arg) (w : hworld) : Z * hworld :=
  match args with
  | [AInt r; AInt d] =>
    match hoget w r with
    | HReader =>
      if d =? NL then
        match line_c (hw_in w) with
        | Some (l, rest) => (hvnext w, hset_in (hvalloc w (HStr l)) rest 0)
        | None => (hvnext w, hset_in (hvalloc w (HStr (concat (hw_in w)))) [] ERR_EOF)
        end
      else (0, hset_pending w ERR_OTHER)
    | _ => (0, hset_pending w ERR_OTHER)
    end
  | _ => (0, hset_pending w ERR_OTHER)
  end.

Definition hdo_trim (args : list arg) (w : hworld) : Z * hworld :=
  match args with
  | [AInt s; AInt c] =>
    match hvget w s, hvget w c with
    | HStr x, HStr cut => (hvnext w, hvalloc w (HStr (trim_bytes cut x)))
    | _, _ => (0, hset_pending w ERR_OTHER)
    end
  | _ => (0, hset_pending w ERR_OTHER)
  end.

Definition hdo_streq (args : list arg) (w : hworld) : Z * hworld :=
  match args with
  | [AInt a; AInt b] =>
    match hvget w a, hvget w b with
    | HStr x, HStr y => (bool_to_z (bytes_eqb x y), w)
    | _, _ => (0, hset_pending w ERR_OTHER)
    end
  | _ => (0, hset_pending w ERR_OTHER)
  end.

(* buf.WriteString(s): the number of bytes written (the error, always nil, is not asked for) *)
Definition hdo_writestring (args : list arg) (w : hworld) : Z * hworld :=
  match args with
  | [AInt b; AInt s] =>
    match hoget w b, hvget w s with
    | HBuffer c, HStr x => (Z.of_nat (List.length x), hoset w b (HBuffer (c ++ x)))
    | _, _ => (0, hset_pending w ERR_OTHER)
    end
  | _ => (0, hset_pending w ERR_OTHER)
  end.

Definition hdo_bytes (args : list arg) (w : hworld) : Z * hworld :=
  match args with
  | [AInt b] =>
    match hoget w b with
    | HBuffer c => (hvnext w, hvalloc w (HBytes c))
    | _ => (0, hset_pending w ERR_OTHER)
    end
  | _ => (0, hset_pending w ERR_OTHER)
  end.

(* yaml.Unmarshal(text, &h): the error *)
Definition hdo_unmarshal (args : list arg) (w : hworld) : Z * hworld :=
  match args with
  | [AInt t; AInt m] =>
    match hvget w t, hoget w m with
    | HBytes text, HMap _ =>
      match decode text with
      | Some ym => (0, hoset (hlog_decoded w text) m (HMap ym))
      | None => (ERR_OTHER, hlog_decoded w text)
      end
    | _, _ => (ERR_OTHER, hset_pending w ERR_OTHER)
    end
  | _ => (ERR_OTHER, hset_pending w ERR_OTHER)
  end.

Definition hdo_index (args : list arg) (w : hworld) : Z * hworld :=
  match args with
  | [AInt m; AInt k] =>
    match hoget w m, hvget w k with
    | HMap ym, HStr key => (hvnext w, hvalloc w (HIface (ym key)))
    | _, _ => (0, hset_pending w ERR_OTHER)
    end
  | _ => (0, hset_pending w ERR_OTHER)
  end.

Definition iface_of (w : hworld) (args : list arg) : yval :=
  match args with
  | [AInt v] => match hvget w v with HIface y => y | _ => YNil end
  | _ => YNil
  end.

Definition hext (name : string) (args : list arg) (w : hworld) : Z * hworld :=
  if String.eqb name "str.lit" then hdo_lit args w
  else if String.eqb name "str.eq" then hdo_streq args w
  else if String.eqb name "strings.Trim" then hdo_trim args w
  else if String.eqb name "obj.ReadString" then hdo_readstring args w
  else if String.eqb name "obj.ReadString#1" then (hw_pending w, w)
  else if String.eqb name "zero:bytes.Buffer" then (honext w, hoalloc w (HBuffer []))
  else if String.eqb name "obj.WriteString" then hdo_writestring args w
  else if String.eqb name "obj.Bytes" then hdo_bytes args w
  else if String.eqb name "make:map[string]interface{}" then (honext w, hoalloc w (HMap ymap_empty))
  else if String.eqb name "yaml.Unmarshal" then hdo_unmarshal args w
  else if String.eqb name "index" then hdo_index args w
  else if String.eqb name "is:int" then
    (match iface_of w args with YInt _ => 1 | _ => 0 end, w)
  else if String.eqb name "as:int" then (to_int (iface_of w args), w)
  else if String.eqb name "is:string" then
    (match iface_of w args with YStr _ => 1 | _ => 0 end, w)
  else if String.eqb name "as:string" then (hvnext w, hvalloc w (HStr (to_str (iface_of w args))))
  else (0, hset_pending w ERR_OTHER).

(* ---- running the translated reader ---- *)
Definition src_header (fuel : nat) (rd : Z) (w : hworld) : outcome hworld (option (HeaderInfo * Z)) :=
  HeaderReader_fn_ReadHeaderInfo hext fuel rd w.

End Hdr.

(* a fresh connection: the reader is object 1 *)
Definition hdr_init (cs : list bytes) : hworld := mkHW cs 0 [HReader] [] [].
Definition RD : Z := 1.

(* what a *HeaderInfo stands for: its three strings looked up in the value table *)
Definition hstr (w : hworld) (tok : Z) : option bytes :=
  match hvget w tok with HStr b => Some b | _ => None end.
Definition hdr_view (w : hworld) (h : HeaderInfo) : option hfields :=
  match hstr w (HeaderInfo_brand h), hstr w (HeaderInfo_model h), hstr w (HeaderInfo_firmware h) with
  | Some b, Some m, Some f =>
    Some (mkHF (HeaderInfo_resX h) (HeaderInfo_resY h) (HeaderInfo_fps h) (HeaderInfo_framesize h)
               b m (HeaderInfo_serial h) f)
  | _, _, _ => None
  end.
