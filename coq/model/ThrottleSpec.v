(* Executable specification predicates for the throttle properties C05 / C06, over the
   observable trace (upstream calls with the calls that reach the base recorder, listener
   events and return values). *)
From Coq Require Import List ZArith Bool.
From TR Require Import model.Throttle.
Import ListNotations.
Open Scope Z_scope.

Definition thstep_t := (ucall * list tout)%type.

(* ---- C05: every window of forwarded writes is within the token-bucket bound ---- *)

(* for the window starting at time t0 with [cnt] writes so far, check every extension *)
Fixpoint win_from (cap q fi t0 cnt : Z) (ts : list Z) : bool :=
  match ts with
  | [] => true
  | t :: r => (cnt + 1 <=? cap + 1 + q * ((t - t0) / fi + 1)) && win_from cap q fi t0 (cnt + 1) r
  end.

(* all windows [t_i, t_j], i <= j, of the list of timestamps *)
Fixpoint windows_ok (cap q fi : Z) (ts : list Z) : bool :=
  match ts with
  | [] => true
  | t0 :: r => win_from cap q fi t0 0 ts && windows_ok cap q fi r
  end.

Definition write_times (o : list tout) : list Z :=
  flat_map (fun x => match x with BWrite _ t _ => [t] | _ => [] end) o.

Definition S05 (cap q fi : Z) (tr : list thstep_t) : bool :=
  windows_ok cap q fi (write_times (flat_map snd tr)).

(* The property as stated, in configured units (no reference to the library's quantum or
   fill interval): every window [a, b] of forwarded writes holding n frames satisfies
     n <= bucket_frames + 2 + 1.010000001 * (minFrames / minRefill) * (b - a),
   i.e. bucket size plus the refill earned, within the library's 1 % rate margin and 2
   frames of tick quantisation.  Written without division:
     (n - (bucket_frames + 2)) * minRefill_ns * 10^9 <= 1010000001 * minFrames * (b - a). *)
Fixpoint win_from_sec (bf mf rf t0 cnt : Z) (ts : list Z) : bool :=
  match ts with
  | [] => true
  | t :: r => ((cnt + 1 - (bf + 2)) * rf * 1000000000 <=? 1010000001 * mf * (t - t0)) && win_from_sec bf mf rf t0 (cnt + 1) r
  end.

Fixpoint windows_sec_ok (bf mf rf : Z) (ts : list Z) : bool :=
  match ts with
  | [] => true
  | t0 :: r => win_from_sec bf mf rf t0 0 ts && windows_sec_ok bf mf rf r
  end.

Definition S05sec (bucket_frames minframes refill_ns : Z) (tr : list thstep_t) : bool :=
  windows_sec_ok bucket_frames minframes refill_ns (write_times (flat_map snd tr)).

(* the library's (quantum, fillInterval) realise at most (1 + 1/100 + 10^-9) times the
   configured rate  minFrames / minRefill :   q * refill_ns * 10^9 <= 1010000001 * minFrames * fi *)
Definition rate_ok (q fi minframes refill_ns : Z) : bool :=
  q * refill_ns * 1000000000 <=? 1010000001 * minframes * fi.

(* clock readings a call consumes, in order *)
Definition readings (u : ucall) : list Z :=
  match u with
  | UStart _ _ t1 => [t1]
  | UWrite _ t1 t2 => [t1; t2]
  | _ => []
  end.

Fixpoint sorted_from (lo : Z) (l : list Z) : bool :=
  match l with [] => true | x :: r => (lo <=? x) && sorted_from x r end.

(* non-decreasing clock, never before the bucket's start time *)
Definition monotone (us : list ucall) : bool := sorted_from 0 (flat_map readings us).

(* ---- conforming upstream: (Check* (Start-that-failed | Start Write* Stop))* ---- *)
Definition ret_err (o : list tout) : bool :=
  existsb (fun x => match x with Ret true => true | _ => false end) o.

Fixpoint conforming_from (started : bool) (tr : list thstep_t) : bool :=
  match tr with
  | [] => true
  | (u, o) :: r =>
    match u with
    | UCheck => negb started && conforming_from started r
    | UStart _ _ _ => negb started && conforming_from (negb (ret_err o)) r
    | UWrite _ _ _ => started && conforming_from started r
    | UStop => started && conforming_from false r
    end
  end.
Definition conforming (tr : list thstep_t) : bool := conforming_from false tr.

(* ---- C06 ---- *)
Definition has_throttled (o : list tout) : bool :=
  existsb (fun x => match x with Throttled => true | _ => false end) o.
Definition count_throttled (o : list tout) : Z :=
  fold_left (fun n x => match x with Throttled => n + 1 | _ => n end) o 0.
Definition has_bstart (o : list tout) : bool :=
  existsb (fun x => match x with BStart _ _ _ => true | _ => false end) o.
Definition has_bstop (o : list tout) : bool :=
  existsb (fun x => match x with BStop _ => true | _ => false end) o.

Definition tout_eqb (a b : tout) : bool :=
  match a, b with
  | BCheck f, BCheck g => Bool.eqb f g
  | BStart x y f, BStart x' y' g => (x =? x') && (y =? y') && Bool.eqb f g
  | BWrite i t f, BWrite i' t' g => (i =? i') && (t =? t') && Bool.eqb f g
  | BStop f, BStop g => Bool.eqb f g
  | Throttled, Throttled => true
  | Ret f, Ret g => Bool.eqb f g
  | _, _ => false
  end.
Fixpoint touts_eqb (a b : list tout) : bool :=
  match a, b with
  | [], [] => true
  | x :: a', y :: b' => tout_eqb x y && touts_eqb a' b'
  | _, _ => false
  end.

(* (a) transparent: in a run without any 'throttled' event every upstream call is forwarded
   unchanged (same arguments, same order) and its result returned *)
Definition transparent_step (x : thstep_t) : bool :=
  let (u, o) := x in
  match u, o with
  | UCheck, [BCheck f; Ret g] => Bool.eqb f g
  | UStart bg th _, [BStart bg' th' f; Ret g] => (bg =? bg') && (th =? th') && Bool.eqb f g
  | UWrite id _ _, [BWrite id' _ f; Ret g] => (id =? id') && Bool.eqb f g
  | UStop, [BStop f; Ret g] => Bool.eqb f g
  | _, _ => false
  end.
Definition S06a (tr : list thstep_t) : bool :=
  existsb (fun x => has_throttled (snd x)) tr || forallb transparent_step tr.

(* (b) paired: the base recorder sees (Start Write* Stop)*; a failed start leaves it closed;
   writes and stops only while open; no start while open.
   (d) cut length: a file closed by the throttle (a base stop during an upstream write) holds
   at least [minlen] forwarded writes.  State: open?, writes in the open file. *)
Record s06 := mk06 { s06_open : bool; s06_n : Z; s06_ok : bool }.

Definition s06_out (minlen : Z) (in_write : bool) (st : s06) (x : tout) : s06 :=
  match x with
  | BStart _ _ failed => mk06 (negb failed) 0 (s06_ok st && negb (s06_open st))
  | BWrite _ _ _ => mk06 (s06_open st) (s06_n st + 1) (s06_ok st && s06_open st)
  | BStop _ => mk06 false 0 (s06_ok st && s06_open st && (negb in_write || (minlen <=? s06_n st)))
  | _ => st
  end.
Definition s06_step (minlen : Z) (st : s06) (x : thstep_t) : s06 :=
  fold_left (s06_out minlen (match fst x with UWrite _ _ _ => true | _ => false end)) (snd x) st.
Definition S06bd (minlen : Z) (tr : list thstep_t) : bool :=
  s06_ok (fold_left (s06_step minlen) tr (mk06 false 0 true)).

(* (e) events: exactly one 'throttled' per suppressed start and per cut, none otherwise:
   an upstream start that returns no error emits one iff it did not start the base recorder;
   an upstream write emits one iff it closes the base recording; nothing else emits any. *)
Definition S06e_step (x : thstep_t) : bool :=
  let (u, o) := x in
  let n := count_throttled o in
  match u with
  | UStart _ _ _ => if ret_err o then n =? 0 else n =? (if has_bstart o then 0 else 1)
  | UWrite _ _ _ => n =? (if has_bstop o then 1 else 0)
  | _ => n =? 0
  end.
Definition S06e (tr : list thstep_t) : bool := forallb S06e_step tr.

(* (f) arguments: every start the storage layer sees - the forwarded one and the restart in the middle
   of a trigger - carries the background and the threshold of the LATEST upstream start that returned
   no error ((-1, 0) before the first one: no such start is ever issued in a conforming run) *)
Definition bstart_args_ok (bg th : Z) (o : list tout) : bool :=
  forallb (fun x => match x with BStart b t _ => (b =? bg) && (t =? th) | _ => true end) o.
Fixpoint S06f_from (last : Z * Z) (tr : list thstep_t) : bool :=
  match tr with
  | [] => true
  | (u, o) :: r =>
    match u with
    | UStart bg th _ => bstart_args_ok bg th o && S06f_from (if ret_err o then last else (bg, th)) r
    | _ => bstart_args_ok (fst last) (snd last) o && S06f_from last r
    end
  end.
Definition S06f (tr : list thstep_t) : bool := S06f_from (-1, 0) tr.

Definition S06 (minlen : Z) (tr : list thstep_t) : bool :=
  S06a tr && S06bd minlen tr && S06e tr && S06f tr.
