(* Model of cmd/thermal-writer: (1) the CPTR byte format written by thermalraw.go
   (newThermalRaw / writeFrame / Builder) on top of go-cptv's FieldWriter, with a parser for
   the round-trip theorem; (2) a transition system for handleConn's reader loop and the
   writer goroutine exchanging 256 recycled buffers over two channels. *)
From Coq Require Import List ZArith Bool.
Import ListNotations.
Open Scope Z_scope.

Definition bytes := list Z.

(* ------------------------------------------------------------------ *)
(* byte format                                                          *)

(* little-endian encoding of [v] on [n] bytes *)
Fixpoint le_bytes (n : nat) (v : Z) : bytes :=
  match n with
  | O => []
  | S k => (v mod 256) :: le_bytes k (v / 256)
  end.

Fixpoint le_value (b : bytes) : Z :=
  match b with
  | [] => 0
  | x :: r => x + 256 * le_value r
  end.

(* one field as go-cptv's FieldWriter lays it out: length, code, data *)
Record field := mkField { f_code : Z; f_data : bytes }.

Definition enc_field (f : field) : bytes :=
  Z.of_nat (length (f_data f)) :: f_code f :: f_data f.

Definition enc_fields (fs : list field) : bytes := flat_map enc_field fs.

(* constants of thermalraw.go / go-cptv const.go (checked against Extracted.v in proofs) *)
Definition CPTR_MAGIC : bytes := [67; 80; 84; 82].   (* "CPTR" *)
Definition CPTR_VERSION : Z := 2.
Definition SEC_HEADER : Z := 72.   (* 'H' *)
Definition SEC_FRAME : Z := 70.    (* 'F' *)
Definition CODE_FRAMESIZE : Z := 102.   (* 'f' *)

(* Builder.WriteHeader *)
Definition enc_header (fs : list field) : bytes :=
  CPTR_MAGIC ++ [CPTR_VERSION; SEC_HEADER; Z.of_nat (length fs) mod 256] ++ enc_fields fs.

(* writeFrame + Builder.WriteFrame: section byte, field count 1, FrameSize field (uint32 LE), data *)
Definition enc_frame (data : bytes) : bytes :=
  [SEC_FRAME; 1] ++ enc_field (mkField CODE_FRAMESIZE (le_bytes 4 (Z.of_nat (length data)))) ++ data.

Definition enc_file (hdr : list field) (frames : list bytes) : bytes :=
  enc_header hdr ++ flat_map enc_frame frames.

(* newThermalRaw's header fields; the timestamp (8 bytes, microseconds) is an input *)
Definition str_field (code : Z) (s : bytes) : field := mkField code s.
Definition thermal_raw_header (ts : bytes) (model brand : bytes) (fps resx resy : Z) (devname : bytes) (devid : Z) : list field :=
  [ mkField 84 ts;                          (* 'T' Timestamp *)
    str_field 69 model;                     (* 'E' Model *)
    str_field 66 brand;                     (* 'B' Brand *)
    mkField 90 [fps mod 256];               (* 'Z' FPS, uint8(h.FPS()) *)
    mkField 88 (le_bytes 4 resx);           (* 'X' *)
    mkField 89 (le_bytes 4 resy);           (* 'Y' *)
    mkField 67 [0];                         (* 'C' Compression = 0 *)
    str_field 68 devname;                   (* 'D' DeviceName *)
    mkField 73 (le_bytes 4 devid) ].        (* 'I' DeviceID *)

(* ---- parser ---- *)
Fixpoint take_n (n : nat) (b : bytes) : option (bytes * bytes) :=
  match n with
  | O => Some ([], b)
  | S k => match b with
           | [] => None
           | x :: r => match take_n k r with
                       | Some (h, t) => Some (x :: h, t)
                       | None => None
                       end
           end
  end.

Fixpoint parse_fields (n : nat) (b : bytes) : option (list field * bytes) :=
  match n with
  | O => Some ([], b)
  | S k =>
    match b with
    | len :: code :: r =>
      match take_n (Z.to_nat len) r with
      | Some (data, r') =>
        match parse_fields k r' with
        | Some (fs, r'') => Some (mkField code data :: fs, r'')
        | None => None
        end
      | None => None
      end
    | _ => None
    end
  end.

Definition find_field (code : Z) (fs : list field) : option bytes :=
  match find (fun f => f_code f =? code) (rev fs) with   (* the reader keeps the last duplicate *)
  | Some f => Some (f_data f)
  | None => None
  end.

(* frames until the input ends; fuel = number of input bytes suffices *)
Fixpoint parse_frames (fuel : nat) (b : bytes) : option (list bytes) :=
  match fuel with
  | O => match b with [] => Some [] | _ => None end
  | S k =>
    match b with
    | [] => Some []
    | sec :: nf :: r =>
      if negb (sec =? SEC_FRAME) then None
      else
        match parse_fields (Z.to_nat nf) r with
        | Some (fs, r') =>
          match find_field CODE_FRAMESIZE fs with
          | Some sz =>
            match take_n (Z.to_nat (le_value sz)) r' with
            | Some (data, r'') =>
              match parse_frames k r'' with
              | Some fr => Some (data :: fr)
              | None => None
              end
            | None => None
            end
          | None => None
          end
        | None => None
        end
    | _ => None
    end
  end.

Definition parse_file (b : bytes) : option (list field * list bytes) :=
  match b with
  | m0 :: m1 :: m2 :: m3 :: ver :: sec :: nf :: r =>
    if negb ((m0 =? 67) && (m1 =? 80) && (m2 =? 84) && (m3 =? 82) && (ver =? CPTR_VERSION) && (sec =? SEC_HEADER)) then None
    else
      match parse_fields (Z.to_nat nf) r with
      | Some (fs, r') =>
        match parse_frames (length r') r' with
        | Some frames => Some (fs, frames)
        | None => None
        end
      | None => None
      end
  | _ => None
  end.

(* ------------------------------------------------------------------ *)
(* transition system: reader loop (handleConn) || writer goroutine       *)

Definition buf := nat.   (* buffer identity, 0 .. nbuf-1 *)

Record wstate := mkWS {
  ws_input : list bytes;          (* complete frames still to arrive on the socket *)
  ws_spent : list buf;            (* spentFrames channel contents (FIFO) *)
  ws_queue : list buf;            (* writeFrames channel contents (FIFO) *)
  ws_rhand : option (buf * bool); (* buffer held by the reader; true = filled, waiting to be sent *)
  ws_whand : option (buf * bool); (* buffer held by the writer; true = already written to the file *)
  ws_closed : bool;               (* close(writeFrames) happened (reader saw EOF / an error) *)
  ws_done : bool;                 (* writer returned (file closed) *)
  ws_contents : buf -> bytes;     (* what each buffer currently holds *)
  ws_files : list (list bytes);   (* frames of the files closed so far, oldest first *)
  ws_cur : list bytes             (* frames written to the open file *)
}.

Definition ws_init (nbuf : nat) (input : list bytes) : wstate :=
  mkWS input (seq 0 nbuf) [] None None false false (fun _ => []) [] [].

Definition set_contents (c : buf -> bytes) (b : buf) (v : bytes) : buf -> bytes :=
  fun x => if Nat.eqb x b then v else c x.

Inductive wlabel :=
| RTake       (* frame := <-spentFrames *)
| RFill       (* io.ReadFull(reader, frame) succeeded *)
| REof        (* io.ReadFull failed: close(writeFrames); return *)
| RSend       (* writeFrames <- frame *)
| WRecv       (* frame, ok := <-inFrames with ok = true *)
| WWrite      (* writeFrame(builder, frame) *)
| WReturn     (* outFrames <- frame *)
| WRotate     (* <-changeFile: close the file, open the next one *)
| WFinish.    (* inFrames closed and drained: builder.Close(); return *)

(* [cap]: channel capacity (inFlight).  None = the step is not enabled in this state *)
Definition wstep (cap : nat) (s : wstate) (l : wlabel) : option wstate :=
  match l with
  | RTake =>
    match ws_rhand s, ws_spent s, ws_closed s with
    | None, b :: r, false =>
      Some (mkWS (ws_input s) r (ws_queue s) (Some (b, false)) (ws_whand s) false (ws_done s) (ws_contents s) (ws_files s) (ws_cur s))
    | _, _, _ => None
    end
  | RFill =>
    match ws_rhand s, ws_input s with
    | Some (b, false), f :: r =>
      Some (mkWS r (ws_spent s) (ws_queue s) (Some (b, true)) (ws_whand s) (ws_closed s) (ws_done s)
                 (set_contents (ws_contents s) b f) (ws_files s) (ws_cur s))
    | _, _ => None
    end
  | REof =>
    match ws_rhand s, ws_input s, ws_closed s with
    | Some (b, false), [], false =>
      (* a truncated last frame may have clobbered the held buffer; the reader returns still
         holding it: it is never sent *)
      Some (mkWS [] (ws_spent s) (ws_queue s) (Some (b, false)) (ws_whand s) true (ws_done s)
                 (set_contents (ws_contents s) b []) (ws_files s) (ws_cur s))
    | _, _, _ => None
    end
  | RSend =>
    match ws_rhand s with
    | Some (b, true) =>
      if Nat.ltb (length (ws_queue s)) cap then
        Some (mkWS (ws_input s) (ws_spent s) (ws_queue s ++ [b]) None (ws_whand s) (ws_closed s) (ws_done s) (ws_contents s) (ws_files s) (ws_cur s))
      else None
    | _ => None
    end
  | WRecv =>
    match ws_whand s, ws_queue s, ws_done s with
    | None, b :: r, false =>
      Some (mkWS (ws_input s) (ws_spent s) r (ws_rhand s) (Some (b, false)) (ws_closed s) false (ws_contents s) (ws_files s) (ws_cur s))
    | _, _, _ => None
    end
  | WWrite =>
    match ws_whand s with
    | Some (b, false) =>
      Some (mkWS (ws_input s) (ws_spent s) (ws_queue s) (ws_rhand s) (Some (b, true)) (ws_closed s) (ws_done s) (ws_contents s)
                 (ws_files s) (ws_cur s ++ [ws_contents s b]))
    | _ => None
    end
  | WReturn =>
    match ws_whand s with
    | Some (b, true) =>
      if Nat.ltb (length (ws_spent s)) cap then
        Some (mkWS (ws_input s) (ws_spent s ++ [b]) (ws_queue s) (ws_rhand s) None (ws_closed s) (ws_done s) (ws_contents s) (ws_files s) (ws_cur s))
      else None
    | _ => None
    end
  | WRotate =>
    match ws_whand s, ws_done s with
    | None, false =>
      Some (mkWS (ws_input s) (ws_spent s) (ws_queue s) (ws_rhand s) None (ws_closed s) false (ws_contents s) (ws_files s ++ [ws_cur s]) [])
    | _, _ => None
    end
  | WFinish =>
    match ws_whand s, ws_queue s, ws_closed s, ws_done s with
    | None, [], true, false =>
      Some (mkWS (ws_input s) (ws_spent s) [] (ws_rhand s) None true true (ws_contents s) (ws_files s ++ [ws_cur s]) [])
    | _, _, _, _ => None
    end
  end.

(* run a schedule; labels that are not enabled are skipped (so every list is a schedule) *)
Fixpoint wrun (cap : nat) (s : wstate) (sched : list wlabel) : wstate :=
  match sched with
  | [] => s
  | l :: r => match wstep cap s l with
              | Some s' => wrun cap s' r
              | None => wrun cap s r
              end
  end.

Definition all_labels : list wlabel := [RTake; RFill; REof; RSend; WRecv; WWrite; WReturn; WRotate; WFinish].

(* no step other than a (pointless) rotation is enabled *)
Definition quiescent (cap : nat) (s : wstate) : bool :=
  forallb (fun l => match l with
                    | WRotate => true
                    | _ => match wstep cap s l with None => true | Some _ => false end
                    end) all_labels.

(* everything that has reached the files, in order *)
Definition written (s : wstate) : list bytes := concat (ws_files s) ++ ws_cur s.
