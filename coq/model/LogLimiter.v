(* Executable model of loglimiter/loglimiter.go.
   Messages are identified by integers (0 = the empty string, the Go zero value of
   previousEntry); times are nanoseconds since Go's zero time.Time (previousTime's
   zero value), and time.Time.Sub saturates at +-2^63 ns exactly as in Go. *)
From Coq Require Import List ZArith Bool.
Import ListNotations.
Open Scope Z_scope.

Definition min_duration : Z := - 2 ^ 63.
Definition max_duration : Z := 2 ^ 63 - 1.

(* time.Time.Sub *)
Definition sat_sub (a b : Z) : Z := Z.max min_duration (Z.min max_duration (a - b)).

Record lstate := mkL { prev_entry : Z; prev_time : Z }.

Definition linit : lstate := mkL 0 0.

(* LogLimiter.Print(s) with nowFunc() = now; returns the new state and whether log.Print ran *)
Definition lstep (interval : Z) (s : lstate) (mt : Z * Z) : lstate * bool :=
  let (m, now) := mt in
  if (sat_sub now (prev_time s) <? interval) && (m =? prev_entry s)
  then (s, false)
  else (mkL m now, true).

Fixpoint lrun (interval : Z) (s : lstate) (h : list (Z * Z)) : list bool :=
  match h with
  | [] => []
  | mt :: t => let (s', b) := lstep interval s mt in b :: lrun interval s' t
  end.

(* ---- history-based specification (no limiter state) ---- *)

(* the last message actually printed in a history prefix, with the time of that print;
   (0, 0) - the empty message at the zero time - when nothing was printed yet *)
Fixpoint last_printed (acc : Z * Z) (h : list (Z * Z)) (bits : list bool) : Z * Z :=
  match h, bits with
  | mt :: h', b :: bits' => last_printed (if b then mt else acc) h' bits'
  | _, _ => acc
  end.

(* message n of the history must be printed iff it is not an exact repeat of the last
   printed message arriving less than [interval] after that print *)
Definition must_print (interval : Z) (h : list (Z * Z)) (bits : list bool) (n : nat) : bool :=
  match nth_error h n with
  | Some (m, t) =>
    let lp := last_printed (0, 0) (firstn n h) (firstn n bits) in
    negb ((m =? fst lp) && (sat_sub t (snd lp) <? interval))
  | None => true
  end.

Fixpoint all_upto (n : nat) (f : nat -> bool) : bool :=
  match n with O => true | S k => f k && all_upto k f end.

(* the executable spec predicate: evaluated on the model's and on the implementation's bits *)
Definition spec_log (interval : Z) (h : list (Z * Z)) (bits : list bool) : bool :=
  Nat.eqb (length bits) (length h) &&
  all_upto (length h) (fun n => Bool.eqb (nth n bits true) (must_print interval h bits n)).
