(* The outside world of the translated file recorder (coq/translated/FileRecorder.v, from
   cmd/thermal-recorder/cptvfilerecorder.go): strings are tokens into a table of symbolic values
   (literals, the recorder's directory, a temporary name made from a time stamp, a recording's
   path, the motion-configuration text built by Sprintf), the CPTV writer is a token whose calls
   are logged, os.Rename / os.Remove are logged, statfs answers are inputs.

   Assumptions stated here about libraries (not proved): time.Format with the layout
   "20060102.150405.000.cptv.temp" yields a name determined by the time stamp; filepath.Join of the
   directory and that name is the recording's temporary path; the regular expression `(.+)\.temp$`
   replaced by `$1` strips the ".temp" suffix; Sprintf("%striggeredthresh: %d\n", yaml, n) is the
   yaml text followed by that line.  The events logged are mapped to the primitive file
   operations of model/FileRec.v by [fops_of] (cptv.NewFileWriter creates the temporary, the
   scratch file and the temporary again; Close finishes the compressed stream and unlinks the
   scratch file) - that mapping is go-cptv's behaviour as model/FileRec.v records it, checked
   against system-call traces of the real recorder in the C10 stage.  No proofs in this file. *)
From Coq Require Import List ZArith Bool String.
From TR Require Import model.GoSem model.FileRec translated.FileRecorder.
Import ListNotations.
Open Scope Z_scope.

Inductive sval :=
| SLit (s : string)
| SDir (d : fdir)                        (* the recorder's output directory *)
| STemp (ts : Z)                         (* newRecordingTempName() at time stamp ts *)
| SPath (d : fdir) (ts : Z) (e : ext)    (* a recording's file name *)
| SMotion (yaml : Z) (thresh : Z)        (* motion YAML (token) followed by "triggeredthresh: <thresh>\n" *)
| SWriter (name : Z)                     (* a cptv.FileWriter on the file with this name token *)
| SOther.

(* what the recorder does to the outside world, in order *)
Inductive fev :=
| ENew (name : sval)                                   (* cptv.NewFileWriter(name) succeeded *)
| EHeader (w : Z) (motion : sval) (background : Z)     (* writer.WriteHeader: header.MotionConfig, header.BackgroundFrame *)
| EFrame (w : Z) (frame : Z)
| EClose (w : Z)
| ERename (a b : sval)
| ERemove (a : sval)
| EAutoFFC (on : bool)
| EDeleteExcess (dir : sval).

Record fworld := mkFW {
  fw_strs : list sval;        (* token k+1 is the k-th entry *)
  fw_now : Z;                 (* what time.Now() returns (a time stamp) *)
  fw_fail_new : bool;         (* the next cptv.NewFileWriter fails *)
  fw_fail_hdr : bool;         (* the next WriteHeader fails *)
  fw_fail_rename : bool;      (* the next os.Rename fails *)
  fw_pending : Z;             (* second result of the last two-valued call *)
  fw_hdr_motion : Z;          (* header.MotionConfig (token) *)
  fw_hdr_bg : Z;              (* header.BackgroundFrame (frame handle, -1 = nil) *)
  fw_bavail : Z; fw_bsize : Z; fw_statfs_err : bool;   (* statfs answers *)
  fw_log : list fev
}.

Definition sget (w : fworld) (tok : Z) : sval :=
  if tok <=? 0 then SOther else nth (Z.to_nat (tok - 1)) (fw_strs w) SOther.

Definition with_strs (w : fworld) (l : list sval) : fworld :=
  mkFW l (fw_now w) (fw_fail_new w) (fw_fail_hdr w) (fw_fail_rename w) (fw_pending w) (fw_hdr_motion w) (fw_hdr_bg w)
       (fw_bavail w) (fw_bsize w) (fw_statfs_err w) (fw_log w).
Definition alloc (w : fworld) (v : sval) : Z * fworld :=
  (Z.of_nat (List.length (fw_strs w)) + 1, with_strs w (fw_strs w ++ [v])).
Definition logev (w : fworld) (e : fev) : fworld :=
  mkFW (fw_strs w) (fw_now w) (fw_fail_new w) (fw_fail_hdr w) (fw_fail_rename w) (fw_pending w) (fw_hdr_motion w) (fw_hdr_bg w)
       (fw_bavail w) (fw_bsize w) (fw_statfs_err w) (fw_log w ++ [e]).
Definition set_pending (w : fworld) (p : Z) : fworld :=
  mkFW (fw_strs w) (fw_now w) (fw_fail_new w) (fw_fail_hdr w) (fw_fail_rename w) p (fw_hdr_motion w) (fw_hdr_bg w)
       (fw_bavail w) (fw_bsize w) (fw_statfs_err w) (fw_log w).
Definition set_hdr (w : fworld) (m bg : Z) : fworld :=
  mkFW (fw_strs w) (fw_now w) (fw_fail_new w) (fw_fail_hdr w) (fw_fail_rename w) (fw_pending w) m bg
       (fw_bavail w) (fw_bsize w) (fw_statfs_err w) (fw_log w).
Definition clear_faults (w : fworld) (n h r : bool) : fworld :=
  mkFW (fw_strs w) (fw_now w) n h r (fw_pending w) (fw_hdr_motion w) (fw_hdr_bg w)
       (fw_bavail w) (fw_bsize w) (fw_statfs_err w) (fw_log w).

Definition TEMP_LAYOUT : string := "20060102.150405.000.cptv.temp".
Definition THRESH_FORMAT : string := ("%striggeredthresh: %d" ++ nl ++ "")%string.

Definition fext (name : string) (args : list arg) (w : fworld) : Z * fworld :=
  if String.eqb name "str.lit" then
    match args with [AStr s] => alloc w (SLit s) | _ => (0, w) end
  else if String.eqb name "str.concat" then
    match args with
    | [AInt a; AInt b] =>
      match sget w a, sget w b with
      | SLit x, SLit y => alloc w (SLit (String.append x y))
      | _, _ => alloc w SOther
      end
    | _ => (0, w)
    end
  else if String.eqb name "time.Now" then (fw_now w, w)
  else if String.eqb name "obj.Format" then
    match args with
    | [AInt t; AInt layout] =>
      match sget w layout with
      | SLit l => if String.eqb l TEMP_LAYOUT then alloc w (STemp t) else alloc w SOther
      | _ => alloc w SOther
      end
    | _ => (0, w)
    end
  else if String.eqb name "filepath.Join" then
    match args with
    | [AInt d; AInt n] =>
      match sget w d, sget w n with
      | SDir dir, STemp ts => alloc w (SPath dir ts Temp)
      | _, _ => alloc w SOther
      end
    | _ => (0, w)
    end
  else if String.eqb name "path.Join" then
    match args with
    | [AInt d; AInt n] =>
      match sget w d, sget w n with
      | SDir DOut, SLit s => if String.eqb s "/constant-recordings" then alloc w (SDir DConst) else alloc w SOther
      | _, _ => alloc w SOther
      end
    | _ => (0, w)
    end
  else if String.eqb name "reTempName.ReplaceAllString" then
    match args with
    | [AInt n; AInt r] =>
      match sget w n, sget w r with
      | SPath d ts Temp, SLit s => if String.eqb s "$1" then alloc w (SPath d ts Cptv) else alloc w SOther
      | v, _ => alloc w v      (* no match: the string is returned unchanged *)
      end
    | _ => (0, w)
    end
  else if String.eqb name "fmt.Sprintf" then
    match args with
    | [AInt f; AInt yaml; AInt th] =>
      match sget w f with
      | SLit s => if String.eqb s THRESH_FORMAT then alloc w (SMotion yaml th) else alloc w SOther
      | _ => alloc w SOther
      end
    | _ => alloc w SOther
    end
  else if String.eqb name "cptv.NewFileWriter" then
    match args with
    | [AInt n; _] =>
      if fw_fail_new w then (0, set_pending (clear_faults w false (fw_fail_hdr w) (fw_fail_rename w)) 1)
      else let (tok, w1) := alloc (logev w (ENew (sget w n))) (SWriter n) in (tok, set_pending w1 0)
    | _ => (0, set_pending w 1)
    end
  else if String.eqb name "cptv.NewFileWriter#1" then (fw_pending w, w)
  else if String.eqb name "set:CPTVFileRecorder.header.MotionConfig" then
    match args with [AInt m] => (0, set_hdr w m (fw_hdr_bg w)) | _ => (0, w) end
  else if String.eqb name "set:CPTVFileRecorder.header.BackgroundFrame" then
    match args with
    | [AFrame h] => (0, set_hdr w (fw_hdr_motion w) h)
    | _ => (0, set_hdr w (fw_hdr_motion w) (-1))           (* nil *)
    end
  else if String.eqb name "obj.WriteHeader" then
    match args with
    | [AInt wr; _] =>
      if fw_fail_hdr w then (1, clear_faults w (fw_fail_new w) false (fw_fail_rename w))
      else (0, logev w (EHeader wr (sget w (fw_hdr_motion w)) (fw_hdr_bg w)))
    | _ => (1, w)
    end
  else if String.eqb name "obj.WriteFrame" then
    match args with [AInt wr; AFrame f] => (0, logev w (EFrame wr f)) | _ => (1, w) end
  else if String.eqb name "obj.Close" then
    match args with [AInt wr] => (0, logev w (EClose wr)) | _ => (0, w) end
  else if String.eqb name "obj.Name" then
    match args with
    | [AInt wr] => match sget w wr with SWriter n => (n, w) | _ => (0, w) end
    | _ => (0, w)
    end
  else if String.eqb name "os.Rename" then
    match args with
    | [AInt a; AInt b] =>
      if fw_fail_rename w then (1, clear_faults w (fw_fail_new w) (fw_fail_hdr w) false)
      else (0, logev w (ERename (sget w a) (sget w b)))
    | _ => (1, w)
    end
  else if String.eqb name "os.Remove" then
    match args with [AInt a] => (0, logev w (ERemove (sget w a))) | _ => (0, w) end
  else if String.eqb name "leptondController.SetAutoFFC" then
    match args with [ABool b] => (0, logev w (EAutoFFC b)) | _ => (0, w) end
  else if String.eqb name "deleteExcessRecordings" then
    match args with [AInt d] => (0, logev w (EDeleteExcess (sget w d))) | _ => (0, w) end
  else if String.eqb name "syscall.Statfs" then (bool_to_z (fw_statfs_err w), w)
  else if String.eqb name "read:fs.Bavail" then (fw_bavail w, w)
  else if String.eqb name "read:fs.Bsize" then (fw_bsize w, w)
  else (0, w).    (* log.Printf, os.Mkdir *)

(* ---- from logged events to the primitive file operations of model/FileRec.v ---- *)
Definition name_of (v : sval) : option name :=
  match v with SPath d ts e => Some (mkName d ts e) | _ => None end.

(* frames written through writer w, in order *)
Definition frames_of (log : list fev) (wr : Z) : list Z :=
  flat_map (fun e => match e with EFrame w' f => if w' =? wr then [f] else [] | _ => [] end) log.

(* the name a writer token was opened on: the n-th ENew event opened the n-th writer; the handler
   keeps it in the string table, so it is passed in *)
Fixpoint fops_of (w : fworld) (seen : list fev) (log : list fev) : list fop :=
  match log with
  | [] => []
  | e :: r =>
    (match e with
     | ENew (SPath d ts Temp) => [FCreate (mkName d ts Temp); FCreate (mkName d ts TempTmp); FCreate (mkName d ts Temp)]
     | EClose wr =>
       match sget w wr with
       | SWriter n => match sget w n with
                      | SPath d ts Temp => [FFinish (mkName d ts Temp) (frames_of seen wr); FUnlink (mkName d ts TempTmp)]
                      | _ => []
                      end
       | _ => []
       end
     | ERename (SPath d ts e1) (SPath d2 ts2 e2) => [FRename (mkName d ts e1) (mkName d2 ts2 e2)]
     | ERemove (SPath d ts e1) => [FUnlink (mkName d ts e1)]
     | _ => []
     end) ++ fops_of w (seen ++ [e]) r
  end.

(* ---- running the translated recorder on recorder calls ---- *)
Inductive fcall :=
| CStart (ts : Z) (background thresh : Z)     (* StartRecording at clock reading ts *)
| CWrite (frame : Z)
| CStop                                       (* StopRecording *)
| CAbort.                                     (* Stop() *)

Definition YAML_TOK : Z := 1.
Definition DIR_TOK : Z := 2.

(* a recorder on directory d: string table = [motion YAML text; its directory] *)
Definition fr_init (d : fdir) : CPTVFileRecorder :=
  mkCPTVFileRecorder DIR_TOK 0 0 YAML_TOK (match d with DConst => true | DOut => false end).
Definition fworld_init (d : fdir) : fworld :=
  mkFW [SLit "motion-yaml"; SDir d] 0 false false false 0 0 (-1) 0 0 false [].

Definition set_now (w : fworld) (t : Z) : fworld :=
  mkFW (fw_strs w) t (fw_fail_new w) (fw_fail_hdr w) (fw_fail_rename w) (fw_pending w) (fw_hdr_motion w) (fw_hdr_bg w)
       (fw_bavail w) (fw_bsize w) (fw_statfs_err w) (fw_log w).

Definition src_fstep (rw : CPTVFileRecorder * fworld) (c : fcall) : CPTVFileRecorder * fworld :=
  let (r, w) := rw in
  match c with
  | CStart ts bg th =>
    match CPTVFileRecorder_StartRecording fext r bg th (set_now w ts) with
    | Ok (r', _) w' => (r', w') | Panicked w' => (r, w') end
  | CWrite f =>
    match CPTVFileRecorder_WriteFrame fext r f w with
    | Ok (r', _) w' => (r', w') | Panicked w' => (r, w') end
  | CStop =>
    match CPTVFileRecorder_StopRecording fext r w with
    | Ok (r', _) w' => (r', w') | Panicked w' => (r, w') end
  | CAbort =>
    match CPTVFileRecorder_Stop fext r w with
    | Ok (r', _) w' => (r', w') | Panicked w' => (r, w') end
  end.

Definition src_frun (d : fdir) (cs : list fcall) : CPTVFileRecorder * fworld :=
  fold_left src_fstep cs (fr_init d, fworld_init d).

(* the model's calls for a call list: each recording's frames are those written while it was open *)
Fixpoint rcalls_of (d : fdir) (open : option Z) (acc : list Z) (cs : list fcall) : list rcall :=
  match cs with
  | [] => []
  | CStart ts _ _ :: r => RStart d ts :: rcalls_of d (Some ts) [] r
  | CWrite f :: r => rcalls_of d open (acc ++ [f]) r
  | CStop :: r => match open with Some ts => RStop d ts acc :: rcalls_of d None [] r | None => rcalls_of d None [] r end
  | CAbort :: r => match open with Some ts => RAbort d ts acc :: rcalls_of d None [] r | None => rcalls_of d None [] r end
  end.

(* well-formed: Start, writes, Stop/Abort, ...; nothing written or stopped while closed *)
Fixpoint fcalls_wf (open : bool) (cs : list fcall) : bool :=
  match cs with
  | [] => true
  | CStart _ _ _ :: r => negb open && fcalls_wf true r
  | CWrite _ :: r => open && fcalls_wf open r
  | CStop :: r | CAbort :: r => open && fcalls_wf false r
  end.

(* the header each recording was given: (time stamp, motion configuration, background) per WriteHeader *)
Definition headers_of (w : fworld) : list (sval * Z) :=
  flat_map (fun e => match e with EHeader _ m bg => [(m, bg)] | _ => [] end) (fw_log w).
Definition expected_headers (cs : list fcall) : list (sval * Z) :=
  flat_map (fun c => match c with CStart _ bg th => [(SMotion YAML_TOK th, bg)] | _ => [] end) cs.
