(* Executable model of motion/frameloop.go (FrameLoop).
   Mirrors the Go code line by line: same fields, same index arithmetic
   (Go's % on int is truncated remainder = Z.rem), same three-way split in
   getFullHistory, oldest = -1 for NO_OLDEST_SET, initial oldest = 0 (Go zero value).
   No proofs in this file. *)
From Coq Require Import List ZArith Bool.
Import ListNotations.
Open Scope Z_scope.

Set Implicit Arguments.

Section Ring.
  Variable A : Type.

  Record ring := mkRing {
    size : Z;           (* fl.size *)
    cur : Z;            (* fl.currentIndex *)
    full : bool;        (* fl.bufferFull *)
    oldest : Z;         (* fl.oldest, -1 = NO_OLDEST_SET *)
    slots : list A      (* fl.frames (contents) *)
  }.

  Definition NO_OLDEST_SET : Z := -1.

  (* NewFrameLoop(size): all slots hold the blank frame [blank]. *)
  Definition new_ring (sz : Z) (blank : A) : ring :=
    mkRing sz 0 false 0 (repeat blank (Z.to_nat sz)).

  (* fl.Reset() *)
  Definition reset (r : ring) : ring :=
    mkRing (size r) 0 false 0 (slots r).

  (* fl.nextIndexAfter(index) *)
  Definition next_index_after (r : ring) (i : Z) : Z := Z.rem (i + 1) (size r).

  (* fl.Move() (the state change; the returned frame is [current] of the result) *)
  Definition move (r : ring) : ring :=
    let c := next_index_after r (cur r) in
    let f := if c =? 0 then true else full r in
    let o := if c =? oldest r then NO_OLDEST_SET else oldest r in
    mkRing (size r) c f o (slots r).

  Definition zth (d : A) (l : list A) (i : Z) : A := nth (Z.to_nat i) l d.

  Fixpoint upd (l : list A) (n : nat) (v : A) : list A :=
    match l, n with
    | [], _ => []
    | _ :: t, O => v :: t
    | h :: t, S n' => h :: upd t n' v
    end.

  (* fl.Current() *)
  Definition current (d : A) (r : ring) : A := zth d (slots r) (cur r).

  (* writing into the frame returned by Current() (what parseFrame / Copy do) *)
  Definition put (r : ring) (v : A) : ring :=
    mkRing (size r) (cur r) (full r) (oldest r) (upd (slots r) (Z.to_nat (cur r)) v).

  (* fl.CopyRecent(): the slot before the current one *)
  Definition recent_index (r : ring) : Z := Z.rem (cur r - 1 + size r) (size r).
  Definition recent (d : A) (r : ring) : A := zth d (slots r) (recent_index r).

  (* fl.getFullHistory() *)
  Definition get_full_history (r : ring) : list A :=
    if cur r =? size r - 1 then slots r
    else
      let nx := next_index_after r (cur r) in
      if negb (full r) then firstn (Z.to_nat nx) (slots r)
      else skipn (Z.to_nat nx) (slots r) ++ firstn (Z.to_nat nx) (slots r).

  (* fl.GetHistory(); None = the Go slice expression would panic
     (historyLength > len(fullHistory)) *)
  Definition get_history (r : ring) : option (list A) :=
    let fh := get_full_history r in
    if oldest r =? NO_OLDEST_SET then Some fh
    else
      let hl := Z.rem (cur r - oldest r + size r) (size r) + 1 in
      if (hl >? Z.of_nat (length fh)) || (hl <? 0) then None
      else Some (skipn (length fh - Z.to_nat hl) fh).

  (* fl.Oldest() *)
  Definition oldest_slot (d : A) (r : ring) : A :=
    if negb (oldest r =? NO_OLDEST_SET) then zth d (slots r) (oldest r)
    else zth d (slots r) (next_index_after r (cur r)).

  (* fl.SetAsOldest() *)
  Definition set_as_oldest (r : ring) : ring :=
    mkRing (size r) (cur r) (full r) (cur r) (slots r).

End Ring.

Arguments NO_OLDEST_SET : simpl never.

(* Operations of the exported API, for histories. *)
Inductive rop (A : Type) : Type :=
| OPut (v : A)
| OMove
| OMark
| OReset.
Arguments OPut {A} v.
Arguments OMove {A}.
Arguments OMark {A}.
Arguments OReset {A}.

Definition rstep {A} (r : ring A) (o : rop A) : ring A :=
  match o with
  | OPut v => put r v
  | OMove => move r
  | OMark => set_as_oldest r
  | OReset => reset r
  end.

Definition rrun {A} (r : ring A) (ops : list (rop A)) : ring A := fold_left rstep ops r.
