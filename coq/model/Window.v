(* Model of window.Window.Active() for absolute start/end times
   (github.com/TheCacophonyProject/window, window.go): Active = NextEnd().Before(NextStart()),
   nextAbsTime(now, t) = today's t if that is strictly after now, else tomorrow's t.
   Times of day are in nanoseconds since midnight; start/end are minutes since midnight
   (HH:MM).  start = end is window.New's NoWindow (always active, clock never read). *)
From Coq Require Import ZArith Bool.
Open Scope Z_scope.

Record wcfg := mkW { w_start : Z; w_end : Z }.   (* minutes since midnight *)

Definition DAY : Z := 86400000000000.
Definition MINUTE : Z := 60000000000.

Definition no_window (w : wcfg) : bool := w_start w =? w_end w.

(* duration from [tod] to the next occurrence of time-of-day [t] (ns), as nextAbsTime computes it *)
Definition until_next (tod t : Z) : Z :=
  if t >? tod then t - tod else t + DAY - tod.

Definition window_active (w : wcfg) (tod : Z) : bool :=
  if no_window w then true
  else until_next tod (w_end w * MINUTE) <? until_next tod (w_start w * MINUTE).
