(* The outside world of the translated motion detector (coq/translated/MotionDetector.v).

   The translated code leaves the translation for: frame pixels and telemetry (frames are
   handles; their contents live here, indexed by handle), the per-pixel float32 weights, every
   floating-point operation (floats travel through the translated code as integer codes,
   [fenc] / [fdec] below, and are computed here with the standard library's SpecFloat, exactly
   as the hand-written model model/Detector.v does), the debug tracker and logging (no-ops: the
   debug tracker is nil unless verbose logging is configured).

   [src_drun] runs the translated Detect / Reset on the event lists of the hand-written model.
   No proofs in this file. *)
From Coq Require Import List ZArith Bool String.
From Coq Require Import Floats.SpecFloat.
From TR Require Import model.GoSem model.Ring model.Detector translated.FrameLoop translated.MotionDetector.
Import ListNotations.
Open Scope Z_scope.

(* ---- floats as integer codes (injective on the floats that occur: |exponent| < 2048) ---- *)
Definition fenc (f : spec_float) : Z :=
  match f with
  | S754_zero s => if s then 1 else 0
  | S754_infinity s => if s then 3 else 2
  | S754_nan => 4
  | S754_finite s m e => 8 + (if s then 1 else 0) + 2 * ((e + 2048) + 4096 * Zpos m)
  end.

Definition fdec (z : Z) : spec_float :=
  if z =? 0 then S754_zero false else if z =? 1 then S754_zero true
  else if z =? 2 then S754_infinity false else if z =? 3 then S754_infinity true
  else if z <? 8 then S754_nan
  else
    let s := Z.odd (z - 8) in
    let k := (z - 8) / 2 in
    match k / 4096 with
    | Zpos m => S754_finite s m (k mod 4096 - 2048)
    | _ => S754_nan
    end.

Definition f32_max_float : f32 := S754_finite false 16777215 104.   (* math.MaxFloat32 *)

Definition f32_lit (s : string) : f32 :=
  if String.eqb s "0.1" then f32_tenth
  else if String.eqb s "math.MaxFloat32" then f32_max_float
  else f32_zero.                                                  (* "0" *)

(* ---- frames and weights ---- *)
Record dworld := mkDW {
  dw_frames : list frame;          (* by handle *)
  dw_wts : list (list f32)
}.

Definition dframe (w : dworld) (h : Z) : frame := nth (Z.to_nat h) (dw_frames w) (mkF [] 0 0).

Fixpoint lupd {A} (l : list A) (n : nat) (v : A) : list A :=
  match l, n with
  | [], _ => []
  | _ :: t, O => v :: t
  | a :: t, S k => a :: lupd t k v
  end.

Definition gset (g : grid) (y x : nat) (v : Z) : grid := lupd g y (lupd (nth y g []) x v).
Definition wset (g : list (list f32)) (y x : nat) (v : f32) : list (list f32) := lupd g y (lupd (nth y g []) x v).

Definition set_frame (w : dworld) (h : Z) (f : frame) : dworld :=
  mkDW (lupd (dw_frames w) (Z.to_nat h) f) (dw_wts w).

Definition set_pix (w : dworld) (h : Z) (g : grid) : dworld :=
  let f := dframe w h in set_frame w h (mkF g (f_timeon f) (f_lastffc f)).

(* copy(dst[dlo:dhi], src[slo:shi]) on rows; a bound of -1 is the end of the row *)
Definition copy_row (dst src : list Z) (dlo dhi slo shi : Z) : list Z :=
  let dhi' := if dhi <? 0 then Z.of_nat (List.length dst) else dhi in
  let shi' := if shi <? 0 then Z.of_nat (List.length src) else shi in
  let n := Nat.min (Z.to_nat (dhi' - dlo)) (Z.to_nat (shi' - slo)) in
  firstn (Z.to_nat dlo) dst ++ firstn n (skipn (Z.to_nat slo) src) ++ skipn (Z.to_nat dlo + n) dst.

Definition dext (name : string) (args : list arg) (w : dworld) : Z * dworld :=
  match args with
  | [AFrame h; AInt y; AInt x] =>
    if String.eqb name "Frame.Pix.get" then (gget (f_pix (dframe w h)) (Z.to_nat y) (Z.to_nat x), w) else (0, w)
  | [AFrame h; AInt y; AInt x; AInt v] =>
    if String.eqb name "Frame.Pix.set" then (0, set_pix w h (gset (f_pix (dframe w h)) (Z.to_nat y) (Z.to_nat x) v)) else (0, w)
  | [AFrame dh; AInt dy; AInt dlo; AInt dhi; AFrame sh; AInt sy; AInt slo; AInt shi] =>
    if String.eqb name "Frame.Pix.copyrow" then
      let drow := nth (Z.to_nat dy) (f_pix (dframe w dh)) [] in
      let srow := nth (Z.to_nat sy) (f_pix (dframe w sh)) [] in
      (0, set_pix w dh (lupd (f_pix (dframe w dh)) (Z.to_nat dy) (copy_row drow srow dlo dhi slo shi)))
    else (0, w)
  | [AFrame a; AFrame b] =>
    if String.eqb name "Frame.Copy" then (0, set_frame w a (dframe w b)) else (0, w)   (* a.Copy(b) *)
  | [AFrame h] =>
    if String.eqb name "Frame.Status.TimeOn" then (f_timeon (dframe w h), w)
    else if String.eqb name "Frame.Status.LastFFCTime" then (f_lastffc (dframe w h), w)
    else (0, w)
  | [AInt a; AInt b] =>
    if String.eqb name "f32.sub" then (fenc (f32_sub (fdec a) (fdec b)), w)
    else if String.eqb name "f32.add" then (fenc (f32_add (fdec a) (fdec b)), w)
    else if String.eqb name "f32.lt" then (bool_to_z (SFltb (fdec a) (fdec b)), w)
    else if String.eqb name "f32.gt" then (bool_to_z (SFltb (fdec b) (fdec a)), w)
    else if String.eqb name "f64.add" then (fenc (f64_add (fdec a) (fdec b)), w)
    else if String.eqb name "f64.div" then (fenc (f64_div (fdec a) (fdec b)), w)
    else if String.eqb name "math.Max" then (fenc (f64_max (fdec a) (fdec b)), w)
    else if String.eqb name "math.Min" then (fenc (f64_min (fdec a) (fdec b)), w)
    else if String.eqb name "motionDetector.backgroundWeight.get" then
      (fenc (wget (dw_wts w) (Z.to_nat a) (Z.to_nat b)), w)
    else (0, w)
  | [AInt y; AInt x; AInt v] =>
    if String.eqb name "motionDetector.backgroundWeight.set" then
      (0, mkDW (dw_frames w) (wset (dw_wts w) (Z.to_nat y) (Z.to_nat x) (fdec v)))
    else (0, w)
  | [AInt a] =>
    if String.eqb name "f64.of_int" then (fenc (f64_of_Z a), w)
    else if String.eqb name "f32.of_int" then (fenc (f32_of_Z a), w)
    else if String.eqb name "f64.to_uint16" then (f64_trunc (fdec a), w)
    else (0, w)
  | [AStr s] =>
    if String.eqb name "f32.lit" then (fenc (f32_lit s), w)
    else if String.eqb name "f64.lit" then (fenc f64_zero, w)
    else (0, w)
  | _ => (0, w)   (* nonnil:motionDetector.debug = nil; debug.update / reset, log.Print, mutex: nothing *)
  end.

(* ---- NewMotionDetector for the configuration c ---- *)
Definition hrange (lo n : Z) : list Z := map (fun k => lo + Z.of_nat k) (seq 0 (Z.to_nat n)).

Definition H_BG (c : dcfg) : Z := d_gap c + 3.      (* handle of the background frame *)
Definition H_IN (c : dcfg) : Z := d_gap c + 4.      (* handle of the frame handed to Detect *)

Definition md_init (c : dcfg) : motionDetector :=
  let e := Z.of_nat (d_edge c) in
  let rs := Z.of_nat (d_h c) - e in
  let cs := Z.of_nat (d_w c) - e in
  mkmotionDetector
    (mkFrameLoop (d_gap c + 1) 0 (hrange 0 (d_gap c + 1)) (repeat (-1) (Z.to_nat (d_gap c + 1))) false 0)
    (mkFrameLoop 2 0 (hrange (d_gap c + 1) 2) [-1; -1] false 0)
    false (d_dynamic c) (d_one c) (d_thresh0 c) (d_tmax c) (d_tmin c) (d_delta c) (d_count c) (d_warmer c)
    e rs cs 0 (H_BG c) 0 (d_preview c)
    (fenc (f64_of_Z ((rs - e) * (cs - e)))) false 9.

Definition dw_init (c : dcfg) : dworld :=
  mkDW (repeat (blank_frame c) (Z.to_nat (d_gap c + 5)))
       (map (fun _ => map (fun _ => f32_zero) (seq 0 (d_w c))) (seq 0 (d_h c))).

Fixpoint src_drun_from (c : dcfg) (dw : motionDetector * dworld) (evs : list dev) : list (bool * Z) :=
  match evs with
  | [] => []
  | DFrame f :: t =>
    let (d, w) := dw in
    match motionDetector_Detect dext d (H_IN c) (set_frame w (H_IN c) f) with
    | Ok (d', m) w' => (m, motionDetector_tempThresh d') :: src_drun_from c (d', w') t
    | Panicked w' => [(false, -99)]
    end
  | DReset :: t =>
    let (d, w) := dw in
    match motionDetector_Reset dext d w with
    | Ok (d', _) w' => (false, motionDetector_tempThresh d') :: src_drun_from c (d', w') t
    | Panicked w' => [(false, -99)]
    end
  end.

Definition src_drun (c : dcfg) (evs : list dev) : list (bool * Z) :=
  src_drun_from c (md_init c, dw_init c) evs.

(* the background and weights the translated detector ends with *)
Fixpoint src_dfinal_from (c : dcfg) (dw : motionDetector * dworld) (evs : list dev) : motionDetector * dworld :=
  match evs with
  | [] => dw
  | DFrame f :: t =>
    let (d, w) := dw in
    match motionDetector_Detect dext d (H_IN c) (set_frame w (H_IN c) f) with
    | Ok (d', _) w' => src_dfinal_from c (d', w') t
    | Panicked w' => (d, w')
    end
  | DReset :: t =>
    let (d, w) := dw in
    match motionDetector_Reset dext d w with
    | Ok (d', _) w' => src_dfinal_from c (d', w') t
    | Panicked w' => (d, w')
    end
  end.

(* per event: verdict, detector and world afterwards (the run stops at a panic) *)
Fixpoint src_dtrace_from (c : dcfg) (dw : motionDetector * dworld) (evs : list dev) : list (bool * motionDetector * dworld) :=
  match evs with
  | [] => []
  | DFrame f :: t =>
    let (d, w) := dw in
    match motionDetector_Detect dext d (H_IN c) (set_frame w (H_IN c) f) with
    | Ok (d', m) w' => (m, d', w') :: src_dtrace_from c (d', w') t
    | Panicked w' => []
    end
  | DReset :: t =>
    let (d, w) := dw in
    match motionDetector_Reset dext d w with
    | Ok (d', _) w' => (false, d', w') :: src_dtrace_from c (d', w') t
    | Panicked w' => []
    end
  end.

Definition src_dtrace (c : dcfg) (evs : list dev) := src_dtrace_from c (md_init c, dw_init c) evs.
