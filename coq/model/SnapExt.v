(* The outside world of the translated D-Bus request path (coq/translated/Snapshot.v, from
   cmd/thermal-recorder/snapshot.go - newSnapshot, newSnapshotRecording - and the three methods
   TakeSnapshot, TakeTestRecording, CameraInfo of cmd/thermal-recorder/service.go).

   Everything these functions touch lives here:
     - the clock: a script of readings consumed by time.Since (time.Time and time.Duration are
       nanoseconds; a time.Time is counted from Go's ZERO time, January 1 of year 1, so that the
       zero value of the package variable previousSnapshotTime is 0; time.Since(t) is
       time.Now().Sub(t), saturating as in package time: GoSem.go_time_sub);
     - the package variables: previousSnapshotTime, processor (nil, or an object with
       CurrentFrame - a uint32, read modulo 2^32 whatever the field of this record holds -, a recent
       frame: the handle GetRecentFrame returns, -1 = nil, and the StartSnapshot flag), headerInfo
       (nil, or the eight values of a camera header);
     - Status.FrameCount of frames, by handle (an association list; a frame never written reads 0);
     - the mutex `mu` of snapshot.go: Lock / Unlock are entries of the log, as is EVERY access to the
       state above (a log of what was touched, in order), so that "between one Lock and one Unlock"
       is a statement about the log.  A field access or method call through a nil processor /
       headerInfo - a nil dereference in Go, which external calls cannot express as a panic in
       GoSem's monad - is logged as [ENilDeref] and answers 0;
     - values made on the way (errors of errors.New with their message, strings, []interface{}
       literals, *dbus.Error and map literals) in a table, by token (token k+1 is the k-th entry, 0
       is nil), the second result of the last two-valued call in [sw_pending].

   Assumptions stated here about what is not translated: errors.New never returns nil and
   e.Error() is the message it was made from; processor.GetRecentFrame() is
   (CurrentFrame, recent frame) - motion/motionprocessor.go, itself translated in
   translated/MotionProcessor.v, where the recent frame is FrameLoop.CopyRecent()'s copy
   (proofs/TieRing.v: tie_CopyRecent; restated next to the theorems in proofs/TieSnap.v);
   the accessors of *headers.HeaderInfo return its fields (proved of the translated accessors in
   proofs/TieHdr.v); the eight key constants of headers/headers.go are the strings below (compared
   with coq/Extracted.v's header_keys_read in proofs/TieSnap.v).  No proofs in this file. *)
From Coq Require Import String List ZArith Bool.
From TR Require Import model.GoSem translated.Snapshot.
Import ListNotations.
Open Scope Z_scope.

(* ---- the objects ---- *)
Record procobj := mkProc {
  po_cur : Z;          (* CurrentFrame (uint32: read as po_cur mod 2^32) *)
  po_recent : Z;       (* what GetRecentFrame hands out: a frame handle, -1 = nil *)
  po_start : bool      (* StartSnapshot *)
}.

Record hinfo := mkHI {
  hi_resx : Z; hi_resy : Z; hi_fs : Z; hi_fps : Z; hi_serial : Z;
  hi_model : string; hi_brand : string; hi_firmware : string
}.

(* ---- values made by the code, by token ---- *)
Inductive sval :=
| VErr (msg : string)             (* errors.New(msg) *)
| VStr (s : string)
| VList (items : list Z)          (* []interface{}{...} *)
| VDbusErr (name : string) (body : Z)   (* &dbus.Error{Name: name, Body: body}; body 0 = nil *)
| VMap (kvs : list (Z * Z))       (* map[string]interface{}{k: v, ...}: key tokens, values as passed *)
| VBad.                           (* a literal of an unexpected shape *)

(* ---- the log ---- *)
Inductive svar := SPrevTime | SProcessor | SCurrentFrame | SRecentFrame | SStartSnapshot | SHeaderInfo.

Inductive sev :=
| ELock                      (* mu.Lock() *)
| EUnlock                    (* mu.Unlock() *)
| ERead (v : svar)
| EWrite (v : svar)
| EFrameRead (h : Z)         (* Status.FrameCount of frame h read *)
| EFrameWrite (h : Z) (n : Z)
| EClock (now : Z)           (* a clock reading consumed *)
| ELogLine (s : string)      (* log.Println *)
| ENilDeref                  (* a field / method of a nil processor or headerInfo: Go panics here *)
| EUnknown (name : string).  (* a call this handler has no clause for *)

Record sworld := mkSW {
  sw_clock : list Z;           (* coming clock readings (exhausted: 0) *)
  sw_prev : Z;                 (* previousSnapshotTime *)
  sw_proc : option procobj;    (* processor *)
  sw_hdr : option hinfo;       (* headerInfo *)
  sw_fc : list (Z * Z);        (* (handle, Status.FrameCount), latest first *)
  sw_vals : list sval;
  sw_pending : Z;
  sw_log : list sev
}.

Definition slog (w : sworld) (e : sev) : sworld :=
  mkSW (sw_clock w) (sw_prev w) (sw_proc w) (sw_hdr w) (sw_fc w) (sw_vals w) (sw_pending w) (sw_log w ++ [e]).
Definition sset_clock (w : sworld) (c : list Z) : sworld :=
  mkSW c (sw_prev w) (sw_proc w) (sw_hdr w) (sw_fc w) (sw_vals w) (sw_pending w) (sw_log w).
Definition sset_proc (w : sworld) (p : option procobj) : sworld :=
  mkSW (sw_clock w) (sw_prev w) p (sw_hdr w) (sw_fc w) (sw_vals w) (sw_pending w) (sw_log w).
Definition sset_fc (w : sworld) (l : list (Z * Z)) : sworld :=
  mkSW (sw_clock w) (sw_prev w) (sw_proc w) (sw_hdr w) l (sw_vals w) (sw_pending w) (sw_log w).
Definition sset_pending (w : sworld) (p : Z) : sworld :=
  mkSW (sw_clock w) (sw_prev w) (sw_proc w) (sw_hdr w) (sw_fc w) (sw_vals w) p (sw_log w).
Definition salloc (w : sworld) (v : sval) : sworld :=
  mkSW (sw_clock w) (sw_prev w) (sw_proc w) (sw_hdr w) (sw_fc w) (sw_vals w ++ [v]) (sw_pending w) (sw_log w).

(* the value table *)
Definition svget (w : sworld) (t : Z) : sval := if t <=? 0 then VBad else nth (Z.to_nat (t - 1)) (sw_vals w) VBad.
Definition svnext (w : sworld) : Z := Z.of_nat (List.length (sw_vals w)) + 1.

(* Status.FrameCount by handle *)
Fixpoint fc_get (l : list (Z * Z)) (h : Z) : Z :=
  match l with
  | [] => 0
  | (k, v) :: r => if k =? h then v else fc_get r h
  end.

Definition PROC_TOK : Z := 1.    (* the value of a non-nil `processor` *)
Definition HDR_TOK : Z := 1.     (* the value of a non-nil `headerInfo` *)
Definition NIL_FRAME : Z := -1.

Definition cur32 (p : procobj) : Z := wrap_u 32 (po_cur p).

(* ---- the calls ---- *)
Definition do_since (args : list arg) (w : sworld) : Z * sworld :=
  match args with
  | [AInt t] =>
    let now := hd 0 (sw_clock w) in
    (go_time_sub now t, slog (sset_clock w (tl (sw_clock w))) (EClock now))
  | _ => (0, w)
  end.

Definition do_errors_new (args : list arg) (w : sworld) : Z * sworld :=
  match args with
  | [AStr m] => (svnext w, salloc w (VErr m))
  | _ => (svnext w, salloc w VBad)
  end.

Definition do_error_text (args : list arg) (w : sworld) : Z * sworld :=
  match args with
  | [AInt e] => match svget w e with
                | VErr m => (svnext w, salloc w (VStr m))
                | _ => (svnext w, salloc w VBad)
                end
  | _ => (svnext w, salloc w VBad)
  end.

Fixpoint ints_of (args : list arg) : option (list Z) :=
  match args with
  | [] => Some []
  | AInt z :: r => match ints_of r with Some l => Some (z :: l) | None => None end
  | _ => None
  end.

Fixpoint pairs_of (l : list Z) : option (list (Z * Z)) :=
  match l with
  | [] => Some []
  | k :: v :: r => match pairs_of r with Some p => Some ((k, v) :: p) | None => None end
  | _ => None
  end.

Definition do_list_lit (args : list arg) (w : sworld) : Z * sworld :=
  match ints_of args with
  | Some l => (svnext w, salloc w (VList l))
  | None => (svnext w, salloc w VBad)
  end.

Definition do_map_lit (args : list arg) (w : sworld) : Z * sworld :=
  match ints_of args with
  | Some l => match pairs_of l with
              | Some p => (svnext w, salloc w (VMap p))
              | None => (svnext w, salloc w VBad)
              end
  | None => (svnext w, salloc w VBad)
  end.

Definition do_dbus_lit (args : list arg) (w : sworld) : Z * sworld :=
  match args with
  | [ASym f1; AStr name; ASym f2; body] =>
    if String.eqb f1 "Name" && String.eqb f2 "Body" then
      match body with
      | AInt b => (svnext w, salloc w (VDbusErr name b))
      | ASym s => if String.eqb s "nil" then (svnext w, salloc w (VDbusErr name 0)) else (svnext w, salloc w VBad)
      | _ => (svnext w, salloc w VBad)
      end
    else (svnext w, salloc w VBad)
  | _ => (svnext w, salloc w VBad)
  end.

(* processor.CurrentFrame *)
Definition do_read_cur (w : sworld) : Z * sworld :=
  match sw_proc w with
  | Some p => (cur32 p, slog w (ERead SCurrentFrame))
  | None => (0, slog w ENilDeref)
  end.

(* processor.GetRecentFrame(): (CurrentFrame, the recent frame) *)
Definition do_recent (w : sworld) : Z * sworld :=
  match sw_proc w with
  | Some p => (cur32 p, sset_pending (slog (slog w (ERead SCurrentFrame)) (ERead SRecentFrame)) (po_recent p))
  | None => (0, sset_pending (slog w ENilDeref) NIL_FRAME)
  end.

(* processor.StartSnapshot = v *)
Definition do_set_start (args : list arg) (w : sworld) : Z * sworld :=
  match args with
  | [ABool b] =>
    match sw_proc w with
    | Some p => (0, slog (sset_proc w (Some (mkProc (po_cur p) (po_recent p) b))) (EWrite SStartSnapshot))
    | None => (0, slog w ENilDeref)
    end
  | _ => (0, w)
  end.

Definition do_fc_read (args : list arg) (w : sworld) : Z * sworld :=
  match args with
  | [AFrame h] => (fc_get (sw_fc w) h, slog w (EFrameRead h))
  | _ => (0, w)
  end.

Definition do_fc_write (args : list arg) (w : sworld) : Z * sworld :=
  match args with
  | [AFrame h; AInt n] => (0, slog (sset_fc w ((h, n) :: sw_fc w)) (EFrameWrite h n))
  | _ => (0, w)
  end.

Definition do_hdr_int (f : hinfo -> Z) (w : sworld) : Z * sworld :=
  match sw_hdr w with
  | Some h => (f h, slog w (ERead SHeaderInfo))
  | None => (0, slog w ENilDeref)
  end.

Definition do_hdr_str (f : hinfo -> string) (w : sworld) : Z * sworld :=
  match sw_hdr w with
  | Some h => (svnext w, slog (salloc w (VStr (f h))) (ERead SHeaderInfo))
  | None => (0, slog w ENilDeref)
  end.

Definition do_key (s : string) (w : sworld) : Z * sworld := (svnext w, salloc w (VStr s)).

Definition do_println (args : list arg) (w : sworld) : Z * sworld :=
  match args with
  | [AStr s] => (0, slog w (ELogLine s))
  | _ => (0, w)
  end.

(* headers/headers.go *)
Definition KEY_XRES : string := "ResX".
Definition KEY_YRES : string := "ResY".
Definition KEY_FRAMESIZE : string := "FrameSize".
Definition KEY_MODEL : string := "Model".
Definition KEY_BRAND : string := "Brand".
Definition KEY_FPS : string := "FPS".
Definition KEY_SERIAL : string := "CameraSerial".
Definition KEY_FIRMWARE : string := "Firmware".

Definition sext (name : string) (args : list arg) (w : sworld) : Z * sworld :=
  if String.eqb name "mu.Lock" then (0, slog w ELock)
  else if String.eqb name "mu.Unlock" then (0, slog w EUnlock)
  else if String.eqb name "read:previousSnapshotTime" then (sw_prev w, slog w (ERead SPrevTime))
  else if String.eqb name "time.Since" then do_since args w
  else if String.eqb name "read:processor" then
    (match sw_proc w with Some _ => PROC_TOK | None => 0 end, slog w (ERead SProcessor))
  else if String.eqb name "read:processor.CurrentFrame" then do_read_cur w
  else if String.eqb name "processor.GetRecentFrame" then do_recent w
  else if String.eqb name "processor.GetRecentFrame#1" then (sw_pending w, w)
  else if String.eqb name "set:processor.StartSnapshot" then do_set_start args w
  else if String.eqb name "Frame.Status.FrameCount" then do_fc_read args w
  else if String.eqb name "Frame.Status.set.FrameCount" then do_fc_write args w
  else if String.eqb name "errors.New" then do_errors_new args w
  else if String.eqb name "error.Error" then do_error_text args w
  else if String.eqb name "log.Println" then do_println args w
  else if String.eqb name "lit:[]interface{}" then do_list_lit args w
  else if String.eqb name "lit:dbus.Error" then do_dbus_lit args w
  else if String.eqb name "lit:map[string]interface{}" then do_map_lit args w
  else if String.eqb name "read:headerInfo" then
    (match sw_hdr w with Some _ => HDR_TOK | None => 0 end, slog w (ERead SHeaderInfo))
  else if String.eqb name "headerInfo.ResX" then do_hdr_int hi_resx w
  else if String.eqb name "headerInfo.ResY" then do_hdr_int hi_resy w
  else if String.eqb name "headerInfo.FrameSize" then do_hdr_int hi_fs w
  else if String.eqb name "headerInfo.FPS" then do_hdr_int hi_fps w
  else if String.eqb name "headerInfo.CameraSerial" then do_hdr_int hi_serial w
  else if String.eqb name "headerInfo.Model" then do_hdr_str hi_model w
  else if String.eqb name "headerInfo.Brand" then do_hdr_str hi_brand w
  else if String.eqb name "headerInfo.Firmware" then do_hdr_str hi_firmware w
  else if String.eqb name "ref:headers.XResolution" then do_key KEY_XRES w
  else if String.eqb name "ref:headers.YResolution" then do_key KEY_YRES w
  else if String.eqb name "ref:headers.FrameSize" then do_key KEY_FRAMESIZE w
  else if String.eqb name "ref:headers.Model" then do_key KEY_MODEL w
  else if String.eqb name "ref:headers.Brand" then do_key KEY_BRAND w
  else if String.eqb name "ref:headers.FPS" then do_key KEY_FPS w
  else if String.eqb name "ref:headers.Serial" then do_key KEY_SERIAL w
  else if String.eqb name "ref:headers.Firmware" then do_key KEY_FIRMWARE w
  else (0, slog w (EUnknown name)).   (* a name this handler does not know: never silently accepted *)

(* every name under which the translated unit leaves the translation has a clause above *)
Definition sext_names : list string :=
  ["Frame.Status.FrameCount"; "Frame.Status.set.FrameCount"; "error.Error"; "errors.New"; "headerInfo.Brand";
   "headerInfo.CameraSerial"; "headerInfo.FPS"; "headerInfo.Firmware"; "headerInfo.FrameSize"; "headerInfo.Model";
   "headerInfo.ResX"; "headerInfo.ResY"; "lit:[]interface{}"; "lit:dbus.Error"; "lit:map[string]interface{}";
   "log.Println"; "mu.Lock"; "mu.Unlock"; "processor.GetRecentFrame"; "processor.GetRecentFrame#1"; "read:headerInfo";
   "read:previousSnapshotTime"; "read:processor"; "read:processor.CurrentFrame"; "ref:headers.Brand"; "ref:headers.FPS";
   "ref:headers.Firmware"; "ref:headers.FrameSize"; "ref:headers.Model"; "ref:headers.Serial"; "ref:headers.XResolution";
   "ref:headers.YResolution"; "set:processor.StartSnapshot"; "time.Since"]%string.

(* ---- what the theorems read off the world ---- *)

(* what was added to the log *)
Definition log_since (w w' : sworld) : list sev := skipn (List.length (sw_log w)) (sw_log w').

Definition is_lock (e : sev) : bool := match e with ELock | EUnlock => true | _ => false end.
Definition is_nilderef (e : sev) : bool := match e with ENilDeref | EUnknown _ => true | _ => false end.
(* an access to state other goroutines can see *)
Definition is_shared (e : sev) : bool :=
  match e with ERead _ | EWrite _ => true | _ => false end.

(* the locking discipline of one request: Lock first, Unlock last, no other mutex operation and no
   nil dereference (or call without a stated meaning) in between - so every access to shared state lies inside the one critical section *)
Definition disciplined (l : list sev) : bool :=
  match l with
  | ELock :: r =>
    match rev r with
    | EUnlock :: m => forallb (fun e => negb (is_lock e) && negb (is_nilderef e)) m
    | _ => false
    end
  | _ => false
  end.

(* a dbus.Error token decoded: its name and the messages in its body *)
Definition str_of (w : sworld) (t : Z) : option string := match svget w t with VStr s => Some s | _ => None end.
Fixpoint strs_of (w : sworld) (l : list Z) : option (list string) :=
  match l with
  | [] => Some []
  | t :: r => match str_of w t, strs_of w r with Some s, Some ss => Some (s :: ss) | _, _ => None end
  end.
Definition dbus_of (w : sworld) (t : Z) : option (string * option (list string)) :=
  match svget w t with
  | VDbusErr name 0 => Some (name, None)
  | VDbusErr name b => match svget w b with
                       | VList items => match strs_of w items with Some ss => Some (name, Some ss) | None => None end
                       | _ => None
                       end
  | _ => None
  end.
Definition err_msg (w : sworld) (e : Z) : option string := match svget w e with VErr m => Some m | _ => None end.

(* ---- running the translated entry points ---- *)
Definition src_newSnapshot (lastFrame : Z) (w : sworld) := Snapshot_fn_newSnapshot sext lastFrame w.
Definition src_newSnapshotRecording (w : sworld) := Snapshot_fn_newSnapshotRecording sext w.
Definition src_TakeSnapshot (lastFrame : Z) (w : sworld) := service_TakeSnapshot sext lastFrame w.
Definition src_TakeTestRecording (w : sworld) := service_TakeTestRecording sext w.
Definition src_CameraInfo (w : sworld) := service_CameraInfo sext w.
