(* The outside world of the translated configuration mapping
     coq/translated/ConfMotion.v    motion/motionconfig.go        NewConfig, validateConfig
     coq/translated/ConfRecorder.v  recorder/recorderconfig.go    NewConfig, RecorderConfig.validate
     coq/translated/ConfThrottle.v  throttle/config.go            NewConfig
     coq/translated/Config.v        cmd/thermal-recorder/config.go ParseConfig, Config.LoadMotionConfig
   i.e. the go-config library (config.New, Config.Unmarshal, the Default... functions, the section keys),
   window.New and errors.New, as far as this code uses them.

   THE FILE.  A configuration file is a function from section to an optional set of keys ([cfile]):
   [None] = the file has no such section; a section is a function from the Go field a key decodes to
   ("MinSecs" for min-secs, the mapstructure tags of go-config: [toml_key]) to an optional value
   ([None] = the section does not have the key).  Values are integers: an int is itself, a bool is 0 / 1,
   a duration its nanoseconds, a string / float / time a code the translated code only hands on.

   THE LIBRARY'S DEFAULTS are parameters ([clib]): one struct of values per section, and for the motion
   section one per camera model ([d_motion], a function of the model string's token).  The library's
   numbers are not the point; every theorem is for every [clib].  [win_err] is window.New's verdict on
   its four arguments (0 = accepted).

   OBJECTS live in a heap indexed by tokens (fresh tokens count upwards from [w_next]; 0 is nil / the zero
   value).  goconfig.New(dir) takes the next entry of [w_reads] - an error, or the file as it is on disk
   AT THAT MOMENT (the file may change between ParseConfig and a later LoadMotionConfig) - and returns a
   *config.Config that holds that content.  A Default...() / `var x T` is a fresh section struct holding
   the defaults / zeros.  conf.Unmarshal(key, &section) takes the next entry of the fault script
   [w_faults] (non-zero = this section fails to decode: that error is returned, the struct is left alone -
   what mapstructure leaves in it is never read by this code; exhausted = decodes) and otherwise OVERRIDES
   the struct with the keys present in the file's section of that key ([override]): an absent section or
   key keeps what the struct held.  A key that does not belong to the struct's section type is logged as
   [EBad] (the library would silently decode nothing).  x.F on a section struct is its field F;
   float64(x.F) keeps the code (the float32 is widened exactly).  window.New logs its arguments.
   Every call is logged; a call the handler has no meaning for is logged as [EBad name] - the theorems
   state the complete log, so no such call occurs.

   Import aliases: the library is called `config` in motion/, recorder/, throttle/ and `goconfig` in
   cmd/thermal-recorder; both spellings are understood.
   No proofs in this file. *)
From Coq Require Import String List ZArith Bool.
From TR Require Import model.GoSem translated.ConfMotion translated.ConfRecorder translated.ConfThrottle translated.Config.
Import ListNotations.
Open Scope Z_scope.

(* ---- sections ---- *)
Inductive sect := SRecorder | SMotion | SThrottler | SLocation | SWindows | SLepton | SDevice.

Definition sect_eqb (a b : sect) : bool :=
  match a, b with
  | SRecorder, SRecorder | SMotion, SMotion | SThrottler, SThrottler | SLocation, SLocation
  | SWindows, SWindows | SLepton, SLepton | SDevice, SDevice => true
  | _, _ => false
  end.

(* the text of the section keys (go-config: ThermalRecorderKey, ...) - documentation, and used by the examples *)
Definition sect_name (s : sect) : string :=
  match s with
  | SRecorder => "thermal-recorder" | SMotion => "thermal-motion" | SThrottler => "thermal-throttler"
  | SLocation => "location" | SWindows => "windows" | SLepton => "lepton" | SDevice => "device"
  end.

(* config.<X>Key as a value handed to Unmarshal *)
Definition key_code (s : sect) : Z :=
  match s with
  | SRecorder => 1 | SMotion => 2 | SThrottler => 3 | SLocation => 4 | SWindows => 5 | SLepton => 6 | SDevice => 7
  end.
Definition sect_of_code (z : Z) : option sect :=
  if z =? 1 then Some SRecorder else if z =? 2 then Some SMotion else if z =? 3 then Some SThrottler
  else if z =? 4 then Some SLocation else if z =? 5 then Some SWindows else if z =? 6 then Some SLepton
  else if z =? 7 then Some SDevice else None.

(* the key of config.toml that decodes into a Go field (mapstructure tags of go-config v1.6.4; a field
   without a tag is matched by its name, case-insensitively) - documentation only *)
Definition toml_key (s : sect) (field : string) : string :=
  match s with
  | SRecorder =>
    if String.eqb field "OutputDir" then "output-dir" else if String.eqb field "MinDiskSpaceMB" then "min-disk-space-mb"
    else if String.eqb field "MinSecs" then "min-secs" else if String.eqb field "MaxSecs" then "max-secs"
    else if String.eqb field "PreviewSecs" then "preview-secs" else if String.eqb field "ConstantRecorder" then "constant-recorder"
    else field
  | SMotion =>
    if String.eqb field "DynamicThreshold" then "dynamic-threshold" else if String.eqb field "TempThreshMin" then "temp-thresh-min"
    else if String.eqb field "TempThreshMax" then "temp-thresh-max" else if String.eqb field "TempThresh" then "temp-thresh"
    else if String.eqb field "DeltaThresh" then "delta-thresh" else if String.eqb field "CountThresh" then "count-thresh"
    else if String.eqb field "FrameCompareGap" then "frame-compare-gap" else if String.eqb field "UseOneDiffOnly" then "use-one-diff-only"
    else if String.eqb field "TriggerFrames" then "trigger-frames" else if String.eqb field "WarmerOnly" then "warmer-only"
    else if String.eqb field "EdgePixels" then "edge-pixels" else if String.eqb field "Verbose" then "verbose" else field
  | SThrottler =>
    if String.eqb field "BucketSize" then "bucket-size" else if String.eqb field "MinRefill" then "min-refill"
    else if String.eqb field "Activate" then "activate" else field
  | SWindows =>
    if String.eqb field "StartRecording" then "start-recording" else if String.eqb field "StopRecording" then "stop-recording"
    else if String.eqb field "PowerOn" then "power-on" else if String.eqb field "PowerOff" then "power-off" else field
  | SLepton =>
    if String.eqb field "SPISpeed" then "spi-speed" else if String.eqb field "FrameOutput" then "frame-output" else field
  | SLocation | SDevice => field
  end.

(* ---- the file, the structs ---- *)
Definition fields := string -> Z.             (* a section struct of the library: Go field -> value *)
Definition fkeys := string -> option Z.       (* the keys one section of the file holds *)
Definition cfile := sect -> option fkeys.     (* the file: None = no such section *)

Definition zero_fields : fields := fun _ => 0.

(* unmarshalling: the keys that are present replace what the struct held *)
Definition override (d : fields) (s : option fkeys) : fields :=
  fun k => match s with
           | Some p => match p k with Some v => v | None => d k end
           | None => d k
           end.

(* ---- the library: defaults and window.New's verdict (parameters of everything) ---- *)
Record clib := mkLib {
  d_recorder : fields;          (* config.DefaultThermalRecorder() *)
  d_motion : Z -> fields;       (* config.DefaultThermalMotion(cameraModel) *)
  d_throttler : fields;         (* config.DefaultThermalThrottler() *)
  d_winloc : fields;            (* config.DefaultWindowLocation() *)
  d_windows : fields;           (* config.DefaultWindows() *)
  d_lepton : fields;            (* config.DefaultLepton() *)
  win_err : Z -> Z -> Z -> Z -> Z   (* window.New(start, stop, latitude, longitude): 0 = nil *)
}.

(* ---- objects, events, the world ---- *)
Inductive obj :=
| ONone
| OConf (f : cfile)                   (* a *config.Config and the file content it read *)
| OSect (s : sect) (v : fields)       (* a section struct *)
| OWindow (start stop lat lon : Z)    (* a *window.Window *)
| OStr (s : string)
| OErr (text : Z).                    (* errors.New(text) *)

Inductive cev :=
| ENew (dir tok err : Z)                           (* goconfig.New(dir) *)
| EUnmarshal (conf : Z) (s : sect) (target err : Z) (* conf.Unmarshal(key of s, &target) *)
| EWindowNew (start stop lat lon tok err : Z)
| EBad (name : string).

Record cworld := mkW {
  w_reads : list (Z + cfile);   (* what the coming goconfig.New calls find: an error, or the file as it is then *)
  w_faults : list Z;            (* the coming Unmarshal calls: non-zero = the section fails to decode with that error *)
  w_next : Z;                   (* next fresh token *)
  w_heap : Z -> obj;
  w_pending : Z;                (* second result of the last two-valued call *)
  w_log : list cev
}.

Definition logev (w : cworld) (e : cev) : cworld :=
  mkW (w_reads w) (w_faults w) (w_next w) (w_heap w) (w_pending w) (w_log w ++ [e]).
Definition set_pending (w : cworld) (p : Z) : cworld :=
  mkW (w_reads w) (w_faults w) (w_next w) (w_heap w) p (w_log w).
Definition set_reads (w : cworld) (r : list (Z + cfile)) : cworld :=
  mkW r (w_faults w) (w_next w) (w_heap w) (w_pending w) (w_log w).
Definition set_faults (w : cworld) (f : list Z) : cworld :=
  mkW (w_reads w) f (w_next w) (w_heap w) (w_pending w) (w_log w).
(* a fresh object: its token is [w_next w] *)
Definition alloc (w : cworld) (o : obj) : cworld :=
  mkW (w_reads w) (w_faults w) (w_next w + 1) (fun t => if t =? w_next w then o else w_heap w t) (w_pending w) (w_log w).
Definition hset (w : cworld) (tok : Z) (o : obj) : cworld :=
  mkW (w_reads w) (w_faults w) (w_next w) (fun t => if t =? tok then o else w_heap w t) (w_pending w) (w_log w).

(* the value of field k of the struct behind a token (0 when it is not a section struct) *)
Definition field_of (w : cworld) (tok : Z) (k : string) : Z :=
  match w_heap w tok with OSect _ v => v k | _ => 0 end.

Section Conf.
Variable L : clib.

(* ---- the calls ---- *)
Definition ERR_NOFILE : Z := 1.
(* an error is never nil: a 0 in the script of reads stands for ERR_NOFILE *)
Definition new_err (e : Z) : Z := if e =? 0 then ERR_NOFILE else e.

Definition do_new (args : list arg) (w : cworld) : Z * cworld :=
  match args with
  | [AInt dir] =>
    match w_reads w with
    | inr f :: rest =>
      (w_next w, logev (set_pending (set_reads (alloc w (OConf f)) rest) 0) (ENew dir (w_next w) 0))
    | inl e :: rest => (0, logev (set_pending (set_reads w rest) (new_err e)) (ENew dir 0 (new_err e)))
    | [] => (0, logev (set_pending w ERR_NOFILE) (ENew dir 0 ERR_NOFILE))
    end
  | _ => (0, logev w (EBad "goconfig.New"))
  end.

Definition do_default (s : sect) (v : fields) (w : cworld) : Z * cworld :=
  (w_next w, alloc w (OSect s v)).

Definition do_default_motion (args : list arg) (w : cworld) : Z * cworld :=
  match args with
  | [AInt model] => do_default SMotion (d_motion L model) w
  | _ => (0, logev w (EBad "config.DefaultThermalMotion"))
  end.

Definition do_unmarshal (args : list arg) (w : cworld) : Z * cworld :=
  match args with
  | [AInt c; AInt key; AInt target] =>
    match w_heap w c, sect_of_code key, w_heap w target with
    | OConf f, Some s, OSect s' v =>
      if sect_eqb s s' then
        let e := hd 0 (w_faults w) in
        let w1 := logev (set_faults w (tl (w_faults w))) (EUnmarshal c s target e) in
        if e =? 0 then (0, hset w1 target (OSect s (override v (f s)))) else (e, w1)
      else (0, logev w (EBad "obj.Unmarshal"))
    | _, _, _ => (0, logev w (EBad "obj.Unmarshal"))
    end
  | _ => (0, logev w (EBad "obj.Unmarshal"))
  end.

Definition do_field (k : string) (args : list arg) (w : cworld) : Z * cworld :=
  match args with
  | [AInt t] =>
    match w_heap w t with
    | OSect _ v => (v k, w)
    | _ => (0, logev w (EBad ("field:" ++ k)))
    end
  | _ => (0, logev w (EBad ("field:" ++ k)))
  end.

Definition do_window (args : list arg) (w : cworld) : Z * cworld :=
  match args with
  | [AInt s; AInt e; AInt lat; AInt lon] =>
    let err := win_err L s e lat lon in
    if err =? 0 then
      (w_next w, logev (set_pending (alloc w (OWindow s e lat lon)) 0) (EWindowNew s e lat lon (w_next w) 0))
    else (0, logev (set_pending w err) (EWindowNew s e lat lon 0 err))
  | _ => (0, logev w (EBad "window.New"))
  end.

Definition do_lit (args : list arg) (w : cworld) : Z * cworld :=
  match args with
  | [AStr s] => (w_next w, alloc w (OStr s))
  | _ => (0, logev w (EBad "str.lit"))
  end.

Definition do_errnew (args : list arg) (w : cworld) : Z * cworld :=
  match args with
  | [AInt t] => (w_next w, alloc w (OErr t))
  | _ => (0, logev w (EBad "errors.New"))
  end.

(* "field:<F>" *)
Definition field_name (name : string) : option string :=
  if String.prefix "field:" name then Some (String.substring 6 (String.length name - 6) name) else None.

(* the library's package is `config` or `goconfig` *)
Definition lib2 (pre suffix name : string) : bool :=
  String.eqb name (pre ++ "config." ++ suffix) || String.eqb name (pre ++ "goconfig." ++ suffix).
Definition lib := lib2 "".
Definition libref := lib2 "ref:".

Definition cext (name : string) (args : list arg) (w : cworld) : Z * cworld :=
  if lib "New" name then do_new args w
  else if lib "New#1" name then (w_pending w, w)
  else if String.eqb name "obj.Unmarshal" then do_unmarshal args w
  else if lib "DefaultThermalMotion" name then do_default_motion args w
  else if lib "DefaultThermalRecorder" name then do_default SRecorder (d_recorder L) w
  else if lib "DefaultThermalThrottler" name then do_default SThrottler (d_throttler L) w
  else if lib "DefaultWindowLocation" name then do_default SLocation (d_winloc L) w
  else if lib "DefaultWindows" name then do_default SWindows (d_windows L) w
  else if lib "DefaultLepton" name then do_default SLepton (d_lepton L) w
  else if String.eqb name "zero:goconfig.Location" then do_default SLocation zero_fields w
  else if String.eqb name "zero:goconfig.Device" then do_default SDevice zero_fields w
  else if libref "ThermalRecorderKey" name then (key_code SRecorder, w)
  else if libref "ThermalMotionKey" name then (key_code SMotion, w)
  else if libref "ThermalThrottlerKey" name then (key_code SThrottler, w)
  else if libref "LocationKey" name then (key_code SLocation, w)
  else if libref "WindowsKey" name then (key_code SWindows, w)
  else if libref "LeptonKey" name then (key_code SLepton, w)
  else if libref "DeviceKey" name then (key_code SDevice, w)
  else if String.eqb name "conv:float64" then
    match args with [AInt v] => (v, w) | _ => (0, logev w (EBad name)) end
  else if String.eqb name "window.New" then do_window args w
  else if String.eqb name "window.New#1" then (w_pending w, w)
  else if String.eqb name "str.lit" then do_lit args w
  else if String.eqb name "errors.New" then do_errnew args w
  else match field_name name with
       | Some k => do_field k args w
       | None => (0, logev w (EBad name))
       end.

(* ---- running the translated code ---- *)
Definition src_parse (dir : Z) (w : cworld) : outcome cworld (Config * Z) :=
  Config_fn_ParseConfig cext dir w.
Definition src_load (c : Config) (model : Z) (w : cworld) : outcome cworld (Config * Z) :=
  Config_LoadMotionConfig cext c model w.

End Conf.

(* the zero values the error paths return *)
Definition ZERO_RC : RecorderConfig := mkRecorderConfig 0 0 0 0 false.
Definition ZERO_CONFIG : Config := mkConfig 0 0 0 0 0 0 ZERO_RC 0 0 0 false.

(* a world in which nothing has been allocated yet *)
Definition w_init (reads : list (Z + cfile)) (faults : list Z) : cworld :=
  mkW reads faults 1 (fun _ => ONone) 0 [].

(* the sections an event log shows to have been unmarshalled, in order *)
Definition sections_read (log : list cev) : list sect :=
  flat_map (fun e => match e with EUnmarshal _ s _ _ => [s] | _ => [] end) log.
Definition bad_calls (log : list cev) : list string :=
  flat_map (fun e => match e with EBad n => [n] | _ => [] end) log.
