(* The outside world of the translated file object of thermal-writer (coq/translated/BufferedFile.v,
   from cmd/thermal-writer/bufferedfile.go: newBufferedFile, bufferedFile.Write, bufferedFile.Close).

   The translated code decides the ORDER of the calls and the error handling (os.Create, then
   bufio.NewWriterSize(f, 32 MiB); Write hands the slice to the bufio.Writer; Close flushes and -
   only when the flush succeeded - closes the file).  What it asks of the outside world, with the
   meaning given here, is the life of ONE file object:
     - os.Create(name): the file is created empty (token 1), or - [bw_create_fail] - nothing is
       created and an error is returned (second result "os.Create#1");
     - bufio.NewWriterSize(f, size): a writer (token 2) on that file with an empty buffer of
       [size] bytes and no sticky error;
     - os.File.Write, reached only through the bufio.Writer: all or nothing - the bytes are
       appended to the file, or, when the head of the fault script [bw_faults] says so (or the
       file has been closed), nothing is appended and an error is returned.  Partial writes of
       the operating system are NOT modelled;
     - bufio.Writer.Write(p) and Flush(): the standard library's bufio.go, read by hand
       (closed form of its loop, [bufio_write] below): a sticky error short-circuits; p is copied
       into the buffer when it fits; a p larger than the free space goes to the file directly
       when the buffer is empty, otherwise the buffer is filled, flushed, and the rest is
       buffered (or written directly when larger than the whole buffer); after a failed file
       write the error is sticky and the bytes taken so far stay in the buffer;
     - os.File.Close: marks the file closed; fails (after closing) when [bw_close_fail];
     - []byte values of the outside world are tokens into [bw_bytes].
   A call that is none of these, or that names another token, or comes at the wrong stage, sets
   [bw_bad]: the tie theorems state that it stays false.
   No proofs in this file. *)
From Coq Require Import List ZArith Bool String.
From TR Require Import model.GoSem model.Writer translated.BufferedFile.
Import ListNotations.
Open Scope Z_scope.

Record bworld := mkBW {
  bw_bytes : list bytes;     (* []byte values, by token *)
  bw_stage : Z;              (* 0: nothing yet; 1: file created; 2: writer made *)
  bw_disk : bytes;           (* what the file holds *)
  bw_closed : bool;
  bw_buf : bytes;            (* the bufio.Writer: buffered bytes, *)
  bw_size : Z;               (*   buffer size, *)
  bw_err : Z;                (*   sticky error (0: none) *)
  bw_faults : list bool;     (* does the next write of the file fail? then the one after it? ... (none left: no) *)
  bw_create_fail : bool;
  bw_close_fail : bool;
  bw_pending : Z;            (* second result of the last two-valued call *)
  bw_bad : bool              (* a call outside the stated interface was made *)
}.

Definition F_TOK : Z := 1.
Definition W_TOK : Z := 2.
Definition BUF_SIZE : Z := 33554432.   (* 32 * 1024 * 1024 *)

Definition bchunk (w : bworld) (t : Z) : bytes := nth (Z.to_nat t) (bw_bytes w) [].
Definition blen (b : bytes) : Z := Z.of_nat (List.length b).

Definition set_stage (w : bworld) (s : Z) : bworld :=
  mkBW (bw_bytes w) s (bw_disk w) (bw_closed w) (bw_buf w) (bw_size w) (bw_err w) (bw_faults w) (bw_create_fail w) (bw_close_fail w) (bw_pending w) (bw_bad w).
Definition set_disk (w : bworld) (d : bytes) : bworld :=
  mkBW (bw_bytes w) (bw_stage w) d (bw_closed w) (bw_buf w) (bw_size w) (bw_err w) (bw_faults w) (bw_create_fail w) (bw_close_fail w) (bw_pending w) (bw_bad w).
Definition set_closed (w : bworld) (c : bool) : bworld :=
  mkBW (bw_bytes w) (bw_stage w) (bw_disk w) c (bw_buf w) (bw_size w) (bw_err w) (bw_faults w) (bw_create_fail w) (bw_close_fail w) (bw_pending w) (bw_bad w).
Definition set_buf (w : bworld) (b : bytes) : bworld :=
  mkBW (bw_bytes w) (bw_stage w) (bw_disk w) (bw_closed w) b (bw_size w) (bw_err w) (bw_faults w) (bw_create_fail w) (bw_close_fail w) (bw_pending w) (bw_bad w).
Definition set_size (w : bworld) (s : Z) : bworld :=
  mkBW (bw_bytes w) (bw_stage w) (bw_disk w) (bw_closed w) (bw_buf w) s (bw_err w) (bw_faults w) (bw_create_fail w) (bw_close_fail w) (bw_pending w) (bw_bad w).
Definition set_err (w : bworld) (e : Z) : bworld :=
  mkBW (bw_bytes w) (bw_stage w) (bw_disk w) (bw_closed w) (bw_buf w) (bw_size w) e (bw_faults w) (bw_create_fail w) (bw_close_fail w) (bw_pending w) (bw_bad w).
Definition set_faults (w : bworld) (f : list bool) : bworld :=
  mkBW (bw_bytes w) (bw_stage w) (bw_disk w) (bw_closed w) (bw_buf w) (bw_size w) (bw_err w) f (bw_create_fail w) (bw_close_fail w) (bw_pending w) (bw_bad w).
Definition set_pending (w : bworld) (p : Z) : bworld :=
  mkBW (bw_bytes w) (bw_stage w) (bw_disk w) (bw_closed w) (bw_buf w) (bw_size w) (bw_err w) (bw_faults w) (bw_create_fail w) (bw_close_fail w) p (bw_bad w).
Definition set_bad (w : bworld) : bworld :=
  mkBW (bw_bytes w) (bw_stage w) (bw_disk w) (bw_closed w) (bw_buf w) (bw_size w) (bw_err w) (bw_faults w) (bw_create_fail w) (bw_close_fail w) (bw_pending w) true.

(* os.File.Write: all or nothing *)
Definition file_write (w : bworld) (b : bytes) : Z * bworld :=
  let w1 := set_faults w (tl (bw_faults w)) in
  if hd false (bw_faults w) || bw_closed w then (1, w1) else (0, set_disk w1 (bw_disk w ++ b)).

(* bufio.Writer.Write: (bytes taken, error, world) *)
Definition bufio_write (w : bworld) (p : bytes) : Z * Z * bworld :=
  if negb (bw_err w =? 0) then (0, bw_err w, w)
  else
    let avail := bw_size w - blen (bw_buf w) in
    if blen p <=? avail then (blen p, 0, set_buf w (bw_buf w ++ p))
    else if blen (bw_buf w) =? 0 then
      let (e, w1) := file_write w p in
      if e =? 0 then (blen p, 0, w1) else (0, e, set_err w1 e)
    else
      let n := Z.to_nat avail in
      let full := bw_buf w ++ firstn n p in
      let rest := skipn n p in
      let (e, w1) := file_write w full in
      if negb (e =? 0) then (avail, e, set_err (set_buf w1 full) e)
      else if blen rest <=? bw_size w then (blen p, 0, set_buf w1 rest)
      else
        let (e2, w2) := file_write (set_buf w1 []) rest in
        if e2 =? 0 then (blen p, 0, w2) else (avail, e2, set_err w2 e2).

(* bufio.Writer.Flush *)
Definition bufio_flush (w : bworld) : Z * bworld :=
  if negb (bw_err w =? 0) then (bw_err w, w)
  else if blen (bw_buf w) =? 0 then (0, w)
  else
    let (e, w1) := file_write w (bw_buf w) in
    if e =? 0 then (0, set_buf w1 []) else (e, set_err w1 e).

Definition bext (name : string) (args : list arg) (w : bworld) : Z * bworld :=
  match args with
  | [] =>
    if String.eqb name "os.Create#1" then (bw_pending w, w)
    else if String.eqb name "obj.Write#1" then (bw_pending w, w)
    else (0, set_bad w)
  | [AInt t] =>
    if String.eqb name "os.Create" then
      if negb (bw_stage w =? 0) then (0, set_bad w)
      else if bw_create_fail w then (0, set_pending w 1)
      else (F_TOK, set_pending (set_closed (set_disk (set_stage w 1) []) false) 0)
    else if String.eqb name "obj.Flush" then
      if (bw_stage w =? 2) && (t =? W_TOK) then bufio_flush w else (0, set_bad w)
    else if String.eqb name "obj.Close" then
      if (1 <=? bw_stage w) && (t =? F_TOK) then
        (if bw_close_fail w then 1 else 0, set_closed w true)
      else (0, set_bad w)
    else (0, set_bad w)
  | [AInt a; AInt b] =>
    if String.eqb name "bufio.NewWriterSize" then
      if (bw_stage w =? 1) && (a =? F_TOK) then
        (W_TOK, set_err (set_size (set_buf (set_stage w 2) []) b) 0)
      else (0, set_bad w)
    else if String.eqb name "obj.Write" then
      if (bw_stage w =? 2) && (a =? W_TOK) then
        let '(n, e, w') := bufio_write w (bchunk w b) in (n, set_pending w' e)
      else (0, set_bad w)
    else (0, set_bad w)
  | _ => (0, set_bad w)
  end.

(* ---- the abstract view: an io.WriteCloser as model/RawExt.v sees it ---- *)
(* the bytes the file object has accepted: on disk, or still in the buffer *)
Definition accepted (w : bworld) : bytes := bw_disk w ++ bw_buf w.

(* a world in which nothing has happened yet *)
Definition bw_init (chunks : list bytes) (faults : list bool) (create_fail close_fail : bool) : bworld :=
  mkBW chunks 0 [] false [] 0 0 faults create_fail close_fail 0 false.

(* Write of the chunks with the given tokens, stopping at the first error *)
Fixpoint src_buf_writes (bf : bufferedFile) (toks : list Z) (w : bworld) : outcome bworld Z :=
  match toks with
  | [] => Ok 0 w
  | t :: r =>
    match bufferedFile_Write bext bf t w with
    | Ok (_, (_, e)) w' => if e =? 0 then src_buf_writes bf r w' else Ok e w'
    | Panicked w' => Panicked w'
    end
  end.

(* the life of a file: newBufferedFile, Write of every chunk (until the first error), and - when
   all of them succeeded - Close *)
Definition src_buf_file (name : Z) (chunks : list bytes) (faults : list bool) (create_fail close_fail : bool) : outcome bworld Z :=
  match BufferedFile_fn_newBufferedFile bext name (bw_init chunks faults create_fail close_fail) with
  | Ok (bf, e) w' =>
    if e =? 0 then
      match src_buf_writes bf (map Z.of_nat (seq 0 (List.length chunks))) w' with
      | Ok e2 w2 =>
        if e2 =? 0 then
          match bufferedFile_Close bext bf w2 with
          | Ok (_, e3) w3 => Ok e3 w3
          | Panicked w3 => Panicked w3
          end
        else Ok e2 w2
      | Panicked w2 => Panicked w2
      end
    else Ok e w'
  | Panicked w' => Panicked w'
  end.
