(* The outside world of the translated start-up sequence and accept loop of the recorder daemon
   (coq/translated/MainLoop.v: the TAIL of runMain in cmd/thermal-recorder/main.go, from its call of
   startService on).

   Everything that code touches is a call that leaves it; this file states what each call means:
     - startService(conf.OutputDir), host.Init(), deleteTempFiles(conf.OutputDir): each answers from the
       world (mw_start / mw_host / mw_clean: None = nil, Some p = the error p) and is an entry of the LOG;
       deleteTempFiles itself is translated and tied in its own unit (translated/FileCleanup.v,
       proofs/TieClean.v: its argument is the output directory) - here it is the call and its result;
     - go snapshotRecordingTriggers(conf.Recorder.Window): the goroutine is SPAWNED (an entry of the log);
       what it does is not part of runMain;
     - the socket path conf.FrameInput as a file (mw_sock): None = no such file, Some l = the file is bound
       to listener l (Some 0: a stale file left by an earlier process).  os.Remove(conf.FrameInput) removes
       it (its error is ignored by the code; a listener that was bound to it stays open but can no longer
       be reached); net.Listen("unix", conf.FrameInput) fails with EADDRINUSE while the file exists,
       otherwise it answers from the script; Close() of a listener unlinks the file it created (Go's
       UnixListener does, for listeners made by Listen);
     - the SCRIPT of the loop (mw_its): per iteration, either Accept fails with an error, or a camera
       connects and handleConn returns r (ANY value, nil included); when the script is used up, net.Listen
       fails with mw_fin - a failing Listen is the only way the loop ends, so a finite script ends with one.
       net.Listen succeeds iff the script is not used up (and the path is free); Accept pops a failing
       entry, handleConn pops a serving entry;
     - listeners and connections are fresh tokens (mw_next); mw_open lists the listeners not yet closed
       (latest first), mw_acc is the accepted connection handleConn has not been given yet.  Accept on
       something that is not an open listener, Close of something that is not an open listener, a second
       Accept before the connection was handled, handleConn of anything but the accepted connection or
       against the script: logged as [MBad] - as is EVERY call this handler has no clause for, and every
       known call with other arguments than the ones stated here (never a silent no-op);
     - handleConn is translated and tied in its own unit (translated/ConnLoop.v, proofs/TieConn.v); here its
       log entry records WHICH listener a second camera could have connected to while it ran
       ([MHandle c r reach]: reach = the socket file's listener at that moment);
     - the arguments conf.OutputDir, conf.FrameInput, conf.Recorder.Window reach the calls as source text (the
       translation does not evaluate fields of the configuration), or - when the code reads the field into a local
       variable first - as the token "read:conf.<Field>" answers; both forms are accepted, nothing else is;
     - log.Print / log.Printf / log.Println: inert (named here; their arguments are not looked at);
     - the second result of the last two-valued call in mw_pend.
   No proofs in this file. *)
From Coq Require Import String List ZArith Bool.
From TR Require Import model.GoSem translated.MainLoop.
Import ListNotations.
Open Scope Z_scope.

(* one round of the loop, as the outside world decides it *)
Inductive iter :=
| ItAcceptFail (e : positive)   (* Listen succeeds, Accept fails with the error e *)
| ItServe (r : Z).              (* Listen and Accept succeed, handleConn returns r *)

Inductive mev :=
| MStart                               (* startService(conf.OutputDir) *)
| MHost                                (* host.Init() *)
| MClean                               (* deleteTempFiles(conf.OutputDir) *)
| MSpawn                               (* go snapshotRecordingTriggers(conf.Recorder.Window) *)
| MRemove                              (* os.Remove(conf.FrameInput) *)
| MListen (l : Z)                      (* net.Listen succeeded: listener l *)
| MListenFail (e : Z)
| MAccept (l c : Z)                    (* l.Accept() succeeded: connection c *)
| MAcceptFail (l e : Z)
| MClose (l : Z)                       (* l.Close() *)
| MHandle (c r : Z) (reach : option Z) (* handleConn(c, conf) = r; reach: the listener bound to the socket path meanwhile *)
| MBad (name : string).                (* a call without a stated meaning *)

Record mworld := mkMW {
  mw_start : option positive;
  mw_host : option positive;
  mw_clean : option positive;
  mw_its : list iter;
  mw_fin : positive;
  mw_sock : option Z;
  mw_open : list Z;
  mw_acc : option Z;
  mw_next : Z;
  mw_pend : Z;
  mw_log : list mev
}.

Definition err_of (o : option positive) : Z := match o with None => 0 | Some p => Zpos p end.

Definition EADDRINUSE : Z := 98.

Definition mlog (w : mworld) (e : mev) : mworld :=
  mkMW (mw_start w) (mw_host w) (mw_clean w) (mw_its w) (mw_fin w) (mw_sock w) (mw_open w) (mw_acc w) (mw_next w) (mw_pend w)
       (mw_log w ++ [e]).
Definition mset_pend (w : mworld) (p : Z) : mworld :=
  mkMW (mw_start w) (mw_host w) (mw_clean w) (mw_its w) (mw_fin w) (mw_sock w) (mw_open w) (mw_acc w) (mw_next w) p (mw_log w).
Definition mset_sock (w : mworld) (s : option Z) : mworld :=
  mkMW (mw_start w) (mw_host w) (mw_clean w) (mw_its w) (mw_fin w) s (mw_open w) (mw_acc w) (mw_next w) (mw_pend w) (mw_log w).
Definition mset_its (w : mworld) (s : list iter) : mworld :=
  mkMW (mw_start w) (mw_host w) (mw_clean w) s (mw_fin w) (mw_sock w) (mw_open w) (mw_acc w) (mw_next w) (mw_pend w) (mw_log w).
Definition mset_open (w : mworld) (o : list Z) : mworld :=
  mkMW (mw_start w) (mw_host w) (mw_clean w) (mw_its w) (mw_fin w) (mw_sock w) o (mw_acc w) (mw_next w) (mw_pend w) (mw_log w).
Definition mset_acc (w : mworld) (a : option Z) : mworld :=
  mkMW (mw_start w) (mw_host w) (mw_clean w) (mw_its w) (mw_fin w) (mw_sock w) (mw_open w) a (mw_next w) (mw_pend w) (mw_log w).
Definition mset_next (w : mworld) (n : Z) : mworld :=
  mkMW (mw_start w) (mw_host w) (mw_clean w) (mw_its w) (mw_fin w) (mw_sock w) (mw_open w) (mw_acc w) n (mw_pend w) (mw_log w).

Definition mbad (name : string) (w : mworld) : Z * mworld := (0, mlog w (MBad name)).

Definition is_open (w : mworld) (l : Z) : bool := existsb (Z.eqb l) (mw_open w).
Fixpoint remove_z (l : Z) (xs : list Z) : list Z :=
  match xs with
  | [] => []
  | x :: r => if x =? l then remove_z l r else x :: remove_z l r
  end.
Definition opt_is (o : option Z) (l : Z) : bool := match o with Some x => x =? l | None => false end.

(* the source texts of the arguments the translation hands over unevaluated *)
Definition SYM_OUTDIR : string := "conf.OutputDir".
Definition SYM_INPUT : string := "conf.FrameInput".
Definition SYM_WINDOW : string := "conf.Recorder.Window".
Definition SYM_CONF : string := "conf".
(* ... and the values the same fields have when the code reads them into a local variable first
   (`path := conf.FrameInput`): "read:conf.<Field>" answers the token, and the calls below accept either form *)
Definition TOK_OUTDIR : Z := -1.
Definition TOK_INPUT : Z := -2.
Definition TOK_WINDOW : Z := -3.
Definition arg_is (sym : string) (tok : Z) (a : arg) : bool :=
  match a with
  | ASym s => String.eqb s sym
  | AInt t => t =? tok
  | _ => false
  end.

Definition do_start (name : string) (args : list arg) (w : mworld) : Z * mworld :=
  match args with
  | [a] => if arg_is SYM_OUTDIR TOK_OUTDIR a then (err_of (mw_start w), mlog w MStart) else mbad name w
  | _ => mbad name w
  end.

Definition do_host (name : string) (args : list arg) (w : mworld) : Z * mworld :=
  match args with
  | [] => (0, mset_pend (mlog w MHost) (err_of (mw_host w)))
  | _ => mbad name w
  end.

Definition do_clean (name : string) (args : list arg) (w : mworld) : Z * mworld :=
  match args with
  | [a] => if arg_is SYM_OUTDIR TOK_OUTDIR a then (err_of (mw_clean w), mlog w MClean) else mbad name w
  | _ => mbad name w
  end.

Definition do_spawn (name : string) (args : list arg) (w : mworld) : Z * mworld :=
  match args with
  | [a] => if arg_is SYM_WINDOW TOK_WINDOW a then (0, mlog w MSpawn) else mbad name w
  | _ => mbad name w
  end.

Definition do_remove (name : string) (args : list arg) (w : mworld) : Z * mworld :=
  match args with
  | [a] => if arg_is SYM_INPUT TOK_INPUT a then (0, mlog (mset_sock w None) MRemove) else mbad name w
  | _ => mbad name w
  end.

Definition do_listen (name : string) (args : list arg) (w : mworld) : Z * mworld :=
  match args with
  | [AStr net; a] =>
    if String.eqb net "unix" && arg_is SYM_INPUT TOK_INPUT a then
      match mw_sock w with
      | Some _ => (0, mset_pend (mlog w (MListenFail EADDRINUSE)) EADDRINUSE)
      | None =>
        match mw_its w with
        | [] => (0, mset_pend (mlog w (MListenFail (Zpos (mw_fin w)))) (Zpos (mw_fin w)))
        | _ :: _ =>
          let l := mw_next w in
          (l, mset_pend (mlog (mset_next (mset_open (mset_sock w (Some l)) (l :: mw_open w)) (l + 1)) (MListen l)) 0)
        end
      end
    else mbad name w
  | _ => mbad name w
  end.

Definition do_accept (name : string) (args : list arg) (w : mworld) : Z * mworld :=
  match args with
  | [AInt l] =>
    if is_open w l then
      match mw_acc w, mw_its w with
      | None, ItAcceptFail e :: r => (0, mset_pend (mlog (mset_its w r) (MAcceptFail l (Zpos e))) (Zpos e))
      | None, ItServe _ :: _ =>
        let c := mw_next w in
        (c, mset_pend (mlog (mset_next (mset_acc w (Some c)) (c + 1)) (MAccept l c)) 0)
      | _, _ => mbad name w
      end
    else mbad name w
  | _ => mbad name w
  end.

Definition do_close (name : string) (args : list arg) (w : mworld) : Z * mworld :=
  match args with
  | [AInt l] =>
    if is_open w l then
      (0, mlog (mset_open (mset_sock w (if opt_is (mw_sock w) l then None else mw_sock w)) (remove_z l (mw_open w))) (MClose l))
    else mbad name w
  | _ => mbad name w
  end.

Definition do_handle (name : string) (args : list arg) (w : mworld) : Z * mworld :=
  match args with
  | [AInt c; ASym s] =>
    if String.eqb s SYM_CONF && opt_is (mw_acc w) c then
      match mw_its w with
      | ItServe r :: rest => (r, mlog (mset_acc (mset_its w rest) None) (MHandle c r (mw_sock w)))
      | _ => mbad name w
      end
    else mbad name w
  | _ => mbad name w
  end.

Definition mext (name : string) (args : list arg) (w : mworld) : Z * mworld :=
  if String.eqb name "startService" then do_start name args w
  else if String.eqb name "host.Init" then do_host name args w
  else if String.eqb name "host.Init#1" then (mw_pend w, w)
  else if String.eqb name "deleteTempFiles" then do_clean name args w
  else if String.eqb name "go:snapshotRecordingTriggers" then do_spawn name args w
  else if String.eqb name "os.Remove" then do_remove name args w
  else if String.eqb name "net.Listen" then do_listen name args w
  else if String.eqb name "net.Listen#1" then (mw_pend w, w)
  else if String.eqb name "obj.Accept" then do_accept name args w
  else if String.eqb name "obj.Accept#1" then (mw_pend w, w)
  else if String.eqb name "obj.Close" then do_close name args w
  else if String.eqb name "handleConn" then do_handle name args w
  else if String.eqb name "read:conf.OutputDir" then (TOK_OUTDIR, w)
  else if String.eqb name "read:conf.FrameInput" then (TOK_INPUT, w)
  else if String.eqb name "read:conf.Recorder.Window" then (TOK_WINDOW, w)
  else if String.eqb name "log.Print" then (0, w)      (* logging: inert *)
  else if String.eqb name "log.Printf" then (0, w)
  else if String.eqb name "log.Println" then (0, w)
  else mbad name w.   (* a name this handler does not know: never silently accepted *)

(* every name under which the translated unit leaves the translation has a clause above *)
Definition mext_names : list string :=
  ["deleteTempFiles"; "go:snapshotRecordingTriggers"; "handleConn"; "host.Init"; "host.Init#1"; "log.Print"; "log.Printf";
   "log.Println"; "net.Listen"; "net.Listen#1"; "obj.Accept"; "obj.Accept#1"; "obj.Close"; "os.Remove";
   "read:conf.FrameInput"; "read:conf.OutputDir"; "read:conf.Recorder.Window"; "startService"]%string.

(* ---- the run the theorems are about ---- *)

(* a world at the moment runMain reaches startService: nothing open, nothing accepted, an empty log; the
   socket path may hold a stale file *)
Definition mw_init (start host clean : option positive) (its : list iter) (fin : positive) (stale : bool) (next : Z) : mworld :=
  mkMW start host clean its fin (if stale then Some 0 else None) [] None next 0 [].

(* the translated tail of runMain on it (the value of `err` at that point is overwritten before it is read) *)
Definition src_main (fuel : nat) (start host clean : option positive) (its : list iter) (fin : positive) (stale : bool) (next : Z)
  : outcome mworld (option Z) :=
  MainLoop_fn_runMain_tail mext fuel 0 (mw_init start host clean its fin stale next).

Definition is_bad (e : mev) : bool := match e with MBad _ => true | _ => false end.
Definition bad_calls (l : list mev) : list mev := filter is_bad l.

(* result and log, for the examples *)
Definition show_main (o : outcome mworld (option Z)) : option (option Z * list mev * list Z) :=
  match o with
  | Ok r w => Some (r, mw_log w, mw_open w)
  | Panicked _ => None
  end.
