(* Executable model of github.com/juju/ratelimit v1.0.1 (Bucket.TakeAvailable / Available /
   currentTick / adjustavailableTokens) and of throttle/throttled_recorder.go.

   Clock readings are nanoseconds since the bucket's startTime (the first reading the
   constructor takes).  Each upstream call carries the clock readings it will consume, in
   order (WriteFrame reads the clock twice when it restarts a recording: Available(), then
   TakeAvailable()).  The base recorder's results are scripted (true = error). *)
From Coq Require Import List ZArith Bool.
Import ListNotations.
Open Scope Z_scope.

(* ------------------------------------------------------------------ *)
(* token bucket                                                         *)

Record bucket := mkB {
  b_cap : Z;      (* capacity *)
  b_q : Z;        (* quantum *)
  b_fi : Z;       (* fillInterval, ns *)
  b_avail : Z;    (* availableTokens *)
  b_latest : Z    (* latestTick *)
}.

(* NewBucketWithQuantumAndClock: full bucket, latestTick 0 *)
Definition bucket_new (cap q fi : Z) : bucket := mkB cap q fi cap 0.

(* currentTick: int64(now.Sub(startTime) / fillInterval) - Go's truncated division *)
Definition current_tick (b : bucket) (t : Z) : Z := Z.quot t (b_fi b).

(* adjustavailableTokens: NOTE the early return leaves latestTick stale when the bucket is full *)
Definition adjust (b : bucket) (tick : Z) : bucket :=
  if b_avail b >=? b_cap b then b
  else
    let a := b_avail b + (tick - b_latest b) * b_q b in
    mkB (b_cap b) (b_q b) (b_fi b) (if a >? b_cap b then b_cap b else a) tick.

(* TakeAvailable(1) at clock reading t: (new bucket, tokens taken) *)
Definition take1 (b : bucket) (t : Z) : bucket * Z :=
  let b1 := adjust b (current_tick b t) in
  if b_avail b1 <=? 0 then (b1, 0)
  else (mkB (b_cap b1) (b_q b1) (b_fi b1) (b_avail b1 - 1) (b_latest b1), 1).

(* Available() at clock reading t *)
Definition available (b : bucket) (t : Z) : bucket * Z :=
  let b1 := adjust b (current_tick b t) in (b1, b_avail b1).

(* bucket operations, for statements about arbitrary callers *)
Inductive bop := BAvail (t : Z) | BTake (t : Z).

Definition bop_time (o : bop) : Z := match o with BAvail t | BTake t => t end.

(* run: returns for each op (time, 1 if a token was handed out else 0) *)
Fixpoint brun (b : bucket) (ops : list bop) : list (Z * Z) :=
  match ops with
  | [] => []
  | BAvail t :: r => let (b', _) := available b t in (t, 0) :: brun b' r
  | BTake t :: r => let (b', k) := take1 b t in (t, k) :: brun b' r
  end.

(* ------------------------------------------------------------------ *)
(* throttled recorder                                                   *)

Record thstate := mkTh {
  th_b : bucket;
  th_rec : bool;        (* recording *)
  th_min : Z;           (* minRecordingLength *)
  th_bg : Z;            (* remembered background (identified by an integer) *)
  th_thresh : Z;        (* remembered tempThresh *)
  th_faults : list bool (* base recorder's results, one per base call, true = error *)
}.

Inductive ucall :=
| UCheck
| UStart (bg thresh : Z) (t1 : Z)          (* one clock reading: Available() *)
| UWrite (id : Z) (t1 t2 : Z)              (* up to two readings: Available() if idle, TakeAvailable() *)
| UStop.

Inductive tout :=
| BCheck (failed : bool)
| BStart (bg thresh : Z) (failed : bool)
| BWrite (id : Z) (t : Z) (failed : bool)  (* t: the clock reading of the take that paid for it *)
| BStop (failed : bool)
| Throttled                                 (* listener.WhenThrottled() *)
| Ret (err : bool).                         (* value returned to the caller *)

Definition tpop (f : list bool) : bool * list bool :=
  match f with [] => (false, []) | b :: t => (b, t) end.

(* maybeStartRecording(background, tempThresh) at reading t:
   (state, outputs, error returned) *)
Definition maybe_start (s : thstate) (bg thresh t : Z) : thstate * list tout * bool :=
  let (b1, av) := available (th_b s) t in
  if av >=? th_min s then
    let (failed, f') := tpop (th_faults s) in
    if failed then (mkTh b1 (th_rec s) (th_min s) (th_bg s) (th_thresh s) f', [BStart bg thresh true], true)
    else (mkTh b1 true (th_min s) (th_bg s) (th_thresh s) f', [BStart bg thresh false], false)
  else (mkTh b1 (th_rec s) (th_min s) (th_bg s) (th_thresh s) (th_faults s), [], false).

(* StopRecording() *)
Definition th_stop (s : thstate) : thstate * list tout * bool :=
  if th_rec s then
    let (failed, f') := tpop (th_faults s) in
    (mkTh (th_b s) false (th_min s) (th_bg s) (th_thresh s) f', [BStop failed], failed)
  else (s, [], false).

Definition thstep (s : thstate) (u : ucall) : thstate * list tout :=
  match u with
  | UCheck =>
    let (failed, f') := tpop (th_faults s) in
    (mkTh (th_b s) (th_rec s) (th_min s) (th_bg s) (th_thresh s) f', [BCheck failed; Ret failed])
  | UStart bg thresh t1 =>
    let '(s1, o1, err) := maybe_start s bg thresh t1 in
    if err then (s1, o1 ++ [Ret true])
    else
      let o2 := if th_rec s1 then [] else [Throttled] in
      (mkTh (th_b s1) (th_rec s1) (th_min s1) bg thresh (th_faults s1), o1 ++ o2 ++ [Ret false])
  | UWrite id t1 t2 =>
    let '(s1, o1, err, tk, go) :=
      if negb (th_rec s) then
        let '(s1, o1, err) := maybe_start s (th_bg s) (th_thresh s) t1 in
        if err then (s1, o1, true, t2, false)
        else (s1, o1, false, t2, th_rec s1)
      else (s, [], false, t1, true) in
    if err then (s1, o1 ++ [Ret true])
    else if negb go then (s1, o1 ++ [Ret false])
    else
      let (b2, k) := take1 (th_b s1) tk in
      let s2 := mkTh b2 (th_rec s1) (th_min s1) (th_bg s1) (th_thresh s1) (th_faults s1) in
      if k >? 0 then
        let (failed, f') := tpop (th_faults s2) in
        (mkTh b2 (th_rec s2) (th_min s2) (th_bg s2) (th_thresh s2) f', o1 ++ [BWrite id tk failed; Ret failed])
      else
        let '(s3, o3, serr) := th_stop s2 in
        (s3, o1 ++ [Throttled] ++ o3 ++ [Ret serr])
  | UStop =>
    let '(s1, o1, err) := th_stop s in (s1, o1 ++ [Ret err])
  end.

Definition th_init (cap q fi minlen : Z) (faults : list bool) : thstate :=
  mkTh (bucket_new cap q fi) false minlen (-1) 0 faults.

Fixpoint thrun (s : thstate) (us : list ucall) : list (list tout) :=
  match us with
  | [] => []
  | u :: r => let (s', o) := thstep s u in o :: thrun s' r
  end.
