(* The outside world of the translated event sink of the throttle
   (coq/translated/ThrottleEvents.v, from throttle/throttled_event_recorder.go: ThrottledEventRecorder.WhenThrottled,
   the listener the throttled recorder calls once per suppressed start and per cut).

   Everything that function touches is a call that leaves it; this file states what each call means:
     - time.Now(): the next reading of a clock script (nanoseconds since the Unix epoch; used up: 0), handed
       out as a time VALUE (a token); t.UnixNano() of such a value is the reading;
     - the two map literals: a map value in the table of values made on the way; a key is a string, a value a
       string or an earlier map (anything else: a bad literal); the values made are kept by token, latest
       first (ew_vals), fresh tokens come from the counter ew_next;
     - json.Marshal(&m): answers from a script (None = it encodes, Some e = it fails with the error e; used
       up: it encodes).  The encoding itself is not modelled: the result is "the JSON text of the map m", a
       value that remembers m ([XVJson m]).  (For a map[string]interface{} of strings and such maps the real
       encoder cannot fail; the script allows it all the same.)
     - dbus.SystemBus(): answers from a script (None = a connection, Some e = the error e, connection nil);
     - conn.Object(dest, path): the bus object - a value that remembers both strings;
     - obj.Call(method, flags, args...): the D-Bus call IS MADE (an entry of the log with destination, path,
       method, flags, the map whose JSON text is the first argument and the integer that is the second); its
       *dbus.Call answers from a script (None = Err is nil, Some e = Err is e; used up: nil); call.Err is a
       field read of that value;
     - log.Printf(format, err): an entry of the log (the format and the error) - the sink's only way to
       report a failure;
     - the second result of the last two-valued call in ew_pend.
   A call on a value of the wrong sort (Object on something that is not a connection, Call with arguments of
   another shape, UnixNano of something that is not a time, ...), every known call with other arguments than
   stated here and EVERY call this handler has no clause for is logged as [XBad] - never a silent no-op.
   No proofs in this file. *)
From Coq Require Import String List ZArith Bool.
From TR Require Import model.GoSem translated.ThrottleEvents.
Import ListNotations.
Open Scope Z_scope.

(* a map[string]interface{} of strings and such maps, entries in source order *)
Inductive jval :=
| JStr (s : string)
| JMap (kvs : list (string * jval)).

Inductive xval :=
| XVTime (ns : Z)                          (* a time.Time *)
| XVMap (kvs : list (string * jval))      (* a map literal *)
| XVJson (kvs : list (string * jval))      (* the bytes json.Marshal made of that map *)
| XVConn                                   (* the system bus *)
| XVObj (dest path : string)               (* conn.Object(dest, path) *)
| XVCall (err : Z)                         (* a *dbus.Call with its Err *)
| XVBad.

Inductive xev :=
| XNow (ns : Z)                           (* time.Now() read ns *)
| XMarshal (ok : bool)                    (* json.Marshal *)
| XBus (ok : bool)                        (* dbus.SystemBus() *)
| XCall (dest path method : string) (flags : Z) (details : list (string * jval)) (ts : Z) (err : Z)
                                          (* obj.Call(method, flags, <JSON of details>, ts) made; its Err *)
| XLogLine (fmt : string) (e : Z)         (* log.Printf(fmt, e) *)
| XBad (name : string).

Record eworld := mkEW {
  ew_clock : list Z;
  ew_marshal : list (option positive);
  ew_bus : list (option positive);
  ew_call : list (option positive);
  ew_vals : list (Z * xval);   (* the values made so far, by token, latest first *)
  ew_next : Z;                 (* the next fresh token *)
  ew_pend : Z;
  ew_log : list xev
}.

Definition xerr (o : option positive) : Z := match o with None => 0 | Some p => Zpos p end.

Definition xlog (w : eworld) (e : xev) : eworld :=
  mkEW (ew_clock w) (ew_marshal w) (ew_bus w) (ew_call w) (ew_vals w) (ew_next w) (ew_pend w) (ew_log w ++ [e]).
(* a new value under the next fresh token *)
Definition xalloc (w : eworld) (v : xval) : eworld :=
  mkEW (ew_clock w) (ew_marshal w) (ew_bus w) (ew_call w) ((ew_next w, v) :: ew_vals w) (ew_next w + 1) (ew_pend w) (ew_log w).
Definition xset_pend (w : eworld) (p : Z) : eworld :=
  mkEW (ew_clock w) (ew_marshal w) (ew_bus w) (ew_call w) (ew_vals w) (ew_next w) p (ew_log w).
Definition xset_clock (w : eworld) (c : list Z) : eworld :=
  mkEW c (ew_marshal w) (ew_bus w) (ew_call w) (ew_vals w) (ew_next w) (ew_pend w) (ew_log w).
Definition xset_marshal (w : eworld) (c : list (option positive)) : eworld :=
  mkEW (ew_clock w) c (ew_bus w) (ew_call w) (ew_vals w) (ew_next w) (ew_pend w) (ew_log w).
Definition xset_bus (w : eworld) (c : list (option positive)) : eworld :=
  mkEW (ew_clock w) (ew_marshal w) c (ew_call w) (ew_vals w) (ew_next w) (ew_pend w) (ew_log w).
Definition xset_call (w : eworld) (c : list (option positive)) : eworld :=
  mkEW (ew_clock w) (ew_marshal w) (ew_bus w) c (ew_vals w) (ew_next w) (ew_pend w) (ew_log w).

(* the value table: the latest value made under a token; XVBad for a token never handed out *)
Fixpoint vget (l : list (Z * xval)) (t : Z) : xval :=
  match l with
  | [] => XVBad
  | (k, v) :: r => if k =? t then v else vget r t
  end.
Definition xget (w : eworld) (t : Z) : xval := vget (ew_vals w) t.
Definition xnext (w : eworld) : Z := ew_next w.

Definition xbad (name : string) (w : eworld) : Z * eworld := (0, xlog w (XBad name)).

Definition do_now (name : string) (args : list arg) (w : eworld) : Z * eworld :=
  match args with
  | [] => let ns := hd 0 (ew_clock w) in (xnext w, xlog (xalloc (xset_clock w (tl (ew_clock w))) (XVTime ns)) (XNow ns))
  | _ => xbad name w
  end.

Definition do_unixnano (name : string) (args : list arg) (w : eworld) : Z * eworld :=
  match args with
  | [AInt t] => match xget w t with XVTime ns => (ns, w) | _ => xbad name w end
  | _ => xbad name w
  end.

(* map[string]interface{}{k1: v1, ...}: keys and values alternate *)
Fixpoint map_entries (w : eworld) (args : list arg) : option (list (string * jval)) :=
  match args with
  | [] => Some []
  | AStr k :: AStr v :: r => match map_entries w r with Some l => Some ((k, JStr v) :: l) | None => None end
  | AStr k :: AInt t :: r =>
    match xget w t, map_entries w r with
    | XVMap m, Some l => Some ((k, JMap m) :: l)
    | _, _ => None
    end
  | _ => None
  end.

Definition do_map_lit (name : string) (args : list arg) (w : eworld) : Z * eworld :=
  match map_entries w args with
  | Some kvs => (xnext w, xalloc w (XVMap kvs))
  | None => xbad name w
  end.

Definition do_marshal (name : string) (args : list arg) (w : eworld) : Z * eworld :=
  match args with
  | [AInt m] =>
    match xget w m with
    | XVMap kvs =>
      match hd None (ew_marshal w) with
      | None => (xnext w, xset_pend (xlog (xalloc (xset_marshal w (tl (ew_marshal w))) (XVJson kvs)) (XMarshal true)) 0)
      | Some e => (0, xset_pend (xlog (xset_marshal w (tl (ew_marshal w))) (XMarshal false)) (Zpos e))
      end
    | _ => xbad name w
    end
  | _ => xbad name w
  end.

Definition do_bus (name : string) (args : list arg) (w : eworld) : Z * eworld :=
  match args with
  | [] =>
    match hd None (ew_bus w) with
    | None => (xnext w, xset_pend (xlog (xalloc (xset_bus w (tl (ew_bus w))) XVConn) (XBus true)) 0)
    | Some e => (0, xset_pend (xlog (xset_bus w (tl (ew_bus w))) (XBus false)) (Zpos e))
    end
  | _ => xbad name w
  end.

Definition do_object (name : string) (args : list arg) (w : eworld) : Z * eworld :=
  match args with
  | [AInt c; AStr dest; AStr path] =>
    match xget w c with
    | XVConn => (xnext w, xalloc w (XVObj dest path))
    | _ => xbad name w
    end
  | _ => xbad name w
  end.

Definition do_call (name : string) (args : list arg) (w : eworld) : Z * eworld :=
  match args with
  | [AInt o; AStr method; AInt flags; AInt j; AInt ts] =>
    match xget w o, xget w j with
    | XVObj dest path, XVJson kvs =>
      let e := xerr (hd None (ew_call w)) in
      (xnext w, xlog (xalloc (xset_call w (tl (ew_call w))) (XVCall e)) (XCall dest path method flags kvs ts e))
    | _, _ => xbad name w
    end
  | _ => xbad name w
  end.

Definition do_field_err (name : string) (args : list arg) (w : eworld) : Z * eworld :=
  match args with
  | [AInt c] => match xget w c with XVCall e => (e, w) | _ => xbad name w end
  | _ => xbad name w
  end.

Definition do_printf (name : string) (args : list arg) (w : eworld) : Z * eworld :=
  match args with
  | [AStr fmt; AInt e] => (0, xlog w (XLogLine fmt e))
  | _ => xbad name w
  end.

Definition eext (name : string) (args : list arg) (w : eworld) : Z * eworld :=
  if String.eqb name "time.Now" then do_now name args w
  else if String.eqb name "obj.UnixNano" then do_unixnano name args w
  else if String.eqb name "lit:map[string]interface{}" then do_map_lit name args w
  else if String.eqb name "json.Marshal" then do_marshal name args w
  else if String.eqb name "json.Marshal#1" then (ew_pend w, w)
  else if String.eqb name "dbus.SystemBus" then do_bus name args w
  else if String.eqb name "dbus.SystemBus#1" then (ew_pend w, w)
  else if String.eqb name "obj.Object" then do_object name args w
  else if String.eqb name "obj.Call" then do_call name args w
  else if String.eqb name "field:Err" then do_field_err name args w
  else if String.eqb name "log.Printf" then do_printf name args w
  else xbad name w.   (* a name this handler does not know: never silently accepted *)

(* every name under which the translated unit leaves the translation has a clause above *)
Definition eext_names : list string :=
  ["dbus.SystemBus"; "dbus.SystemBus#1"; "field:Err"; "json.Marshal"; "json.Marshal#1"; "lit:map[string]interface{}";
   "log.Printf"; "obj.Call"; "obj.Object"; "obj.UnixNano"; "time.Now"]%string.

(* ---- what the theorems read off the world ---- *)
Definition elog_since (w w' : eworld) : list xev := skipn (List.length (ew_log w)) (ew_log w').

Definition is_queue (e : xev) : bool := match e with XCall _ _ _ _ _ _ _ => true | _ => false end.
Definition is_xbad (e : xev) : bool := match e with XBad _ => true | _ => false end.
Definition queue_calls (l : list xev) : list xev := filter is_queue l.

(* one call of the translated sink *)
Definition src_when (w : eworld) : outcome eworld unit := ThrottledEventRecorder_WhenThrottled eext w.

(* n calls in a row (one per 'throttled' incident of the throttle); None = some call panicked *)
Fixpoint src_when_n (n : nat) (w : eworld) : option eworld :=
  match n with
  | O => Some w
  | S k => match src_when w with
           | Ok _ w' => src_when_n k w'
           | Panicked _ => None
           end
  end.

(* a world at start: nothing made, nothing logged *)
Definition ew_init (clock : list Z) (ms bs cs : list (option positive)) : eworld := mkEW clock ms bs cs [] 1 0 [].
