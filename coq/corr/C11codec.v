(* Correspondence for C11, pixel codec: frame sequences through the real go-cptv Compressor
   (bit width and bytes compared with the model; the real Decompressor's round trip reported). *)
From Coq Require Import List ZArith Bool Arith.
From TR Require Export model.Codec corr.Common.
Import ListNotations.
Open Scope Z_scope.

Record case := mkCase { c_w : Z; c_h : Z; c_frames : list (list Z); c_width : list Z; c_data : list (list Z); c_rt_ok : bool }.

Fixpoint model_seq (cols : Z) (prev : list Z) (frames : list (list Z)) : list (Z * list Z) :=
  match frames with
  | [] => []
  | f :: r => compress cols prev f :: model_seq cols f r
  end.

Definition check (c : case) : Z :=
  let npix := Z.to_nat (c_w c * c_h c) in
  let m := model_seq (c_w c) (repeat 0 npix) (c_frames c) in
  code (zlist_eqb (map fst m) (c_width c) && list_eqb zlist_eqb (map snd m) (c_data c))
       (c_rt_ok c &&
        (* the model's decompressor decodes the implementation's bytes to the frames sent *)
        (fix go (prev : list Z) (fs : list (list Z)) (ws : list Z) (ds : list (list Z)) : bool :=
           match fs, ws, ds with
           | [], [], [] => true
           | f :: fr, w :: wr, d :: dr =>
             match decompress (c_w c) npix w d prev with
             | Some f' => zlist_eqb f f' && go f fr wr dr
             | None => false
             end
           | _, _, _ => false
           end) (repeat 0 npix) (c_frames c) (c_width c) (c_data c))
       true.

Definition explain (c : case) := model_seq (c_w c) (repeat 0 (Z.to_nat (c_w c * c_h c))) (c_frames c).
