From Coq Require Import ZArith.
From TR Require Export corr.DetSrc.
Definition check_src (c : case) : Z := check_src_which 7%Z c.
