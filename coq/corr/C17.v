From Coq Require Import ZArith.
From TR Require Export corr.ProcSpecs.
Definition check (c : case) : Z := check_which 17%Z c.
