(* Source-run comparison for the processor family: the Gallina translation of
   motion/motionprocessor.go and motion/frameloop.go (coq/translated, regenerated from /repo on
   every run) executed on the same events as the hand-written model.  Kept apart from
   corr/ProcSpecs.v so that the model/implementation comparison still runs when a change to the
   Go code makes the translation-dependent files stop compiling.
     bit 3 (8): translated source <> model on this input;  bit 4 (16): spec false on its trace *)
From Coq Require Import List ZArith Bool Arith.
From TR Require Export corr.ProcSpecs.
From TR Require Import model.ProcExt.
Import ListNotations.
Open Scope Z_scope.

(* the translated motionprocessor.go / frameloop.go run on the same events *)
Definition source_trace (c : case) : list (list out) :=
  map (strip_winq (c_win c))
      (src_run (c_cfg c) (c_fm c) (c_fc c) (c_ft c) (map (fun s => ev_of (c_win c) (fst s)) (c_steps c))).

Definition check_src_which (which : Z) (c : case) : Z :=
  let m := model_trace c in
  let s := source_trace c in
  code_src (trace_eqb (map (proj which) s) (map (proj which) m)) (spec which c s).
