(* Large thermal-writer runs with an artificially stalled writer are judged by the harness
   (files too large to pass through Coq): this evaluator only carries the verdict. *)
From Coq Require Import ZArith Bool.
From TR Require Import corr.Common.
Open Scope Z_scope.
Record case := mkLag { l_ok : bool; l_backlog : Z; l_frames : Z }.
Definition check (c : case) : Z := code true (l_ok c) true.
Definition explain (c : case) := c.
