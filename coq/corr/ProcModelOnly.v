From Coq Require Import List ZArith Bool Arith.
From TR Require Export corr.Proc.
Import ListNotations.
Open Scope Z_scope.
Definition check (c : case) : Z := code (trace_eqb (model_trace c) (map snd (c_steps c))) true true.
Definition explain (c : case) :=
  let m := model_trace c in
  let k := first_diff (list_eqb out_eqb) m (map snd (c_steps c)) 0 in
  (k, nth (Z.to_nat k) (c_steps c) (HBad, []), nth (Z.to_nat k) m []).
