(* Correspondence for the detector family (C07, C08, C09, C15): frame streams run on the
   real motionDetector; frames are described compactly and expanded identically on both sides. *)
From Coq Require Import List ZArith Bool Arith.
From Coq Require Import Floats.SpecFloat.
From TR Require Export model.Ring model.Detector model.DetSpec corr.Common.
Import ListNotations.
Open Scope Z_scope.

Inductive xev :=
| XFrame (base amp salt : Z) (ov : list (Z * Z * Z)) (ton lffc : Z)
| XReset.

Record obs := mkO { o_motion : bool; o_thresh : Z; o_bgframes : Z; o_bg : list Z; o_wsum : Z }.

Record case := mkCase {
  c_cfg : dcfg; c_mode : Z; c_pair_at : Z;
  c_steps : list (xev * obs); c_steps2 : list (xev * obs)
}.

Definition clamp16 (v : Z) : Z := Z.max 0 (Z.min 65535 v).

Fixpoint find_ov (ov : list (Z * Z * Z)) (y x : Z) : option Z :=
  match ov with
  | [] => None
  | (oy, ox, v) :: t => if (oy =? y) && (ox =? x) then Some v else find_ov t y x
  end.

Definition expand (c : dcfg) (e : xev) : dev :=
  match e with
  | XReset => DReset
  | XFrame base amp salt ov ton lffc =>
    DFrame (mkF (gbuild (d_h c) (d_w c) (fun y x =>
                   let yz := Z.of_nat y in let xz := Z.of_nat x in
                   match find_ov ov yz xz with
                   | Some v => v
                   | None => clamp16 (base + amp * ((yz * 7 + xz * 13 + salt * 5) mod 11))
                   end)) ton lffc)
  end.

(* IEEE-754 binary32 bit pattern of a float32 value *)
Definition f32_bits (f : f32) : Z :=
  match f with
  | S754_zero s => if s then 2147483648 else 0
  | S754_infinity s => (if s then 2147483648 else 0) + 2139095040
  | S754_nan => 2143289344
  | S754_finite s m e =>
    (if s then 2147483648 else 0) +
    (if Zpos m <? 8388608 then Zpos m else (e + 150) * 8388608 + (Zpos m - 8388608))
  end.

Definition wsum (c : dcfg) (w : list (list f32)) : Z :=
  (fold_left (fun a yx =>
     a + (f32_bits (wget w (fst yx) (snd yx)) * (1 + Z.of_nat (fst yx) * Z.of_nat (d_w c) + Z.of_nat (snd yx))) mod 1000000007)
     (all_coords c) 0) mod 1000000007.

Definition flat (c : dcfg) (g : grid) : list Z := map (fun yx => gget g (fst yx) (snd yx)) (all_coords c).

Definition observe (c : dcfg) (s : dstate) (m : bool) : obs :=
  mkO m (s_thresh s) (s_bgframes s) (if d_dynamic c then flat c (s_bg s) else [])
      (if d_dynamic c then wsum c (s_wts s) else 0).

Fixpoint model_obs (c : dcfg) (s : dstate) (evs : list dev) : list obs :=
  match evs with
  | [] => []
  | DFrame f :: t => let (s', m) := detect c s f in observe c s' m :: model_obs c s' t
  | DReset :: t => let s' := dreset s in observe c s' false :: model_obs c s' t
  end.

Definition obs_eqb (a b : obs) : bool :=
  Bool.eqb (o_motion a) (o_motion b) && (o_thresh a =? o_thresh b) && (o_bgframes a =? o_bgframes b) &&
  zlist_eqb (o_bg a) (o_bg b) && (o_wsum a =? o_wsum b).

Definition devs (c : case) (st : list (xev * obs)) : list dev := map (fun s => expand (c_cfg c) (fst s)) st.

Definition unflat (c : dcfg) (l : list Z) : grid :=
  gbuild (d_h c) (d_w c) (fun y x => nth (y * d_w c + x) l 0).

Definition dobs_of (c : dcfg) (o : obs) : dobs := mkDO (unflat c (o_bg o)) (o_thresh o).

Definition model_ok (c : case) : bool :=
  list_eqb obs_eqb (model_obs (c_cfg c) (dinit (c_cfg c)) (devs c (c_steps c))) (map snd (c_steps c)) &&
  list_eqb obs_eqb (model_obs (c_cfg c) (dinit (c_cfg c)) (devs c (c_steps2 c))) (map snd (c_steps2 c)).

(* spec on a pair of observation lists (impl's or model's) *)
Definition spec (which : Z) (c : case) (o1 o2 : list obs) : bool :=
  let cfg := c_cfg c in
  let e1 := devs c (c_steps c) in
  let e2 := devs c (c_steps2 c) in
  let v1 := map o_motion o1 in
  let v2 := map o_motion o2 in
  if which =? 7 then
    negb (ffc_free e1) || d_dynamic cfg || S07 cfg e1 v1
  else if which =? 9 then
    S09_supp false e1 v1 &&
    (if c_mode c =? 5 then S09_supp false e2 v2 && suffix_eqb (Z.to_nat (c_pair_at c)) v1 v2 else true)
  else if which =? 8 then
    if (c_mode c =? 3) || (c_mode c =? 4) || (c_mode c =? 6) then
      bools_eqb v1 v2 && zlist_eqb (map o_thresh o1) (map o_thresh o2) &&
      list_eqb (fun a b => interior_eq cfg (unflat cfg (o_bg a)) (unflat cfg (o_bg b))) o1 o2
    else true
  else if which =? 15 then
    negb (d_dynamic cfg) || S15 cfg e1 (map (dobs_of cfg) o1)
  else true.

Definition check_which (which : Z) (c : case) : Z :=
  let m1 := model_obs (c_cfg c) (dinit (c_cfg c)) (devs c (c_steps c)) in
  let m2 := model_obs (c_cfg c) (dinit (c_cfg c)) (devs c (c_steps2 c)) in
  let i1 := map snd (c_steps c) in
  let i2 := map snd (c_steps2 c) in
  code (list_eqb obs_eqb m1 i1 && list_eqb obs_eqb m2 i2) (spec which c i1 i2) (spec which c m1 m2).

Definition explain (c : case) :=
  let m1 := model_obs (c_cfg c) (dinit (c_cfg c)) (devs c (c_steps c)) in
  let k := first_diff obs_eqb m1 (map snd (c_steps c)) 0 in
  (k, nth (Z.to_nat k) m1 (mkO false 0 0 [] 0), nth (Z.to_nat k) (map snd (c_steps c)) (mkO false 0 0 [] 0),
   map (fun w => (w, spec w c (map snd (c_steps c)) (map snd (c_steps2 c)))) [7; 8; 9; 15]).
