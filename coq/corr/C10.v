(* Correspondence for C10: the real CPTVFileRecorder (driver binary) under strace.
   CTrace: the namespace operations (create / rename / unlink on recording names) of an
   uninterrupted run must be exactly the model's step expansion of the same calls.
   CKill: the directory tree when the process was killed on entering its k-th system call
   (or as a concurrent observer saw it), and after the real start-up clean-up ran. *)
From Coq Require Import List ZArith Bool Arith.
From TR Require Export model.FileRec corr.Common.
Import ListNotations.
Open Scope Z_scope.

Inductive xext := XCptv | XTemp | XTempTmp | XOther.
Record ent := mkEnt { e_dir : fdir; e_ext : xext; e_decodes : bool; e_frames : list Z }.

Inductive case :=
| CTrace (calls : list rcall) (ops : list fop)
| CKill (calls : list rcall) (at_kill : list ent) (after_recovery : option (list ent)).

Definition fop_eqb (a b : fop) : bool :=
  match a, b with
  | FCreate x, FCreate y => name_eqb x y
  | FRename x1 x2, FRename y1 y2 => name_eqb x1 y1 && name_eqb x2 y2
  | FUnlink x, FUnlink y => name_eqb x y
  | _, _ => false
  end.

Definition observable (o : fop) : bool := match o with FFinish _ _ => false | _ => true end.

(* frames of the recordings that were stopped (not aborted) *)
Definition finished (calls : list rcall) : list (list Z) :=
  flat_map (fun c => match c with RStop _ _ fr => [fr] | _ => [] end) calls.

Definition is_cptv (e : ent) : bool := match e_ext e with XCptv => true | _ => false end.

(* every .cptv decodes completely, to the frames of one of the finished recordings *)
Definition cptv_ok (calls : list rcall) (es : list ent) : bool :=
  forallb (fun e => negb (is_cptv e) || (e_decodes e && existsb (zlist_eqb (e_frames e)) (finished calls))) es.

Definition check (c : case) : Z :=
  match c with
  | CTrace calls ops =>
    code (list_eqb fop_eqb (filter observable (expand_all calls)) ops) (wf_calls None (-1) calls) true
  | CKill calls pre post =>
    code true
         (cptv_ok calls pre &&
          match post with
          | None => true
          | Some es => cptv_ok calls es && forallb is_cptv es &&
                       (* the clean-up removes no recording *)
                       Nat.eqb (length (filter is_cptv pre)) (length es)
          end)
         true
  end.

Definition explain (c : case) :=
  match c with
  | CTrace calls ops => (filter observable (expand_all calls), ops)
  | CKill _ _ _ => ([], [])
  end.
