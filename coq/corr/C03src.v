From Coq Require Import ZArith.
From TR Require Export corr.ProcSrc.
Definition check_src (c : case) : Z := check_src_which 3%Z c.
