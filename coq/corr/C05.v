From Coq Require Import ZArith.
From TR Require Export corr.Throttle.
Definition check (c : case) : Z := check05 c.
