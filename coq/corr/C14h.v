(* Correspondence for C14, header stage: camera descriptions encoded by the camera daemon's
   YAML call (yaml.v1 Marshal of the map), read back by the real headers.ReadHeaderInfo from a
   reader that returns the bytes in arbitrary chunks; all truncation points. *)
From Coq Require Import List ZArith Bool Arith.
From TR Require Export model.Socket proofs.SocketProofs corr.Common.
Import ListNotations.
Open Scope Z_scope.

Record desc := mkDesc { d_resx : Z; d_resy : Z; d_fps : Z; d_framesize : Z; d_serial : Z; d_brand : bytes; d_model : bytes; d_firmware : bytes }.

Record case := mkCase {
  c_desc : desc; c_yaml : bytes; c_chunks : list bytes;
  c_err : bool; c_got : desc; c_remaining : bytes; c_trunc_errs : list bool
}.

Definition desc_eqb (a b : desc) : bool :=
  (d_resx a =? d_resx b) && (d_resy a =? d_resy b) && (d_fps a =? d_fps b) && (d_framesize a =? d_framesize b) &&
  (d_serial a =? d_serial b) && zlist_eqb (d_brand a) (d_brand b) && zlist_eqb (d_model a) (d_model b) &&
  zlist_eqb (d_firmware a) (d_firmware b).

(* model: the header text handed to the decoder is exactly the encoder's output, and exactly
   the bytes after the blank line remain *)
Definition model_eq (c : case) : bool :=
  match header_c (S (total_len (c_chunks c))) (c_chunks c) [] with
  | Some (h, rest) => negb (c_err c) && zlist_eqb h (c_yaml c) && zlist_eqb (concat rest) (c_remaining c)
  | None => c_err c
  end.

(* spec: the description round-trips; nothing beyond the blank line is consumed; every
   truncated header is an error; and the assumption made of the encoder's output holds *)
Definition spec (c : case) : bool :=
  negb (c_err c) && desc_eqb (c_desc c) (c_got c) &&
  header_text_ok (c_yaml c) &&
  zlist_eqb (concat (c_chunks c) ) (c_yaml c ++ [NL] ++ c_remaining c) &&
  forallb (fun b => b) (c_trunc_errs c) &&
  Nat.eqb (length (c_trunc_errs c)) (S (length (c_yaml c))).

Definition check (c : case) : Z := code (model_eq c) (spec c) true.
Definition explain (c : case) := (model_eq c, header_text_ok (c_yaml c), desc_eqb (c_desc c) (c_got c), c_trunc_errs c).
