(* Source-run comparison for C05 / C06 (see corr/ProcSrc.v for why it is a separate module). *)
From Coq Require Import List ZArith Bool Arith.
From TR Require Export corr.Throttle.
From TR Require Import model.ThrExt.
Import ListNotations.
Open Scope Z_scope.

(* the translated throttled_recorder.go run on the same schedule *)
Definition source_trace (c : case) : list (list tout) :=
  src_thrun (c_cap c) (c_q c) (c_fi c) (c_minlen c) (c_faults c) (map fst (c_steps c)).

Definition check_src05 (c : case) : Z :=
  let m := model_trace c in let s := source_trace c in code_src (trace_eqb s m) (spec05 c s).
Definition check_src06 (c : case) : Z :=
  let m := model_trace c in let s := source_trace c in code_src (trace_eqb s m) (spec06 c s).
