(* Source-run comparison for C20 (see corr/ProcSrc.v for why it is a separate module). *)
From Coq Require Import String Ascii.
From Coq Require Import List ZArith Bool Arith.
From TR Require Export corr.C20.
From TR Require Import model.ThrExt.
Import ListNotations.
Open Scope Z_scope.

(* the translated loglimiter.go run on the same history; message k is the string of k 'm's *)
Fixpoint mname (n : nat) : string := match n with O => EmptyString | S k => String "m"%char (mname k) end.
Definition enc (m : Z) : string := mname (Z.to_nat m).
Definition source_obs (c : case) : list Z :=
  map (fun om => match fst om with
                 | [] => 0
                 | [l] => if String.eqb l (enc (fst (snd om))) then 1 else 2
                 | _ => 2
                 end)
      (combine (src_lrun enc (ll_init (c_interval c)) (c_hist c)) (c_hist c)).

Definition check_src (c : case) : Z :=
  let mdl := lrun (c_interval c) linit (c_hist c) in
  let src := source_obs c in
  code_src (zlist_eqb src (obs_of_bits mdl))
           (spec_log (c_interval c) (c_hist c) (bits_of_obs src) && forallb (fun x => x <? 2) src).
