(* End-to-end correspondence (C11; also serves C14's stream clause, C13's handleConn branch,
   C15's start arguments and C17's wiring): a generated config.toml, camera header and frame /
   marker stream sent in random chunks over a unix socket to the real ParseConfig + handleConn
   (driver binary), every finished file decoded with the standard go-cptv reader. *)
From Coq Require Import List ZArith Bool Arith.
From TR Require Export model.Ring model.Detector model.Parse model.Processor model.System corr.Common.
Import ListNotations.
Open Scope Z_scope.

Inductive yitem :=
| YFrame (idx base amp salt : Z) (ov : list (Z * Z * Z)) (timeon_ms lastffc_ms fpatemp fpatemp_ffc : Z)
| YClear.

Record case := mkCase {
  c_cfg : scfg; c_items : list yitem;
  c_motion : list (Z * list Z * list Z);   (* per finished file: threshold, background (flat), frame ids *)
  c_const : list (Z * list Z * list Z);
  c_content_ok : bool;    (* every decoded frame equals the frame sent (pixels, times, temperatures) *)
  c_header_ok : bool      (* every file's header view equals the device / camera / config description *)
}.

Definition clamp16 (v : Z) : Z := Z.max 0 (Z.min 65535 v).

Fixpoint find_ov (ov : list (Z * Z * Z)) (y x : Z) : option Z :=
  match ov with
  | [] => None
  | (oy, ox, v) :: t => if (oy =? y) && (ox =? x) then Some v else find_ov t y x
  end.

Definition pixels (c : scfg) (idx base amp salt : Z) (ov : list (Z * Z * Z)) : grid :=
  gbuild (s_h c) (s_w c) (fun y x =>
    let yz := Z.of_nat y in let xz := Z.of_nat x in
    if (yz =? 0) && (xz =? 0) then idx + 1
    else if (yz =? 0) && (xz =? 1) then 7
    else match find_ov ov yz xz with
         | Some v => v
         | None => clamp16 (base + amp * ((yz * 7 + xz * 13 + salt * 5) mod 11))
         end).

Definition to_sitem (c : scfg) (y : yitem) : sitem :=
  match y with
  | YClear => SClear
  | YFrame idx base amp salt ov ton lffc t1 t2 =>
    let pix := pixels c idx base amp salt ov in
    SFrame (match s_fmt c with
            | Lepton => lepton_raw ton lffc idx 0 t1 t2 pix
            | Boson => boson_raw pix
            end)
  end.

Definition flatg (c : scfg) (g : grid) : list Z :=
  flat_map (fun y => map (fun x => gget g y x) (seq 0 (s_w c))) (seq 0 (s_h c)).

(* the model identifies frames by their position among ACCEPTED frames; the files carry the
   index among all frames sent (bad ones included): map accepted position -> sent index *)
Fixpoint accepted_indices (c : scfg) (items : list yitem) : list Z :=
  match items with
  | [] => []
  | YClear :: r => accepted_indices c r
  | (YFrame idx _ _ _ _ _ _ _ _ as y) :: r =>
    match to_sitem c y with
    | SFrame raw => if has_bad_pixel (s_fmt c) raw (s_h c) (s_w c) (d_edge (s_det c)) then accepted_indices c r
                    else idx :: accepted_indices c r
    | SClear => accepted_indices c r
    end
  end.

Definition render (c : scfg) (acc : list Z) (f : sfile) : Z * list Z * list Z :=
  (sf_thresh f, flatg c (sf_bg f), map (fun id => nth (Z.to_nat id) acc (-1)) (sf_ids f)).

Definition model_files (c : case) : list (Z * list Z * list Z) * list (Z * list Z * list Z) :=
  let items := map (to_sitem (c_cfg c)) (c_items c) in
  let acc := accepted_indices (c_cfg c) (c_items c) in
  let (m, k) := srun (c_cfg c) items in
  (map (render (c_cfg c) acc) m, map (render (c_cfg c) acc) k).

Definition file_eqb (a b : Z * list Z * list Z) : bool :=
  let '(t1, b1, i1) := a in let '(t2, b2, i2) := b in
  (t1 =? t2) && zlist_eqb b1 b2 && zlist_eqb i1 i2.

Definition files_eqb := list_eqb file_eqb.

(* which: 11 everything; 14 the frames each file holds (delivery, order, resets);
   15 threshold and background stored with each recording; 17 the continuous recorder's files *)
Definition proj (which : Z) (f : Z * list Z * list Z) : Z * list Z * list Z :=
  let '(t, b, i) := f in
  if which =? 14 then (0, [], i) else if which =? 15 then (t, b, []) else if which =? 17 then (0, [], i) else f.

Definition check_which (which : Z) (c : case) : Z :=
  let (mm, mc) := model_files c in
  let sel := fun l => map (proj which) l in
  code ((if which =? 17 then true else files_eqb (sel mm) (sel (c_motion c))) && files_eqb (sel mc) (sel (c_const c)))
       ((if which =? 11 then c_content_ok c && c_header_ok c else true) &&
        (if which =? 17 then true else files_eqb (sel mm) (sel (c_motion c))) && files_eqb (sel mc) (sel (c_const c)))
       true.

Definition explain (c : case) :=
  let (mm, mc) := model_files c in
  (map (fun f => let '(t, _, i) := f in (t, i)) mm, map (fun f => let '(t, _, i) := f in (t, i)) (c_motion c),
   map (fun f => let '(t, _, i) := f in (t, i)) mc, map (fun f => let '(t, _, i) := f in (t, i)) (c_const c),
   c_content_ok c, c_header_ok c).
