(* Correspondence for C16: the real handleConn fed over a socket while requester goroutines
   call the D-Bus service methods (driver mode race); with the Go race detector for the
   data-race clause. *)
From Coq Require Import List ZArith Bool Arith.
From TR Require Export model.Concurrent corr.Common.
Import ListNotations.
Open Scope Z_scope.

Inductive case :=
| CWhole (ring_size snapshots torn : Z) (ran : bool)   (* snapshots taken concurrently; how many mixed two frames *)
| CFresh (checks stale : Z) (ran : bool)               (* sequential schedule: snapshots that were not the last completed frame *)
| CBlank (count : Z)                                   (* snapshots returned before the first frame was processed *)
| CRaceRun (vars : list Z) (ran : bool)                (* variables the race detector reported *)
| CRaceVar (v : Z).                                    (* one reported racy variable *)

Definition check (c : case) : Z :=
  match c with
  | CWhole size snaps torn ran =>
    (* model: with capacity >= 2 no torn copy exists (whole_frame); with capacity 1 it can *)
    code (ran && ((size <? 2) || (torn =? 0))) (ran && (torn =? 0)) true
  | CFresh checks stale ran =>
    (* whole_frame with request and return in the same quiescent interval: j is the last completed frame *)
    code (ran && (stale =? 0)) (ran && (stale =? 0)) true
  | CBlank n => code true (n =? 0) true
  | CRaceRun vars ran =>
    (* every reported variable must be one the access table marks racy: a race on the ring
       index or slots (or an unclassified one) breaks the correspondence *)
    code (ran && forallb (fun v => existsb (fun r => Z.of_nat r =? v) racy_vars) vars) true true
  | CRaceVar v =>
    code (existsb (fun r => Z.of_nat r =? v) racy_vars) false true   (* a data race violates the property *)
  end.

Definition explain (c : case) := racy_vars.
