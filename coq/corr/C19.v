(* Correspondence for C19: the ring model and the ghost specification evaluated
   on op sequences that the real FrameLoop has run (observations after each op). *)
From Coq Require Import List ZArith Bool Arith.
From TR Require Export model.Ring model.RingSpec corr.Common.
Import ListNotations.
Open Scope Z_scope.

Record obs := mkObs { o_hist : list Z; o_oldest : Z; o_recent : Z; o_cur : Z }.
Record case := mkCase { c_sz : Z; c_steps : list (rop Z * obs) }.

Definition obs_eqb (a b : obs) : bool :=
  zlist_eqb (o_hist a) (o_hist b) && (o_oldest a =? o_oldest b) &&
  (o_recent a =? o_recent b) && (o_cur a =? o_cur b).

(* the model's observation; a panicking GetHistory is reported as history [-99] *)
Definition observe (r : ring Z) : obs :=
  mkObs (match get_history r with Some h => h | None => [-99] end)
        (oldest_slot 0 r) (recent 0 r) (current 0 r).

Fixpoint model_trace (r : ring Z) (ops : list (rop Z)) : list obs :=
  match ops with
  | [] => []
  | o :: t => let r' := rstep r o in observe r' :: model_trace r' t
  end.

(* The specification evaluated on an observed trace (model's or implementation's):
   ghost state is driven by the ops and by the *observed* Current() values only. *)
Fixpoint spec_trace (sz : nat) (g : ghost Z) (prev_cur : Z) (steps : list (rop Z * obs)) : bool :=
  match steps with
  | [] => true
  | (o, ob) :: t =>
    let g' := gstep prev_cur g o in
    let cur_ok := match o with
                  | OPut v => o_cur ob =? v
                  | OMark => o_cur ob =? prev_cur
                  | _ => true
                  end in
    let hist_ok := zlist_eqb (o_hist ob) (spec_history sz g' (o_cur ob)) in
    let old_ok := o_oldest ob =? spec_oldest 0 sz g' (o_cur ob) in
    let rec_ok := match spec_recent sz g' (o_cur ob) with
                  | Some x => o_recent ob =? x
                  | None => true
                  end in
    cur_ok && hist_ok && old_ok && rec_ok && spec_trace sz g' (o_cur ob) t
  end.

Definition check (c : case) : Z :=
  let ops := map fst (c_steps c) in
  let impl := map snd (c_steps c) in
  let mdl := model_trace (new_ring (c_sz c) 0) ops in
  code (list_eqb obs_eqb mdl impl)
       (spec_trace (Z.to_nat (c_sz c)) (ghost0 Z) 0 (c_steps c))
       (spec_trace (Z.to_nat (c_sz c)) (ghost0 Z) 0 (combine ops mdl)).

(* for replays: the model's trace and the index of the first diverging step *)
Definition explain (c : case) :=
  let ops := map fst (c_steps c) in
  let mdl := model_trace (new_ring (c_sz c) 0) ops in
  (first_diff obs_eqb mdl (map snd (c_steps c)) 0, mdl).
