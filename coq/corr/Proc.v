(* Correspondence for the processor family (C01-C04, C12, C13, C17): event lists run on
   the real MotionProcessor (scripted sinks, injected parser, injected window clock). *)
From Coq Require Import List ZArith Bool Arith.
From TR Require Export model.Ring model.Processor model.Window model.ProcAbs model.ProcSpec corr.Common.
Import ListNotations.
Open Scope Z_scope.

(* harness events: frames carry the observed detector verdict and the wall clock *)
Inductive hev :=
| HFrame (id : Z) (motion : bool) (tod : Z)
| HBad | HReset | HSnap.

Record case := mkCase {
  c_cfg : pcfg; c_win : wcfg; c_fm : list bool; c_fc : list bool; c_ft : list bool;
  c_tail : Z;   (* index of the first event of the fault-free recovery tail, -1 = none *)
  c_steps : list (hev * list out)
}.

Definition ev_of (w : wcfg) (h : hev) : ev :=
  match h with
  | HFrame id m tod => EFrame id m (window_active w tod)
  | HBad => EBad
  | HReset => EReset
  | HSnap => ESnapReq
  end.

(* a NoWindow window never reads the clock: the harness cannot see the consultation *)
Definition strip_winq (w : wcfg) (o : list out) : list out :=
  if no_window w then filter (fun x => match x with WinQ _ => false | _ => true end) o else o.

Definition model_trace (c : case) : list (list out) :=
  map (strip_winq (c_win c))
      (prun (c_cfg c) (pinit (c_cfg c) (c_fm c) (c_fc c) (c_ft c)) (map (fun s => ev_of (c_win c) (fst s)) (c_steps c))).

Definition trace_eqb (a b : list (list out)) : bool := list_eqb (list_eqb out_eqb) a b.
