(* Correspondence + spec evaluation for the processor family.
   result code: bit0 model<>impl; bit1 spec false on impl trace; bit2 spec false on model trace.
   Which spec predicates are evaluated is chosen per property (the [which] argument) so that
   a violation is attributed to the property whose predicate fails. *)
From Coq Require Import List ZArith Bool Arith.
From TR Require Export corr.Proc model.ProcAbs model.ProcSpec.
Import ListNotations.
Open Scope Z_scope.

Definition steps_of (c : case) (tr : list (list out)) : list step :=
  combine (map (fun s => ev_of (c_win c) (fst s)) (c_steps c)) tr.

Definition nowin (c : case) : bool := no_window (c_win c).

(* which: 1 C01, 2 C02, 3 C03, 4 C04, 12 C12, 13 C13, 17 C17 *)
(* the harness marks a bad frame that Process() did not report as *lepton3.BadFrameErr (handleConn
   would then neither raise the bad-thermal-frame event nor ask for a camera restart), an error
   returned for a valid frame, and a recovered Go panic, with a Panic element *)
Definition no_panic_mark (st : list step) : bool :=
  forallb (fun s => forallb (fun o => match o with Panic => false | _ => true end) (snd s)) st.

Definition spec (which : Z) (c : case) (tr : list (list out)) : bool :=
  let st := steps_of c tr in
  (* C01-C03 are claimed for runs in which no write on the motion sink fails (nowf) *)
  if which =? 1 then negb (nowf st) || (S01 st && S02 (c_cfg c) st)
  else if which =? 2 then negb (nowf st) || S02 (c_cfg c) st
  else if which =? 3 then negb (nowf st) || S03 (c_cfg c) st
  else if which =? 4 then S04 (c_cfg c) (nowin c) st
  else if which =? 12 then S12 st && ((c_tail c <? 0) || S12_recovers (Z.to_nat (c_tail c)) st)
  else if which =? 13 then S13 (c_cfg c) st && no_panic_mark st
  else if which =? 17 then S17c (c_cfg c) st && S17t st
  else true.

(* Per property, model and implementation are compared on the projection of the trace that
   the property speaks about, so that a divergence elsewhere is attributed elsewhere:
     C01/C02: the motion sink's starts, stops and written ids;
     C03: per event, whether a motion recording started / stopped (ids erased);
     C04: window consultations, gate calls and stops;
     C12: every call on every sink with ids erased, and panics;
     C13: everything (bad frames interact with all three sinks and with ids);
     C17: the continuous and test sinks. *)
Definition erase_id (x : out) : out :=
  match x with Call s (Write _) f => Call s (Write 0) f | _ => x end.

Definition proj (which : Z) (o : list out) : list out :=
  if (which =? 1) || (which =? 2) then
    filter (fun x => match x with Call SMotion Check _ => false | Call SMotion _ _ => true | _ => false end) o
  else if which =? 3 then
    filter (fun x => match x with Call SMotion Start false | Call SMotion Stop _ => true | _ => false end) o
  else if which =? 4 then
    filter (fun x => match x with Call SMotion (Write _) _ => false | Call SMotion _ _ | WinQ _ => true | _ => false end) o
  else if which =? 12 then
    map erase_id (filter (fun x => match x with Call _ _ _ | Panic => true | _ => false end) o)
  else if which =? 17 then
    filter (fun x => match x with Call SConst _ _ | Call STest _ _ => true | _ => false end) o
  else o.

Definition check_which (which : Z) (c : case) : Z :=
  let m := model_trace c in
  let i := map snd (c_steps c) in
  code (trace_eqb (map (proj which) m) (map (proj which) i)) (spec which c i) (spec which c m).

Definition explain (c : case) :=
  let m := model_trace c in
  let k := first_diff (list_eqb out_eqb) m (map snd (c_steps c)) 0 in
  (k, nth (Z.to_nat k) (c_steps c) (HBad, []), nth (Z.to_nat k) m [],
   map (fun w => (w, spec w c (map snd (c_steps c)))) [1; 2; 3; 4; 12; 13; 17]).
