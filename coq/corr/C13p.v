From Coq Require Import ZArith.
From TR Require Export corr.Parse.
Definition check (c : case) : Z := check_parse c.
Definition explain (c : case) := explain_parse c.
