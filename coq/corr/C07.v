From Coq Require Import ZArith.
From TR Require Export corr.Det.
Definition check (c : case) : Z := check_which 7%Z c.
