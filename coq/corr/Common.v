(* Shared helpers for the correspondence files: decidable equality on traces
   and the result code printed per case.
     bit 0 (1): model trace <> implementation trace
     bit 1 (2): the property's spec predicate is false on the implementation's trace
     bit 2 (4): the property's spec predicate is false on the model's trace (cannot happen
                while the theorems compile; kept as a cross-check of the spec evaluator)
     bit 3 (8): the translated source (coq/translated, regenerated from /repo) run on this
                input departs from the hand-written model (the source tie is broken here)
     bit 4 (16): the property's spec predicate is false on the translated source's trace
                (a concrete failing input found on the model side) *)
From Coq Require Import List ZArith Bool.
Import ListNotations.
Open Scope Z_scope.

Fixpoint list_eqb {A} (eqb : A -> A -> bool) (a b : list A) : bool :=
  match a, b with
  | [], [] => true
  | x :: a', y :: b' => eqb x y && list_eqb eqb a' b'
  | _, _ => false
  end.

Definition zlist_eqb := list_eqb Z.eqb.

Definition code (model_eq spec_impl spec_model : bool) : Z :=
  (if model_eq then 0 else 1) + (if spec_impl then 0 else 2) + (if spec_model then 0 else 4).

Definition code_src (src_eq spec_src : bool) : Z :=
  (if src_eq then 0 else 8) + (if spec_src then 0 else 16).

Fixpoint first_diff {A} (eqb : A -> A -> bool) (a b : list A) (i : Z) : Z :=
  match a, b with
  | [], [] => -1
  | x :: a', y :: b' => if eqb x y then first_diff eqb a' b' (i + 1) else i
  | _, _ => i
  end.
