(* Source-run comparison for the detector family (see corr/ProcSrc.v for why it is a separate module). *)
From Coq Require Import List ZArith Bool Arith.
From Coq Require Import Floats.SpecFloat.
From TR Require Export corr.Det.
From TR Require Import translated.MotionDetector model.DetExt.
Import ListNotations.
Open Scope Z_scope.

(* the translated motion.go (coq/translated/MotionDetector.v) run on the same events *)
Definition source_obs (c : dcfg) (evs : list dev) : list obs :=
  map (fun mdw => match mdw with (m, d, w) =>
         mkO m (motionDetector_tempThresh d) (motionDetector_backgroundFrames d)
             (if d_dynamic c then flat c (f_pix (dframe w (H_BG c))) else [])
             (if d_dynamic c then wsum c (dw_wts w) else 0) end)
      (src_dtrace c evs).

Definition check_src_which (which : Z) (c : case) : Z :=
  let m1 := model_obs (c_cfg c) (dinit (c_cfg c)) (devs c (c_steps c)) in
  let m2 := model_obs (c_cfg c) (dinit (c_cfg c)) (devs c (c_steps2 c)) in
  let s1 := source_obs (c_cfg c) (devs c (c_steps c)) in
  let s2 := source_obs (c_cfg c) (devs c (c_steps2 c)) in
  code_src (list_eqb obs_eqb s1 m1 && list_eqb obs_eqb s2 m2) (spec which c s1 s2).
