(* Correspondence for C20: histories run on the real LogLimiter (clock injected,
   log output captured).  Observation per message: 0 = nothing printed,
   1 = exactly the message printed (unmodified, one line), 2 = anything else. *)
From Coq Require Import List ZArith Bool Arith.
From TR Require Export model.LogLimiter corr.Common.
Import ListNotations.
Open Scope Z_scope.

Record case := mkCase { c_interval : Z; c_hist : list (Z * Z); c_obs : list Z }.

Definition bits_of_obs (o : list Z) : list bool := map (fun x => negb (x =? 0)) o.
Definition obs_of_bits (b : list bool) : list Z := map (fun x : bool => if x then 1 else 0) b.

Definition check (c : case) : Z :=
  let mdl := lrun (c_interval c) linit (c_hist c) in
  code (zlist_eqb (obs_of_bits mdl) (c_obs c))
       (spec_log (c_interval c) (c_hist c) (bits_of_obs (c_obs c)) && forallb (fun x => x <? 2) (c_obs c))
       (spec_log (c_interval c) (c_hist c) mdl).

Definition explain (c : case) :=
  let mdl := obs_of_bits (lrun (c_interval c) linit (c_hist c)) in
  (first_diff Z.eqb mdl (c_obs c) 0, mdl).
