(* Correspondence for C20: histories run on the real LogLimiter (clock injected,
   log output captured).  Observation per message: 0 = nothing printed,
   1 = exactly the message printed (unmodified, one line), 2 = anything else. *)
From Coq Require Import List ZArith Bool Arith.
From TR Require Export model.LogLimiter corr.Common.
From Coq Require Import String Ascii.
From TR Require Import model.ThrExt.
Import ListNotations.
Open Scope Z_scope.

Record case := mkCase { c_interval : Z; c_hist : list (Z * Z); c_obs : list Z }.

Definition bits_of_obs (o : list Z) : list bool := map (fun x => negb (x =? 0)) o.
Definition obs_of_bits (b : list bool) : list Z := map (fun x : bool => if x then 1 else 0) b.

(* the translated loglimiter.go run on the same history; message k is the string of k 'm's *)
Fixpoint mname (n : nat) : string := match n with O => EmptyString | S k => String "m"%char (mname k) end.
Definition enc (m : Z) : string := mname (Z.to_nat m).
Definition source_obs (c : case) : list Z :=
  map (fun om => match fst om with
                 | [] => 0
                 | [l] => if String.eqb l (enc (fst (snd om))) then 1 else 2
                 | _ => 2
                 end)
      (combine (src_lrun enc (ll_init (c_interval c)) (c_hist c)) (c_hist c)).

Definition check (c : case) : Z :=
  let mdl := lrun (c_interval c) linit (c_hist c) in
  let src := source_obs c in
  code (zlist_eqb (obs_of_bits mdl) (c_obs c))
       (spec_log (c_interval c) (c_hist c) (bits_of_obs (c_obs c)) && forallb (fun x => x <? 2) (c_obs c))
       (spec_log (c_interval c) (c_hist c) mdl)
  + code_src (zlist_eqb src (obs_of_bits mdl))
             (spec_log (c_interval c) (c_hist c) (bits_of_obs src) && forallb (fun x => x <? 2) src).

Definition explain (c : case) :=
  let mdl := obs_of_bits (lrun (c_interval c) linit (c_hist c)) in
  (first_diff Z.eqb mdl (c_obs c) 0, mdl).
