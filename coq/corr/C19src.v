(* Source-run comparison for C19 (see corr/ProcSrc.v for why it is a separate module). *)
From Coq Require Import List ZArith Bool Arith.
From TR Require Export corr.C19.
From TR Require Import model.RingExt.
Import ListNotations.
Open Scope Z_scope.

(* the translated frameloop.go run on the same ops *)
Definition source_trace (c : case) : list obs :=
  map (fun o => match o with (h, old, rc, cur) => mkObs h old rc cur end)
      (src_ring_run (c_sz c) (map fst (c_steps c))).

Definition check_src (c : case) : Z :=
  let ops := map fst (c_steps c) in
  let mdl := model_trace (new_ring (c_sz c) 0) ops in
  let src := source_trace c in
  code_src (list_eqb obs_eqb src mdl)
           (spec_trace (Z.to_nat (c_sz c)) (ghost0 Z) 0 (combine ops src)).
