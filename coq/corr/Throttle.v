(* Correspondence for C05 / C06: call schedules run on the real ThrottledRecorder (scripted
   ratelimit.Clock, scripted base recorder); bucket parameters read from the real bucket. *)
From Coq Require Import List ZArith Bool Arith.
From TR Require Export model.Throttle model.ThrottleSpec corr.Common.
Import ListNotations.
Open Scope Z_scope.

Record case := mkCase {
  c_cap : Z; c_q : Z; c_fi : Z; c_minlen : Z;
  c_bucket_frames : Z; c_minframes : Z; c_refill : Z;
  c_conforming : bool; c_faults : list bool;
  c_steps : list (ucall * list tout)
}.

Definition model_trace (c : case) : list (list tout) :=
  thrun (th_init (c_cap c) (c_q c) (c_fi c) (c_minlen c) (c_faults c)) (map fst (c_steps c)).

Definition trace_eqb := list_eqb touts_eqb.

Definition spec05 (c : case) (tr : list (list tout)) : bool :=
  let st := combine (map fst (c_steps c)) tr in
  (c_cap c =? c_bucket_frames c) && (c_minlen c =? c_minframes c) &&
  rate_ok (c_q c) (c_fi c) (c_minframes c) (c_refill c) &&
  (negb (monotone (map fst (c_steps c))) ||
   (S05 (c_cap c) (c_q c) (c_fi c) st &&
    (* the bound as the property states it, from the configured sizes only *)
    S05sec (c_bucket_frames c) (c_minframes c) (c_refill c) st)).

Definition spec06 (c : case) (tr : list (list tout)) : bool :=
  let st := combine (map fst (c_steps c)) tr in
  (* the restart guard is the configured minimum clip, (min-secs + preview-secs) * fps frames *)
  (c_minlen c =? c_minframes c) &&
  (negb (c_conforming c) || negb (conforming st) || negb (monotone (map fst (c_steps c))) || S06 (c_minlen c) st).

Definition check05 (c : case) : Z :=
  let m := model_trace c in let i := map snd (c_steps c) in
  code (trace_eqb m i) (spec05 c i) true.
Definition check06 (c : case) : Z :=
  let m := model_trace c in let i := map snd (c_steps c) in
  code (trace_eqb m i) (spec06 c i) (spec06 c m).

Definition explain (c : case) :=
  let m := model_trace c in
  let k := first_diff touts_eqb m (map snd (c_steps c)) 0 in
  (k, nth (Z.to_nat k) (c_steps c) (UCheck, []), nth (Z.to_nat k) m [],
   spec05 c (map snd (c_steps c)), spec06 c (map snd (c_steps c)), conforming (c_steps c), monotone (map fst (c_steps c))).
