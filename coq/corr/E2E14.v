From Coq Require Import ZArith.
From TR Require Export corr.E2E.
Definition check (c : case) : Z := check_which 14%Z c.
