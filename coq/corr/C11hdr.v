(* Correspondence for C11, header / frame fields: the real go-cptv Writer's header section and
   frame fields (from the gunzipped file) against the model's field lists. *)
From Coq Require Import List ZArith Bool Arith.
From TR Require Export model.Writer model.Cptv corr.Common.
Import ListNotations.
Open Scope Z_scope.

Record case := mkCase { c_hi : header_in; c_fi : frame_in; c_start_err : bool; c_header_bytes : list Z; c_frame_fields : list Z }.

(* Compress() patches the values of the first three fields (frame count, max, min) afterwards *)
Definition mask_counts (b : list Z) : list Z :=
  firstn 7 b ++ [2; 74; 0; 0; 2; 75; 0; 0; 2; 81; 0; 0] ++ skipn 19 b.

(* bit width and frame size of the frame are whatever the codec produced: masked (fields 5, 6) *)
Definition frame_fields_masked (f : frame_in) (impl : list Z) : list Z :=
  let fs := frame_fields f in
  enc_fields (firstn 4 fs) ++ skipn (length (enc_fields (firstn 4 fs))) impl.

Definition check (c : case) : Z :=
  match header_fields (c_hi c) with
  | None => code (c_start_err c) (c_start_err c) true
  | Some fs =>
    let hb := [67; 80; 84; 86; 2; 72; Z.of_nat (length fs)] ++ enc_fields fs in
    code (negb (c_start_err c) && zlist_eqb hb (mask_counts (c_header_bytes c)) &&
          zlist_eqb (frame_fields_masked (c_fi c) (c_frame_fields c)) (c_frame_fields c))
         (negb (c_start_err c) &&
          (* reader side: the implementation's own bytes parse, and the view is the expected one
             whenever the inputs are within the casts' ranges *)
          match parse_fields (Z.to_nat (nth 6 (c_header_bytes c) 0)) (skipn 7 (mask_counts (c_header_bytes c))) with
          | Some (pfs, []) =>
            let v := view pfs in let e := expected_view (c_hi c) in
            zlist_eqb (hv_devname v) (hv_devname e) && zlist_eqb (hv_motion v) (hv_motion e) &&
            zlist_eqb (hv_brand v) (hv_brand e) && zlist_eqb (hv_model v) (hv_model e) && zlist_eqb (hv_firmware v) (hv_firmware e) &&
            (hv_resx v =? hv_resx e) && (hv_resy v =? hv_resy e) && (hv_timestamp_us v =? hv_timestamp_us e) &&
            (hv_lat_bits v =? hv_lat_bits e) && (hv_long_bits v =? hv_long_bits e) && (hv_alt_bits v =? hv_alt_bits e) &&
            (hv_acc_bits v =? hv_acc_bits e) && (hv_locts_us v =? hv_locts_us e) && Bool.eqb (hv_has_background v) (hv_has_background e) &&
            (* casts: compared modulo their width *)
            (hv_fps v =? hv_fps e mod 256) && (hv_preview v =? hv_preview e mod 256) &&
            (hv_serial v =? hv_serial e mod 2 ^ 32) && (hv_devid v =? hv_devid e mod 2 ^ 32)
          | _ => false
          end)
         true
  end.

Definition explain (c : case) := (header_fields (c_hi c), c_header_bytes c).
