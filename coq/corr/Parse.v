(* Correspondence for the parser half of C13: raw frames through the real lepton3.ParseRawFrame
   and convertRawBosonFrame (driver binary built from /repo with -tags verif). *)
From Coq Require Import List ZArith Bool Arith.
From TR Require Export model.Detector model.Parse corr.Common.
Import ListNotations.
Open Scope Z_scope.

Record pobs := mkPO {
  po_bad : bool; po_pix : list Z; po_timeon : Z; po_ffcstate : Z; po_framecount : Z; po_framemean : Z;
  po_tempc_bits : Z; po_lastffctempc_bits : Z; po_lastffc : Z
}.

Record case := mkCase { c_fmt : fmt; c_h : nat; c_w : nat; c_edge : nat; c_raw : list Z; c_obs : pobs }.

Definition flat (h w : nat) (g : grid) : list Z := map (fun yx => gget g (fst yx) (snd yx)) (coords h w).

Definition model_obs (c : case) : pobs :=
  let p := parse_raw (c_fmt c) (c_raw c) (c_h c) (c_w c) (c_edge c) (gbuild (c_h c) (c_w c) (fun _ _ => 0)) in
  let t := p_tel p in
  mkPO (p_bad p) (flat (c_h c) (c_w c) (p_pix p)) (t_timeon t) (t_ffcstate t) (t_framecount t) (t_framemean t)
       (f64_bits (t_tempc t)) (f64_bits (t_lastffctempc t)) (t_lastffc t).

Definition pobs_eqb (a b : pobs) : bool :=
  Bool.eqb (po_bad a) (po_bad b) && zlist_eqb (po_pix a) (po_pix b) && (po_timeon a =? po_timeon b) &&
  (po_ffcstate a =? po_ffcstate b) && (po_framecount a =? po_framecount b) && (po_framemean a =? po_framemean b) &&
  (po_tempc_bits a =? po_tempc_bits b) && (po_lastffctempc_bits a =? po_lastffctempc_bits b) && (po_lastffc a =? po_lastffc b).

(* the spec on an observation: bad iff some non-border pixel is zero; if not bad every pixel is
   the 16-bit value at its offset *)
Definition spec (c : case) (o : pobs) : bool :=
  Bool.eqb (po_bad o) (has_bad_pixel (c_fmt c) (c_raw c) (c_h c) (c_w c) (c_edge c)) &&
  (po_bad o || zlist_eqb (po_pix o) (map (fun yx => raw_pixel (c_fmt c) (c_raw c) (c_w c) (fst yx) (snd yx)) (coords (c_h c) (c_w c)))).

Definition check_parse (c : case) : Z :=
  code (pobs_eqb (model_obs c) (c_obs c)) (spec c (c_obs c)) (spec c (model_obs c)).

Definition explain_parse (c : case) := (model_obs c, spec c (c_obs c)).
