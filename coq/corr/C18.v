(* Correspondence for C18: frames sent through the real thermal-writer (driver binary built
   from /repo with -tags verif) and the files it wrote. *)
From Coq Require Import List ZArith Bool Arith.
From TR Require Export model.Writer corr.Common.
Import ListNotations.
Open Scope Z_scope.

Record case := mkCase {
  c_model : bytes; c_brand : bytes; c_fps : Z; c_resx : Z; c_resy : Z; c_devname : bytes; c_devid : Z;
  c_frames : list bytes; c_files : list bytes
}.

Definition lb_eqb := list_eqb zlist_eqb.

(* the 8 timestamp bytes of a file: the data of its first field *)
Definition ts_of (file : bytes) : bytes := firstn 8 (skipn 9 file).

Definition expected_file (c : case) (ts : bytes) (frames : list bytes) : bytes :=
  enc_file (thermal_raw_header ts (c_model c) (c_brand c) (c_fps c) (c_resx c) (c_resy c) (c_devname c) (c_devid c)) frames.

(* model: a single connection shorter than the rotation interval gives one file holding
   every frame (flush theorem: schedule-independent) *)
Definition model_eq (c : case) : bool :=
  match c_files c with
  | [f] => zlist_eqb f (expected_file c (ts_of f) (c_frames c))
  | _ => true   (* a rotation happened (run crossed the minute tick): judged by the spec only *)
  end.

(* spec: every file is well-formed (parses; equals the encoding of its own header and frames),
   and the frames of all files, in file order, are exactly the frames sent *)
Definition spec (c : case) : bool :=
  let parsed := map parse_file (c_files c) in
  forallb (fun p => match p with Some _ => true | None => false end) parsed &&
  lb_eqb (flat_map (fun p => match p with Some (_, fr) => fr | None => [] end) parsed) (c_frames c) &&
  forallb (fun f => match parse_file f with
                    | Some (_, fr) => zlist_eqb f (expected_file c (ts_of f) fr)
                    | None => false end) (c_files c) &&
  negb (match c_files c with [] => true | _ => false end).

Definition check (c : case) : Z := code (model_eq c) (spec c) true.
Definition explain (c : case) := (length (c_files c), map (fun f => match parse_file f with Some (h, fr) => Some (length h, length fr) | None => None end) (c_files c)).
