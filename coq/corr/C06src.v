From Coq Require Import ZArith.
From TR Require Export corr.ThrottleSrc.
Definition check_src (c : case) : Z := check_src06 c.
