(* C01 / C02: every motion recording is a gap-free, duplicate-free, in-order run of ids;
   recordings tile; a recording triggered at t starts at max (t-(size-1)) (E+1). *)
From Coq Require Import List ZArith Bool Arith Lia.
From TR Require Import model.Ring model.RingSpec model.Processor model.ProcAbs model.ProcSpec proofs.ProcRefine.
Import ListNotations.
Open Scope Z_scope.

From Coq Require Import ZifyBool ZifyNat.

(* ------------------------------------------------------------------ *)
(* the trace as a direct recursion over the three machines              *)

Fixpoint ztrace (c : pcfg) (a : astate) (cs : cstate) (ts : tstate) (evs : list ev)
  : list (ev * list out) :=
  match evs with
  | [] => []
  | e :: t =>
    (e, snd (astep c a e) ++ snd (cstep c cs e) ++ snd (tstep ts e))
      :: ztrace c (fst (astep c a e)) (fst (cstep c cs e)) (fst (tstep ts e)) t
  end.

Lemma combine_zip3_ztrace : forall c evs a cs ts,
    combine evs (zip3 (arun c a evs) (crun c cs evs) (trun ts evs)) = ztrace c a cs ts evs.
Proof.
  intros c evs; induction evs as [|e t IH]; intros a cs ts.
  - reflexivity.
  - cbn [arun crun trun ztrace].
    destruct (astep c a e) as [a' oa].
    destruct (cstep c cs e) as [cs' oc].
    destruct (tstep ts e) as [ts' ot].
    cbn [zip3 combine fst snd]. rewrite IH. reflexivity.
Qed.

Lemma psteps_ztrace : forall c fm fc ft evs,
    1 <= p_size c -> wf_ids 0 evs ->
    psteps c fm fc ft evs = ztrace c (ainit fm) (cinit fc) (tinit ft) evs.
Proof.
  intros c fm fc ft evs Hsz Hwf.
  unfold psteps, pinit.
  rewrite prun_zip3, (mrun_arun c fm evs Hsz Hwf).
  apply combine_zip3_ztrace.
Qed.

(* ------------------------------------------------------------------ *)
(* outputs of the other two machines are invisible to the monitors      *)

Definition noise (x : out) : bool :=
  match x with Call SMotion _ _ => false | _ => true end.

Lemma const_noise : forall l, forallb is_const_out l = true -> forallb noise l = true.
Proof.
  induction l as [|x l IH]; cbn [forallb]; intros H; [reflexivity|].
  apply andb_true_iff in H as [Hx Hl]. rewrite (IH Hl), andb_true_r.
  destruct x as [s ? ?| | | | |]; try discriminate; destruct s; try discriminate; reflexivity.
Qed.

Lemma test_noise : forall l, forallb is_test_out l = true -> forallb noise l = true.
Proof.
  induction l as [|x l IH]; cbn [forallb]; intros H; [reflexivity|].
  apply andb_true_iff in H as [Hx Hl]. rewrite (IH Hl), andb_true_r.
  destruct x as [s ? ?| | | | |]; try discriminate; destruct s; try discriminate; reflexivity.
Qed.

Lemma noise_writes : forall l, forallb noise l = true -> writes_of SMotion l = [].
Proof.
  induction l as [|x l IH]; cbn [forallb]; intros H; [reflexivity|].
  apply andb_true_iff in H as [Hx Hl].
  unfold writes_of in *. cbn [flat_map]. rewrite (IH Hl).
  destruct x as [s k ?| | | | |]; try reflexivity.
  destruct s; try discriminate; destruct k; reflexivity.
Qed.

Lemma noise_start : forall l, forallb noise l = true -> has_start_ok SMotion l = false.
Proof.
  induction l as [|x l IH]; cbn [forallb]; intros H; [reflexivity|].
  apply andb_true_iff in H as [Hx Hl].
  unfold has_start_ok in *. cbn [existsb]. rewrite (IH Hl), orb_false_r.
  destruct x as [s k f| | | | |]; try reflexivity.
  destruct s; try discriminate; destruct k; try reflexivity; destruct f; reflexivity.
Qed.

Lemma noise_stop : forall l, forallb noise l = true -> has_stop SMotion l = false.
Proof.
  induction l as [|x l IH]; cbn [forallb]; intros H; [reflexivity|].
  apply andb_true_iff in H as [Hx Hl].
  unfold has_stop in *. cbn [existsb]. rewrite (IH Hl), orb_false_r.
  destruct x as [s k f| | | | |]; try reflexivity.
  destruct s; try discriminate; destruct k; reflexivity.
Qed.

Lemma noise_s01 : forall l st, forallb noise l = true -> fold_left s01_out l st = st.
Proof.
  induction l as [|x l IH]; cbn [forallb fold_left]; intros st H; [reflexivity|].
  apply andb_true_iff in H as [Hx Hl]. rewrite (IH _ Hl).
  destruct x as [s k f| | | | |]; try reflexivity.
  destruct s; try discriminate; destruct k; reflexivity.
Qed.

Lemma writes_of_app : forall s a b, writes_of s (a ++ b) = writes_of s a ++ writes_of s b.
Proof. intros; unfold writes_of; apply flat_map_app. Qed.

Lemma has_start_ok_app : forall s a b, has_start_ok s (a ++ b) = has_start_ok s a || has_start_ok s b.
Proof. intros; unfold has_start_ok; apply existsb_app. Qed.

Lemma has_stop_app : forall s a b, has_stop s (a ++ b) = has_stop s a || has_stop s b.
Proof. intros; unfold has_stop; apply existsb_app. Qed.

Lemma s02_step_noise : forall c st e o l,
    forallb noise l = true -> s02_step c st (e, o ++ l) = s02_step c st (e, o).
Proof.
  intros c st e o l H. unfold s02_step.
  rewrite writes_of_app, has_start_ok_app, has_stop_app.
  rewrite (noise_writes l H), (noise_start l H), (noise_stop l H).
  rewrite app_nil_r, !orb_false_r. reflexivity.
Qed.

Lemma s01_noise : forall st o l,
    forallb noise l = true -> fold_left s01_out (o ++ l) st = fold_left s01_out o st.
Proof. intros st o l H. rewrite fold_left_app. apply noise_s01; exact H. Qed.

(* ------------------------------------------------------------------ *)
(* runs of consecutive writes                                           *)

Definition nowfp (x : out) : bool :=
  match x with Call SMotion (Write _) true => false | _ => true end.

Definition W (id : Z) : out := Call SMotion (Write id) false.

Lemma write_pre_cons2 : forall x y r f,
    write_pre (x :: y :: r) f =
    let (failed, f') := pop f in
    if failed then (false, f', [Call SMotion (Write x) true])
    else let '(ok, f'', o) := write_pre (y :: r) f' in
         (ok, f'', Call SMotion (Write x) false :: o).
Proof. reflexivity. Qed.

Lemma write_pre_ok : forall k lo f,
    forallb nowfp (snd (write_pre (zseq lo (S k)) f)) = true ->
    exists f', write_pre (zseq lo (S k)) f = (true, f', map W (zseq lo k)).
Proof.
  induction k as [|k IH]; intros lo f H.
  - exists f. reflexivity.
  - change (zseq lo (S (S k))) with (lo :: (lo + 1) :: zseq (lo + 1 + 1) k) in *.
    rewrite write_pre_cons2 in *.
    change ((lo + 1) :: zseq (lo + 1 + 1) k) with (zseq (lo + 1) (S k)) in *.
    change (zseq lo (S k)) with (lo :: zseq (lo + 1) k).
    destruct (pop f) as [failed f1].
    destruct failed.
    + cbn in H. discriminate.
    + specialize (IH (lo + 1) f1).
      destruct (write_pre (zseq (lo + 1) (S k)) f1) as [[ok f2] o] eqn:E.
      cbn [snd forallb nowfp] in H.
      destruct (IH H) as [f' Hf']. inversion Hf'; subst.
      exists f'. reflexivity.
Qed.

Lemma writes_of_W : forall l, writes_of SMotion (map W l) = l.
Proof.
  induction l as [|x l IH]; [reflexivity|].
  unfold writes_of in *. cbn [map flat_map W]. cbn [W] in IH. rewrite IH. reflexivity.
Qed.

Lemma start_W : forall l, has_start_ok SMotion (map W l) = false.
Proof. induction l as [|x l IH]; [reflexivity|]. unfold has_start_ok in *. cbn. exact IH. Qed.

Lemma stop_W : forall l, has_stop SMotion (map W l) = false.
Proof. induction l as [|x l IH]; [reflexivity|]. unfold has_stop in *. cbn. exact IH. Qed.

Lemma zseq_snoc : forall k lo, zseq lo k ++ [lo + Z.of_nat k] = zseq lo (S k).
Proof.
  induction k as [|k IH]; intros lo.
  - cbn [zseq app Z.of_nat]. rewrite Z.add_0_r. reflexivity.
  - change (zseq lo (S (S k))) with (lo :: zseq (lo + 1) (S k)).
    change (zseq lo (S k)) with (lo :: zseq (lo + 1) k).
    rewrite <- (IH (lo + 1)). cbn [app]. do 3 f_equal. lia.
Qed.

Lemma zlist_eq_refl : forall l, zlist_eq l l = true.
Proof. induction l as [|x l IH]; [reflexivity|]. cbn [zlist_eq]. rewrite Z.eqb_refl, IH. reflexivity. Qed.

Lemma last_zseq : forall k lo d, last (zseq lo (S k)) d = lo + Z.of_nat k.
Proof.
  intros k lo d. rewrite <- zseq_snoc. apply last_last.
Qed.

Lemma s01_run : forall k p ok,
    fold_left s01_out (map W (zseq (p + 1) k)) (mk01 p false ok) = mk01 (p + Z.of_nat k) false ok.
Proof.
  induction k as [|k IH]; intros p ok.
  - cbn [zseq map fold_left Z.of_nat]. rewrite Z.add_0_r. reflexivity.
  - cbn [zseq map fold_left W s01_out s01_prev s01_first s01_ok].
    rewrite Z.eqb_refl, andb_true_r.
    change (Call SMotion (Write ?x) false) with (W x) in *.
    fold W. rewrite IH. f_equal. lia.
Qed.

(* ------------------------------------------------------------------ *)
(* the monitors on the outputs of a start event                          *)

Definition start_pre : list out :=
  [LMotion; WinQ true; Call SMotion Check false; Call SMotion Start false; LStarted].

Lemma mon_start : forall c prev first open last id m w lo k post stopped,
    (post = [] /\ stopped = false) \/
    (exists f, post = [LEnded; Call SMotion Stop f] /\ stopped = true) ->
    lo + Z.of_nat k = id ->
    lo = Z.max (id - (p_size c - 1)) (last + 1) ->
    open = false -> prev = last ->
    let o := start_pre ++ map W (zseq lo (S k)) ++ post in
    s02_step c (mk02 open last true) (EFrame id m w, o) = mk02 (negb stopped) id true /\
    fold_left s01_out o (mk01 prev first true) = mk01 id false true.
Proof.
  intros c prev first open last id m w lo k post stopped Hpost Hid Hlo Hopen Hprev o.
  subst open prev.
  assert (Hw : writes_of SMotion o = zseq lo (S k)).
  { unfold o. rewrite !writes_of_app, writes_of_W.
    destruct Hpost as [[-> _]|[f [-> _]]]; cbn [start_pre writes_of flat_map app]; apply app_nil_r. }
  assert (Hs : has_start_ok SMotion o = true) by reflexivity.
  assert (Hp : has_stop SMotion o = stopped).
  { unfold o. rewrite !has_stop_app, stop_W.
    destruct Hpost as [[-> ->]|[f [-> ->]]]; reflexivity. }
  split.
  - unfold s02_step. rewrite Hw, Hs, Hp.
    cbn [s02_open s02_last s02_ok negb orb andb].
    rewrite <- Hlo.
    replace (Z.to_nat (id - lo + 1)) with (S k) by lia.
    rewrite zlist_eq_refl, last_zseq, Hid. reflexivity.
  - unfold o. rewrite !fold_left_app.
    cbn [start_pre fold_left s01_out s01_prev s01_first s01_ok].
    change (zseq lo (S k)) with (lo :: zseq (lo + 1) k).
    cbn [map fold_left W s01_out s01_prev s01_first s01_ok].
    fold W. rewrite s01_run.
    replace (last <? lo) with true by lia.
    rewrite Hid.
    destruct Hpost as [[-> _]|[f [-> _]]]; reflexivity.
Qed.

(* ------------------------------------------------------------------ *)
(* invariant between the abstract machine and the two monitors           *)

Definition Inv (a : astate) (st1 : s01) (st2 : s02) : Prop :=
  a_mark a <= a_n a /\
  s02_open st2 = a_rec a /\
  s02_last st2 + 1 = (if a_rec a then a_n a else a_mark a) /\
  s02_ok st2 = true /\
  s01_prev st1 = s02_last st2 /\
  (a_rec a = true -> s01_first st1 = false) /\
  s01_ok st1 = true.

Lemma ahistory_zseq : forall c mark id,
    1 <= p_size c -> mark <= id ->
    exists lo k, ahistory c mark id = zseq lo (S k) /\ lo + Z.of_nat k = id /\
                 lo = Z.max (id - (p_size c - 1)) mark.
Proof.
  intros c mark id Hsz Hm. unfold ahistory.
  exists (Z.max mark (id - p_size c + 1)), (Z.to_nat (id - Z.max mark (id - p_size c + 1))).
  split; [|split]; try lia.
  f_equal. lia.
Qed.

Local Arguments Z.add : simpl never.
Local Arguments Z.sub : simpl never.
Local Arguments Z.min : simpl never.
Local Arguments Z.max : simpl never.
Local Arguments Z.ltb : simpl never.
Local Arguments Z.geb : simpl never.
Local Arguments Z.eqb : simpl never.
Local Arguments Z.to_nat : simpl never.
Local Arguments zseq : simpl never.
Local Arguments ahistory : simpl never.
Local Arguments write_pre : simpl never.

Ltac aproj := cbn [a_n a_mark a_rec a_fw a_wu a_trig a_faults andb negb fst snd] in *.

Ltac fin :=
  cbn [fst snd app] in *;
  unfold Inv, s02_step, writes_of, has_start_ok, has_stop;
  cbn;
  repeat split; try lia; try (intros; discriminate); try (intros; lia).

Lemma start_case : forall c first last n m w lo k f2 ok f3 ow failed post stopped,
    write_pre (zseq lo (S k)) f2 = (ok, f3, ow) ->
    forallb nowfp ((start_pre ++ ow) ++ [Call SMotion (Write n) failed] ++ post) = true ->
    (post = [] /\ stopped = false) \/
    (exists f, post = [LEnded; Call SMotion Stop f] /\ stopped = true) ->
    lo + Z.of_nat k = n -> lo = Z.max (n - (p_size c - 1)) (last + 1) ->
    let o := (start_pre ++ ow) ++ [Call SMotion (Write n) failed] ++ post in
    ok = true /\
    s02_step c (mk02 false last true) (EFrame n m w, o) = mk02 (negb stopped) n true /\
    fold_left s01_out o (mk01 last first true) = mk01 n false true.
Proof.
  intros c first last n m w lo k f2 ok f3 ow failed post stopped Ew H Hpost Hid Hlo o.
  rewrite !forallb_app in H.
  apply andb_true_iff in H as [H H2]. apply andb_true_iff in H as [_ Hw].
  apply andb_true_iff in H2 as [Hf _].
  assert (failed = false) by (destruct failed; [discriminate|reflexivity]). subst failed.
  assert (Hw' : forallb nowfp (snd (write_pre (zseq lo (S k)) f2)) = true)
    by (rewrite Ew; exact Hw).
  destruct (write_pre_ok _ _ _ Hw') as [f' E']. rewrite Ew in E'.
  inversion E'; subst ok f3 ow. split; [reflexivity|].
  assert (Ho : o = start_pre ++ map W (zseq lo (S k)) ++ post).
  { unfold o. rewrite <- zseq_snoc, Hid, map_app, <- !app_assoc. reflexivity. }
  rewrite Ho. apply mon_start; auto.
Qed.

Lemma step_inv : forall c a e st1 st2,
    1 <= p_size c -> Inv a st1 st2 ->
    match e with EFrame id _ _ => id = a_n a | _ => True end ->
    forallb nowfp (snd (astep c a e)) = true ->
    Inv (fst (astep c a e))
        (fold_left s01_out (snd (astep c a e)) st1)
        (s02_step c st2 (e, snd (astep c a e))).
Proof.
  intros c [n mark rec fw wu trig faults] e [prev first ok1] [open last ok2] Hsz HI He H.
  unfold Inv in HI. cbn [a_n a_mark a_rec s02_open s02_last s02_ok s01_prev s01_first s01_ok] in HI.
  destruct HI as (Hmn & Hopen & Hlast & Hok2 & Hprev & Hfirst & Hok1).
  subst open ok2 ok1 prev.
  destruct e as [id motion win| | |].
  - subst id. unfold astep, aprocess in *. aproj.
    destruct motion.
    + destruct rec.
      * rewrite (Hfirst eq_refl) in *. aproj.
        destruct (pop faults) as [failed f'] eqn:Ep. aproj.
        destruct (fw + 1 >=? Z.min (fw + p_min c) (p_max c)) eqn:Eg.
        -- unfold astop in *. aproj.
           destruct (pop f') as [failed2 f''] eqn:Ep2.
           fin.
        -- fin.
      * destruct (trig + 1 <? p_trig c) eqn:Et; [aproj; fin|].
        destruct win; [|aproj; fin]. cbn [negb] in *.
        destruct (pop faults) as [cfail f1] eqn:Ep1.
        destruct cfail; [aproj; fin|].
        destruct (pop f1) as [sfail f2] eqn:Ep2.
        destruct sfail; [aproj; fin|].
        destruct (ahistory_zseq c mark n Hsz Hmn) as (lo & k & Hh & Hid & Hlo).
        rewrite Hh in *.
        destruct (write_pre (zseq lo (S k)) f2) as [[ok f3] ow] eqn:Ew.
        aproj.
        destruct (pop f3) as [failed f4] eqn:Ep3. aproj.
        destruct (fw + 1 >=? (if ok then p_min c else wu)) eqn:Eg.
        -- unfold astop in *. aproj.
           destruct (pop f4) as [failed2 f5] eqn:Ep4. aproj.
           change [LMotion; WinQ true; Call SMotion Check false; Call SMotion Start false; LStarted]
             with start_pre in *.
           destruct (start_case c first last n true true lo k f2 ok f3 ow failed
                       [LEnded; Call SMotion Stop failed2] true Ew H) as (_ & E2 & E1);
             [right; eauto|exact Hid|lia|].
           rewrite E2, E1. unfold Inv; cbn. repeat split; try lia; intros; discriminate.
        -- aproj.
           change [LMotion; WinQ true; Call SMotion Check false; Call SMotion Start false; LStarted]
             with start_pre in *.
           destruct (start_case c first last n true true lo k f2 ok f3 ow failed
                       [] false Ew H) as (_ & E2 & E1);
             [left; auto|exact Hid|lia|].
           rewrite E2, E1. unfold Inv; cbn. repeat split; try lia; intros; discriminate.
    + aproj. destruct rec.
      * rewrite (Hfirst eq_refl) in *. aproj.
        destruct (pop faults) as [failed f'] eqn:Ep. aproj.
        destruct (fw + 1 >=? wu) eqn:Eg.
        -- unfold astop in *. aproj.
           destruct (pop f') as [failed2 f''] eqn:Ep2.
           fin.
        -- fin.
      * aproj. fin.
  - unfold astep, astop in *. aproj. destruct rec; aproj.
    + destruct (pop faults) as [failed f'] eqn:Ep. fin.
    + fin.
  - unfold astep, astop in *. aproj. destruct rec; aproj.
    + destruct (pop faults) as [failed f'] eqn:Ep. fin.
    + fin.
  - unfold astep in *. destruct rec; fin.
Qed.

(* ------------------------------------------------------------------ *)
(* the whole run                                                        *)

Lemma wf_ids_step : forall c a e t,
    wf_ids (a_n a) (e :: t) ->
    match e with EFrame id _ _ => id = a_n a | _ => True end /\
    wf_ids (a_n (fst (astep c a e))) t.
Proof.
  intros c a e t H. rewrite an_step.
  destruct e as [id m w| | |]; cbn [wf_ids] in H.
  - destruct H as [-> H]. split; [reflexivity|exact H].
  - split; [exact I|exact H].
  - split; [exact I|exact H].
  - split; [exact I|exact H].
Qed.

Lemma run_inv : forall c evs a cs ts st1 st2,
    1 <= p_size c -> Inv a st1 st2 -> wf_ids (a_n a) evs ->
    forallb nowfp (flat_map snd (ztrace c a cs ts evs)) = true ->
    s01_ok (fold_left s01_out (flat_map snd (ztrace c a cs ts evs)) st1) = true /\
    s02_ok (fold_left (s02_step c) (ztrace c a cs ts evs) st2) = true.
Proof.
  intros c evs; induction evs as [|e t IH]; intros a cs ts st1 st2 Hsz HI Hwf H.
  - cbn [ztrace flat_map fold_left]. unfold Inv in HI. tauto.
  - cbn [ztrace flat_map fold_left snd] in *.
    destruct (wf_ids_step c a e t Hwf) as [He Hwf'].
    rewrite forallb_app in H. apply andb_true_iff in H as [He1 Ht].
    rewrite forallb_app in He1. apply andb_true_iff in He1 as [Ha _].
    assert (Hn : forallb noise (snd (cstep c cs e) ++ snd (tstep ts e)) = true).
    { rewrite forallb_app, (const_noise _ (cstep_outs_const c cs e)),
        (test_noise _ (tstep_outs_test ts e)). reflexivity. }
    rewrite fold_left_app, (s01_noise _ _ _ Hn), (s02_step_noise _ _ _ _ _ Hn).
    apply IH; auto.
    apply step_inv; auto.
Qed.

Theorem S01_S02_hold : forall c fm fc ft evs,
    1 <= p_size c -> wf_ids 0 evs ->
    let tr := psteps c fm fc ft evs in
    nowf tr = true ->
    S01 tr = true /\ S02 c tr = true.
Proof.
  intros c fm fc ft evs Hsz Hwf tr H.
  unfold tr, S01, S02, nowf in *.
  rewrite (psteps_ztrace c fm fc ft evs Hsz Hwf) in *.
  apply run_inv; auto.
  unfold Inv, ainit; cbn. repeat split; try lia.
Qed.
