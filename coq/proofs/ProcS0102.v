(* C01 / C02: every motion recording is a gap-free, duplicate-free, in-order run of ids;
   recordings tile; a recording triggered at t starts at max (t-(size-1)) (E+1). *)
From Coq Require Import List ZArith Bool Arith Lia.
From TR Require Import model.Ring model.RingSpec model.Processor model.ProcAbs model.ProcSpec proofs.ProcRefine.
Import ListNotations.
Open Scope Z_scope.

Theorem S01_S02_hold : forall c fm fc ft evs,
    1 <= p_size c -> wf_ids 0 evs ->
    let tr := psteps c fm fc ft evs in
    nowf tr = true ->
    S01 tr = true /\ S02 c tr = true.
Admitted.
