(* C05 in the units of the property text: from the tick-level bound (S05_holds) and the
   library's rate guarantee (rate_ok, validated against the real bucket on every run) to
     n <= bucket_frames + 2 + 1.010000001 * (minFrames / minRefill) * (b - a)
   for every window [a, b] of forwarded writes, for every request sequence. *)
From Coq Require Import List ZArith Bool Lia.
From TR Require Import model.Throttle model.ThrottleSpec proofs.BucketProofs proofs.ThrottleProofs.
Import ListNotations.
Open Scope Z_scope.

(* the successful takes of a sorted operation list happen at non-decreasing times *)
Lemma take_times_sorted : forall ops b lo,
    sorted_from lo (map bop_time ops) = true ->
    sorted_from lo (take_times (brun b ops)) = true.
Proof.
  induction ops as [|o r IH]; intros b lo Hs; [reflexivity|].
  cbn [map sorted_from] in Hs. apply andb_prop in Hs. destruct Hs as [Hle Hs].
  destruct o as [t|t]; cbn [bop_time] in *; cbn [brun].
  - destruct (available b t) as [b' k].
    rewrite take_times_cons. cbn [fst snd]. change (0 =? 1) with false. cbn [app].
    apply (sorted_from_weaken _ t); [apply Z.leb_le; exact Hle | apply IH; exact Hs].
  - destruct (take1 b t) as [b' k].
    rewrite take_times_cons. cbn [fst snd].
    destruct (k =? 1); cbn [app].
    + cbn [sorted_from]. rewrite Hle. cbn [andb]. apply IH; exact Hs.
    + apply (sorted_from_weaken _ t); [apply Z.leb_le; exact Hle | apply IH; exact Hs].
Qed.

Lemma win_sec_of_win : forall cap fi mf rf,
    1 <= fi -> 0 <= mf -> 0 < rf -> rate_ok 1 fi mf rf = true ->
    forall ts t0 lo cnt,
      t0 <= lo -> sorted_from lo ts = true ->
      win_from cap 1 fi t0 cnt ts = true ->
      win_from_sec cap mf rf t0 cnt ts = true.
Proof.
  intros cap fi mf rf Hfi Hmf Hrf Hrate.
  induction ts as [|t r IH]; intros t0 lo cnt Hlo Hs Hw; [reflexivity|].
  cbn [sorted_from] in Hs. apply andb_prop in Hs. destruct Hs as [Hle Hs].
  apply Z.leb_le in Hle.
  cbn [win_from] in Hw. apply andb_prop in Hw. destruct Hw as [Hb Hw].
  apply Z.leb_le in Hb.
  cbn [win_from_sec]. apply andb_true_intro; split.
  - apply Z.leb_le.
    assert (Hab : t0 <= t) by lia.
    assert (Hws := window_seconds cap 1 fi mf rf (cnt + 1) t0 t
                     ltac:(lia) Hfi Hmf Hrf Hab Hrate Hb).
    replace (cap + 2) with (cap + 1 + 1) by ring. exact Hws.
  - apply (IH t0 t (cnt + 1)); [lia | exact Hs | exact Hw].
Qed.

Lemma windows_sec_of_windows : forall cap fi mf rf,
    1 <= fi -> 0 <= mf -> 0 < rf -> rate_ok 1 fi mf rf = true ->
    forall ts lo,
      sorted_from lo ts = true ->
      windows_ok cap 1 fi ts = true ->
      windows_sec_ok cap mf rf ts = true.
Proof.
  intros cap fi mf rf Hfi Hmf Hrf Hrate.
  induction ts as [|t r IH]; intros lo Hs Hw; [reflexivity|].
  cbn [windows_ok] in Hw. apply andb_prop in Hw. destruct Hw as [Hw1 Hw2].
  cbn [windows_sec_ok]. apply andb_true_intro; split.
  - apply (win_sec_of_win cap fi mf rf Hfi Hmf Hrf Hrate (t :: r) t t 0); [lia | | exact Hw1].
    cbn [sorted_from] in *. apply andb_prop in Hs. destruct Hs as [_ Hs].
    rewrite Z.leb_refl. exact Hs.
  - cbn [sorted_from] in Hs. apply andb_prop in Hs. destruct Hs as [_ Hs].
    apply (IH t); assumption.
Qed.

Theorem S05sec_holds : forall cap fi minlen faults us minframes refill_ns,
    1 <= cap -> 1 <= fi -> 0 <= minframes -> 0 < refill_ns ->
    rate_ok 1 fi minframes refill_ns = true ->
    monotone us = true ->
    S05sec cap minframes refill_ns (thsteps cap 1 fi minlen faults us) = true.
Proof.
  intros cap fi minlen faults us mf rf Hcap Hfi Hmf Hrf Hrate Hmono.
  assert (H5 := S05_holds cap 1 fi minlen faults us Hcap ltac:(lia) Hfi Hmono).
  unfold S05sec, S05, thsteps in *.
  rewrite flat_map_snd_combine in * by apply thrun_length.
  rewrite thrun_sim in *.
  apply (windows_sec_of_windows cap fi mf rf Hfi Hmf Hrf Hrate _ 0); [|exact H5].
  apply take_times_sorted. apply bops_sorted. exact Hmono.
Qed.
