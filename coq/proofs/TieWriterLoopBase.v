(* Infrastructure for proofs/TieWriterLoop.v (the source tie of thermal-writer's two goroutines):
     x_* / xcall1      what every call answered by model/WriterLoopExt.v's handler [wext] does (one lemma per name);
     lifts_*           the CPTR builder's translated code (unit ThermalRaw) run under [wext] does to a world exactly
                       what it does under RawExt.rext to the embedded builder world - structural, one lemma per
                       function, so proofs/TieRaw.v's theorems apply unchanged (w_writeFrame_ok, w_newThermalRaw_ok);
     chan_at_*         channels by token;
     stream_frames_*   the frames of a byte stream.
   All Qed, no axioms. *)
From Coq Require Import String List ZArith Bool Arith Lia Permutation.
From Coq Require Import ZifyBool ZifyNat.
From TR Require Import model.GoSem model.Writer model.Socket model.Cptv model.RawExt translated.ThermalRaw translated.WriterLoop.
From TR Require Import model.WriterLoopExt proofs.WriterProofs proofs.SocketProofs proofs.TieRaw.
Import ListNotations.
Open Scope Z_scope.

Lemma all_WriterLoop_translated : untranslated_WriterLoop = [].
Proof. reflexivity. Qed.

(* ====================================================================================
   The calls answered by WriterLoopExt.wext
   ==================================================================================== *)
Section Calls.
  Context {B : Type}.
  Variable k : Z -> M wworld B.
  Variable w : wworld.

  Lemma x_recv c : bind (call_ext wext "chan.recv" [AInt c]) k w = k (fst (do_recv w c)) (snd (do_recv w c)).
  Proof. unfold bind, call_ext, wext. cbn [String.eqb Ascii.eqb Bool.eqb]. destruct (do_recv w c); reflexivity. Qed.
  Lemma x_recv1 : bind (call_ext wext "chan.recv#1" []) k w = k (wl_pend w) w.
  Proof. reflexivity. Qed.
  Lemma x_send c v : bind (call_ext wext "chan.send" [AInt c; AInt v]) k w = k (fst (do_send w c v)) (snd (do_send w c v)).
  Proof. unfold bind, call_ext, wext. cbn [String.eqb Ascii.eqb Bool.eqb]. destruct (do_send w c v); reflexivity. Qed.
  Lemma x_close c : bind (call_ext wext "chan.close" [AInt c]) k w = k (fst (do_close w c)) (snd (do_close w c)).
  Proof. unfold bind, call_ext, wext. cbn [String.eqb Ascii.eqb Bool.eqb]. destruct (do_close w c); reflexivity. Qed.
  Lemma x_len c : bind (call_ext wext "chan.len" [AInt c]) k w = k (fst (do_len w c)) w.
  Proof.
    unfold bind, call_ext, wext. cbn [String.eqb Ascii.eqb Bool.eqb]. unfold do_len.
    destruct (chan_at w c) as [[? ? ?|? ?]|]; reflexivity.
  Qed.
  Lemma x_select a : bind (call_ext wext "select" a) k w = k (fst (do_select w a)) (snd (do_select w a)).
  Proof. unfold bind, call_ext, wext. cbn [String.eqb Ascii.eqb Bool.eqb]. destruct (do_select w a); reflexivity. Qed.
  Lemma x_selv : bind (call_ext wext "select#value" []) k w = k (wl_val w) w.
  Proof. reflexivity. Qed.
  Lemma x_selok : bind (call_ext wext "select#ok" []) k w = k (wl_pend w) w.
  Proof. reflexivity. Qed.
  Lemma x_mkchan n : bind (call_ext wext "make:chan" [AInt n]) k w =
    k (Z.of_nat (List.length (wl_chans w))) (with_chans w (wl_chans w ++ [CFrames (Z.to_nat n) [] false])).
  Proof. reflexivity. Qed.
  Lemma x_after d : bind (call_ext wext "time.After" [AInt d]) k w =
    k (Z.of_nat (List.length (wl_chans w))) (with_chans w (wl_chans w ++ [CTimer d false])).
  Proof. reflexivity. Qed.
  Lemma x_now : bind (call_ext wext "time.Now" []) k w = k (hd 0 (wl_clock w)) (with_clock w (tl (wl_clock w))).
  Proof. reflexivity. Qed.
  Lemma x_mkbytes n : bind (call_ext wext "make:[]byte" [AInt n]) k w =
    k (Z.of_nat (List.length (rw_bytes (wl_raw w))))
      (with_raw w (with_bytes (wl_raw w) (rw_bytes (wl_raw w) ++ [repeat 0 (Z.to_nat n)]))).
  Proof. reflexivity. Qed.
  Lemma x_readfull r b : bind (call_ext wext "io.ReadFull" [AInt r; AInt b]) k w =
    k (fst (do_readfull w r b)) (snd (do_readfull w r b)).
  Proof. unfold bind, call_ext, wext. cbn [String.eqb Ascii.eqb Bool.eqb]. destruct (do_readfull w r b); reflexivity. Qed.
  Lemma x_readfull1 : bind (call_ext wext "io.ReadFull#1" []) k w = k (wl_pend w) w.
  Proof. reflexivity. Qed.
  Lemma x_newreader a : bind (call_ext wext "bufio.NewReader" a) k w = k READER w.
  Proof. reflexivity. Qed.
  Lemma x_readhdr : bind (call_ext wext "headers.ReadHeaderInfo" [AInt READER]) k w =
    k HDR (with_pend w (wc_hdr_err (wl_conf w))).
  Proof. reflexivity. Qed.
  Lemma x_readhdr1 : bind (call_ext wext "headers.ReadHeaderInfo#1" []) k w = k (wl_pend w) w.
  Proof. reflexivity. Qed.
  Lemma x_fs : bind (call_ext wext "obj.FrameSize" [AInt HDR]) k w = k (wc_fs (wl_conf w)) w.
  Proof. reflexivity. Qed.
  Lemma x_fps : bind (call_ext wext "obj.FPS" [AInt HDR]) k w = k (rc_fps (rw_cfg (wl_raw w))) w.
  Proof. reflexivity. Qed.
  Lemma x_resx : bind (call_ext wext "obj.ResX" [AInt HDR]) k w = k (rc_resx (rw_cfg (wl_raw w))) w.
  Proof. reflexivity. Qed.
  Lemma x_resy : bind (call_ext wext "obj.ResY" [AInt HDR]) k w = k (rc_resy (rw_cfg (wl_raw w))) w.
  Proof. reflexivity. Qed.
  Lemma x_brand : bind (call_ext wext "obj.Brand" [AInt HDR]) k w = k 0 w.
  Proof. reflexivity. Qed.
  Lemma x_model : bind (call_ext wext "obj.Model" [AInt HDR]) k w = k 0 w.
  Proof. reflexivity. Qed.
  Lemma x_int1 : bind (call_ext wext "read:frameLogIntervalFirstMin" []) k w = k (wc_int1 (wl_conf w)) w.
  Proof. reflexivity. Qed.
  Lemma x_int2 : bind (call_ext wext "read:frameLogInterval" []) k w = k (wc_int2 (wl_conf w)) w.
  Proof. reflexivity. Qed.
  Lemma x_go a c b : bind (call_ext wext "go:writer" [AInt a; c; AInt HDR; AInt b]) k w =
    k 0 (with_spawned w (wl_spawned w ++ [(a, b)])).
  Proof. reflexivity. Qed.
  Lemma x_fclose o : bind (call_ext wext "obj.Close" [AInt o]) k w = k 0 (with_closed w (wl_closed w ++ [o])).
  Proof. reflexivity. Qed.
  Lemma x_print a : bind (call_ext wext "log.Print" a) k w = k 0 w.
  Proof. reflexivity. Qed.
  Lemma x_printf a : bind (call_ext wext "log.Printf" a) k w = k 0 w.
  Proof. reflexivity. Qed.
  Lemma x_ofint a : bind (call_ext wext "f64.of_int" a) k w = k 0 w.
  Proof. reflexivity. Qed.
  Lemma x_div a : bind (call_ext wext "f64.div" a) k w = k 0 w.
  Proof. reflexivity. Qed.
  Lemma x_sub a : bind (call_ext wext "obj.Sub" a) k w = k 0 w.
  Proof. reflexivity. Qed.
  Lemma x_seconds a : bind (call_ext wext "obj.Seconds" a) k w = k 0 w.
  Proof. reflexivity. Qed.
End Calls.

Ltac xcall1 :=
  lazymatch goal with
  | |- context [bind (call_ext wext ?n ?a) ?k ?w] =>
    lazymatch n with
    | "chan.recv"%string => rewrite (x_recv k w)
    | "chan.recv#1"%string => rewrite (x_recv1 k w)
    | "chan.send"%string => rewrite (x_send k w)
    | "chan.close"%string => rewrite (x_close k w)
    | "chan.len"%string => rewrite (x_len k w)
    | "select"%string => rewrite (x_select k w)
    | "select#value"%string => rewrite (x_selv k w)
    | "select#ok"%string => rewrite (x_selok k w)
    | "make:chan"%string => rewrite (x_mkchan k w)
    | "time.After"%string => rewrite (x_after k w)
    | "time.Now"%string => rewrite (x_now k w)
    | "make:[]byte"%string => rewrite (x_mkbytes k w)
    | "io.ReadFull"%string => rewrite (x_readfull k w)
    | "io.ReadFull#1"%string => rewrite (x_readfull1 k w)
    | "bufio.NewReader"%string => rewrite (x_newreader k w)
    | "headers.ReadHeaderInfo"%string => rewrite (x_readhdr k w)
    | "headers.ReadHeaderInfo#1"%string => rewrite (x_readhdr1 k w)
    | "obj.FrameSize"%string => rewrite (x_fs k w)
    | "obj.FPS"%string => rewrite (x_fps k w)
    | "obj.ResX"%string => rewrite (x_resx k w)
    | "obj.ResY"%string => rewrite (x_resy k w)
    | "obj.Brand"%string => rewrite (x_brand k w)
    | "obj.Model"%string => rewrite (x_model k w)
    | "read:frameLogIntervalFirstMin"%string => rewrite (x_int1 k w)
    | "read:frameLogInterval"%string => rewrite (x_int2 k w)
    | "go:writer"%string => rewrite (x_go k w)
    | "obj.Close"%string => rewrite (x_fclose k w)
    | "log.Print"%string => rewrite (x_print k w)
    | "log.Printf"%string => rewrite (x_printf k w)
    | "f64.of_int"%string => rewrite (x_ofint k w)
    | "f64.div"%string => rewrite (x_div k w)
    | "obj.Sub"%string => rewrite (x_sub k w)
    | "obj.Seconds"%string => rewrite (x_seconds k w)
    end
  | |- context [bind (ret _) _ _] => rewrite bind_ret_r
  end;
  cbv beta.

(* ====================================================================================
   The CPTR builder's code under wext is its code under rext on the embedded world
   ==================================================================================== *)
Definition liftO {A} (w : wworld) (o : outcome rworld A) : outcome wworld A :=
  match o with
  | Ok a r => Ok a (with_raw w r)
  | Panicked r => Panicked (with_raw w r)
  end.

(* m (under wext) does to a world what m' (under rext) does to its embedded builder world *)
Definition lifts {A} (m : M wworld A) (m' : M rworld A) : Prop :=
  forall w, m w = liftO w (m' (wl_raw w)).

Lemma liftO_with_raw {A} w r (o : outcome rworld A) : liftO (with_raw w r) o = liftO w o.
Proof. destruct o; reflexivity. Qed.

Lemma lifts_ret {A} (a : A) : lifts (ret a) (ret a).
Proof. intros w. unfold ret. cbn. destruct w; reflexivity. Qed.

Lemma lifts_panic {A} : lifts (@panic wworld A) (@panic rworld A).
Proof. intros w. unfold panic. cbn. destruct w; reflexivity. Qed.

Lemma lifts_bind {A B} (m : M wworld A) m' (k : A -> M wworld B) k' :
  lifts m m' -> (forall a, lifts (k a) (k' a)) -> lifts (bind m k) (bind m' k').
Proof.
  intros Hm Hk w. unfold bind. rewrite Hm.
  destruct (m' (wl_raw w)) as [a r|r]; cbn [liftO]; [|reflexivity].
  rewrite Hk. cbn [wl_raw with_raw]. apply liftO_with_raw.
Qed.

Lemma lifts_if {A} (c : bool) (a b : M wworld A) a' b' :
  lifts a a' -> lifts b b' -> lifts (if c then a else b) (if c then a' else b').
Proof. destruct c; auto. Qed.

Lemma lifts_lift_opt {A} (o : option A) : lifts (lift_opt o) (lift_opt o).
Proof. destruct o; [apply lifts_ret|apply lifts_panic]. Qed.

(* a name that wext hands on to rext *)
Definition delegated (name : string) : Prop :=
  forall args w, wext name args w = lift_raw w (rext name args (wl_raw w)).

Lemma lifts_call name args : delegated name -> lifts (call_ext wext name args) (call_ext rext name args).
Proof.
  intros D w. unfold call_ext. rewrite D. unfold lift_raw.
  destruct (rext name args (wl_raw w)) as [z r]. reflexivity.
Qed.

Ltac delegated_tac := intros ? ?; unfold wext; cbn [String.eqb Ascii.eqb Bool.eqb]; reflexivity.

Ltac lifts_step :=
  cbv beta;
  lazymatch goal with
  | |- lifts (ret _) _ => apply lifts_ret
  | |- lifts panic _ => apply lifts_panic
  | |- lifts (lift_opt _) _ => apply lifts_lift_opt
  | |- lifts (call_ext _ _ _) _ => apply lifts_call; delegated_tac
  | |- lifts (bind _ _) _ => apply lifts_bind; [|intros ?]
  | |- lifts (if _ then _ else _) _ => apply lifts_if
  | |- lifts (match ?p with pair _ _ => _ end) _ => destruct p
  end.

Lemma lifts_WriteHeader b f : lifts (Builder_WriteHeader wext b f) (Builder_WriteHeader rext b f).
Proof. unfold Builder_WriteHeader. repeat lifts_step. Qed.

Lemma lifts_WriteFrame b f d : lifts (Builder_WriteFrame wext b f d) (Builder_WriteFrame rext b f d).
Proof. unfold Builder_WriteFrame. repeat lifts_step. Qed.

Lemma lifts_newBuilder o : lifts (ThermalRaw_fn_newBuilder wext o) (ThermalRaw_fn_newBuilder rext o).
Proof. unfold ThermalRaw_fn_newBuilder. repeat lifts_step. Qed.

Ltac lifts_step2 :=
  cbv beta;
  lazymatch goal with
  | |- lifts (Builder_WriteHeader _ _ _) _ => apply lifts_WriteHeader
  | |- lifts (Builder_WriteFrame _ _ _ _) _ => apply lifts_WriteFrame
  | |- lifts (ThermalRaw_fn_newBuilder _ _) _ => apply lifts_newBuilder
  | |- _ => lifts_step
  end.

Lemma lifts_writeFrame b t : lifts (ThermalRaw_fn_writeFrame wext b t) (ThermalRaw_fn_writeFrame rext b t).
Proof. unfold ThermalRaw_fn_writeFrame. repeat lifts_step2. Qed.

Lemma lifts_newThermalRaw t : lifts (ThermalRaw_fn_newThermalRaw wext t) (ThermalRaw_fn_newThermalRaw rext t).
Proof. unfold ThermalRaw_fn_newThermalRaw. repeat lifts_step2. Qed.

(* the builder's theorems (proofs/TieRaw.v), on the embedded world *)
Lemma w_writeFrame_ok w o t :
  oin (wl_raw w) o -> (Z.to_nat t < List.length (rw_bytes (wl_raw w)))%nat -> rw_faults (wl_raw w) = [] ->
  exists r', ThermalRaw_fn_writeFrame wext (mkBuilder o) t w = Ok 0 (with_raw w r') /\
             advanced (wl_raw w) r' o (enc_frame (rbytes (wl_raw w) t)) [].
Proof.
  intros Ho Ht Hf. destruct (tie_writeFrame_ok _ o t Ho Ht Hf) as (r' & E & A).
  exists r'. split; [|exact A]. rewrite lifts_writeFrame, E. reflexivity.
Qed.

Lemma w_newThermalRaw_ok w t :
  rw_open_fail (wl_raw w) = false -> cfg_ok (rw_cfg (wl_raw w)) -> rw_faults (wl_raw w) = [] ->
  exists r', ThermalRaw_fn_newThermalRaw wext t w =
               Ok (mkBuilder (Z.of_nat (List.length (rw_outs (wl_raw w)))), 0) (with_raw w r') /\
             rw_outs r' = rw_outs (wl_raw w) ++ [enc_header (raw_header (rw_cfg (wl_raw w)) t)] /\ rw_faults r' = [] /\
             rw_cfg r' = rw_cfg (wl_raw w) /\ rw_open_fail r' = false /\
             exists m, rw_bytes r' = rw_bytes (wl_raw w) ++ m.
Proof.
  intros Ho Hc Hf. destruct (tie_newThermalRaw_ok _ t Ho Hc Hf) as (r' & E & R).
  exists r'. split; [|exact R]. rewrite lifts_newThermalRaw, E. reflexivity.
Qed.

(* what the Go code does when the file cannot be created, or a Write fails: it panics *)
Lemma w_newThermalRaw_open_fail w t :
  rw_open_fail (wl_raw w) = true ->
  ThermalRaw_fn_newThermalRaw wext t w = Ok (mkBuilder 0, 1) (with_raw w (with_pending (wl_raw w) 1)).
Proof. intros H. rewrite lifts_newThermalRaw, (tie_newThermalRaw_open_fail _ t H). reflexivity. Qed.

(* ====================================================================================
   Channels
   ==================================================================================== *)
Lemma chan_at_nonneg w c x : chan_at w c = Some x -> 0 <= c.
Proof. unfold chan_at. destruct (Z.ltb_spec c 0); [discriminate|lia]. Qed.

Lemma chan_at_lt w c x : chan_at w c = Some x -> (Z.to_nat c < List.length (wl_chans w))%nat.
Proof.
  unfold chan_at. destruct (c <? 0); [discriminate|]. intros H.
  apply nth_error_Some. rewrite H. discriminate.
Qed.

Lemma nth_error_list_upd_eq {A} (l : list A) n v : (n < List.length l)%nat -> nth_error (list_upd l n v) n = Some v.
Proof. revert n; induction l; destruct n; cbn; intros; try lia; auto. apply IHl; lia. Qed.

Lemma nth_error_list_upd_neq {A} (l : list A) n m v : m <> n -> nth_error (list_upd l n v) m = nth_error l m.
Proof. revert n m; induction l; destruct n, m; cbn; intros; try lia; auto. Qed.

Lemma chan_at_set_eq w c x y : chan_at w c = Some x -> chan_at (set_chan w c y) c = Some y.
Proof.
  intros H. pose proof (chan_at_lt _ _ _ H) as L. unfold chan_at in *.
  destruct (c <? 0); [discriminate|]. cbn [set_chan with_chans wl_chans]. apply nth_error_list_upd_eq. exact L.
Qed.

Lemma chan_at_set_neq w c c' y : 0 <= c -> c' <> c -> chan_at (set_chan w c y) c' = chan_at w c'.
Proof.
  intros Hc Hn. unfold chan_at. destruct (Z.ltb_spec c' 0); [reflexivity|].
  cbn [set_chan with_chans wl_chans]. apply nth_error_list_upd_neq. lia.
Qed.

Lemma chan_at_new_old w ch c x : chan_at w c = Some x -> chan_at (with_chans w (wl_chans w ++ [ch])) c = Some x.
Proof.
  intros H. pose proof (chan_at_lt _ _ _ H) as L. unfold chan_at in *. destruct (c <? 0); [discriminate|].
  cbn [with_chans wl_chans]. rewrite nth_error_app1 by exact L. exact H.
Qed.

Lemma chan_at_new w ch : chan_at (with_chans w (wl_chans w ++ [ch])) (Z.of_nat (List.length (wl_chans w))) = Some ch.
Proof.
  unfold chan_at. destruct (Z.ltb_spec (Z.of_nat (List.length (wl_chans w))) 0); [lia|].
  cbn [with_chans wl_chans]. rewrite Nat2Z.id, nth_error_app2 by lia. rewrite Nat.sub_diag. reflexivity.
Qed.

(* ====================================================================================
   The stream's frames
   ==================================================================================== *)
Lemma chop_S k fs b : chop (S k) fs b = if Nat.ltb (List.length b) fs then [] else firstn fs b :: chop k fs (skipn fs b).
Proof. reflexivity. Qed.

Lemma chop_short fuel fs b : (List.length b < fs)%nat -> chop fuel fs b = [].
Proof.
  intros H. destruct fuel; [reflexivity|]. rewrite chop_S.
  destruct (Nat.ltb_spec (List.length b) fs); [reflexivity|lia].
Qed.

Lemma chop_fuel2 : forall fuel fuel' fs b, (1 <= fs)%nat -> (List.length b <= fuel)%nat -> (List.length b <= fuel')%nat ->
  chop fuel fs b = chop fuel' fs b.
Proof.
  induction fuel as [|k IH]; intros fuel' fs b Hfs Hl Hl'.
  - destruct b; [|cbn in Hl; lia]. rewrite (chop_short fuel') by (cbn; lia). reflexivity.
  - destruct (Nat.ltb_spec (List.length b) fs) as [H|H].
    + rewrite !chop_short by exact H. reflexivity.
    + destruct fuel' as [|k']; [lia|]. rewrite !chop_S.
      destruct (Nat.ltb_spec (List.length b) fs); [lia|]. f_equal.
      apply IH; [exact Hfs| |]; rewrite skipn_length; lia.
Qed.

Lemma chop_fuel fuel fs b : (1 <= fs)%nat -> (List.length b <= fuel)%nat -> chop fuel fs b = chop (List.length b) fs b.
Proof. intros. apply chop_fuel2; auto. Qed.

Lemma stream_frames_short fs b : (List.length b < fs)%nat -> stream_frames fs b = [].
Proof. intros H. apply chop_short. exact H. Qed.

Lemma stream_frames_cons fs b : (1 <= fs)%nat -> (fs <= List.length b)%nat ->
  stream_frames fs b = firstn fs b :: stream_frames fs (skipn fs b).
Proof.
  intros Hfs H. unfold stream_frames. remember (List.length b) as n eqn:E. destruct n as [|n]; [lia|].
  rewrite chop_S, <- E. destruct (Nat.ltb_spec (S n) fs); [lia|]. f_equal.
  apply chop_fuel; [exact Hfs|]. rewrite skipn_length. lia.
Qed.

(* the frames of the stream, concatenated, are the stream up to its incomplete tail *)
Lemma stream_frames_concat fs b : (1 <= fs)%nat ->
  exists tail, b = List.concat (stream_frames fs b) ++ tail /\ (List.length tail < fs)%nat /\
               Forall (fun f => List.length f = fs) (stream_frames fs b).
Proof.
  intros Hfs. remember (List.length b) as n eqn:E. revert b E.
  induction n as [n IH] using lt_wf_ind. intros b E.
  destruct (Nat.ltb_spec (List.length b) fs) as [H|H].
  - exists b. rewrite stream_frames_short by exact H. repeat split; auto.
  - rewrite stream_frames_cons by assumption.
    destruct (IH (List.length (skipn fs b))) with (b := skipn fs b) as (tail & Eq & Lt & Fa); [rewrite skipn_length; lia|reflexivity|].
    exists tail. split; [|split; [exact Lt|]].
    + cbn [List.concat]. rewrite <- app_assoc, <- Eq. symmetry. apply firstn_skipn.
    + constructor; [|exact Fa]. rewrite firstn_length. lia.
Qed.
