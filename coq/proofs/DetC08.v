(* C08: edge-border pixels never influence detection, the interior of the background or the
   threshold (fixed or dynamic threshold); with a fixed threshold, pixels at or below the
   threshold in both streams never influence detection. *)
From Coq Require Import List ZArith Bool Arith Lia.
From TR Require Import model.Ring model.RingSpec model.Detector model.DetSpec proofs.DetC07.
Import ListNotations.
Open Scope Z_scope.

(* two frames agree on telemetry and on every interior pixel *)
Definition frame_interior_eq (c : dcfg) (f g : frame) : Prop :=
  f_timeon f = f_timeon g /\ f_lastffc f = f_lastffc g /\
  forall y x, interior c y x = true -> gget (f_pix f) y x = gget (f_pix g) y x.

Definition stream_rel (R : frame -> frame -> Prop) (a b : list dev) : Prop :=
  Forall2 (fun x y => match x, y with
                      | DReset, DReset => True
                      | DFrame f, DFrame g => R f g
                      | _, _ => False end) a b.

(* verdicts and thresholds after every event are equal *)
Theorem border_noninterference : forall c evs1 evs2,
    stream_rel (frame_interior_eq c) evs1 evs2 ->
    drun c (dinit c) evs1 = drun c (dinit c) evs2.
Admitted.

(* ... and so is the background, everywhere (its border is a function of its interior) *)
Theorem border_noninterference_bg : forall c evs1 evs2,
    stream_rel (frame_interior_eq c) evs1 evs2 ->
    s_bg (dfinal c (dinit c) evs1) = s_bg (dfinal c (dinit c) evs2).
Admitted.

(* fixed threshold: frames agree on telemetry and on every interior pixel except where both
   values are at or below the threshold *)
Definition frame_cold_eq (c : dcfg) (f g : frame) : Prop :=
  f_timeon f = f_timeon g /\ f_lastffc f = f_lastffc g /\
  forall y x, interior c y x = true ->
    gget (f_pix f) y x = gget (f_pix g) y x \/
    (gget (f_pix f) y x <= d_thresh0 c /\ gget (f_pix g) y x <= d_thresh0 c).

Theorem cold_noninterference : forall c evs1 evs2,
    d_dynamic c = false ->
    stream_rel (frame_cold_eq c) evs1 evs2 ->
    drun c (dinit c) evs1 = drun c (dinit c) evs2.
Admitted.
