(* C08: edge-border pixels never influence detection, the interior of the background or the
   threshold (fixed or dynamic threshold); with a fixed threshold, pixels at or below the
   threshold in both streams never influence detection. *)
From Coq Require Import List ZArith Bool Arith Lia.
From TR Require Import model.Ring model.RingSpec model.Detector model.DetSpec proofs.DetC07.
Import ListNotations.
Open Scope Z_scope.

(* two frames agree on telemetry and on every interior pixel *)
Definition frame_interior_eq (c : dcfg) (f g : frame) : Prop :=
  f_timeon f = f_timeon g /\ f_lastffc f = f_lastffc g /\
  forall y x, interior c y x = true -> gget (f_pix f) y x = gget (f_pix g) y x.

Definition stream_rel (R : frame -> frame -> Prop) (a b : list dev) : Prop :=
  Forall2 (fun x y => match x, y with
                      | DReset, DReset => True
                      | DFrame f, DFrame g => R f g
                      | _, _ => False end) a b.

(* ------------------------------------------------------------------ *)
(* Generic list / grid facts                                           *)
(* ------------------------------------------------------------------ *)

Lemma gbuild_ext : forall h w (f g : nat -> nat -> Z),
    (forall y x, (y < h)%nat -> (x < w)%nat -> f y x = g y x) ->
    gbuild h w f = gbuild h w g.
Proof.
  intros h w f g H. unfold gbuild.
  apply map_ext_in. intros y Hy. apply in_seq in Hy.
  apply map_ext_in. intros x Hx. apply in_seq in Hx.
  apply H; lia.
Qed.

Lemma gget_gbuild : forall h w (f : nat -> nat -> Z) y x,
    (y < h)%nat -> (x < w)%nat -> gget (gbuild h w f) y x = f y x.
Proof.
  intros h w f y x Hy Hx. unfold gget, gbuild.
  rewrite (nth_indep _ [] (map (fun x0 => f 0%nat x0) (seq 0 w))) by (rewrite map_length, seq_length; lia).
  rewrite (map_nth (fun y0 => map (fun x0 => f y0 x0) (seq 0 w)) (seq 0 h) 0%nat y).
  rewrite seq_nth by lia. cbn [Nat.add].
  rewrite (nth_indep _ 0 (f y 0%nat)) by (rewrite map_length, seq_length; lia).
  rewrite (map_nth (fun x0 => f y x0) (seq 0 w) 0%nat x).
  rewrite seq_nth by lia. reflexivity.
Qed.

Lemma fold_left_ext_in : forall (A B : Type) (f g : A -> B -> A) (l : list B) (a : A),
    (forall a x, In x l -> f a x = g a x) -> fold_left f l a = fold_left g l a.
Proof.
  intros A B f g l. induction l as [|x l IH]; intros a H; cbn [fold_left]; [reflexivity|].
  rewrite (H a x) by (left; reflexivity). apply IH. intros a' x' Hin. apply H. right; exact Hin.
Qed.

Lemma existsb_ext_in : forall (A : Type) (f g : A -> bool) (l : list A),
    (forall x, In x l -> f x = g x) -> existsb f l = existsb g l.
Proof.
  intros A f g l. induction l as [|x l IH]; intros H; cbn [existsb]; [reflexivity|].
  rewrite (H x) by (left; reflexivity). f_equal. apply IH. intros x' Hin. apply H. right; exact Hin.
Qed.

Lemma interior_bounds : forall c y x, interior c y x = true ->
    (d_edge c <= y /\ y < d_h c - d_edge c /\ d_edge c <= x /\ x < d_w c - d_edge c)%nat.
Proof.
  intros c y x H. unfold interior in H.
  apply andb_prop in H. destruct H as [H H4].
  apply andb_prop in H. destruct H as [H H3].
  apply andb_prop in H. destruct H as [H1 H2].
  apply Nat.leb_le in H1. apply Nat.ltb_lt in H2. apply Nat.leb_le in H3. apply Nat.ltb_lt in H4.
  lia.
Qed.

Lemma interior_intro : forall c y x,
    (d_edge c <= y /\ y < d_h c - d_edge c /\ d_edge c <= x /\ x < d_w c - d_edge c)%nat ->
    interior c y x = true.
Proof.
  intros c y x (H1 & H2 & H3 & H4). unfold interior.
  apply Nat.leb_le in H1. apply Nat.ltb_lt in H2. apply Nat.leb_le in H3. apply Nat.ltb_lt in H4.
  rewrite H1, H2, H3, H4. reflexivity.
Qed.

Lemma in_icoords : forall c yx, In yx (icoords c) -> interior c (fst yx) (snd yx) = true.
Proof.
  intros c yx H. unfold icoords in H.
  apply in_flat_map in H. destruct H as (y & Hy & H).
  apply in_map_iff in H. destruct H as (x & Heq & Hx). subst yx. cbn [fst snd].
  apply in_seq in Hy. apply in_seq in Hx. apply interior_intro. lia.
Qed.

(* the interior is not empty *)
Definition nonempty (c : dcfg) : Prop := (2 * d_edge c < d_w c)%nat /\ (2 * d_edge c < d_h c)%nat.

Lemma near_interior : forall c y x, nonempty c -> interior c (near_y c y) (near_x c x) = true.
Proof.
  intros c y x [Hw Hh]. apply interior_intro. unfold near_y, near_x, clampn. lia.
Qed.

Lemma near_id : forall c y x, interior c y x = true -> near_y c y = y /\ near_x c x = x.
Proof.
  intros c y x H. apply interior_bounds in H. unfold near_y, near_x, clampn. lia.
Qed.

(* ------------------------------------------------------------------ *)
(* Rings whose slots are pairwise related                              *)
(* ------------------------------------------------------------------ *)

Section RingRel.
  Context {A : Type}.
  Variable P : A -> A -> Prop.

  Definition ring_rel (r1 r2 : ring A) : Prop :=
    size r1 = size r2 /\ cur r1 = cur r2 /\ full r1 = full r2 /\ oldest r1 = oldest r2 /\
    Forall2 P (slots r1) (slots r2).

  Lemma upd_rel : forall l1 l2 n v1 v2,
      Forall2 P l1 l2 -> P v1 v2 -> Forall2 P (upd l1 n v1) (upd l2 n v2).
  Proof.
    intros l1 l2 n v1 v2 H. revert n. induction H as [|a b l1 l2 Hab Hl IH]; intros n Hv.
    - destruct n; constructor.
    - destruct n as [|n]; cbn [upd]; constructor; auto.
  Qed.

  Lemma nth_rel : forall l1 l2 n d1 d2,
      Forall2 P l1 l2 -> P d1 d2 -> P (nth n l1 d1) (nth n l2 d2).
  Proof.
    intros l1 l2 n d1 d2 H. revert n. induction H as [|a b l1 l2 Hab Hl IH]; intros n Hd.
    - destruct n; exact Hd.
    - destruct n as [|n]; cbn [nth]; auto.
  Qed.

  Lemma repeat_rel : forall a b n, P a b -> Forall2 P (repeat a n) (repeat b n).
  Proof. intros a b n H. induction n; cbn [repeat]; constructor; auto. Qed.

  Lemma new_ring_rel : forall sz a b, P a b -> ring_rel (new_ring sz a) (new_ring sz b).
  Proof.
    intros sz a b H. unfold ring_rel, new_ring. cbn [size cur full oldest slots].
    repeat split. apply repeat_rel; exact H.
  Qed.

  Lemma put_rel : forall r1 r2 v1 v2, ring_rel r1 r2 -> P v1 v2 -> ring_rel (put r1 v1) (put r2 v2).
  Proof.
    intros r1 r2 v1 v2 (Hs & Hc & Hf & Ho & Hl) Hv. unfold ring_rel, put.
    cbn [size cur full oldest slots]. repeat split; try assumption.
    rewrite Hc. apply upd_rel; assumption.
  Qed.

  Lemma move_rel : forall r1 r2, ring_rel r1 r2 -> ring_rel (move r1) (move r2).
  Proof.
    intros r1 r2 (Hs & Hc & Hf & Ho & Hl). unfold ring_rel, move, next_index_after.
    cbn [size cur full oldest slots]. rewrite Hs, Hc, Hf, Ho. repeat split; assumption.
  Qed.

  Lemma set_as_oldest_rel : forall r1 r2, ring_rel r1 r2 -> ring_rel (set_as_oldest r1) (set_as_oldest r2).
  Proof.
    intros r1 r2 (Hs & Hc & Hf & Ho & Hl). unfold ring_rel, set_as_oldest.
    cbn [size cur full oldest slots]. repeat split; assumption.
  Qed.

  Lemma reset_rel : forall r1 r2, ring_rel r1 r2 -> ring_rel (reset r1) (reset r2).
  Proof.
    intros r1 r2 (Hs & Hc & Hf & Ho & Hl). unfold ring_rel, reset.
    cbn [size cur full oldest slots]. repeat split; assumption.
  Qed.

  Lemma oldest_slot_rel : forall r1 r2 d1 d2,
      ring_rel r1 r2 -> P d1 d2 -> P (oldest_slot d1 r1) (oldest_slot d2 r2).
  Proof.
    intros r1 r2 d1 d2 (Hs & Hc & Hf & Ho & Hl) Hd. unfold oldest_slot, next_index_after, zth.
    rewrite Hs, Hc, Ho. destruct (negb (oldest r2 =? NO_OLDEST_SET)); apply nth_rel; assumption.
  Qed.
End RingRel.

(* ------------------------------------------------------------------ *)
(* Detect, split into the background/threshold part and the rest       *)
(* ------------------------------------------------------------------ *)

Definition pre (c : dcfg) (s : dstate) (f : frame) : grid * list (list f32) * Z * Z :=
  if d_dynamic c && negb (affected_by_ffc f) then
    let '(bg', wts', avg, changed) := update_background c s f (s_affected s) in
    let n := s_bgframes s + 1 in
    (bg', wts', n, if changed && (d_preview c <? n) then calc_threshold c avg else s_thresh s)
  else (s_bg s, s_wts s, s_bgframes s, s_thresh s).

Definition post (c : dcfg) (s : dstate) (f : frame)
           (bg1 : grid) (wts1 : list (list f32)) (bgframes1 thresh1 : Z) : dstate * bool :=
  let prev_ffc := s_affected s in
  let aff := affected_by_ffc f in
  let fl1 := put (s_floored s) f in
  let cmp := oldest_slot (blank_frame c) fl1 in
  let dg := diff_grid c thresh1 (f_pix f) (f_pix cmp) in
  let df1 := put (s_diffs s) dg in
  let df2 := move df1 in
  let prev_diff := current (zero_grid c) df2 in
  if negb (s_firstdiff s) then
    (mkDS (move fl1) df2 true aff thresh1 bg1 wts1 bgframes1, false)
  else if aff || prev_ffc then
    (mkDS (move (set_as_oldest fl1)) df2 false aff thresh1 bg1 wts1 bgframes1, false)
  else
    (mkDS (move fl1) df2 true aff thresh1 bg1 wts1 bgframes1, has_motion c dg prev_diff).

Lemma detect_split : forall c s f,
    detect c s f =
    post c s f (fst (fst (fst (pre c s f)))) (snd (fst (fst (pre c s f))))
         (snd (fst (pre c s f))) (snd (pre c s f)).
Proof.
  intros c s f. unfold detect, pre, post.
  destruct (d_dynamic c && negb (affected_by_ffc f)).
  - destruct (update_background c s f (s_affected s)) as [[[bg' wts'] avg] changed].
    cbn [fst snd]. reflexivity.
  - cbn [fst snd]. reflexivity.
Qed.

(* the components of update_background *)
Definition ub_bgi (s : dstate) (f : frame) (p : bool) (y x : nat) : Z :=
  if replaces s f p (s_bgframes s + 1 =? 1) y x then gget (f_pix f) y x else gget (s_bg s) y x.

Definition ub_bg (c : dcfg) (s : dstate) (f : frame) (p : bool) : grid :=
  gbuild (d_h c) (d_w c) (fun y x => ub_bgi s f p (near_y c y) (near_x c x)).

Definition ub_wts (c : dcfg) (s : dstate) (f : frame) (p : bool) : list (list f32) :=
  if s_bgframes s + 1 =? 1 then s_wts s
  else map (fun y => map (fun x =>
         if interior c y x then
           if replaces s f p false y x then f32_zero
           else f32_add (wget (s_wts s) y x) f32_tenth
         else wget (s_wts s) y x) (seq 0 (d_w c))) (seq 0 (d_h c)).

Definition ub_avg (c : dcfg) (s : dstate) (f : frame) (p : bool) : f64 :=
  let npix := f64_of_Z (Z.of_nat ((d_h c - d_edge c - d_edge c) * (d_w c - d_edge c - d_edge c))) in
  fold_left (fun a yx => f64_add a (f64_div (f64_of_Z (ub_bgi s f p (fst yx) (snd yx))) npix))
            (icoords c) f64_zero.

Definition ub_changed (c : dcfg) (s : dstate) (f : frame) (p : bool) : bool :=
  (s_bgframes s + 1 =? 1) || existsb (fun yx => replaces s f p false (fst yx) (snd yx)) (icoords c).

Lemma update_background_split : forall c s f p,
    update_background c s f p = (ub_bg c s f p, ub_wts c s f p, ub_avg c s f p, ub_changed c s f p).
Proof. intros. reflexivity. Qed.

(* ------------------------------------------------------------------ *)
(* The relation between the two runs                                   *)
(* ------------------------------------------------------------------ *)

(* backgrounds agree on the interior, and everywhere if the interior is not empty *)
Definition bg_rel (c : dcfg) (b1 b2 : grid) : Prop :=
  (forall y x, interior c y x = true -> gget b1 y x = gget b2 y x) /\
  (nonempty c -> b1 = b2).

Lemma bg_rel_refl : forall c b, bg_rel c b b.
Proof. intros c b; split; auto. Qed.

Record srel (c : dcfg) (Rf : frame -> frame -> Prop) (s1 s2 : dstate) : Prop := mkSrel {
  sr_fl : ring_rel Rf (s_floored s1) (s_floored s2);
  sr_df : s_diffs s1 = s_diffs s2;
  sr_fd : s_firstdiff s1 = s_firstdiff s2;
  sr_af : s_affected s1 = s_affected s2;
  sr_th : s_thresh s1 = s_thresh s2;
  sr_bg : bg_rel c (s_bg s1) (s_bg s2);
  sr_wt : s_wts s1 = s_wts s2;
  sr_bf : s_bgframes s1 = s_bgframes s2
}.

Lemma dinit_rel : forall c (Rf : frame -> frame -> Prop), Rf (blank_frame c) (blank_frame c) -> srel c Rf (dinit c) (dinit c).
Proof.
  intros c Rf Hb. unfold dinit. constructor; cbn [s_floored s_diffs s_firstdiff s_affected s_thresh s_bg s_wts s_bgframes];
    try reflexivity.
  - apply new_ring_rel; exact Hb.
  - apply bg_rel_refl.
Qed.

Lemma dreset_rel : forall c (Rf : frame -> frame -> Prop) s1 s2, srel c Rf s1 s2 -> srel c Rf (dreset s1) (dreset s2).
Proof.
  intros c Rf s1 s2 [Hfl Hdf Hfd Haf Hth Hbg Hwt Hbf]. unfold dreset.
  constructor; cbn [s_floored s_diffs s_firstdiff s_affected s_thresh s_bg s_wts s_bgframes];
    try assumption; try reflexivity.
  - apply reset_rel; exact Hfl.
  - rewrite Hdf; reflexivity.
Qed.

(* the part of Detect after the background update *)
Lemma post_rel : forall c (Rf : frame -> frame -> Prop) s1 s2 f g bg1 bg2 wts n t,
    srel c Rf s1 s2 -> Rf f g ->
    Rf (blank_frame c) (blank_frame c) ->
    affected_by_ffc f = affected_by_ffc g ->
    (forall a b, Rf a b -> diff_grid c t (f_pix f) (f_pix a) = diff_grid c t (f_pix g) (f_pix b)) ->
    bg_rel c bg1 bg2 ->
    srel c Rf (fst (post c s1 f bg1 wts n t)) (fst (post c s2 g bg2 wts n t)) /\
    snd (post c s1 f bg1 wts n t) = snd (post c s2 g bg2 wts n t).
Proof.
  intros c Rf s1 s2 f g bg1 bg2 wts n t [Hfl Hdf Hfd Haf Hth Hbg Hwt Hbf] Hfg Hblank Haff Hdg Hbg'.
  assert (Hput : ring_rel Rf (put (s_floored s1) f) (put (s_floored s2) g))
    by (apply put_rel; assumption).
  assert (Hcmp : Rf (oldest_slot (blank_frame c) (put (s_floored s1) f))
                    (oldest_slot (blank_frame c) (put (s_floored s2) g)))
    by (apply oldest_slot_rel; assumption).
  apply Hdg in Hcmp.
  unfold post. rewrite Hcmp, Hdf, Hfd, Haf, Haff.
  set (dg := diff_grid c t (f_pix g) (f_pix (oldest_slot (blank_frame c) (put (s_floored s2) g)))).
  destruct (negb (s_firstdiff s2)); [|destruct (affected_by_ffc g || s_affected s2)];
    cbn [fst snd]; (split; [|reflexivity]);
    constructor; cbn [s_floored s_diffs s_firstdiff s_affected s_thresh s_bg s_wts s_bgframes];
    try reflexivity; try assumption.
  - apply move_rel; exact Hput.
  - apply move_rel, set_as_oldest_rel; exact Hput.
  - apply move_rel; exact Hput.
Qed.

(* ------------------------------------------------------------------ *)
(* Border pixels                                                       *)
(* ------------------------------------------------------------------ *)

Lemma fie_refl : forall c f, frame_interior_eq c f f.
Proof. intros c f. repeat split. Qed.

Lemma fie_affected : forall c f g, frame_interior_eq c f g -> affected_by_ffc f = affected_by_ffc g.
Proof. intros c f g (H1 & H2 & _). unfold affected_by_ffc. rewrite H1, H2. reflexivity. Qed.

Lemma fie_diff_grid : forall c t f g a b,
    frame_interior_eq c f g -> frame_interior_eq c a b ->
    diff_grid c t (f_pix f) (f_pix a) = diff_grid c t (f_pix g) (f_pix b).
Proof.
  intros c t f g a b (_ & _ & Hfg) (_ & _ & Hab). unfold diff_grid.
  apply gbuild_ext. intros y x _ _.
  destruct (interior c y x) eqn:Hi; [|reflexivity].
  rewrite (Hfg y x Hi), (Hab y x Hi). reflexivity.
Qed.

Section Border.
  Variable c : dcfg.
  Variables s1 s2 : dstate.
  Variables f g : frame.
  Hypothesis HS : srel c (frame_interior_eq c) s1 s2.
  Hypothesis HF : frame_interior_eq c f g.

  Lemma replaces_rel : forall p sd y x, interior c y x = true ->
      replaces s1 f p sd y x = replaces s2 g p sd y x.
  Proof.
    intros p sd y x Hi. destruct HS as [_ _ _ _ _ [Hbg _] Hwt _]. destruct HF as (_ & _ & Hpix).
    unfold replaces. rewrite (Hpix y x Hi), Hwt, (Hbg y x Hi). reflexivity.
  Qed.

  Lemma ub_bgi_rel : forall p y x, interior c y x = true ->
      ub_bgi s1 f p y x = ub_bgi s2 g p y x.
  Proof.
    intros p y x Hi. unfold ub_bgi. rewrite (replaces_rel p _ y x Hi).
    destruct HS as [_ _ _ _ _ [Hbg _] _ Hbf]. destruct HF as (_ & _ & Hpix).
    rewrite Hbf, (Hpix y x Hi), (Hbg y x Hi). reflexivity.
  Qed.

  Lemma ub_bg_rel : forall p, bg_rel c (ub_bg c s1 f p) (ub_bg c s2 g p).
  Proof.
    intros p. split.
    - intros y x Hi. pose proof (interior_bounds c y x Hi) as Hb.
      unfold ub_bg. rewrite !gget_gbuild by lia.
      destruct (near_id c y x Hi) as [-> ->]. apply ub_bgi_rel; exact Hi.
    - intros Hne. unfold ub_bg. apply gbuild_ext. intros y x _ _.
      apply ub_bgi_rel. apply near_interior; exact Hne.
  Qed.

  Lemma ub_wts_rel : forall p, ub_wts c s1 f p = ub_wts c s2 g p.
  Proof.
    intros p. unfold ub_wts.
    pose proof (sr_wt _ _ _ _ HS) as Hwt. pose proof (sr_bf _ _ _ _ HS) as Hbf.
    rewrite Hbf, Hwt. destruct (s_bgframes s2 + 1 =? 1); [reflexivity|].
    apply map_ext_in. intros y _. apply map_ext_in. intros x _.
    destruct (interior c y x) eqn:Hi; [|reflexivity].
    rewrite (replaces_rel p false y x Hi). reflexivity.
  Qed.

  Lemma ub_avg_rel : forall p, ub_avg c s1 f p = ub_avg c s2 g p.
  Proof.
    intros p. unfold ub_avg. apply fold_left_ext_in. intros a yx Hin.
    rewrite (ub_bgi_rel p _ _ (in_icoords c yx Hin)). reflexivity.
  Qed.

  Lemma ub_changed_rel : forall p, ub_changed c s1 f p = ub_changed c s2 g p.
  Proof.
    intros p. unfold ub_changed. rewrite (sr_bf _ _ _ _ HS). f_equal.
    apply existsb_ext_in. intros yx Hin. apply replaces_rel. apply in_icoords; exact Hin.
  Qed.

  Lemma pre_rel :
      bg_rel c (fst (fst (fst (pre c s1 f)))) (fst (fst (fst (pre c s2 g)))) /\
      snd (fst (fst (pre c s1 f))) = snd (fst (fst (pre c s2 g))) /\
      snd (fst (pre c s1 f)) = snd (fst (pre c s2 g)) /\
      snd (pre c s1 f) = snd (pre c s2 g).
  Proof.
    unfold pre. rewrite !update_background_split, (fie_affected c f g HF).
    rewrite (sr_af _ _ _ _ HS).
    destruct (d_dynamic c && negb (affected_by_ffc g)); cbn [fst snd].
    - rewrite ub_wts_rel, ub_avg_rel, ub_changed_rel, (sr_bf _ _ _ _ HS), (sr_th _ _ _ _ HS).
      split; [apply ub_bg_rel|]. split; [reflexivity|]. split; reflexivity.
    - destruct HS as [_ _ _ _ Hth Hbg Hwt Hbf].
      split; [exact Hbg|]. split; [exact Hwt|]. split; [exact Hbf|exact Hth].
  Qed.

  Lemma detect_border_rel :
      srel c (frame_interior_eq c) (fst (detect c s1 f)) (fst (detect c s2 g)) /\
      snd (detect c s1 f) = snd (detect c s2 g).
  Proof.
    rewrite !detect_split. destruct pre_rel as (Hbg & Hwt & Hn & Ht).
    rewrite Hwt, Hn, Ht. apply post_rel; try assumption.
    - apply fie_refl.
    - apply (fie_affected c); exact HF.
    - intros a b Hab. apply fie_diff_grid; assumption.
  Qed.
End Border.

(* ------------------------------------------------------------------ *)
(* Streams                                                             *)
(* ------------------------------------------------------------------ *)

Lemma run_rel : forall c (Rf : frame -> frame -> Prop) (Inv : dstate -> dstate -> Prop),
    (forall s1 s2 f g, Inv s1 s2 -> Rf f g ->
        Inv (fst (detect c s1 f)) (fst (detect c s2 g)) /\ snd (detect c s1 f) = snd (detect c s2 g)) ->
    (forall s1 s2, Inv s1 s2 -> Inv (dreset s1) (dreset s2)) ->
    (forall s1 s2, Inv s1 s2 -> s_thresh s1 = s_thresh s2) ->
    forall evs1 evs2, stream_rel Rf evs1 evs2 ->
    forall s1 s2, Inv s1 s2 ->
      drun c s1 evs1 = drun c s2 evs2 /\ Inv (dfinal c s1 evs1) (dfinal c s2 evs2).
Proof.
  intros c Rf Inv Hdet Hres Hth evs1 evs2 H.
  induction H as [|e1 e2 l1 l2 He Hl IH]; intros s1 s2 HI.
  - cbn [drun dfinal]. split; [reflexivity|exact HI].
  - destruct e1 as [f|], e2 as [g|]; try contradiction.
    + destruct (Hdet s1 s2 f g HI He) as [HI' Hv].
      cbn [drun dfinal].
      destruct (detect c s1 f) as [s1' m1]. destruct (detect c s2 g) as [s2' m2].
      cbn [fst snd] in *. subst m2.
      destruct (IH s1' s2' HI') as [IH1 IH2].
      rewrite IH1, (Hth _ _ HI'). split; [reflexivity|exact IH2].
    + pose proof (Hres s1 s2 HI) as HI'.
      cbn [drun dfinal].
      destruct (IH _ _ HI') as [IH1 IH2].
      rewrite IH1, (Hth _ _ HI'). split; [reflexivity|exact IH2].
Qed.

Lemma border_run : forall c evs1 evs2,
    stream_rel (frame_interior_eq c) evs1 evs2 ->
    drun c (dinit c) evs1 = drun c (dinit c) evs2 /\
    srel c (frame_interior_eq c) (dfinal c (dinit c) evs1) (dfinal c (dinit c) evs2).
Proof.
  intros c evs1 evs2 H.
  apply (run_rel c (frame_interior_eq c) (srel c (frame_interior_eq c))); try assumption.
  - intros s1 s2 f g HS HF. apply detect_border_rel; assumption.
  - intros s1 s2 HS. apply dreset_rel; exact HS.
  - intros s1 s2 HS. apply (sr_th _ _ _ _ HS).
  - apply dinit_rel, fie_refl.
Qed.

(* verdicts and thresholds after every event are equal *)
Theorem border_noninterference : forall c evs1 evs2,
    stream_rel (frame_interior_eq c) evs1 evs2 ->
    drun c (dinit c) evs1 = drun c (dinit c) evs2.
Proof. intros c evs1 evs2 H. apply (border_run c evs1 evs2 H). Qed.

(* ... and so is the background, everywhere (its border is a function of its interior).
   This needs a non-empty interior: with an empty interior near_y/near_x point at a
   non-interior pixel, which a seeding frame copies into the background (see
   border_bg_needs_interior below; border_noninterference itself holds regardless). *)
Theorem border_noninterference_bg : forall c evs1 evs2,
    (2 * d_edge c < d_w c)%nat /\ (2 * d_edge c < d_h c)%nat ->
    stream_rel (frame_interior_eq c) evs1 evs2 ->
    s_bg (dfinal c (dinit c) evs1) = s_bg (dfinal c (dinit c) evs2).
Proof.
  intros c evs1 evs2 Hne H. destruct (border_run c evs1 evs2 H) as [_ HS].
  apply (sr_bg _ _ _ _ HS). exact Hne.
Qed.

(* the premise cannot be dropped: 1x1 frame, edge 1, dynamic threshold *)
Example border_bg_needs_interior :
  let c := mkD 1 1 1 1 false 0 0 false true 100 0 0 0 in
  let e1 := [DFrame (mkF [[5]] 10000000000 0)] in
  let e2 := [DFrame (mkF [[7]] 10000000000 0)] in
  stream_rel (frame_interior_eq c) e1 e2 /\
  s_bg (dfinal c (dinit c) e1) <> s_bg (dfinal c (dinit c) e2).
Proof.
  split.
  - constructor; [|constructor]. split; [reflexivity|]. split; [reflexivity|].
    intros y x H. apply interior_bounds in H. cbn [d_edge d_h d_w] in H. lia.
  - vm_compute. discriminate.
Qed.

(* without the premise (possibly empty interior): the backgrounds agree on the interior *)
Theorem border_noninterference_bg_interior : forall c evs1 evs2,
    stream_rel (frame_interior_eq c) evs1 evs2 ->
    forall y x, interior c y x = true ->
      gget (s_bg (dfinal c (dinit c) evs1)) y x = gget (s_bg (dfinal c (dinit c) evs2)) y x.
Proof.
  intros c evs1 evs2 H. destruct (border_run c evs1 evs2 H) as [_ HS].
  apply (sr_bg _ _ _ _ HS).
Qed.

(* fixed threshold: frames agree on telemetry and on every interior pixel except where both
   values are at or below the threshold *)
Definition frame_cold_eq (c : dcfg) (f g : frame) : Prop :=
  f_timeon f = f_timeon g /\ f_lastffc f = f_lastffc g /\
  forall y x, interior c y x = true ->
    gget (f_pix f) y x = gget (f_pix g) y x \/
    (gget (f_pix f) y x <= d_thresh0 c /\ gget (f_pix g) y x <= d_thresh0 c).

Lemma floor_to_cold : forall t a b, a = b \/ (a <= t /\ b <= t) -> floor_to t a = floor_to t b.
Proof.
  intros t a b [->|[Ha Hb]]; [reflexivity|]. unfold floor_to.
  destruct (Z.ltb_spec a t), (Z.ltb_spec b t); lia.
Qed.

Lemma fce_refl : forall c f, frame_cold_eq c f f.
Proof. intros c f. repeat split. intros; left; reflexivity. Qed.

Lemma fce_affected : forall c f g, frame_cold_eq c f g -> affected_by_ffc f = affected_by_ffc g.
Proof. intros c f g (H1 & H2 & _). unfold affected_by_ffc. rewrite H1, H2. reflexivity. Qed.

Lemma fce_diff_grid : forall c f g a b,
    frame_cold_eq c f g -> frame_cold_eq c a b ->
    diff_grid c (d_thresh0 c) (f_pix f) (f_pix a) = diff_grid c (d_thresh0 c) (f_pix g) (f_pix b).
Proof.
  intros c f g a b (_ & _ & Hfg) (_ & _ & Hab). unfold diff_grid.
  apply gbuild_ext. intros y x _ _.
  destruct (interior c y x) eqn:Hi; [|reflexivity].
  rewrite (floor_to_cold _ _ _ (Hfg y x Hi)), (floor_to_cold _ _ _ (Hab y x Hi)). reflexivity.
Qed.

Lemma pre_fixed : forall c s f, d_dynamic c = false ->
    pre c s f = (s_bg s, s_wts s, s_bgframes s, s_thresh s).
Proof. intros c s f Hd. unfold pre. rewrite Hd. reflexivity. Qed.

Lemma post_thresh : forall c s f bg w n t, s_thresh (fst (post c s f bg w n t)) = t.
Proof.
  intros. unfold post.
  destruct (negb (s_firstdiff s)); [|destruct (affected_by_ffc f || s_affected s)]; reflexivity.
Qed.

Definition cold_inv (c : dcfg) (s1 s2 : dstate) : Prop :=
  srel c (frame_cold_eq c) s1 s2 /\ s_thresh s1 = d_thresh0 c.

Lemma detect_cold_rel : forall c s1 s2 f g,
    d_dynamic c = false ->
    cold_inv c s1 s2 -> frame_cold_eq c f g ->
    cold_inv c (fst (detect c s1 f)) (fst (detect c s2 g)) /\
    snd (detect c s1 f) = snd (detect c s2 g).
Proof.
  intros c s1 s2 f g Hd [HS Ht] HF. unfold cold_inv.
  rewrite !detect_split, !pre_fixed by exact Hd. cbn [fst snd].
  rewrite post_thresh.
  pose proof HS as [_ _ _ _ Hth Hbg Hwt Hbf]. rewrite <- Hwt, <- Hbf, <- Hth, Ht.
  assert (H : srel c (frame_cold_eq c)
                   (fst (post c s1 f (s_bg s1) (s_wts s1) (s_bgframes s1) (d_thresh0 c)))
                   (fst (post c s2 g (s_bg s2) (s_wts s1) (s_bgframes s1) (d_thresh0 c))) /\
              snd (post c s1 f (s_bg s1) (s_wts s1) (s_bgframes s1) (d_thresh0 c)) =
              snd (post c s2 g (s_bg s2) (s_wts s1) (s_bgframes s1) (d_thresh0 c))).
  { apply post_rel; try assumption.
    - apply fce_refl.
    - apply (fce_affected c); exact HF.
    - intros a b Hab. apply fce_diff_grid; assumption. }
  destruct H as [H1 H2]. split; [split; [exact H1|reflexivity]|exact H2].
Qed.

Theorem cold_noninterference : forall c evs1 evs2,
    d_dynamic c = false ->
    stream_rel (frame_cold_eq c) evs1 evs2 ->
    drun c (dinit c) evs1 = drun c (dinit c) evs2.
Proof.
  intros c evs1 evs2 Hd H.
  apply (run_rel c (frame_cold_eq c) (cold_inv c)) with (evs1 := evs1) (evs2 := evs2); try assumption.
  - intros s1 s2 f g HI HF. apply detect_cold_rel; assumption.
  - intros s1 s2 [HS Ht]. split; [apply dreset_rel; exact HS|exact Ht].
  - intros s1 s2 [HS _]. apply (sr_th _ _ _ _ HS).
  - split; [apply dinit_rel, fce_refl|reflexivity].
Qed.
