(* Source tie for cmd/thermal-writer/thermalraw.go: the translated CPTR builder
   (coq/translated/ThermalRaw.v, regenerated from the Go source on every run), run in the outside
   world of model/RawExt.v, writes exactly the bytes of model/Writer.v: [enc_header] for a
   header, [enc_frame] for every frame, [enc_file] for a whole file; a failing Write stops the
   function at once and its error is returned.  All Qed, no axioms. *)
From Coq Require Import List ZArith Bool String Arith Lia.
From Coq Require Import ZifyBool ZifyNat.
From TR Require Import model.GoSem model.Writer model.Cptv model.RawExt translated.ThermalRaw.
From TR Require Import proofs.WriterProofs.
Import ListNotations.
Open Scope Z_scope.

Lemma all_ThermalRaw_translated : untranslated_ThermalRaw = [].
Proof. reflexivity. Qed.

(* ---------- lists ---------- *)
Lemma length_list_upd {A} (l : list A) n v : List.length (list_upd l n v) = List.length l.
Proof. revert n; induction l; destruct n; cbn; auto. Qed.

Lemma nth_list_upd_eq {A} (l : list A) n v d : (n < List.length l)%nat -> nth n (list_upd l n v) d = v.
Proof. revert n; induction l; destruct n; cbn; intros; try lia; auto. apply IHl; lia. Qed.

Lemma nth_list_upd_neq {A} (l : list A) n m v d : m <> n -> nth m (list_upd l n v) d = nth m l d.
Proof. revert n m; induction l; destruct n, m; cbn; intros; try lia; auto. Qed.

Lemma list_upd_twice {A} (l : list A) n a b : list_upd (list_upd l n a) n b = list_upd l n b.
Proof. revert n; induction l; destruct n; cbn; auto. f_equal; auto. Qed.

Lemma list_upd_same {A} (l : list A) n d : list_upd l n (nth n l d) = l.
Proof. revert n; induction l; destruct n; cbn; auto. f_equal; auto. Qed.

Lemma list_upd_app_l {A} (l l' : list A) n v : (n < List.length l)%nat -> list_upd (l ++ l') n v = list_upd l n v ++ l'.
Proof. revert n; induction l; destruct n; cbn; intros; try lia; auto. f_equal. apply IHl; lia. Qed.

Lemma list_upd_last {A} (l : list A) a b : list_upd (l ++ [a]) (List.length l) b = l ++ [b].
Proof. induction l; cbn; [reflexivity|]. f_equal. exact IHl. Qed.

Lemma nth_last {A} (l : list A) a d : nth (List.length l) (l ++ [a]) d = a.
Proof. rewrite app_nth2 by lia. rewrite Nat.sub_diag. reflexivity. Qed.

(* ---------- little-endian bytes of a wrapped value ---------- *)
Lemma le_bytes_mod n : forall v, le_bytes n (v mod 256 ^ Z.of_nat n) = le_bytes n v.
Proof.
  induction n as [|n IH]; intros v; [reflexivity|].
  cbn [le_bytes]. rewrite Nat2Z.inj_succ, Z.pow_succ_r by lia.
  assert (Hp : 0 < 256 ^ Z.of_nat n) by (apply Z.pow_pos_nonneg; lia).
  rewrite Z.rem_mul_r by lia. set (q := (v / 256) mod 256 ^ Z.of_nat n).
  rewrite (Z.mul_comm 256 q). f_equal.
  - rewrite Z.mod_add by lia. apply Z.mod_mod; lia.
  - rewrite Z.div_add by lia.
    rewrite (Z.div_small (v mod 256) 256) by (apply Z.mod_pos_bound; lia). rewrite Z.add_0_l. apply IH.
Qed.

Lemma le_bytes4_wrap v : le_bytes 4 (wrap_u 32 v) = le_bytes 4 v.
Proof. unfold wrap_u. change (2 ^ 32) with (256 ^ Z.of_nat 4). apply le_bytes_mod. Qed.

(* ---------- the external calls ---------- *)
Section Calls.
  Context {B : Type}.
  Variable k : Z -> M rworld B.
  Variable w : rworld.

  Lemma r_newfw : bind (call_ext rext "cptv.NewFieldWriter" []) k w =
    k (Z.of_nat (List.length (rw_fws w))) (with_fws w (rw_fws w ++ [[]])).
  Proof. reflexivity. Qed.
  Lemma r_bytes2 : bind (call_ext rext "f.Bytes#1" []) k w = k (rw_pending w) w.
  Proof. reflexivity. Qed.
  Lemma r_write2 : bind (call_ext rext "Builder.w.Write#1" []) k w = k (rw_pending w) w.
  Proof. reflexivity. Qed.
  Lemma r_next2 : bind (call_ext rext "nextFile#1" []) k w = k (rw_pending w) w.
  Proof. reflexivity. Qed.
  Lemma r_model : bind (call_ext rext "h.Model" []) k w =
    k (Z.of_nat (List.length (rw_bytes w))) (with_bytes w (rw_bytes w ++ [rc_model (rw_cfg w)])).
  Proof. reflexivity. Qed.
  Lemma r_brand : bind (call_ext rext "h.Brand" []) k w =
    k (Z.of_nat (List.length (rw_bytes w))) (with_bytes w (rw_bytes w ++ [rc_brand (rw_cfg w)])).
  Proof. reflexivity. Qed.
  Lemma r_fps : bind (call_ext rext "h.FPS" []) k w = k (rc_fps (rw_cfg w)) w.
  Proof. reflexivity. Qed.
  Lemma r_resx : bind (call_ext rext "h.ResX" []) k w = k (rc_resx (rw_cfg w)) w.
  Proof. reflexivity. Qed.
  Lemma r_resy : bind (call_ext rext "h.ResY" []) k w = k (rc_resy (rw_cfg w)) w.
  Proof. reflexivity. Qed.
  Lemma r_devid : bind (call_ext rext "read:conf.DeviceID" []) k w = k (rc_devid (rw_cfg w)) w.
  Proof. reflexivity. Qed.
  Lemma r_next s : bind (call_ext rext "nextFile" [ASym s]) k w =
    if rw_open_fail w then k 0 (with_pending w 1)
    else k (Z.of_nat (List.length (rw_outs w))) (with_pending (with_outs w (rw_outs w ++ [[]])) 0).
  Proof. unfold bind, call_ext, rext. cbn [String.eqb Ascii.eqb Bool.eqb]. destruct (rw_open_fail w); reflexivity. Qed.
  Lemma r_len t : bind (call_ext rext "bytes.len" [AInt t]) k w = k (Z.of_nat (List.length (rbytes w t))) w.
  Proof. reflexivity. Qed.
  Lemma r_bytes t : bind (call_ext rext "obj.Bytes" [AInt t]) k w =
    k (Z.of_nat (List.length (rw_bytes w)))
      (with_pending (with_bytes w (rw_bytes w ++ [enc_fields (rfields w t)])) (Z.of_nat (List.length (rfields w t)) mod 256)).
  Proof. reflexivity. Qed.
  Lemma r_write_b o b : bind (call_ext rext "obj.Write" [AInt o; ABytes b]) k w =
    k (fst (do_write w o b)) (snd (do_write w o b)).
  Proof. unfold bind, call_ext, rext. cbn [String.eqb Ascii.eqb Bool.eqb]. destruct (do_write w o b); reflexivity. Qed.
  Lemma r_write_t o t : bind (call_ext rext "obj.Write" [AInt o; AInt t]) k w =
    k (fst (do_write w o (rbytes w t))) (snd (do_write w o (rbytes w t))).
  Proof. unfold bind, call_ext, rext. cbn [String.eqb Ascii.eqb Bool.eqb]. destruct (do_write w o (rbytes w t)); reflexivity. Qed.
  Lemma r_u8 fw c v : bind (call_ext rext "obj.Uint8" [AInt fw; ASym c; AInt v]) k w = k 0 (add_field w fw (u8 (code_of c) v)).
  Proof. reflexivity. Qed.
  Lemma r_u32 fw c v : bind (call_ext rext "obj.Uint32" [AInt fw; ASym c; AInt v]) k w = k 0 (add_field w fw (u32 (code_of c) v)).
  Proof. reflexivity. Qed.
  Lemma r_ts fw c v : bind (call_ext rext "obj.Timestamp" [AInt fw; ASym c; AInt v]) k w =
    k 0 (add_field w fw (u64 (code_of c) (Z.quot v 1000))).
  Proof. reflexivity. Qed.
  Lemma r_str fw c v : bind (call_ext rext "obj.String" [AInt fw; ASym c; AInt v]) k w =
    k 0 (add_string w fw (code_of c) (rbytes w v)).
  Proof. reflexivity. Qed.
  Lemma r_devname fw c : bind (call_ext rext "obj.String" [AInt fw; ASym c; ASym "conf.DeviceName"]) k w =
    k 0 (add_string w fw (code_of c) (rc_devname (rw_cfg w))).
  Proof. reflexivity. Qed.
End Calls.

Lemma bind_ret_r {W A B} (a : A) (k : A -> M W B) w : bind (ret a) k w = k a w.
Proof. reflexivity. Qed.

Ltac rcall1 :=
  lazymatch goal with
  | |- context [bind (call_ext rext ?n ?a) ?k ?w] =>
    lazymatch n with
    | "cptv.NewFieldWriter"%string => rewrite (r_newfw k w)
    | "f.Bytes#1"%string => rewrite (r_bytes2 k w)
    | "Builder.w.Write#1"%string => rewrite (r_write2 k w)
    | "nextFile#1"%string => rewrite (r_next2 k w)
    | "h.Model"%string => rewrite (r_model k w)
    | "h.Brand"%string => rewrite (r_brand k w)
    | "h.FPS"%string => rewrite (r_fps k w)
    | "h.ResX"%string => rewrite (r_resx k w)
    | "h.ResY"%string => rewrite (r_resy k w)
    | "read:conf.DeviceID"%string => rewrite (r_devid k w)
    | "nextFile"%string => rewrite (r_next k w)
    | "bytes.len"%string => rewrite (r_len k w)
    | "obj.Bytes"%string => rewrite (r_bytes k w)
    | "obj.Write"%string => first [rewrite (r_write_b k w) | rewrite (r_write_t k w)]
    | "obj.Uint8"%string => rewrite (r_u8 k w)
    | "obj.Uint32"%string => rewrite (r_u32 k w)
    | "obj.Timestamp"%string => rewrite (r_ts k w)
    | "obj.String"%string => first [rewrite (r_devname k w) | rewrite (r_str k w)]
    end
  | |- context [bind (ret _) _ _] => rewrite bind_ret_r
  end;
  cbv beta.

(* ====================================================================================
   Writes
   ==================================================================================== *)
(* w' is w after the bytes [bs] have reached writer [o], with fault script [f'] left; other
   writers, the configuration and the existing byte slices are as they were *)
Definition advanced (w w' : rworld) (o : Z) (bs : bytes) (f' : list bool) : Prop :=
  rw_cfg w' = rw_cfg w /\ rw_open_fail w' = rw_open_fail w /\ rw_faults w' = f' /\
  rw_outs w' = list_upd (rw_outs w) (Z.to_nat o) (rout w o ++ bs) /\
  exists more, rw_bytes w' = rw_bytes w ++ more.

Definition oin (w : rworld) (o : Z) : Prop := (Z.to_nat o < List.length (rw_outs w))%nat.

Lemma advanced_refl w o : advanced w w o [] (rw_faults w).
Proof.
  repeat split. - rewrite app_nil_r. unfold rout. symmetry. apply list_upd_same.
  - exists []. symmetry. apply app_nil_r.
Qed.

Lemma advanced_trans w w1 w2 o b1 b2 f1 f2 : oin w o ->
  advanced w w1 o b1 f1 -> advanced w1 w2 o b2 f2 -> advanced w w2 o (b1 ++ b2) f2.
Proof.
  intros Ho (C1 & P1 & F1 & O1 & m1 & B1) (C2 & P2 & F2 & O2 & m2 & B2).
  repeat split; try congruence.
  - rewrite O2. unfold rout at 1. rewrite O1, nth_list_upd_eq by exact Ho.
    rewrite list_upd_twice, app_assoc. reflexivity.
  - exists (m1 ++ m2). rewrite B2, B1, app_assoc. reflexivity.
Qed.

Lemma advanced_bs w w' o bs bs' f : advanced w w' o bs f -> bs = bs' -> advanced w w' o bs' f.
Proof. intros H <-. exact H. Qed.

Lemma oin_advanced w w' o bs f : advanced w w' o bs f -> oin w o -> oin w' o.
Proof. intros (_ & _ & _ & O & _) H. unfold oin in *. rewrite O, length_list_upd. exact H. Qed.

Lemma rout_advanced w w' o bs f : advanced w w' o bs f -> oin w o -> rout w' o = rout w o ++ bs.
Proof. intros (_ & _ & _ & O & _) H. unfold rout at 1. rewrite O. apply nth_list_upd_eq. exact H. Qed.

Lemma rbytes_advanced w w' o bs f t : advanced w w' o bs f ->
  (Z.to_nat t < List.length (rw_bytes w))%nat -> rbytes w' t = rbytes w t.
Proof. intros (_ & _ & _ & _ & m & Bm) H. unfold rbytes. rewrite Bm. apply app_nth1. exact H. Qed.

(* one Write: nothing on a fault, everything otherwise *)
Lemma write_adv w o b : oin w o ->
  let w' := snd (do_write w o b) in
  if hd false (rw_faults w) then rw_pending w' = 1 /\ advanced w w' o [] (tl (rw_faults w))
  else rw_pending w' = 0 /\ advanced w w' o b (tl (rw_faults w)).
Proof.
  intros Ho. unfold do_write. destruct (hd false (rw_faults w)); cbn [snd]; (split; [reflexivity|]).
  - repeat split; cbn [rw_cfg rw_open_fail rw_faults rw_outs rw_bytes with_pending with_faults with_outs]; try reflexivity.
    + rewrite app_nil_r. unfold rout. symmetry. apply list_upd_same.
    + exists []. symmetry. apply app_nil_r.
  - repeat split; cbn [rw_cfg rw_open_fail rw_faults rw_outs rw_bytes with_pending with_faults with_outs]; try reflexivity.
    exists []. symmetry. apply app_nil_r.
Qed.

Lemma wrap8_mod a : wrap_u 8 (a mod 256) = a mod 256.
Proof. unfold wrap_u. change (2 ^ 8) with 256. apply Z.mod_mod. lia. Qed.

Lemma wrap8_mod_l a : wrap_u 8 a mod 256 = a mod 256.
Proof. unfold wrap_u. change (2 ^ 8) with 256. apply Z.mod_mod. lia. Qed.

Definition frame_chunks (w : rworld) (fw t : Z) : list bytes :=
  [[SEC_FRAME; Z.of_nat (List.length (rfields w fw)) mod 256]; enc_fields (rfields w fw); rbytes w t].

Lemma tie_WriteFrame_gen w o fw t : oin w o -> (Z.to_nat t < List.length (rw_bytes w))%nat ->
  exists w', Builder_WriteFrame rext (mkBuilder o) fw t w =
               Ok (mkBuilder o, fst (fst (write_seq (rw_faults w) (frame_chunks w fw t)))) w' /\
             advanced w w' o (snd (fst (write_seq (rw_faults w) (frame_chunks w fw t))))
                      (snd (write_seq (rw_faults w) (frame_chunks w fw t))).
Proof.
  intros Ho Ht. unfold Builder_WriteFrame. cbn [Builder_w].
  do 4 rcall1. cbn [rw_pending with_pending]. rewrite wrap8_mod.
  set (w1 := with_pending _ _).
  assert (A1 : advanced w w1 o [] (rw_faults w)).
  { repeat split; try reflexivity.
    - rewrite app_nil_r. unfold rout. symmetry. apply list_upd_same.
    - eexists; reflexivity. }
  assert (Ho1 : oin w1 o) by exact Ho.
  assert (Hfd : rbytes w1 (Z.of_nat (List.length (rw_bytes w))) = enc_fields (rfields w fw)).
  { unfold rbytes, w1. cbn [rw_bytes with_pending with_bytes]. rewrite Nat2Z.id, app_nth2 by lia.
    rewrite Nat.sub_diag. reflexivity. }
  assert (Hfr : rbytes w1 t = rbytes w t) by (apply (rbytes_advanced w w1 o [] _ t A1 Ht)).
  assert (Hl1 : (List.length (rw_bytes w) < List.length (rw_bytes w1))%nat).
  { unfold w1. cbn [rw_bytes with_pending with_bytes]. rewrite app_length. cbn. lia. }
  unfold frame_chunks. cbn [write_seq].
  change (rw_faults w) with (rw_faults w1). clearbody w1.
  (* first write *)
  pose proof (write_adv w1 o [70; Z.of_nat (List.length (rfields w fw)) mod 256] Ho1) as W1. cbv zeta in W1.
  set (w2 := snd (do_write w1 o _)) in *.
  destruct (hd false (rw_faults w1)).
  { destruct W1 as [-> W1]. cbn. exists w2. split; [reflexivity|].
    apply (advanced_trans w w1 w2 o [] [] _ _ Ho A1 W1). }
  destruct W1 as [-> W1]. cbn [negb Z.eqb].
  assert (A2 : advanced w w2 o _ _) by (apply (advanced_trans w w1 w2 o _ _ _ _ Ho A1 W1)).
  assert (Ho2 : oin w2 o) by (apply (oin_advanced _ _ _ _ _ W1 Ho1)).
  assert (Hfd2 : rbytes w2 (Z.of_nat (List.length (rw_bytes w))) = enc_fields (rfields w fw)).
  { rewrite <- Hfd. apply (rbytes_advanced w1 w2 o _ _ _ W1). lia. }
  assert (Hfr2 : rbytes w2 t = rbytes w t).
  { rewrite <- Hfr. apply (rbytes_advanced w1 w2 o _ _ _ W1). lia. }
  assert (Hf2 : rw_faults w2 = tl (rw_faults w1)) by (apply W1).
  assert (Hl2 : (List.length (rw_bytes w1) <= List.length (rw_bytes w2))%nat).
  { destruct W1 as (_ & _ & _ & _ & m & ->). rewrite app_length. lia. }
  rewrite <- Hf2. clear Hf2. clearbody w2. clear W1 A1 Hfd Hfr Ho1.
  (* second write *)
  do 2 rcall1. rewrite Hfd2.
  pose proof (write_adv w2 o (enc_fields (rfields w fw)) Ho2) as W2. cbv zeta in W2.
  set (w3 := snd (do_write w2 o _)) in *.
  destruct (hd false (rw_faults w2)).
  { destruct W2 as [-> W2]. cbn. exists w3. split; [reflexivity|].
    eapply advanced_bs; [apply (advanced_trans w w2 w3 o _ [] _ _ Ho A2 W2)|].
    cbn. rewrite ?app_nil_r. reflexivity. }
  destruct W2 as [-> W2]. cbn [negb Z.eqb].
  assert (A3 : advanced w w3 o _ _) by (apply (advanced_trans w w2 w3 o _ _ _ _ Ho A2 W2)).
  assert (Ho3 : oin w3 o) by (apply (oin_advanced _ _ _ _ _ W2 Ho2)).
  assert (Hfr3 : rbytes w3 t = rbytes w t).
  { rewrite <- Hfr2. apply (rbytes_advanced w2 w3 o _ _ _ W2). lia. }
  assert (Hf3 : rw_faults w3 = tl (rw_faults w2)) by (apply W2).
  rewrite <- Hf3. clear Hf3. clearbody w3. clear W2 A2 Hfd2 Hfr2 Ho2.
  (* third write *)
  do 2 rcall1. rewrite Hfr3.
  pose proof (write_adv w3 o (rbytes w t) Ho3) as W3. cbv zeta in W3.
  set (w4 := snd (do_write w3 o _)) in *.
  destruct (hd false (rw_faults w3)).
  { destruct W3 as [-> W3]. cbn. exists w4. split; [reflexivity|].
    eapply advanced_bs; [apply (advanced_trans w w3 w4 o _ [] _ _ Ho A3 W3)|].
    cbn. rewrite ?app_nil_r. reflexivity. }
  destruct W3 as [-> W3]. cbn. exists w4. split; [reflexivity|].
  eapply advanced_bs; [apply (advanced_trans w w3 w4 o _ _ _ _ Ho A3 W3)|].
  cbn. rewrite ?app_nil_r, <- ?app_assoc. reflexivity.
Qed.

Lemma advanced_same w w' o :
  rw_cfg w' = rw_cfg w -> rw_open_fail w' = rw_open_fail w -> rw_faults w' = rw_faults w ->
  rw_outs w' = rw_outs w -> (exists m, rw_bytes w' = rw_bytes w ++ m) ->
  advanced w w' o [] (rw_faults w).
Proof.
  intros C P F O B. repeat split; try assumption.
  rewrite app_nil_r, O. unfold rout. symmetry. apply list_upd_same.
Qed.

Definition header_chunks (w : rworld) (fw : Z) : list bytes :=
  [CPTR_MAGIC ++ [CPTR_VERSION; SEC_HEADER; Z.of_nat (List.length (rfields w fw)) mod 256]; enc_fields (rfields w fw)].

Lemma tie_WriteHeader_gen w o fw : oin w o ->
  exists w', Builder_WriteHeader rext (mkBuilder o) fw w =
               Ok (mkBuilder o, fst (fst (write_seq (rw_faults w) (header_chunks w fw)))) w' /\
             advanced w w' o (snd (fst (write_seq (rw_faults w) (header_chunks w fw))))
                      (snd (write_seq (rw_faults w) (header_chunks w fw))).
Proof.
  intros Ho. unfold Builder_WriteHeader. cbn [Builder_w].
  do 4 rcall1. cbn [rw_pending with_pending]. rewrite wrap8_mod.
  set (w1 := with_pending _ _).
  assert (A1 : advanced w w1 o [] (rw_faults w)).
  { apply advanced_same; try reflexivity. eexists; reflexivity. }
  assert (Ho1 : oin w1 o) by exact Ho.
  assert (Hfd : rbytes w1 (Z.of_nat (List.length (rw_bytes w))) = enc_fields (rfields w fw)).
  { unfold rbytes, w1. cbn [rw_bytes with_pending with_bytes]. rewrite Nat2Z.id, app_nth2 by lia.
    rewrite Nat.sub_diag. reflexivity. }
  assert (Hl1 : (List.length (rw_bytes w) < List.length (rw_bytes w1))%nat).
  { unfold w1. cbn [rw_bytes with_pending with_bytes]. rewrite app_length. cbn. lia. }
  unfold header_chunks. cbn [write_seq].
  change (rw_faults w) with (rw_faults w1). clearbody w1.
  change ([67; 80; 84; 82] ++ [2; 72; Z.of_nat (List.length (rfields w fw)) mod 256])
    with (CPTR_MAGIC ++ [CPTR_VERSION; SEC_HEADER; Z.of_nat (List.length (rfields w fw)) mod 256]).
  set (c1 := CPTR_MAGIC ++ _).
  pose proof (write_adv w1 o c1 Ho1) as W1. cbv zeta in W1.
  set (w2 := snd (do_write w1 o _)) in *.
  destruct (hd false (rw_faults w1)).
  { destruct W1 as [-> W1]. cbn. exists w2. split; [reflexivity|].
    apply (advanced_trans w w1 w2 o [] [] _ _ Ho A1 W1). }
  destruct W1 as [-> W1]. cbn [negb Z.eqb].
  assert (A2 : advanced w w2 o _ _) by (apply (advanced_trans w w1 w2 o _ _ _ _ Ho A1 W1)).
  assert (Ho2 : oin w2 o) by (apply (oin_advanced _ _ _ _ _ W1 Ho1)).
  assert (Hfd2 : rbytes w2 (Z.of_nat (List.length (rw_bytes w))) = enc_fields (rfields w fw)).
  { rewrite <- Hfd. apply (rbytes_advanced w1 w2 o _ _ _ W1). lia. }
  assert (Hf2 : rw_faults w2 = tl (rw_faults w1)) by (apply W1).
  rewrite <- Hf2. clear Hf2. clearbody w2. clear W1 A1 Hfd Ho1.
  do 2 rcall1. rewrite Hfd2.
  pose proof (write_adv w2 o (enc_fields (rfields w fw)) Ho2) as W2. cbv zeta in W2.
  set (w3 := snd (do_write w2 o _)) in *.
  destruct (hd false (rw_faults w2)).
  { destruct W2 as [-> W2]. cbn. exists w3. split; [reflexivity|].
    eapply advanced_bs; [apply (advanced_trans w w2 w3 o _ [] _ _ Ho A2 W2)|].
    cbn. rewrite ?app_nil_r. reflexivity. }
  destruct W2 as [-> W2]. cbn. exists w3. split; [reflexivity|].
  eapply advanced_bs; [apply (advanced_trans w w2 w3 o _ _ _ _ Ho A2 W2)|].
  cbn. rewrite ?app_nil_r. reflexivity.
Qed.

(* ---------- field writers ---------- *)
Definition fwin (w : rworld) (fw : Z) : Prop := (Z.to_nat fw < List.length (rw_fws w))%nat.

Lemma rfields_add w fw f : fwin w fw -> rfields (add_field w fw f) fw = rfields w fw ++ [f].
Proof. intros H. unfold rfields at 1, add_field. cbn [rw_fws with_fws]. apply nth_list_upd_eq. exact H. Qed.

Lemma fwin_add w fw f fw' : fwin (add_field w fw f) fw' <-> fwin w fw'.
Proof. unfold fwin, add_field. cbn [rw_fws with_fws]. rewrite length_list_upd. tauto. Qed.

Lemma rfields_new w : rfields (with_fws w (rw_fws w ++ [[]])) (Z.of_nat (List.length (rw_fws w))) = [].
Proof. unfold rfields. cbn [rw_fws with_fws]. rewrite Nat2Z.id, app_nth2 by lia. rewrite Nat.sub_diag. reflexivity. Qed.

Lemma fwin_new w : fwin (with_fws w (rw_fws w ++ [[]])) (Z.of_nat (List.length (rw_fws w))).
Proof. unfold fwin. cbn [rw_fws with_fws]. rewrite Nat2Z.id, app_length. cbn. lia. Qed.

(* ---------- writeFrame ---------- *)
(* the three writes of a frame section, as model/Writer.v's [enc_frame] lays them out *)
Definition frame_model_chunks (data : bytes) : list bytes :=
  [[SEC_FRAME; 1]; enc_field (mkField CODE_FRAMESIZE (le_bytes 4 (Z.of_nat (List.length data)))); data].

Lemma concat_frame_model_chunks data : List.concat (frame_model_chunks data) = enc_frame data.
Proof. unfold frame_model_chunks, enc_frame. cbn [List.concat]. rewrite app_nil_r. reflexivity. Qed.

Theorem tie_writeFrame : forall w o t,
    oin w o -> (Z.to_nat t < List.length (rw_bytes w))%nat ->
    let r := write_seq (rw_faults w) (frame_model_chunks (rbytes w t)) in
    exists w', ThermalRaw_fn_writeFrame rext (mkBuilder o) t w = Ok (fst (fst r)) w' /\
               advanced w w' o (snd (fst r)) (snd r).
Proof.
  intros w o t Ho Ht r. unfold ThermalRaw_fn_writeFrame.
  do 3 rcall1. change (code_of "cptv.FrameSize") with CODE_FRAMESIZE.
  set (fw := Z.of_nat (List.length (rw_fws w))).
  set (f := u32 CODE_FRAMESIZE _).
  set (wp := add_field _ fw f).
  assert (Hf : rfields wp fw = [f]).
  { unfold wp. rewrite rfields_add by apply fwin_new. unfold fw. rewrite rfields_new. reflexivity. }
  assert (Ap : advanced w wp o [] (rw_faults w)).
  { apply advanced_same; try reflexivity. exists []. symmetry. apply app_nil_r. }
  destruct (tie_WriteFrame_gen wp o fw t Ho Ht) as (w' & E & A).
  unfold bind at 1. rewrite E. cbv beta iota.
  assert (Hc : frame_chunks wp fw t = frame_model_chunks (rbytes w t)).
  { unfold frame_chunks, frame_model_chunks. rewrite Hf. cbn [List.length enc_fields flat_map].
    rewrite app_nil_r. unfold f, u32. rewrite le_bytes4_wrap. reflexivity. }
  rewrite Hc in A |- *. change (rw_faults wp) with (rw_faults w) in A |- *.
  exists w'. split; [reflexivity|].
  eapply advanced_bs; [apply (advanced_trans w wp w' o [] _ _ _ Ho Ap A)|reflexivity].
Qed.

(* no fault in the next three writes: exactly the frame section of the model *)
Lemma write_seq_ok faults chunks : firstn (List.length chunks) faults = repeat false (Nat.min (List.length chunks) (List.length faults)) ->
  write_seq faults chunks = (0, List.concat chunks, skipn (List.length chunks) faults).
Proof.
  revert faults; induction chunks as [|c r IH]; intros faults H; [reflexivity|].
  cbn [write_seq List.length List.concat]. destruct faults as [|[|] f'].
  - cbn [hd tl]. rewrite IH by (destruct (List.length r); reflexivity). destruct r; reflexivity.
  - cbn in H. discriminate.
  - cbn [hd tl skipn]. cbn [List.length firstn Nat.min repeat] in H. rewrite IH by (inversion H; reflexivity). reflexivity.
Qed.

Corollary tie_writeFrame_ok : forall w o t,
    oin w o -> (Z.to_nat t < List.length (rw_bytes w))%nat -> rw_faults w = [] ->
    exists w', ThermalRaw_fn_writeFrame rext (mkBuilder o) t w = Ok 0 w' /\
               advanced w w' o (enc_frame (rbytes w t)) [].
Proof.
  intros w o t Ho Ht Hf. destruct (tie_writeFrame w o t Ho Ht) as (w' & E & A).
  rewrite Hf, write_seq_ok in E, A by reflexivity. cbn [fst snd] in E, A.
  rewrite concat_frame_model_chunks in A. exists w'. split; assumption.
Qed.

(* ---------- newThermalRaw ---------- *)
Definition cfg_ok (c : rcfg) : Prop :=
  (List.length (rc_model c) <= 255)%nat /\ (List.length (rc_brand c) <= 255)%nat /\ (List.length (rc_devname c) <= 255)%nat.

Definition raw_header (c : rcfg) (t : Z) : list field :=
  thermal_raw_header (le_bytes 8 (Z.quot t 1000)) (rc_model c) (rc_brand c) (rc_fps c) (rc_resx c) (rc_resy c)
                     (rc_devname c) (rc_devid c).

Lemma add_string_ok w fw code s : (List.length s <= 255)%nat -> add_string w fw code s = add_field w fw (mkField code s).
Proof. intros H. unfold add_string. replace (255 <? List.length s)%nat with false by lia. reflexivity. Qed.

Lemma rbytes_alloc w b : rbytes (with_bytes w (rw_bytes w ++ [b])) (Z.of_nat (List.length (rw_bytes w))) = b.
Proof. unfold rbytes. cbn [rw_bytes with_bytes]. rewrite Nat2Z.id, app_nth2 by lia. rewrite Nat.sub_diag. reflexivity. Qed.

(* while a field writer is being filled: nothing else changes *)
Definition fwstate (w0 w : rworld) (fw : Z) (fs : list field) : Prop :=
  fwin w fw /\ rfields w fw = fs /\ rw_cfg w = rw_cfg w0 /\ rw_outs w = rw_outs w0 /\
  rw_faults w = rw_faults w0 /\ rw_open_fail w = rw_open_fail w0 /\ exists m, rw_bytes w = rw_bytes w0 ++ m.

Lemma fws_add w0 w fw fs f : fwstate w0 w fw fs -> fwstate w0 (add_field w fw f) fw (fs ++ [f]).
Proof.
  intros (I & F & C & O & Fa & P & B). repeat split; try assumption.
  - apply fwin_add. exact I.
  - rewrite rfields_add by exact I. rewrite F. reflexivity.
Qed.

Lemma fws_alloc w0 w fw fs b : fwstate w0 w fw fs -> fwstate w0 (with_bytes w (rw_bytes w ++ [b])) fw fs.
Proof.
  intros (I & F & C & O & Fa & P & m & B). repeat split; try assumption.
  exists (m ++ [b]). cbn [rw_bytes with_bytes]. rewrite B, app_assoc. reflexivity.
Qed.

Lemma fws_new w0 : fwstate w0 (with_fws w0 (rw_fws w0 ++ [[]])) (Z.of_nat (List.length (rw_fws w0))) [].
Proof.
  repeat split. - apply fwin_new. - apply rfields_new. - exists []. symmetry. apply app_nil_r.
Qed.

Theorem tie_newThermalRaw : forall w t,
    rw_open_fail w = false -> cfg_ok (rw_cfg w) ->
    let o := Z.of_nat (List.length (rw_outs w)) in
    let r := write_seq (rw_faults w) [CPTR_MAGIC ++ [CPTR_VERSION; SEC_HEADER; 9]; enc_fields (raw_header (rw_cfg w) t)] in
    exists w', ThermalRaw_fn_newThermalRaw rext t w =
                 Ok (if fst (fst r) =? 0 then mkBuilder o else mkBuilder 0, fst (fst r)) w' /\
               rw_outs w' = rw_outs w ++ [snd (fst r)] /\ rw_faults w' = snd r /\
               rw_cfg w' = rw_cfg w /\ rw_open_fail w' = false /\
               exists m, rw_bytes w' = rw_bytes w ++ m.
Proof.
  intros w t Hopen (Hm & Hb & Hd) o r. unfold ThermalRaw_fn_newThermalRaw.
  rcall1. rewrite Hopen. rcall1. cbn [rw_pending with_pending negb Z.eqb].
  unfold ThermalRaw_fn_newBuilder. rcall1. fold o.
  set (w1 := with_pending (with_outs w (rw_outs w ++ [[]])) 0).
  rcall1. set (fw := Z.of_nat (List.length (rw_fws w1))).
  rcall1.
  rcall1. rcall1. rewrite rbytes_alloc, add_string_ok by (cbn; assumption).
  rcall1. rcall1. rewrite rbytes_alloc, add_string_ok by (cbn; assumption).
  do 8 rcall1. rewrite add_string_ok by (cbn; assumption).
  do 2 rcall1.
  match goal with |- context [bind (Builder_WriteHeader rext _ fw) _ ?W] => set (wN := W) end.
  evar (FS : list field).
  assert (HN : fwstate w1 wN fw FS).
  { unfold wN, FS. repeat first [eapply fws_add | eapply fws_alloc]. apply fws_new. }
  assert (HFS : FS = raw_header (rw_cfg w) t).
  { unfold FS, raw_header, thermal_raw_header, u8, u32, u64, str_field.
    cbn -[le_bytes Z.quot wrap_u Z.modulo].
    rewrite !le_bytes4_wrap, wrap8_mod_l. reflexivity. }
  assert (HoN : oin wN o).
  { unfold oin. destruct HN as (_ & _ & _ & -> & _). unfold w1, o. cbn [rw_outs with_pending with_outs].
    rewrite Nat2Z.id, app_length. cbn. lia. }
  destruct (tie_WriteHeader_gen wN o fw HoN) as (w' & E & A).
  unfold bind at 1. rewrite E. cbv beta iota.
  assert (Hc : header_chunks wN fw = [CPTR_MAGIC ++ [CPTR_VERSION; SEC_HEADER; 9]; enc_fields (raw_header (rw_cfg w) t)]).
  { unfold header_chunks. destruct HN as (_ & -> & _). rewrite HFS. reflexivity. }
  assert (HfN : rw_faults wN = rw_faults w) by (destruct HN as (_ & _ & _ & _ & -> & _); reflexivity).
  rewrite Hc, HfN in A |- *. fold r in A |- *.
  exists w'. split.
  { destruct (fst (fst r) =? 0) eqn:Ee.
    - apply Z.eqb_eq in Ee. rewrite Ee. reflexivity.
    - cbn [negb]. reflexivity. }
  destruct A as (C & P & F & O & m & B). destruct HN as (_ & _ & CN & ON & _ & PN & mN & BN).
  repeat split.
  - rewrite O. unfold rout. rewrite ON. unfold w1, o. cbn [rw_outs with_pending with_outs].
    rewrite Nat2Z.id, nth_last, list_upd_last. reflexivity.
  - exact F.
  - rewrite C, CN. reflexivity.
  - rewrite P, PN. exact Hopen.
  - exists (mN ++ m). rewrite B, BN, app_assoc. reflexivity.
Qed.

(* nextFile fails: the error is returned, nothing is written, no writer is made *)
Theorem tie_newThermalRaw_open_fail : forall w t,
    rw_open_fail w = true ->
    ThermalRaw_fn_newThermalRaw rext t w = Ok (mkBuilder 0, 1) (with_pending w 1).
Proof.
  intros w t Hopen. unfold ThermalRaw_fn_newThermalRaw.
  rcall1. rewrite Hopen. rcall1. reflexivity.
Qed.

(* no fault: the header section of the model *)
Corollary tie_newThermalRaw_ok : forall w t,
    rw_open_fail w = false -> cfg_ok (rw_cfg w) -> rw_faults w = [] ->
    exists w', ThermalRaw_fn_newThermalRaw rext t w = Ok (mkBuilder (Z.of_nat (List.length (rw_outs w))), 0) w' /\
               rw_outs w' = rw_outs w ++ [enc_header (raw_header (rw_cfg w) t)] /\ rw_faults w' = [] /\
               rw_cfg w' = rw_cfg w /\ rw_open_fail w' = false /\
               exists m, rw_bytes w' = rw_bytes w ++ m.
Proof.
  intros w t Hopen Hc Hf. destruct (tie_newThermalRaw w t Hopen Hc) as (w' & E & O & F & R).
  rewrite Hf in E, O, F. cbn [write_seq hd tl fst snd Z.eqb] in E, O, F.
  exists w'. split; [exact E|]. split; [|split; [exact F | exact R]].
  rewrite O. unfold enc_header. cbn [List.length raw_header thermal_raw_header].
  rewrite app_nil_r, <- app_assoc. reflexivity.
Qed.

(* ---------- a whole file ---------- *)
Lemma map_nth_seq {A} (l : list A) d : map (fun i => nth i l d) (seq 0 (List.length l)) = l.
Proof.
  induction l as [|a l IH]; [reflexivity|]. cbn [List.length seq map nth]. f_equal.
  rewrite <- seq_shift, map_map. exact IH.
Qed.

Lemma src_write_frames_ok : forall toks w o,
    oin w o -> rw_faults w = [] -> Forall (fun t => (Z.to_nat t < List.length (rw_bytes w))%nat) toks ->
    exists w', src_write_frames (mkBuilder o) toks w = Ok 0 w' /\
               advanced w w' o (flat_map enc_frame (map (rbytes w) toks)) [].
Proof.
  induction toks as [|t toks IH]; intros w o Ho Hf Ht.
  - exists w. split; [reflexivity|]. rewrite <- Hf. apply advanced_refl.
  - inversion Ht as [|? ? Ht1 Ht2]; subst.
    destruct (tie_writeFrame_ok w o t Ho Ht1 Hf) as (w1 & E1 & A1).
    cbn [src_write_frames]. rewrite E1. cbn [Z.eqb].
    assert (Hl : (List.length (rw_bytes w) <= List.length (rw_bytes w1))%nat).
    { destruct A1 as (_ & _ & _ & _ & m & ->). rewrite app_length. lia. }
    destruct (IH w1 o (oin_advanced _ _ _ _ _ A1 Ho) ltac:(apply A1)) as (w2 & E2 & A2).
    { eapply Forall_impl; [|exact Ht2]. cbn. intros; lia. }
    exists w2. split; [exact E2|].
    eapply advanced_bs; [apply (advanced_trans w w1 w2 o _ _ _ _ Ho A1 A2)|].
    cbn [map flat_map]. f_equal. f_equal. apply map_ext_in.
    intros a Ha. rewrite Forall_forall in Ht2. apply (rbytes_advanced w w1 o _ _ a A1). apply Ht2, Ha.
Qed.

(* the translated newThermalRaw followed by writeFrame for every frame, nothing failing: the one
   file written holds exactly model/Writer.v's [enc_file] of the header fields and the frames *)
Theorem tie_raw_file : forall c t frames,
    cfg_ok c ->
    exists w', src_raw_file c t frames [] false = Ok 0 w' /\
               rw_outs w' = [enc_file (raw_header c t) frames].
Proof.
  intros c t frames Hc. unfold src_raw_file.
  destruct (tie_newThermalRaw_ok (rw_init c frames [] false) t eq_refl Hc eq_refl)
    as (w1 & E & O & F & C & P & m & B).
  rewrite E. cbn [Z.eqb List.length rw_outs rw_init Z.of_nat].
  cbn [rw_outs rw_init app rw_cfg rw_bytes] in O, B.
  assert (Ho : oin w1 0) by (unfold oin; rewrite O; cbn; lia).
  destruct (src_write_frames_ok (map Z.of_nat (seq 0 (List.length frames))) w1 0 Ho F) as (w2 & E2 & A2).
  { apply Forall_forall. intros x Hx. apply in_map_iff in Hx. destruct Hx as (i & <- & Hi).
    apply in_seq in Hi. rewrite B, app_length, Nat2Z.id. lia. }
  exists w2. split; [exact E2|].
  destruct A2 as (_ & _ & _ & O2 & _). rewrite O2. unfold rout. rewrite O. cbn [Z.to_nat nth list_upd].
  unfold enc_file. f_equal. f_equal. f_equal.
  rewrite map_map. rewrite <- (map_nth_seq frames []) at 2.
  apply map_ext_in. intros i Hi. apply in_seq in Hi. unfold rbytes. rewrite B, Nat2Z.id.
  apply app_nth1. lia.
Qed.

(* ... and the standard reader's view of that file (model/Writer.v's parser) is the header
   fields and the frames, byte for byte *)
Theorem tie_raw_file_parses : forall c t frames,
    cfg_ok c -> Forall (fun fr => Z.of_nat (List.length fr) < 2 ^ 32) frames ->
    exists w' file, src_raw_file c t frames [] false = Ok 0 w' /\ rw_outs w' = [file] /\
                    parse_file file = Some (raw_header c t, frames).
Proof.
  intros c t frames Hc Hfr. destruct (tie_raw_file c t frames Hc) as (w' & E & O).
  exists w', (enc_file (raw_header c t) frames). split; [exact E|]. split; [exact O|].
  destruct Hc as (Hm & Hb & Hd).
  apply parse_roundtrip; [cbn; lia | | exact Hfr].
  unfold raw_header, thermal_raw_header, str_field.
  repeat (apply Forall_cons; [unfold field_ok; cbn [f_data le_bytes List.length]; lia|]).
  apply Forall_nil.
Qed.

(* ---------- examples ---------- *)
Definition ex_cfg : rcfg := mkRC [108; 101; 112] [102; 108; 105; 114] [112; 105] 9 160 120 7.

Example raw_ex_file :
  match src_raw_file ex_cfg 1600000000123456789 [[1; 2; 3]; [4; 5]] [] false with
  | Ok e w' => e = 0 /\ rw_outs w' = [enc_file (raw_header ex_cfg 1600000000123456789) [[1; 2; 3]; [4; 5]]] /\
               parse_file (nth 0 (rw_outs w') []) = Some (raw_header ex_cfg 1600000000123456789, [[1; 2; 3]; [4; 5]])
  | Panicked _ => False
  end.
Proof. vm_compute. repeat split; reflexivity. Qed.

(* the second Write of the first frame fails: the frame's section byte and field count are in
   the file, its fields and data are not, the error is returned and the second frame is not tried *)
Example raw_ex_fault :
  match src_raw_file ex_cfg 0 [[1; 2; 3]; [4; 5]] [false; false; false; true] false with
  | Ok e w' => e = 1 /\ rw_outs w' = [enc_header (raw_header ex_cfg 0) ++ [SEC_FRAME; 1]]
  | Panicked _ => False
  end.
Proof. vm_compute. repeat split; reflexivity. Qed.

(* a model name longer than 255 bytes: FieldWriter.String refuses it, newThermalRaw ignores the
   error - the header is written without the Model field (8 fields) *)
Example raw_ex_long_model :
  let c := mkRC (repeat 65 256) [102] [112] 9 160 120 7 in
  match src_raw_file c 0 [] [] false with
  | Ok e w' => e = 0 /\
     rw_outs w' = [CPTR_MAGIC ++ [CPTR_VERSION; SEC_HEADER; 8] ++
                   enc_fields (filter (fun f => negb (f_code f =? C_MODEL)) (raw_header c 0))]
  | Panicked _ => False
  end.
Proof. vm_compute. repeat split; reflexivity. Qed.
