(* C03: recording length rule.  C04: a recording starts iff motion persisted, the window is
   open, the disk check passes and the file can be created; gates consulted in order. *)
From Coq Require Import List ZArith Bool Arith Lia.
From TR Require Import model.Ring model.RingSpec model.Processor model.ProcAbs model.ProcSpec proofs.ProcRefine.
Import ListNotations.
Open Scope Z_scope.

Theorem S03_holds : forall c fm fc ft evs,
    1 <= p_size c -> 0 <= p_min c <= p_max c -> wf_ids 0 evs ->
    let tr := psteps c fm fc ft evs in
    nowf tr = true ->
    S03 c tr = true.
Admitted.

(* with a window whose consultations are observable *)
Theorem S04_holds : forall c fm fc ft evs,
    1 <= p_size c -> wf_ids 0 evs ->
    S04 c false (psteps c fm fc ft evs) = true.
Admitted.

(* NoWindow: the window is always open and its consultation is not observable *)
Definition strip_winq_step (x : ev * list out) : ev * list out :=
  (fst x, filter (fun o => match o with WinQ _ => false | _ => true end) (snd x)).

Definition all_win_open (evs : list ev) : bool :=
  forallb (fun e => match e with EFrame _ _ w => w | _ => true end) evs.

Theorem S04_holds_nowindow : forall c fm fc ft evs,
    1 <= p_size c -> wf_ids 0 evs -> all_win_open evs = true ->
    S04 c true (map strip_winq_step (psteps c fm fc ft evs)) = true.
Admitted.
