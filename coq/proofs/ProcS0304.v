(* C03: recording length rule.  C04: a recording starts iff motion persisted, the window is
   open, the disk check passes and the file can be created; gates consulted in order. *)
From Coq Require Import List ZArith Bool Arith Lia ZifyBool.
From TR Require Import model.Ring model.RingSpec model.Processor model.ProcAbs model.ProcSpec proofs.ProcRefine.
Import ListNotations.
Open Scope Z_scope.

(* ------------------------------------------------------------------ *)
(* reduction of the processor trace to the abstract motion machine      *)

Lemma psteps_abs : forall c fm fc ft evs,
    1 <= p_size c -> wf_ids 0 evs ->
    psteps c fm fc ft evs =
    combine evs (zip3 (arun c (ainit fm) evs) (crun c (cinit fc) evs) (trun (tinit ft) evs)).
Proof.
  intros c fm fc ft evs Hsz Hwf. unfold psteps, pinit.
  rewrite prun_zip3, mrun_arun by assumption. reflexivity.
Qed.

(* an invariant between a monitor state and the abstract state, preserved by every step
   whose outputs satisfy [P], holds along the whole run *)
Section RunInv.
  Variable c : pcfg.
  Variable St : Type.
  Variable step : St -> ev * list out -> St.
  Variable I : St -> astate -> Prop.
  Variable P : ev * list out -> Prop.
  Hypothesis Hstep : forall st a e oc ot,
      I st a -> forallb is_const_out oc = true -> forallb is_test_out ot = true ->
      P (e, snd (astep c a e) ++ oc ++ ot) ->
      I (step st (e, snd (astep c a e) ++ oc ++ ot)) (fst (astep c a e)).

  Lemma run_inv : forall evs a cs t st,
      I st a ->
      Forall P (combine evs (zip3 (arun c a evs) (crun c cs evs) (trun t evs))) ->
      exists a', I (fold_left step (combine evs (zip3 (arun c a evs) (crun c cs evs) (trun t evs))) st) a'.
  Proof.
    induction evs as [|e evs IH]; intros a cs t st HI HP.
    - exists a. exact HI.
    - cbn [arun crun trun] in *.
      pose proof (cstep_outs_const c cs e) as Hc. pose proof (tstep_outs_test t e) as Ht.
      pose proof (Hstep st a e (snd (cstep c cs e)) (snd (tstep t e)) HI Hc Ht) as Hs.
      destruct (astep c a e) as [a' om]. destruct (cstep c cs e) as [cs' oc].
      destruct (tstep t e) as [t' ot].
      cbn [zip3 combine fold_left fst snd] in *.
      inversion HP as [|x l HP1 HP2]; subst.
      apply IH; auto.
Qed.
End RunInv.

(* ------------------------------------------------------------------ *)
(* the projections used by the monitors ignore the other machines' outputs *)

Lemma existsb_none : forall (p q : out -> bool) l,
    (forall x, q x = true -> p x = false) -> forallb q l = true -> existsb p l = false.
Proof.
  intros p q l H. induction l as [|x l IH]; cbn; intros Hq; [reflexivity|].
  apply andb_prop in Hq. destruct Hq as [Hx Hl]. rewrite (H x Hx), (IH Hl). reflexivity.
Qed.

Lemma flat_map_none : forall (B : Type) (f : out -> list B) (q : out -> bool) l,
    (forall x, q x = true -> f x = []) -> forallb q l = true -> flat_map f l = [].
Proof.
  intros B f q l H. induction l as [|x l IH]; cbn; intros Hq; [reflexivity|].
  apply andb_prop in Hq. destruct Hq as [Hx Hl]. rewrite (H x Hx), (IH Hl). reflexivity.
Qed.

Lemma forallb_all : forall (p q : out -> bool) l,
    (forall x, q x = true -> p x = true) -> forallb q l = true -> forallb p l = true.
Proof.
  intros p q l H. induction l as [|x l IH]; cbn; intros Hq; [reflexivity|].
  apply andb_prop in Hq. destruct Hq as [Hx Hl]. rewrite (H x Hx), (IH Hl). reflexivity.
Qed.

Definition nwf (x : out) : bool :=
  match x with Call SMotion (Write _) true => false | _ => true end.
Definition nwq (o : out) : bool := match o with WinQ _ => false | _ => true end.

Section Proj.
  Variables om oc ot : list out.
  Hypothesis Hc : forallb is_const_out oc = true.
  Hypothesis Ht : forallb is_test_out ot = true.

  Lemma hso_app3 : has_start_ok SMotion (om ++ oc ++ ot) = has_start_ok SMotion om.
  Proof.
    unfold has_start_ok. rewrite !existsb_app.
    rewrite (existsb_none _ is_const_out oc), (existsb_none _ is_test_out ot); auto.
    - rewrite !orb_false_r. reflexivity.
    - intros [[] [] []| | | | |]; cbn; congruence.
    - intros [[] [] []| | | | |]; cbn; congruence.
Qed.

  Lemma hstop_app3 : has_stop SMotion (om ++ oc ++ ot) = has_stop SMotion om.
  Proof.
    unfold has_stop. rewrite !existsb_app.
    rewrite (existsb_none _ is_const_out oc), (existsb_none _ is_test_out ot); auto.
    - rewrite !orb_false_r. reflexivity.
    - intros [[] [] ?| | | | |]; cbn; congruence.
    - intros [[] [] ?| | | | |]; cbn; congruence.
Qed.

  Lemma gates_app3 : gates_of (om ++ oc ++ ot) = gates_of om.
  Proof.
    unfold gates_of. rewrite !flat_map_app.
    rewrite (flat_map_none _ _ is_const_out oc), (flat_map_none _ _ is_test_out ot); auto.
    - rewrite !app_nil_r. reflexivity.
    - intros [[] [] ?| | | | |]; cbn; congruence.
    - intros [[] [] ?| | | | |]; cbn; congruence.
Qed.

  Lemma winq_app3 : winq_of (om ++ oc ++ ot) = winq_of om.
  Proof.
    unfold winq_of. rewrite !flat_map_app.
    rewrite (flat_map_none _ _ is_const_out oc), (flat_map_none _ _ is_test_out ot); auto.
    - rewrite !app_nil_r. reflexivity.
    - intros [[] [] ?| | | | |]; cbn; congruence.
    - intros [[] [] ?| | | | |]; cbn; congruence.
Qed.

  Lemma nwf_app3 : forallb nwf (om ++ oc ++ ot) = forallb nwf om.
  Proof.
    rewrite !forallb_app.
    rewrite (forallb_all nwf is_const_out oc), (forallb_all nwf is_test_out ot); auto.
    - rewrite !andb_true_r. reflexivity.
    - intros [[] [] ?| | | | |]; cbn; congruence.
    - intros [[] [] ?| | | | |]; cbn; congruence.
Qed.
End Proj.

(* ------------------------------------------------------------------ *)
(* pre-trigger writes *)

Lemma write_pre_cons2 : forall id id2 h f,
    write_pre (id :: id2 :: h) f =
    let (failed, f') := pop f in
    if failed then (false, f', [Call SMotion (Write id) true])
    else let '(ok, f'', o) := write_pre (id2 :: h) f' in
         (ok, f'', Call SMotion (Write id) false :: o).
Proof. reflexivity. Qed.

Lemma write_pre_proj : forall h f ok f' o,
    write_pre h f = (ok, f', o) ->
    gates_of o = [] /\ winq_of o = [] /\ has_start_ok SMotion o = false /\
    has_stop SMotion o = false /\ (forallb nwf o = true -> ok = true).
Proof.
  induction h as [|id h IH]; intros f ok f' o H.
  - cbn in H. inversion H; subst. cbn. auto.
  - destruct h as [|id2 h].
    + cbn in H. inversion H; subst; cbn; auto.
    + rewrite write_pre_cons2 in H.
      destruct (pop f) as [failed f1]. destruct failed.
      * inversion H; subst. cbn. repeat split; auto; discriminate.
      * destruct (write_pre (id2 :: h) f1) as [[ok1 f2] o1] eqn:E.
        inversion H; subst. apply IH in E. destruct E as (Hg & Hw & Hs & Hp & Hn).
        cbn. repeat split; auto.
Qed.

(* ------------------------------------------------------------------ *)
(* C04 *)

(* the monitor step as a function of the four projections of the outputs *)
Definition s04_core (c : pcfg) (nowin : bool) (st : s04) (e : ev)
           (gates : list (bool * bool)) (wq : list bool) (started stopped : bool) : s04 :=
  match e with
  | EFrame id motion win =>
    let run := if motion then s04_run st + 1 else 0 in
    let should := negb (s04_open st) && motion && (p_trig c <=? run) in
    let ok_win := match wq with
                  | [] => negb should || nowin
                  | [b] => should && negb nowin && Bool.eqb b win
                  | _ => false end in
    let ok_gates := match gates with
                    | [] => negb (should && win)
                    | [(false, true)] => should && win
                    | [(false, false); (true, _)] => should && win
                    | _ => false end in
    mk04 ((s04_open st || started) && negb stopped)
         (if stopped then 0 else run)
         (s04_ok st && ok_win && ok_gates)
  | EBad | EReset =>
    mk04 (s04_open st && negb stopped) (if stopped then 0 else s04_run st)
         (s04_ok st && match gates, wq with [], [] => true | _, _ => false end)
  | ESnapReq => mk04 (s04_open st) (s04_run st) (s04_ok st && match gates, wq with [], [] => true | _, _ => false end)
  end.

Lemma s04_step_core : forall c nowin st e o,
    s04_step c nowin st (e, o) =
    s04_core c nowin st e (gates_of o) (winq_of o) (has_start_ok SMotion o) (has_stop SMotion o).
Proof. intros. destruct e; reflexivity. Qed.

Definition I04 (st : s04) (a : astate) : Prop :=
  s04_ok st = true /\ s04_open st = a_rec a /\ s04_run st = a_trig a.

Ltac brk :=
  repeat (cbn [fst snd a_rec a_fw a_wu a_trig a_faults a_n a_mark negb andb orb] in *;
  match goal with
  | |- context [if ?b then _ else _] => destruct b eqn:?
  | |- context [match pop ?f with _ => _ end] => destruct (pop f) as [? ?] eqn:?
  | |- context [match write_pre ?h ?f with _ => _ end] =>
    let E := fresh "Ewp" in
    let Hwg := fresh "Hwg" in let Hww := fresh "Hww" in let Hws := fresh "Hws" in
    let Hwp := fresh "Hwp" in let Hwn := fresh "Hwn" in
    destruct (write_pre h f) as [[? ?] ?] eqn:E; apply write_pre_proj in E;
    destruct E as (Hwg & Hww & Hws & Hwp & Hwn)
  end);
  cbn [fst snd a_rec a_fw a_wu a_trig a_faults a_n a_mark negb andb orb app] in *.

Ltac projs :=
  unfold gates_of, winq_of, has_start_ok, has_stop in *;
  repeat (progress (
    rewrite ?flat_map_app, ?existsb_app, ?forallb_app in *;
    repeat match goal with
           | H : flat_map _ ?l = [] |- _ => rewrite H
           | H : existsb _ ?l = false |- _ => rewrite H
           end;
    cbn [flat_map existsb forallb app orb andb negb nwf] in * ));
  cbn [is_sink orb andb negb].

Ltac cleanup :=
  repeat match goal with
         | H : pop _ = _ |- _ => clear H
         | H : flat_map _ _ = _ |- _ => clear H
         | H : existsb _ _ = _ |- _ => clear H
         end.

Lemma s04_astep : forall c nowin st a e,
    I04 st a ->
    (nowin = true -> match e with EFrame _ _ w => w = true | _ => True end) ->
    I04 (s04_core c nowin st e (gates_of (snd (astep c a e)))
                  (if nowin then [] else winq_of (snd (astep c a e)))
                  (has_start_ok SMotion (snd (astep c a e)))
                  (has_stop SMotion (snd (astep c a e))))
        (fst (astep c a e)).
Proof.
  intros c nowin [op run ok] [n mk rc fw wu tg fl] e (Hok & Hop & Hrun) Hw.
  cbn [s04_ok s04_open s04_run a_rec a_trig] in *. subst.
  destruct e as [id motion win| | |]; unfold astep, aprocess, astop.
  all: brk. all: unfold I04, s04_core; projs;
    cbn [s04_ok s04_open s04_run a_rec a_trig Bool.eqb];
    try (destruct win); destruct nowin; cbn [negb andb orb] in *; try discriminate;
    try (specialize (Hw eq_refl); discriminate); cleanup;
    repeat split; lia.
Qed.

(* ------------------------------------------------------------------ *)
(* C03 *)

Definition s03_core (c : pcfg) (st : s03) (e : ev) (started stopped : bool) : s03 :=
  match e with
  | EFrame id motion _ =>
    if started || s03_open st then
      let p := if started then 1 else s03_p st + 1 in
      let k := if started || motion then p else s03_k st in
      let limit := Z.min (k - 1 + p_min c) (p_max c) in
      mk03 (negb stopped) p k (s03_ok st && Bool.eqb stopped (limit <=? p))
    else mk03 false 0 0 (s03_ok st && negb stopped)
  | _ => mk03 (s03_open st && negb stopped) (s03_p st) (s03_k st) (s03_ok st)
  end.

Lemma s03_step_core : forall c st e o,
    s03_step c st (e, o) = s03_core c st e (has_start_ok SMotion o) (has_stop SMotion o).
Proof. intros. destruct e; reflexivity. Qed.

Definition I03 (c : pcfg) (st : s03) (a : astate) : Prop :=
  s03_ok st = true /\ s03_open st = a_rec a /\
  (a_rec a = false -> a_fw a = 0) /\
  (a_rec a = true ->
   s03_p st = a_fw a /\ a_wu a = Z.min (s03_k st - 1 + p_min c) (p_max c)).

Lemma s03_astep : forall c st a e,
    0 <= p_min c <= p_max c ->
    I03 c st a ->
    forallb nwf (snd (astep c a e)) = true ->
    I03 c (s03_core c st e (has_start_ok SMotion (snd (astep c a e)))
                    (has_stop SMotion (snd (astep c a e))))
        (fst (astep c a e)).
Proof.
  intros c [op p k ok] [n mk rc fw wu tg fl] e Hmm (Hok & Hop & Hnrec & Hrec).
  cbn [s03_ok s03_open s03_p s03_k a_rec a_fw a_wu] in *. subst.
  destruct e as [id motion win| | |]; unfold astep, aprocess, astop.
  all: brk. all: intros Hnw; unfold I03, s03_core; projs;
    cbn [s03_ok s03_open s03_p s03_k a_rec a_fw a_wu Bool.eqb];
    cbn [negb andb orb] in *; try discriminate.
  all: repeat match goal with
              | H : context [forallb nwf ?l] |- _ =>
                let b := fresh "fb" in set (b := forallb nwf l) in *; clearbody b; destruct b
              end; cbn [negb andb orb] in *; try discriminate.
  all: repeat match goal with
              | H : ?x = ?x -> _ |- _ => specialize (H eq_refl)
              | H : _ /\ _ |- _ => destruct H
              | H : true = false -> _ |- _ => clear H
              | H : false = true -> _ |- _ => clear H
              end.
  all: repeat match goal with
              | |- context [if ?b then _ else _] => destruct b eqn:?
              | H : context [if ?b then _ else _] |- _ => destruct b eqn:?
              end; cbn [negb andb orb] in *; try discriminate.
  all: cleanup; repeat split; intros; try discriminate; try reflexivity.
  all: lia.
Qed.

Lemma nowf_Forall : forall tr,
    nowf tr = true -> Forall (fun x => forallb nwf (snd x) = true) tr.
Proof.
  unfold nowf. induction tr as [|x tr IH]; intros H; [constructor|].
  cbn [flat_map] in H. rewrite forallb_app in H. apply andb_prop in H. destruct H as [H1 H2].
  constructor; [exact H1|apply IH; exact H2].
Qed.

Theorem S03_holds : forall c fm fc ft evs,
    1 <= p_size c -> 0 <= p_min c <= p_max c -> wf_ids 0 evs ->
    let tr := psteps c fm fc ft evs in
    nowf tr = true ->
    S03 c tr = true.
Proof.
  intros c fm fc ft evs Hsz Hmm Hwf tr Hnw. unfold tr in *. clear tr.
  rewrite psteps_abs in * by assumption. unfold S03.
  apply nowf_Forall in Hnw.
  destruct (run_inv c s03 (s03_step c) (I03 c) (fun x => forallb nwf (snd x) = true))
    with (evs := evs) (a := ainit fm) (cs := cinit fc) (t := tinit ft) (st := mk03 false 0 0 true)
    as [a' (Hok & _)]; auto.
  - intros st a e oc ot HI Hc Ht HP. cbn [snd] in HP.
    rewrite s03_step_core, hso_app3, hstop_app3 by assumption.
    rewrite nwf_app3 in HP by assumption.
    apply s03_astep; assumption.
  - unfold I03, ainit. cbn. repeat split; auto; discriminate.
Qed.

(* with a window whose consultations are observable *)
Theorem S04_holds : forall c fm fc ft evs,
    1 <= p_size c -> wf_ids 0 evs ->
    S04 c false (psteps c fm fc ft evs) = true.
Proof.
  intros c fm fc ft evs Hsz Hwf.
  rewrite psteps_abs by assumption. unfold S04.
  destruct (run_inv c s04 (s04_step c false) I04 (fun _ => True))
    with (evs := evs) (a := ainit fm) (cs := cinit fc) (t := tinit ft) (st := mk04 false 0 true)
    as [a' (Hok & _)]; auto.
  - intros st a e oc ot HI Hc Ht _.
    rewrite s04_step_core, gates_app3, winq_app3, hso_app3, hstop_app3 by assumption.
    apply (s04_astep c false st a e HI). discriminate.
  - unfold I04, ainit. cbn. auto.
  - apply Forall_forall. auto.
Qed.

(* NoWindow: the window is always open and its consultation is not observable *)
Definition strip_winq_step (x : ev * list out) : ev * list out :=
  (fst x, filter (fun o => match o with WinQ _ => false | _ => true end) (snd x)).

Definition all_win_open (evs : list ev) : bool :=
  forallb (fun e => match e with EFrame _ _ w => w | _ => true end) evs.

Lemma strip_winq_step_eq : forall e o, strip_winq_step (e, o) = (e, filter nwq o).
Proof. reflexivity. Qed.

Lemma fold_left_map' : forall (A B C : Type) (f : A -> B -> A) (g : C -> B) l a,
    fold_left f (map g l) a = fold_left (fun a x => f a (g x)) l a.
Proof. induction l as [|x l IH]; intros a; cbn; [reflexivity|apply IH]. Qed.

Lemma gates_filter : forall o, gates_of (filter nwq o) = gates_of o.
Proof.
  induction o as [|x o IH]; [reflexivity|]. unfold gates_of in *.
  destruct x as [[] [] ?| | | | |]; cbn; rewrite ?IH; reflexivity.
Qed.

Lemma winq_filter : forall o, winq_of (filter nwq o) = [].
Proof.
  induction o as [|x o IH]; [reflexivity|]. unfold winq_of in *.
  destruct x as [[] [] ?| | | | |]; cbn; rewrite ?IH; reflexivity.
Qed.

Lemma hso_filter : forall o, has_start_ok SMotion (filter nwq o) = has_start_ok SMotion o.
Proof.
  induction o as [|x o IH]; [reflexivity|]. unfold has_start_ok in *.
  destruct x as [[] [] []| | | | |]; cbn [filter existsb nwq orb]; rewrite ?IH; reflexivity.
Qed.

Lemma hstop_filter : forall o, has_stop SMotion (filter nwq o) = has_stop SMotion o.
Proof.
  induction o as [|x o IH]; [reflexivity|]. unfold has_stop in *.
  destruct x as [[] [] ?| | | | |]; cbn [filter existsb nwq orb]; rewrite ?IH; reflexivity.
Qed.

Lemma all_win_open_Forall : forall evs (outs : list (list out)),
    all_win_open evs = true ->
    Forall (fun x => match fst x with EFrame _ _ w => w = true | _ => True end) (combine evs outs).
Proof.
  unfold all_win_open. induction evs as [|e evs IH]; intros outs H; [constructor|].
  destruct outs as [|o outs]; [constructor|].
  cbn [forallb] in H. apply andb_prop in H. destruct H as [H1 H2].
  cbn [combine]. constructor; [|apply IH; exact H2].
  cbn [fst]. destruct e; auto.
Qed.

Theorem S04_holds_nowindow : forall c fm fc ft evs,
    1 <= p_size c -> wf_ids 0 evs -> all_win_open evs = true ->
    S04 c true (map strip_winq_step (psteps c fm fc ft evs)) = true.
Proof.
  intros c fm fc ft evs Hsz Hwf Hwin.
  rewrite psteps_abs by assumption. unfold S04. rewrite fold_left_map'.
  destruct (run_inv c s04 (fun st x => s04_step c true st (strip_winq_step x)) I04
                    (fun x => match fst x with EFrame _ _ w => w = true | _ => True end))
    with (evs := evs) (a := ainit fm) (cs := cinit fc) (t := tinit ft) (st := mk04 false 0 true)
    as [a' (Hok & _)]; auto.
  - intros st a e oc ot HI Hc Ht HP. cbn [fst] in HP.
    rewrite strip_winq_step_eq, s04_step_core.
    rewrite gates_filter, winq_filter, hso_filter, hstop_filter.
    rewrite gates_app3, hso_app3, hstop_app3 by assumption.
    apply (s04_astep c true st a e HI). intros _. exact HP.
  - unfold I04, ainit. cbn. auto.
  - apply all_win_open_Forall. exact Hwin.
Qed.
