(* C10 on the file life-cycle model. *)
From Coq Require Import List ZArith Bool Arith Lia.
From TR Require Import model.FileRec.
Import ListNotations.
Open Scope Z_scope.

(* every name ending in .cptv holds a complete recording *)
Definition cptv_complete (d : fs) : Prop :=
  forall n s, In (n, s) d -> n_ext n = Cptv -> exists frames, s = Complete frames.

Lemma in_remove : forall d n e, In e (fs_remove d n) -> In e d /\ name_eqb (fst e) n = false.
Proof.
  intros d n e H. unfold fs_remove in H. apply filter_In in H. destruct H as [H1 H2].
  split; [exact H1|]. now apply negb_true_iff in H2.
Qed.

Lemma name_eqb_refl : forall n, name_eqb n n = true.
Proof. intros [[] t []]; unfold name_eqb; cbn; now rewrite Z.eqb_refl. Qed.

Lemma name_eqb_eq : forall a b, name_eqb a b = true -> a = b.
Proof.
  intros [da ta ea] [db tb eb]. unfold name_eqb. cbn. intros H.
  apply andb_true_iff in H. destruct H as [H He]. apply andb_true_iff in H. destruct H as [Hd Ht].
  apply Z.eqb_eq in Ht. destruct da, db; try discriminate; destruct ea, eb; try discriminate; now subst.
Qed.

Lemma fs_get_in : forall d n s, fs_get d n = Some s -> exists m, In (m, s) d /\ name_eqb m n = true.
Proof.
  induction d as [|[m s'] r IH]; intros n s H; [discriminate|]. cbn in H.
  destruct (name_eqb m n) eqn:E.
  - injection H as <-. exists m. split; [now left | exact E].
  - destruct (IH n s H) as (m' & Hin & He). exists m'. split; [now right | exact He].
Qed.

(* one primitive step preserves the invariant, provided a rename into a .cptv name moves a
   complete file and nothing is created / finished partially under a .cptv name *)
Definition op_safe (d : fs) (o : fop) : Prop :=
  match o with
  | FCreate n => n_ext n <> Cptv
  | FFinish n _ => True
  | FRename a b => n_ext b = Cptv -> exists frames, fs_get d a = Some (Complete frames)
  | FUnlink _ => True
  end.

Lemma step_complete : forall d o, cptv_complete d -> op_safe d o -> cptv_complete (fop_apply d o).
Proof.
  intros d o Hc Hs n s Hin Hext. destruct o as [m | m frames | a b | m]; cbn in Hin.
  - destruct Hin as [E|Hin].
    + injection E as <- <-. cbn in Hs. contradiction.
    + apply in_remove in Hin. exact (Hc n s (proj1 Hin) Hext).
  - destruct (fs_get d m) eqn:G.
    + destruct Hin as [E|Hin].
      * injection E as <- <-. now exists frames.
      * apply in_remove in Hin. exact (Hc n s (proj1 Hin) Hext).
    + exact (Hc n s Hin Hext).
  - destruct (fs_get d a) as [sa|] eqn:G.
    + destruct Hin as [E|Hin].
      * injection E as <- <-. cbn in Hs. destruct (Hs Hext) as [frames Hf]. rewrite Hf in G. injection G as <-. now exists frames.
      * apply in_remove in Hin. destruct Hin as [Hin _]. apply in_remove in Hin. exact (Hc n s (proj1 Hin) Hext).
    + exact (Hc n s Hin Hext).
  - apply in_remove in Hin. exact (Hc n s (proj1 Hin) Hext).
Qed.

(* the state the call sequences maintain: the open recording's .cptv.temp exists; and
   reaching the rename it is complete *)
Lemma fs_get_set_same : forall d n s, fs_get (fs_set d n s) n = Some s.
Proof. intros. unfold fs_set. cbn. now rewrite name_eqb_refl. Qed.

Lemma fs_get_remove_other : forall d n m, name_eqb m n = false -> fs_get (fs_remove d m) n = fs_get d n.
Proof.
  induction d as [|[k s] r IH]; intros n m H; [reflexivity|]. cbn.
  destruct (name_eqb k m) eqn:E; cbn.
  - apply name_eqb_eq in E. subst k. rewrite H. apply IH, H.
  - destruct (name_eqb k n); [reflexivity | apply IH, H].
Qed.

Lemma fs_get_set_other : forall d n m s, name_eqb m n = false -> fs_get (fs_set d m s) n = fs_get d n.
Proof. intros. unfold fs_set. cbn. rewrite H. now apply fs_get_remove_other. Qed.

(* names-complete for every prefix: by induction over the call sequence we show every
   complete call preserves cptv_complete, and every prefix of one call's expansion does too *)
Definition open_ok (d : fs) (open : option (fdir * Z)) : Prop :=
  match open with
  | None => True
  | Some (dr, t) => exists s, fs_get d (mkName dr t Temp) = Some s
  end.

Lemma prefix_of_app : forall (A : Type) (p l1 l2 : list A),
    (exists q, p ++ q = l1 ++ l2) ->
    (exists q, p ++ q = l1) \/ (exists p', p = l1 ++ p' /\ exists q, p' ++ q = l2).
Proof.
  intros A p. induction p as [|x p IH]; intros l1 l2 [q H].
  - left. now exists l1.
  - destruct l1 as [|y l1].
    + right. exists (x :: p). split; [reflexivity|]. now exists q.
    + cbn in H. injection H as <- H. destruct (IH l1 l2 (ex_intro _ q H)) as [[q' Hq]|[p' [Hp Hq]]].
      * left. exists q'. cbn. now rewrite Hq.
      * right. exists p'. split; [cbn; now rewrite Hp | exact Hq].
Qed.

Lemma prefix3 : forall (A : Type) (x y z : A) p q,
    p ++ q = [x; y; z] -> p = [] \/ p = [x] \/ p = [x; y] \/ p = [x; y; z].
Proof.
  intros A x y z p q H.
  destruct p as [|a p]; [now left|]. cbn in H. injection H as -> H.
  destruct p as [|b p]; [right; now left|]. cbn in H. injection H as -> H.
  destruct p as [|c p]; [right; right; now left|]. cbn in H. injection H as -> H.
  destruct p as [|e p]; [right; right; now right|]. discriminate.
Qed.

Lemma call_prefix_complete : forall d c open (last : Z) p,
    cptv_complete d -> open_ok d open ->
    (match c with
     | RStart _ _ => open = None
     | RStop dr t _ | RAbort dr t _ => open = Some (dr, t)
     end) ->
    (exists q, p ++ q = expand c) ->
    cptv_complete (fops_apply d p) /\
    (p = expand c -> open_ok (fops_apply d p) (match c with RStart dr t => Some (dr, t) | _ => None end)).
Proof.
  intros d c open last p Hc Ho Hopen [q Hq].
  destruct c as [dr t | dr t frames | dr t frames]; cbn [expand] in Hq.
  - (* start *)
    assert (Hcases : p = [] \/ p = [FCreate (mkName dr t Temp)] \/
                     p = [FCreate (mkName dr t Temp); FCreate (mkName dr t TempTmp)] \/
                     p = [FCreate (mkName dr t Temp); FCreate (mkName dr t TempTmp); FCreate (mkName dr t Temp)]).
    { exact (prefix3 _ _ _ _ p q Hq). }
    destruct Hcases as [-> | [-> | [-> | ->]]]; cbn [fops_apply fold_left]; split;
      try discriminate;
      repeat (apply step_complete; [|cbn; discriminate]); try exact Hc.
    intros _. cbn [open_ok]. eexists. apply fs_get_set_same.
  - (* stop *)
    subst open. destruct Ho as [s0 Hs0].
    assert (Hcases : p = [] \/ p = [FFinish (mkName dr t Temp) frames] \/
                     p = [FFinish (mkName dr t Temp) frames; FUnlink (mkName dr t TempTmp)] \/
                     p = [FFinish (mkName dr t Temp) frames; FUnlink (mkName dr t TempTmp); FRename (mkName dr t Temp) (mkName dr t Cptv)]).
    { exact (prefix3 _ _ _ _ p q Hq). }
    destruct Hcases as [-> | [-> | [-> | ->]]]; cbn [fops_apply fold_left]; split; try discriminate; try (intros _; exact I).
    + exact Hc.
    + apply step_complete; [exact Hc | exact I].
    + apply step_complete; [|exact I]. apply step_complete; [exact Hc | exact I].
    + apply step_complete.
      * apply step_complete; [|exact I]. apply step_complete; [exact Hc | exact I].
      * cbn. intros _. exists frames. rewrite Hs0.
        change (filter (fun e : name * fstate => negb (name_eqb (fst e) (mkName dr t TempTmp))) ?X) with (fs_remove X (mkName dr t TempTmp)).
        rewrite fs_get_remove_other; [apply fs_get_set_same|].
        unfold name_eqb. cbn. now rewrite andb_false_r.
  - (* abort *)
    subst open.
    assert (Hcases : p = [] \/ p = [FFinish (mkName dr t Temp) frames] \/
                     p = [FFinish (mkName dr t Temp) frames; FUnlink (mkName dr t TempTmp)] \/
                     p = [FFinish (mkName dr t Temp) frames; FUnlink (mkName dr t TempTmp); FUnlink (mkName dr t Temp)]).
    { exact (prefix3 _ _ _ _ p q Hq). }
    destruct Hcases as [-> | [-> | [-> | ->]]]; cbn [fops_apply fold_left]; split; try discriminate; try (intros _; exact I);
      repeat (apply step_complete; [|exact I]); exact Hc.
Qed.

Lemma fops_app : forall d a b, fops_apply d (a ++ b) = fops_apply (fops_apply d a) b.
Proof. intros. unfold fops_apply. apply fold_left_app. Qed.

(* C10, first sentence: at every instant - after every prefix of the primitive steps of every
   well-formed call sequence, i.e. at every crash point and for a concurrent observer - every
   name ending in .cptv is a complete recording *)
Theorem names_complete_gen : forall cs d open last p,
    cptv_complete d -> open_ok d open -> wf_calls open last cs = true ->
    (exists q, p ++ q = expand_all cs) ->
    cptv_complete (fops_apply d p).
Proof.
  induction cs as [|c cs IH]; intros d open last p Hc Ho Hwf Hp.
  - destruct Hp as [q Hq]. cbn in Hq. apply app_eq_nil in Hq. destruct Hq as [-> _]. exact Hc.
  - cbn [expand_all flat_map] in Hp. apply prefix_of_app in Hp. destruct Hp as [Hp|[p' [-> Hp']]].
    + destruct c as [dr t | dr t frames | dr t frames]; cbn [wf_calls] in Hwf.
      * destruct open; [discriminate|]. eapply (call_prefix_complete d (RStart dr t) None last p); eauto.
      * destruct open as [[d' t']|]; [|discriminate].
        apply andb_true_iff in Hwf. destruct Hwf as [Hwf _]. apply andb_true_iff in Hwf. destruct Hwf as [Hd Ht].
        apply Z.eqb_eq in Ht. subst t'. assert (dr = d') by (destruct dr, d'; cbn in Hd; congruence). subst d'.
        eapply (call_prefix_complete d (RStop dr t frames) (Some (dr, t)) last p); eauto.
      * destruct open as [[d' t']|]; [|discriminate].
        apply andb_true_iff in Hwf. destruct Hwf as [Hwf _]. apply andb_true_iff in Hwf. destruct Hwf as [Hd Ht].
        apply Z.eqb_eq in Ht. subst t'. assert (dr = d') by (destruct dr, d'; cbn in Hd; congruence). subst d'.
        eapply (call_prefix_complete d (RAbort dr t frames) (Some (dr, t)) last p); eauto.
    + rewrite fops_app.
      destruct c as [dr t | dr t frames | dr t frames]; cbn [wf_calls] in Hwf.
      * destruct open; [discriminate|]. apply andb_true_iff in Hwf. destruct Hwf as [_ Hwf].
        destruct (call_prefix_complete d (RStart dr t) None last (expand (RStart dr t)) Hc Ho eq_refl (ex_intro _ [] (app_nil_r _))) as [H1 H2].
        eapply IH; [exact H1 | apply H2; reflexivity | exact Hwf | exact Hp'].
      * destruct open as [[d' t']|]; [|discriminate].
        apply andb_true_iff in Hwf. destruct Hwf as [Hwf Hwf']. apply andb_true_iff in Hwf. destruct Hwf as [Hd Ht].
        apply Z.eqb_eq in Ht. subst t'. assert (dr = d') by (destruct dr, d'; cbn in Hd; congruence). subst d'.
        destruct (call_prefix_complete d (RStop dr t frames) (Some (dr, t)) last (expand (RStop dr t frames)) Hc Ho eq_refl (ex_intro _ [] (app_nil_r _))) as [H1 H2].
        eapply IH; [exact H1 | apply H2; reflexivity | exact Hwf' | exact Hp'].
      * destruct open as [[d' t']|]; [|discriminate].
        apply andb_true_iff in Hwf. destruct Hwf as [Hwf Hwf']. apply andb_true_iff in Hwf. destruct Hwf as [Hd Ht].
        apply Z.eqb_eq in Ht. subst t'. assert (dr = d') by (destruct dr, d'; cbn in Hd; congruence). subst d'.
        destruct (call_prefix_complete d (RAbort dr t frames) (Some (dr, t)) last (expand (RAbort dr t frames)) Hc Ho eq_refl (ex_intro _ [] (app_nil_r _))) as [H1 H2].
        eapply IH; [exact H1 | apply H2; reflexivity | exact Hwf' | exact Hp'].
Qed.

Theorem names_complete : forall cs p,
    wf_calls None (-1) cs = true ->
    (exists q, p ++ q = expand_all cs) ->
    cptv_complete (fops_apply [] p).
Proof.
  intros cs p Hwf Hp. eapply names_complete_gen; eauto.
  - intros n s [].
  - exact I.
Qed.

(* C10, second sentence: after a crash at ANY point (any prefix of ANY step sequence, not only
   well-formed ones) the start-up clean-up - with the scratch-file pattern and the
   constant-recordings directory covered - leaves only names ending in .cptv *)
Theorem recovery_clean : forall d n s,
    In (n, s) (recover true true d) -> n_ext n = Cptv.
Proof.
  intros d n s H. unfold recover in H. apply filter_In in H. destruct H as [_ H]. cbn in H.
  destruct (n_dir n), (n_ext n); cbn in H; try discriminate; reflexivity.
Qed.

(* ... and removes no complete recording *)
Theorem recovery_keeps_recordings : forall ct cc d n s,
    In (n, s) d -> n_ext n = Cptv -> In (n, s) (recover ct cc d).
Proof.
  intros ct cc d n s Hin He. unfold recover. apply filter_In. split; [exact Hin|]. cbn. rewrite He.
  now rewrite andb_false_r.
Qed.

(* why both parts of the clean-up are needed: with the original single pattern ("star.cptv.temp" in
   the output directory only) a kill right after StartRecording leaves the scratch file, and a
   kill during a constant recording leaves both temporaries *)
Theorem recovery_without_tmp_pattern_refuted :
  exists p, (exists q, p ++ q = expand_all [RStart DOut 1]) /\
            exists n s, In (n, s) (recover false true (fops_apply [] p)) /\ n_ext n <> Cptv.
Proof.
  exists (expand (RStart DOut 1)). split; [exists []; now rewrite app_nil_r|].
  exists (mkName DOut 1 TempTmp), Partial. split; [vm_compute; auto | discriminate].
Qed.

Theorem recovery_without_const_dir_refuted :
  exists p, (exists q, p ++ q = expand_all [RStart DConst 1]) /\
            exists n s, In (n, s) (recover true false (fops_apply [] p)) /\ n_ext n <> Cptv.
Proof.
  exists (expand (RStart DConst 1)). split; [exists []; now rewrite app_nil_r|].
  exists (mkName DConst 1 Temp), Partial. split; [vm_compute; auto | discriminate].
Qed.
