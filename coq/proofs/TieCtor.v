(* Source ties for the constructors: NewFrameLoop, NewMotionProcessor, NewMotionDetector,
   NewThrottledRecorderWithClock as translated from the Go sources on every run
   (coq/translated/*.v), under the outside world of model/CtorExt.v (configuration values asked
   by name, frames allocated as fresh handles), build exactly the initial states the
   hand-written models and the other source ties start from (mp_init, md_init, thr_init), with
   the derived sizes the harness uses: ring capacity preview*fps + trigger, minFrames = min*fps,
   maxFrames = max*fps, the detector's preview-frame argument preview*fps, its geometry
   (start, rowStop, columnStop, numPixels), the throttle's minimum length, bucket size and
   refill rate. *)
From Coq Require Import List ZArith Bool String Lia.
From Coq Require Import Floats.SpecFloat.
From TR Require Import model.GoSem model.Ring model.Processor model.Detector model.Throttle
     model.ProcExt model.DetExt model.ThrExt model.CtorExt proofs.TieDetBase
     translated.FrameLoop translated.MotionProcessor translated.MotionDetector translated.ThrottledRecorder.
Import ListNotations.
Open Scope Z_scope.

(* ---------------- helpers ---------------- *)

Lemma hrange_0_handles n : hrange 0 n = handles n.
Proof. unfold hrange, handles. apply map_ext. intros k. apply Z.add_0_l. Qed.

Lemma list_upd_app {A} (pre : list A) a suf v :
  list_upd (pre ++ a :: suf) (List.length pre) v = pre ++ v :: suf.
Proof. induction pre as [|b pre IH]; cbn [app List.length list_upd]; [reflexivity|]. f_equal. exact IH. Qed.

Lemma cext_newframe a w :
  cext "cptvframe.NewFrame" a w = (cw_next w, mkCW (cw_cfg w) (cw_next w + 1) (cw_calls w)).
Proof. reflexivity. Qed.

(* the body of NewFrameLoop's loop *)
Definition nfl_body : Z -> list Z -> M cworld (loopres (list Z) FrameLoop) :=
  fun i frames =>
    bind (call_ext cext "cptvframe.NewFrame"%string [ASym "camera"%string]) (fun t1 =>
    bind (lift_opt (go_set_index frames i t1)) (fun t2 => ret (LCont t2))).

Lemma nfl_body_eq pre a suf cfg next calls :
  nfl_body (Z.of_nat (List.length pre)) (pre ++ a :: suf) (mkCW cfg next calls) =
  Ok (LCont (pre ++ next :: suf)) (mkCW cfg (next + 1) calls).
Proof.
  unfold nfl_body, bind at 1, call_ext. rewrite cext_newframe. cbn [cw_next cw_cfg cw_calls].
  unfold go_set_index, go_len.
  assert (C : (Z.of_nat (List.length pre) <? 0) || (Z.of_nat (List.length pre) >=? Z.of_nat (List.length (pre ++ a :: suf))) = false).
  { apply orb_false_iff. split.
    - apply Z.ltb_ge. lia.
    - rewrite Z.geb_leb. apply Z.leb_gt. rewrite app_length. cbn [List.length]. lia. }
  rewrite C, Nat2Z.id, list_upd_app. reflexivity.
Qed.

Lemma nfl_loop : forall n pre suf cfg next calls,
    List.length suf = n ->
    for_loop n (Z.of_nat (List.length pre)) nfl_body (pre ++ suf) (mkCW cfg next calls) =
    Ok (LCont (pre ++ map (fun k => next + Z.of_nat k) (seq 0 n)) : loopres (list Z) FrameLoop)
       (mkCW cfg (next + Z.of_nat n) calls).
Proof.
  induction n as [|n IH]; intros pre suf cfg next calls L.
  - destruct suf; [|discriminate L]. cbn [for_loop seq map]. unfold ret.
    change (Z.of_nat 0) with 0. rewrite Z.add_0_r. reflexivity.
  - destruct suf as [|a suf]; [discriminate L|]. cbn [List.length] in L.
    cbn [for_loop]. unfold bind. rewrite nfl_body_eq.
    replace (pre ++ next :: suf) with ((pre ++ [next]) ++ suf) by (rewrite <- app_assoc; reflexivity).
    replace (Z.of_nat (List.length pre) + 1) with (Z.of_nat (List.length (pre ++ [next])))
      by (rewrite app_length; cbn [List.length]; lia).
    rewrite IH by lia.
    f_equal.
    + f_equal. rewrite <- app_assoc. f_equal. cbn [app seq map]. f_equal.
      * change (Z.of_nat 0) with 0. lia.
      * rewrite <- seq_shift, map_map. apply map_ext. intros k. lia.
    + f_equal. lia.
Qed.

Lemma bind_ok {W A B} (m : M W A) (k : A -> M W B) w a w' :
  m w = Ok a w' -> bind m k w = k a w'.
Proof. intros H. unfold bind. rewrite H. reflexivity. Qed.

Theorem tie_NewFrameLoop : forall size w,
    0 <= size ->
    FrameLoop_fn_NewFrameLoop cext size w =
      Ok (mkFrameLoop size 0 (hrange (cw_next w) size) (repeat (-1) (Z.to_nat size)) false 0)
         (mkCW (cw_cfg w) (cw_next w + size) (cw_calls w)).
Proof.
  intros size w Hs. destruct w as [cfg next calls]. cbn [cw_cfg cw_next cw_calls].
  pose proof (nfl_loop (Z.to_nat size) [] (repeat (-1) (Z.to_nat size)) cfg next calls
                (repeat_length _ _)) as H.
  cbn [app List.length] in H. change (Z.of_nat 0) with 0 in H. rewrite Z2Nat.id in H by exact Hs.
  unfold FrameLoop_fn_NewFrameLoop.
  erewrite bind_ok.
  2:{ unfold for_range, go_len. rewrite repeat_length, Z2Nat.id, Z.sub_0_r by exact Hs. exact H. }
  reflexivity.
Qed.

(* ---------------- stepping through the constructors ---------------- *)

Lemma bind_ext {B} name args (k : Z -> M cworld B) w :
  bind (call_ext cext name args) k w = k (fst (cext name args w)) (snd (cext name args w)).
Proof. unfold bind, call_ext. destruct (cext name args w). reflexivity. Qed.

Lemma bind_NFL {B} size (k : FrameLoop -> M cworld B) w :
  0 <= size ->
  bind (FrameLoop_fn_NewFrameLoop cext size) k w =
  k (mkFrameLoop size 0 (hrange (cw_next w) size) (repeat (-1) (Z.to_nat size)) false 0)
    (mkCW (cw_cfg w) (cw_next w + size) (cw_calls w)).
Proof. intros H. apply bind_ok. apply tie_NewFrameLoop. exact H. Qed.

Lemma bind_ret {W A B} (a : A) (k : A -> M W B) w : bind (ret a) k w = k a w.
Proof. reflexivity. Qed.

Lemma for_range_00 {W S R} (body : Z -> S -> M W (loopres S R)) s :
  for_range 0 0 body s = ret (LCont s).
Proof. reflexivity. Qed.

Lemma z_to_bool_of b : z_to_bool (bool_to_z b) = b.
Proof. destruct b; reflexivity. Qed.

Lemma wrap_u16 x : 0 <= x <= 65535 -> wrap_u 16 x = x.
Proof. unfold wrap_u. intros H. change (2 ^ 16) with 65536. apply Z.mod_small. lia. Qed.

(* one external call: the closed name is compared with the names [cext] knows *)
Ltac step :=
  rewrite bind_ext;
  match goal with
  | |- context [cext ?n ?a ?w] =>
    let r := eval cbv beta iota zeta delta
                  [cext String.eqb Ascii.eqb Bool.eqb andb note cw_cfg cw_next cw_calls] in (cext n a w) in
    change (cext n a w) with r
  end;
  cbn beta iota zeta delta [fst snd cw_cfg cw_next cw_calls].

Theorem tie_NewMotionProcessor : forall c,
    0 <= p_size (pcfg_of c) ->
    exists w',
      MotionProcessor_fn_NewMotionProcessor cext (cw_init c) = Ok (mp_init (pcfg_of c)) w' /\
      (* the detector is built with preview*fps preview frames *)
      In ("NewMotionDetector"%string, [ASym "*motionConf"; AInt (r_preview_secs c * r_fps c); ASym "c"]) (cw_calls w').
Proof.
  intros c Hs. unfold pcfg_of in Hs. cbn [p_size] in Hs.
  eexists. split.
  - unfold MotionProcessor_fn_NewMotionProcessor, cw_init.
    do 10 step. rewrite bind_NFL by exact Hs. cbn beta iota zeta delta [cw_cfg cw_next cw_calls].
    do 3 step. unfold ret. rewrite z_to_bool_of, hrange_0_handles.
    unfold mp_init, pcfg_of. cbn [p_size p_min p_max p_trig p_const].
    change (wrap_u 32 0) with 0. rewrite Z.add_0_l. reflexivity.
  - cbn [cw_calls app In]. left. reflexivity.
Qed.

(* the detector model's configuration as NewMotionDetector derives it *)
Definition dcfg_of (c : rawcfg) (preview : Z) : dcfg :=
  mkD (Z.to_nat (r_resx c)) (Z.to_nat (r_resy c)) (Z.to_nat (r_edge c)) (r_gap c) (r_one c) (r_delta c) (r_count c)
      (r_warmer c) (r_dynamic c) (r_thresh c) (r_tmin c) (r_tmax c) preview.

Definition u16 (z : Z) : Prop := 0 <= z <= 65535.

Theorem tie_NewMotionDetector : forall c preview,
    0 <= r_gap c -> 0 <= r_resx c -> 0 <= r_resy c -> 0 <= r_edge c ->
    u16 (r_thresh c) -> u16 (r_tmin c) -> u16 (r_tmax c) -> u16 (r_delta c) ->
    exists d w',
      MotionDetector_fn_NewMotionDetector cext preview (cw_init c) = Ok d w' /\
      (* everything but the frame rate kept for the debug log equals the model's initial detector *)
      motionDetector_set_framesHz 9 d = md_init (dcfg_of c preview) /\
      motionDetector_framesHz d = r_fps c /\
      cw_next w' = r_gap c + 4.
Proof.
  intros c preview Hgap Hx Hy He Hth Hmin Hmax Hdelta.
  assert (V : exists calls,
             MotionDetector_fn_NewMotionDetector cext preview (cw_init c) =
             Ok (motionDetector_set_framesHz (r_fps c) (md_init (dcfg_of c preview)))
                (mkCW c (r_gap c + 4) calls)).
  { destruct (r_verbose c) eqn:Ev; eexists;
      unfold MotionDetector_fn_NewMotionDetector, cw_init;
      step; rewrite bind_NFL by lia; cbn beta iota zeta delta [cw_cfg cw_next cw_calls];
      rewrite bind_NFL by lia; cbn beta iota zeta delta [cw_cfg cw_next cw_calls];
      do 16 step; rewrite z_to_bool_of, Ev; cbv iota; repeat step;
      rewrite for_range_00, bind_ret; unfold ret;
      rewrite !z_to_bool_of, !wrap_u16 by assumption;
      unfold md_init, dcfg_of, H_BG;
      cbv beta iota zeta delta
          [motionDetector_set_flooredFrames motionDetector_set_diffFrames motionDetector_set_firstDiff
           motionDetector_set_dynamicThresh motionDetector_set_useOneDiff motionDetector_set_tempThresh
           motionDetector_set_tempThreshMax motionDetector_set_tempThreshMin motionDetector_set_deltaThresh
           motionDetector_set_countThresh motionDetector_set_warmerOnly motionDetector_set_start
           motionDetector_set_rowStop motionDetector_set_columnStop motionDetector_set_count
           motionDetector_set_background motionDetector_set_backgroundFrames motionDetector_set_previewFrames
           motionDetector_set_numPixels motionDetector_set_affectedByFCC motionDetector_set_framesHz
           motionDetector_flooredFrames motionDetector_diffFrames motionDetector_firstDiff
           motionDetector_dynamicThresh motionDetector_useOneDiff motionDetector_tempThresh
           motionDetector_tempThreshMax motionDetector_tempThreshMin motionDetector_deltaThresh
           motionDetector_countThresh motionDetector_warmerOnly motionDetector_start motionDetector_rowStop
           motionDetector_columnStop motionDetector_count motionDetector_background
           motionDetector_backgroundFrames motionDetector_previewFrames motionDetector_numPixels
           motionDetector_affectedByFCC motionDetector_framesHz
           d_w d_h d_edge d_gap d_one d_delta d_count d_warmer d_dynamic d_thresh0 d_tmin d_tmax d_preview];
      rewrite !Z2Nat.id by assumption; rewrite !Z.add_0_l;
      replace (r_gap c + 1 + 2 + 1) with (r_gap c + 4) by lia;
      replace (r_gap c + 1 + 2) with (r_gap c + 3) by lia;
      reflexivity. }
  destruct V as [calls V].
  eexists. eexists. split; [exact V|].
  split; [|split]; reflexivity.
Qed.

(* CORRECTED: added the hypotheses [erange (r_bucket_secs c)] and [erange (r_refill_secs c)]
   (exponent in [-2048, 2048), proofs/TieDetBase.v; true of every binary64 value).  [cext] hands
   the two durations to the translated code as integer codes ([fenc]) and decodes them again
   ([fdec]) in "f64.to_int" / "f64.div"; the code is only injective on that exponent range, so
   without the hypotheses the statement is false: for r_bucket_secs = S754_finite false 1 2050
   the recorded bucket capacity is 0, not f64_trunc (r_bucket_secs c) * r_fps c, and for
   r_refill_secs = S754_finite false 1 2050 the recorded refill rate differs likewise. *)
Theorem tie_NewThrottledRecorder : forall c minSeconds,
    erange (r_bucket_secs c) -> erange (r_refill_secs c) ->
    exists w',
      ThrottledRecorder_fn_NewThrottledRecorderWithClock cext minSeconds (cw_init c) =
        Ok (thr_init (minSeconds * r_fps c)) w' /\
      (* the bucket: refill rate minFrames / min-refill seconds, capacity whole bucket seconds * fps *)
      In ("ratelimit.NewBucketWithRateAndClock"%string,
          [AInt (fenc (f64_div (f64_of_Z (minSeconds * r_fps c)) (r_refill_secs c)));
           AInt (f64_trunc (r_bucket_secs c) * r_fps c); ASym "clock"]) (cw_calls w').
Proof.
  intros c minSeconds Hb Hr.
  destruct (minSeconds * r_fps c >? f64_trunc (r_bucket_secs c) * r_fps c) eqn:E;
    eexists; (split;
    [ unfold ThrottledRecorder_fn_NewThrottledRecorderWithClock, cw_init;
      do 7 step; rewrite !fdec_fenc by (auto with er); rewrite E; cbv iota;
      repeat step; rewrite z_to_bool_of; unfold ret, thr_init;
      match goal with |- context [if ?b then _ else _] => destruct b end; reflexivity
    | cbn [cw_calls app In]; auto ]).
Qed.
