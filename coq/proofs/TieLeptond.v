(* Source tie for the camera daemon's sending side, part 2 (cmd/leptond/main.go: runCamera and runMain from
   the call of sendCameraSpecs on; part 1, proofs/TieLeptondSpecs.v, has the machinery and sendCameraSpecs),
   and the round trip sender -> receiver on the translated code of BOTH daemons.

   coq/translated/Leptond.v is regenerated from the Go source on every run (translate/sender.go);
   model/LeptondExt.v gives the calls that leave it their meaning (camera, restarts, service flag and
   write faults as scripts; yaml.Marshal a parameter) and defines the model: [main_plan] (the items the
   sender means to send, read off the scripts), [walk] / [sender_chunks] (what reaches the connection
   given the write faults), [sender_result].

   Theorems (for every configuration whose integers are Go integers, every script):
     tie_sendCameraSpecs   (part 1) the header: the map literal is [sender_specs] - the keys of headers/headers.go,
                           serial 0 and firmware "0.0.0" when GetSerial / GetSoftwareVersion fail, whatever they
                           hand back - encoded once; GetModel / yaml.Marshal failing: that error, nothing
                           written; the text's Write failing: that error, nothing more written; else the text,
                           then "\n" (its error ignored);
     tie_runCamera         one call of runCamera: a fresh buffer, then per NextFrame result of [rc_plan] one
                           Write of exactly the frame just read; a NextFrame error -> &nextFrameErr, the reset
                           flag -> cleared, nil, the frame read in that iteration NOT written; a failing Write
                           -> that error at once;
     tie_restart_round     one round of the restart loop: runCamera, then removeCamera, Close of THAT camera,
                           power cycle, startCamera, setCamera of what it returned, and the marker - exactly
                           one per successful restart; any other outcome returns;
     tie_sender            the whole: with fuel > |camera script| + |power script| it does not panic, returns
                           [sender_result] (never nil), and the connection holds exactly [sender_chunks];
                           no call to the outside world was senseless (NextFrame only on the open camera, ...);
     sender_stream         when the header's Writes succeed and no marker's Write fails ([ignored_ok]; the Go code
                           IGNORES those errors - see ex_lost_marker for what happens otherwise): the bytes
                           written are  h ++ [NL] ++ flat_map enc_item items ++ tail,  items = the delivered
                           prefix of the plan, tail = the delivered part of the one frame whose Write failed;
     plan_frames_subseq    the frames of the plan are a subsequence of the frames the camera yielded: none is
                           written twice or out of order (a frame is written whole or, only as the very last
                           chunk, in part: [walk]);
     end_to_end            those chunks, re-segmented in any way, fed to the translated receiver
                           (ConnLoop_fn_handleConn through TieConn.tie_handleConn_items): its Reset / Process
                           log is exactly the sender's items, provided no frame of the camera script begins
                           with the marker bytes (the known in-band finding C14_inband_marker_refuted) and the
                           header text satisfies header_text_ok; the translated ReadHeaderInfo (TieHdr) run on
                           the same chunks returns exactly the eight values sendCameraSpecs put into the map.
   Side conditions forced by the Go code: none for the sender alone.  For the stream shape: the marker / newline
   Writes must not fail (errors ignored by the code).  No axioms. *)
From Coq Require Import String List ZArith Bool Arith Lia.
From TR Require Import model.GoSem model.Socket model.ConnExt model.HdrExt translated.Leptond model.LeptondExt.
From TR Require Import proofs.SocketProofs proofs.TieConn proofs.TieHdr proofs.TieLeptondSpecs.
Import ListNotations.
Open Scope Z_scope.

(* ---------- runCamera: the body of its loop ---------- *)
Record RcInv (c conn buf : Z) (w : sworld) : Prop := mkRI {
  ri_open : sw_open w = c; ri_c : c <> 0;
  ri_conn : sw_conn w = conn; ri_conn0 : conn <> 0;
  ri_buf : sw_frametok w = buf; ri_buf0 : buf <> 0
}.

(* w' is w after part of a runCamera call: the three scripts it consumes, the connection and the log as
   given; the frame buffer's contents and values may have changed; nothing else has *)
Definition rc_to (w w' : sworld) (cam : list camres) (flag : list bool) (wf : list wres) (out : list bytes)
  (log : list sev) : Prop :=
  sw_cam w' = cam /\ sw_flag w' = flag /\ sw_wf w' = wf /\ sw_out w' = out /\ sw_log w' = log /\
  sw_power w' = sw_power w /\ sw_start w' = sw_start w /\ sw_open w' = sw_open w /\ sw_conn w' = sw_conn w /\
  sw_frametok w' = sw_frametok w /\ sw_nobj w' = sw_nobj w.

Lemma rc_to_inv : forall c conn buf w w' cam flag wf out log,
  RcInv c conn buf w -> rc_to w w' cam flag wf out log -> RcInv c conn buf w'.
Proof.
  intros c conn buf w w' cam flag wf out log [H1 H2 H3 H4 H5 H6] (_ & _ & _ & _ & _ & _ & _ & E1 & E2 & E3 & _).
  split; congruence.
Qed.

Ltac rc_start :=
  intros cfg c conn buf nc w [Ho Hc0 Hcn Hcn0 Hb Hb0];
  destruct w as [cam flag power start wf out fr ft op cn nobj pd vals lg];
  cbn [sw_cam sw_flag sw_power sw_start sw_wf sw_out sw_frame sw_frametok sw_open sw_conn sw_nobj sw_pending sw_vals sw_log] in *;
  subst op cn ft; pose proof (tlen_pos _ vals) as Hvp.

Ltac scsplit :=
  lazymatch goal with
  | |- spost ((if ?c then _ else _) _) _ => destruct c
  end.

Ltac rc_done := unfold rc_to; swsimp; repeat split; reflexivity.

(* NextFrame fails (or the script is exhausted): &nextFrameErr{err} *)
Lemma body_camerr : forall cfg c conn buf nc w, RcInv c conn buf w ->
  forall r, (sw_cam w = [] /\ r = []) \/ sw_cam w = CamErr :: r ->
  spost (Leptond_fn_runCamera_loop1 (sext cfg) c conn buf nc w)
        (fun res w' => res = LRet (NFE + SERR_CAM) /\ rc_to w w' r (sw_flag w) (sw_wf w) (sw_out w) (sw_log w)).
Proof.
  rc_start. intros r [[Hcam Hr]|Hcam]; subst; cbv beta delta [Leptond_fn_runCamera_loop1];
  ssteps; apply spost_ret; (split; [reflexivity|rc_done]).
Qed.

(* a frame was read and the service asks for a reset: the flag is cleared, nil; the frame is not written *)
Lemma body_reset : forall cfg c conn buf nc w, RcInv c conn buf w ->
  forall b r fl, sw_cam w = CamFrame b :: r -> sw_flag w = true :: fl ->
  spost (Leptond_fn_runCamera_loop1 (sext cfg) c conn buf nc w)
        (fun res w' => res = LRet 0 /\ rc_to w w' r fl (sw_wf w) (sw_out w) (sw_log w ++ [SFlagCleared])).
Proof.
  rc_start. intros b r fl Hcam Hfl; subst; cbv beta delta [Leptond_fn_runCamera_loop1].
  repeat (first [sstep | progress scif | scsplit]); apply spost_ret; (split; [reflexivity|rc_done]).
Qed.

(* a frame was read, no reset, and its Write fails: that error at once *)
Lemma body_wfail : forall cfg c conn buf nc w, RcInv c conn buf w ->
  forall b r n wr, sw_cam w = CamFrame b :: r -> hd false (sw_flag w) = false -> sw_wf w = WFail n :: wr ->
  spost (Leptond_fn_runCamera_loop1 (sext cfg) c conn buf nc w)
        (fun res w' => res = LRet SERR_WRITE /\ rc_to w w' r (tl (sw_flag w)) wr (sw_out w ++ [firstn n b]) (sw_log w)).
Proof.
  rc_start. intros b r n wr Hcam Hfl Hwf; subst; cbv beta delta [Leptond_fn_runCamera_loop1].
  destruct flag as [|[|] fl]; [|discriminate|];
  repeat (first [sstep | progress scif | scsplit]); apply spost_ret; (split; [reflexivity|rc_done]).
Qed.

(* a frame was read, no reset, and its Write succeeds: exactly the frame just read is written; next iteration *)
Lemma body_wok : forall cfg c conn buf nc w, RcInv c conn buf w ->
  forall b r, sw_cam w = CamFrame b :: r -> hd false (sw_flag w) = false -> wok (sw_wf w) = true ->
  spost (Leptond_fn_runCamera_loop1 (sext cfg) c conn buf nc w)
        (fun res w' => (exists nc', res = LCont nc') /\
                       rc_to w w' r (tl (sw_flag w)) (tl (sw_wf w)) (sw_out w ++ [b]) (sw_log w)).
Proof.
  rc_start. intros b r Hcam Hfl Hwf; subst; cbv beta delta [Leptond_fn_runCamera_loop1].
  destruct flag as [|[|] fl]; [|discriminate|];
  (destruct wf as [|[|n] wr]; [| |discriminate]);
  repeat (first [sstep | progress scif | scsplit]); apply spost_ret; (split; [eexists; reflexivity|rc_done]).
Qed.

(* ---------- runCamera: the loop ---------- *)
Lemma spost_forever_S : forall S R n (body : S -> M sworld (loopres S R)) s w Q,
  spost (body s w) (fun r w1 => match r with
                               | LCont s' => spost (forever n body s' w1) Q
                               | LRet v => Q (Some v) w1
                               end) ->
  spost (forever (Datatypes.S n) body s w) Q.
Proof.
  intros S R n body s w Q H. cbn [forever]. apply spost_bind.
  eapply spost_mono; [exact H|]. intros r w1 Hr. destruct r; exact Hr.
Qed.

Definition rc_static (w w' : sworld) : Prop :=
  sw_power w' = sw_power w /\ sw_start w' = sw_start w /\ sw_open w' = sw_open w /\ sw_conn w' = sw_conn w /\
  sw_frametok w' = sw_frametok w /\ sw_nobj w' = sw_nobj w.

(* what one call of runCamera's loop does, in the words of the model: the frames of [rc_plan] are written,
   each exactly as read, until a Write fails *)
Definition rc_post (w : sworld) (r : option Z) (w' : sworld) : Prop :=
  let '(fs, by_reset, cam', flag') := rc_plan (sw_cam w) (sw_flag w) in
  sw_out w' = sw_out w ++ walk (map IFrame fs) (sw_wf w) /\ rc_static w w' /\
  if frames_ok fs (sw_wf w) then
    r = Some (if by_reset then 0 else NFE + SERR_CAM) /\ sw_cam w' = cam' /\ sw_flag w' = flag' /\
    sw_wf w' = skipn (List.length fs) (sw_wf w) /\
    sw_log w' = sw_log w ++ (if by_reset then [SFlagCleared] else [])
  else r = Some SERR_WRITE /\ sw_log w' = sw_log w.

Lemma rc_post_cons_ok : forall w w1 b r res w',
  sw_cam w = CamFrame b :: r -> hd false (sw_flag w) = false -> wok (sw_wf w) = true ->
  rc_to w w1 r (tl (sw_flag w)) (tl (sw_wf w)) (sw_out w ++ [b]) (sw_log w) ->
  rc_post w1 res w' -> rc_post w res w'.
Proof.
  intros w w1 b r res w' Hcam Hhd Hwok (E1 & E2 & E3 & E4 & E5 & E6 & E7 & E8 & E9 & E10 & E11) H.
  unfold rc_post in *. rewrite Hcam. cbn [rc_plan]. rewrite Hhd. rewrite E1, E2, E3, E4, E5 in H.
  destruct (rc_plan r (tl (sw_flag w))) as [[[fs br] cam'] flag'].
  destruct H as (Ho & (S1 & S2 & S3 & S4 & S5 & S6) & Hrest).
  assert (Hw : walk (map IFrame (b :: fs)) (sw_wf w) = b :: walk (map IFrame fs) (tl (sw_wf w)) /\
               frames_ok (b :: fs) (sw_wf w) = frames_ok fs (tl (sw_wf w)) /\
               skipn (List.length (b :: fs)) (sw_wf w) = skipn (List.length fs) (tl (sw_wf w))).
  { destruct (sw_wf w) as [|[|k] wr]; [| |discriminate]; cbn [map walk frames_ok List.length skipn tl].
    - rewrite skipn_nil. auto.
    - auto. }
  destruct Hw as (W1 & W2 & W3). rewrite W1, W2, W3.
  split; [rewrite Ho, <- app_assoc; reflexivity|].
  split; [unfold rc_static; repeat split; congruence|].
  exact Hrest.
Qed.

Lemma rc_loop : forall cfg c conn buf n w nc, RcInv c conn buf w -> (List.length (sw_cam w) < n)%nat ->
  spost (forever n (Leptond_fn_runCamera_loop1 (sext cfg) c conn buf) nc w) (rc_post w).
Proof.
  intros cfg c conn buf n. induction n as [|n IH]; intros w nc Hinv Hn; [lia|].
  apply spost_forever_S.
  destruct (sw_cam w) as [|[b|] r] eqn:Ecam.
  - eapply spost_mono; [apply (body_camerr cfg c conn buf nc w Hinv []); left; auto|].
    intros res w1 [Hr (E1 & E2 & E3 & E4 & E5 & E6 & E7 & E8 & E9 & E10 & E11)]. subst res.
    unfold rc_post. rewrite Ecam. cbn [rc_plan map walk frames_ok List.length skipn].
    rewrite !app_nil_r. unfold rc_static. repeat split; assumption.
  - destruct (sw_flag w) as [|[|] fl] eqn:Efl.
    2: { eapply spost_mono; [apply (body_reset cfg c conn buf nc w Hinv b r fl Ecam Efl)|].
         intros res w1 [Hr (E1 & E2 & E3 & E4 & E5 & E6 & E7 & E8 & E9 & E10 & E11)]. subst res.
         unfold rc_post. rewrite Ecam, Efl. cbn [rc_plan hd map walk frames_ok List.length skipn].
         rewrite !app_nil_r. unfold rc_static. repeat split; assumption. }
    all: assert (Hhd : hd false (sw_flag w) = false) by (rewrite Efl; reflexivity).
    all: destruct (sw_wf w) as [|[|k] wr] eqn:Ewf.
    all: try (assert (Hwok : wok (sw_wf w) = true) by (rewrite Ewf; reflexivity);
              eapply spost_mono; [apply (body_wok cfg c conn buf nc w Hinv b r Ecam Hhd Hwok)|];
              intros res w1 [[nc' Hr] Hto]; subst res;
              pose proof (rc_to_inv _ _ _ _ _ _ _ _ _ _ Hinv Hto) as Hinv1;
              eapply spost_mono; [apply (IH w1 nc' Hinv1); destruct Hto as (E1 & _); rewrite E1; cbn [List.length] in Hn; lia|];
              intros res w2 Hp; apply (rc_post_cons_ok w w1 b r res w2 Ecam Hhd Hwok Hto Hp)).
    all: eapply spost_mono; [apply (body_wfail cfg c conn buf nc w Hinv b r k wr Ecam Hhd Ewf)|];
         intros res w1 [Hr (E1 & E2 & E3 & E4 & E5 & E6 & E7 & E8 & E9 & E10 & E11)]; subst res;
         unfold rc_post; rewrite Ecam, Ewf; cbn [rc_plan]; rewrite Hhd;
         destruct (rc_plan r (tl (sw_flag w))) as [[[fs br] cam'] flag'];
         cbn [map walk frames_ok]; unfold rc_static; repeat split; assumption.
  - eapply spost_mono; [apply (body_camerr cfg c conn buf nc w Hinv r); right; exact Ecam|].
    intros res w1 [Hr (E1 & E2 & E3 & E4 & E5 & E6 & E7 & E8 & E9 & E10 & E11)]. subst res.
    unfold rc_post. rewrite Ecam. cbn [rc_plan map walk frames_ok List.length skipn].
    rewrite !app_nil_r. unfold rc_static. repeat split; assumption.
Qed.

(* ---------- runCamera as a whole ---------- *)
(* the same in terms of the world runCamera is called in: it makes one object (the frame buffer) *)
Definition rc_fpost (w : sworld) (r : option Z) (w' : sworld) : Prop :=
  let '(fs, by_reset, cam', flag') := rc_plan (sw_cam w) (sw_flag w) in
  sw_out w' = sw_out w ++ walk (map IFrame fs) (sw_wf w) /\
  sw_power w' = sw_power w /\ sw_start w' = sw_start w /\ sw_open w' = sw_open w /\ sw_conn w' = sw_conn w /\
  sw_nobj w' = sw_nobj w + 1 /\
  if frames_ok fs (sw_wf w) then
    r = Some (if by_reset then 0 else NFE + SERR_CAM) /\ sw_cam w' = cam' /\ sw_flag w' = flag' /\
    sw_wf w' = skipn (List.length fs) (sw_wf w) /\
    sw_log w' = sw_log w ++ (if by_reset then [SFlagCleared] else [])
  else r = Some SERR_WRITE /\ sw_log w' = sw_log w.

Theorem tie_runCamera : forall cfg c conn fuel w,
  sw_open w = c -> c <> 0 -> sw_conn w = conn -> conn <> 0 -> 0 <= sw_nobj w ->
  (List.length (sw_cam w) < fuel)%nat ->
  spost (Leptond_fn_runCamera (sext cfg) fuel c conn w) (rc_fpost w).
Proof.
  intros cfg c conn fuel w Ho Hc0 Hcn Hcn0 Hnobj Hfuel.
  destruct w as [cam flag power start wf out fr ft op cn nobj pd vals lg].
  cbn [sw_cam sw_flag sw_power sw_start sw_wf sw_out sw_frame sw_frametok sw_open sw_conn sw_nobj sw_pending sw_vals sw_log] in *.
  subst op cn. cbv beta delta [Leptond_fn_runCamera].
  match goal with |- spost _ ?Q => set (QQ := Q) end.
  ssteps.
  apply spost_bind. eapply spost_mono.
  { apply rc_loop with (buf := nobj + 1); [split; swsimp; try reflexivity; try assumption; lia | swsimp; exact Hfuel]. }
  intros r w' H. subst QQ. unfold rc_post, rc_fpost in *. swsimp. cbn [sw_cam sw_flag sw_wf sw_out sw_log] in *.
  destruct (rc_plan cam flag) as [[[fs br] cam'] flag'].
  destruct H as (Ho & (S1 & S2 & S3 & S4 & S5 & S6) & Hrest). cbn [sw_power sw_start sw_open sw_conn sw_frametok sw_nobj] in *.
  destruct (frames_ok fs wf).
  - destruct Hrest as (Hr & R2 & R3 & R4 & R5). subst r. cbv iota beta. apply spost_ret.
    repeat split; assumption.
  - destruct Hrest as (Hr & R2). subst r. cbv iota beta. apply spost_ret. repeat split; assumption.
Qed.

(* ---------- one round of the restart loop ---------- *)
Definition marker_chunk (wf : list wres) : bytes := match wf with WFail n :: _ => firstn n MARKER | _ => MARKER end.

Definition round_pre (by_reset : bool) (c : Z) : list sev :=
  (if by_reset then [SFlagCleared] else []) ++ [SRemoveCamera; SClose c].

Definition round_post (w : sworld) (res : loopres (Z * Z) (option Z)) (w' : sworld) : Prop :=
  let c := sw_open w in
  let '(fs, by_reset, cam', flag') := rc_plan (sw_cam w) (sw_flag w) in
  let wf1 := skipn (List.length fs) (sw_wf w) in
  let out1 := sw_out w ++ walk (map IFrame fs) (sw_wf w) in
  sw_conn w' = sw_conn w /\
  if frames_ok fs (sw_wf w) then
    match sw_power w with
    | false :: p' =>
      match sw_start w with
      | false :: s' =>
        let c' := sw_nobj w + 2 in
        res = LCont (0, c') /\
        sw_out w' = out1 ++ [marker_chunk wf1] /\
        sw_log w' = sw_log w ++ round_pre by_reset c ++ [SPower true; SStart c'; SSetCamera c'] /\
        sw_cam w' = cam' /\ sw_flag w' = flag' /\ sw_power w' = p' /\ sw_start w' = s' /\ sw_wf w' = tl wf1 /\
        sw_open w' = c' /\ sw_nobj w' = c'
      | _ =>
        res = LRet (Some SERR_START) /\ sw_out w' = out1 /\
        sw_log w' = sw_log w ++ round_pre by_reset c ++ [SPower true; SStart 0; SSetCamera 0]
      end
    | _ =>
      res = LRet (Some SERR_POWER) /\ sw_out w' = out1 /\
      sw_log w' = sw_log w ++ round_pre by_reset c ++ [SPower false]
    end
  else res = LRet (Some SERR_WRITE) /\ sw_out w' = out1 /\ sw_log w' = sw_log w.

Theorem tie_restart_round : forall cfg fuel c conn err w,
  sw_open w = c -> c <> 0 -> sw_conn w = conn -> conn <> 0 -> 0 <= sw_nobj w ->
  (List.length (sw_cam w) < fuel)%nat ->
  spost (Leptond_fn_runMain_tail_loop1 (sext cfg) fuel conn (err, c) w) (round_post w).
Proof.
  intros cfg fuel c conn err w Ho Hc0 Hcn Hcn0 Hnobj Hfuel.
  cbv beta delta [Leptond_fn_runMain_tail_loop1]. cbv beta iota zeta.
  apply spost_bind. eapply spost_mono; [apply (tie_runCamera cfg c conn fuel w Ho Hc0 Hcn Hcn0 Hnobj Hfuel)|].
  intros r w1 H. unfold rc_fpost in H. unfold round_post.
  destruct w as [cam flag power start wf out fr ft op cn nobj pd vals lg].
  cbn [sw_cam sw_flag sw_power sw_start sw_wf sw_out sw_frame sw_frametok sw_open sw_conn sw_nobj sw_pending sw_vals sw_log] in *.
  subst op cn.
  destruct (rc_plan cam flag) as [[[fs br] cam'] flag'].
  destruct H as (E1 & E2 & E3 & E4 & E5 & E6 & Hrest).
  destruct w1 as [cam1 flag1 power1 start1 wf1 out1 fr1 ft1 op1 cn1 nobj1 pd1 vals1 lg1].
  cbn [sw_cam sw_flag sw_power sw_start sw_wf sw_out sw_frame sw_frametok sw_open sw_conn sw_nobj sw_pending sw_vals sw_log] in *.
  pose proof (tlen_pos _ vals1) as Hvp.
  destruct (frames_ok fs wf).
  - destruct Hrest as (Hr & R2 & R3 & R4 & R5). subst r cam1 flag1 power1 start1 wf1 out1 op1 cn1 nobj1 lg1.
    cbv iota beta.
    match goal with |- spost _ ?Q => set (QQ := Q) end.
    destruct br; ssteps;
    (destruct power as [|[|] p']; ssteps;
     [ | | destruct start as [|[|] s']; ssteps;
           [ | | destruct (skipn (List.length fs) wf) as [|[|n] wr]; ssteps ] ]);
    apply spost_ret; subst QQ; cbv beta; swsimp; unfold round_pre, marker_chunk;
    replace (nobj + 1 + 1) with (nobj + 2) by lia;
    repeat split; try reflexivity; rewrite <- ?app_assoc; reflexivity.
  - destruct Hrest as (Hr & R2). subst r out1 cn1 lg1. cbv iota beta. ssteps. apply spost_ret.
    swsimp. repeat split; reflexivity.
Qed.

(* ---------- the restart loop ---------- *)
Lemma main_plan_eq : forall cam flag power start,
  main_plan cam flag power start =
  let '(fs, _, cam', flag') := rc_plan cam flag in
  map IFrame fs ++
  match power with
  | false :: power' =>
    match start with
    | false :: start' => IClear :: main_plan cam' flag' power' start'
    | _ => []
    end
  | _ => []
  end.
Proof. intros. destruct power; reflexivity. Qed.

Lemma main_result_eq : forall cam flag power start wf,
  main_result cam flag power start wf =
  let '(fs, _, cam', flag') := rc_plan cam flag in
  if negb (frames_ok fs wf) then SERR_WRITE
  else
    match power with
    | false :: power' =>
      match start with
      | false :: start' => main_result cam' flag' power' start' (tl (skipn (List.length fs) wf))
      | _ => SERR_START
      end
    | _ => SERR_POWER
    end.
Proof. intros. destruct power; reflexivity. Qed.

Lemma walk_frames_app : forall fs rest wf,
  walk (map IFrame fs ++ rest) wf =
  walk (map IFrame fs) wf ++ (if frames_ok fs wf then walk rest (skipn (List.length fs) wf) else []).
Proof.
  induction fs as [|b fs IH]; intros rest wf; cbn [map app walk frames_ok List.length skipn]; [reflexivity|].
  destruct wf as [|[|n] wr]; cbn [tl skipn].
  - rewrite IH. rewrite skipn_nil. reflexivity.
  - rewrite IH. reflexivity.
  - reflexivity.
Qed.

Lemma rc_plan_len : forall cam flag,
  (List.length (snd (fst (rc_plan cam flag))) <= List.length cam)%nat.
Proof.
  induction cam as [|[b|] r IH]; intros flag; cbn [rc_plan]; [cbn; lia| |cbn; lia].
  destruct (hd false flag); [cbn; lia|].
  specialize (IH (tl flag)). destruct (rc_plan r (tl flag)) as [[[fs br] cam'] flag']. cbn in *. lia.
Qed.

Lemma main_loop : forall cfg n conn m w c err,
  sw_open w = c -> c <> 0 -> sw_conn w = conn -> conn <> 0 -> 0 <= sw_nobj w ->
  (List.length (sw_cam w) < n)%nat -> (List.length (sw_power w) < m)%nat ->
  spost (forever m (Leptond_fn_runMain_tail_loop1 (sext cfg) n conn) (err, c) w) (fun r w' =>
    r = Some (Some (main_result (sw_cam w) (sw_flag w) (sw_power w) (sw_start w) (sw_wf w))) /\
    sw_out w' = sw_out w ++ walk (main_plan (sw_cam w) (sw_flag w) (sw_power w) (sw_start w)) (sw_wf w) /\
    exists added, sw_log w' = sw_log w ++ added /\ ~ In SBad added).
Proof.
  intros cfg n conn m. induction m as [|m IH]; intros w c err Ho Hc0 Hcn Hcn0 Hnobj Hn Hm; [lia|].
  apply spost_forever_S.
  eapply spost_mono; [apply (tie_restart_round cfg n c conn err w Ho Hc0 Hcn Hcn0 Hnobj Hn)|].
  intros res w1 H. unfold round_post in H.
  rewrite main_plan_eq, main_result_eq.
  pose proof (rc_plan_len (sw_cam w) (sw_flag w)) as Hlen.
  destruct (rc_plan (sw_cam w) (sw_flag w)) as [[[fs br] cam'] flag']. cbn [fst snd] in Hlen.
  rewrite walk_frames_app.
  destruct H as (Hconn & H).
  destruct (frames_ok fs (sw_wf w)); cbn [negb].
  - destruct (sw_power w) as [|[|] p'] eqn:Ep.
    + destruct H as (Hr & Hout & Hlog). subst res. split; [reflexivity|]. split; [rewrite Hout, app_nil_r; reflexivity|].
      eexists. split; [exact Hlog|]. unfold round_pre. destruct br; cbn; intuition discriminate.
    + destruct H as (Hr & Hout & Hlog). subst res. split; [reflexivity|]. split; [rewrite Hout, app_nil_r; reflexivity|].
      eexists. split; [exact Hlog|]. unfold round_pre. destruct br; cbn; intuition discriminate.
    + destruct (sw_start w) as [|[|] s'] eqn:Es.
      * destruct H as (Hr & Hout & Hlog). subst res. split; [reflexivity|]. split; [rewrite Hout, app_nil_r; reflexivity|].
        eexists. split; [exact Hlog|]. unfold round_pre. destruct br; cbn; intuition discriminate.
      * destruct H as (Hr & Hout & Hlog). subst res. split; [reflexivity|]. split; [rewrite Hout, app_nil_r; reflexivity|].
        eexists. split; [exact Hlog|]. unfold round_pre. destruct br; cbn; intuition discriminate.
      * destruct H as (Hr & Hout & Hlog & R1 & R2 & R3 & R4 & R5 & R6 & R7). subst res.
        eapply spost_mono.
        { apply (IH w1 (sw_nobj w + 2) 0).
          - exact R6.
          - lia.
          - rewrite Hconn. exact Hcn.
          - exact Hcn0.
          - rewrite R7. lia.
          - rewrite R1. lia.
          - rewrite R3. cbn [List.length] in Hm. lia. }
        cbv beta. intros r w2 (Hr2 & Hout2 & added & Hlog2 & Hnb).
        rewrite R1, R2, R3, R4, R5 in *.
        split; [exact Hr2|]. split.
        -- rewrite Hout2, Hout. cbn [walk]. unfold marker_chunk.
           destruct (skipn (List.length fs) (sw_wf w)) as [|[|k] wr]; cbn [tl]; rewrite <- !app_assoc; reflexivity.
        -- eexists. split; [rewrite Hlog2, Hlog, <- !app_assoc; reflexivity|].
           unfold round_pre. intros Hin. rewrite !in_app_iff in Hin. destruct br; cbn in Hin; intuition discriminate.
  - destruct H as (Hr & Hout & Hlog). subst res. split; [reflexivity|]. split; [rewrite Hout, app_nil_r; reflexivity|].
    exists []. split; [rewrite app_nil_r; exact Hlog|]. intros [].
Qed.

(* ---------- the whole sender ---------- *)
Lemma main_result_nonzero : forall power cam flag start wf, main_result cam flag power start wf <> 0.
Proof.
  induction power as [|[|] p IH]; intros cam flag start wf; rewrite main_result_eq;
    destruct (rc_plan cam flag) as [[[fs br] cam'] flag']; destruct (negb (frames_ok fs wf)); try discriminate.
  destruct start as [|[|] s']; try discriminate. apply IH.
Qed.

Lemma sender_result_nonzero : forall cfg cam flag power start wf, sender_result cfg cam flag power start wf <> 0.
Proof.
  intros. unfold sender_result. destruct (s_model cfg); [|discriminate].
  destruct (header_of cfg); [|discriminate]. destruct (wok wf); [apply main_result_nonzero|discriminate].
Qed.

Theorem tie_sender : forall cfg cam flag power start wf fuel,
  scfg_ok cfg -> (List.length cam + List.length power < fuel)%nat ->
  spost (src_sender cfg fuel (sender_init cam flag power start wf)) (fun r w' =>
    r = Some (sender_result cfg cam flag power start wf) /\
    sw_out w' = sender_chunks cfg cam flag power start wf /\
    ~ In SBad (sw_log w')).
Proof.
  intros cfg cam flag power start wf fuel Hok Hfuel.
  unfold src_sender. cbv beta delta [Leptond_fn_runMain_tail].
  apply spost_bind. eapply spost_mono.
  { apply (tie_sendCameraSpecs cfg CAM0 CONN (sender_init cam flag power start wf) Hok); try reflexivity; discriminate. }
  intros r w1 ((S1 & S2 & S3 & S4) & Hcam & Hflag & Hlog & Hnobj & H).
  cbn [sender_init sw_cam sw_flag sw_power sw_start sw_wf sw_out sw_open sw_conn sw_nobj sw_log app] in *.
  unfold sender_result, sender_chunks, header_of.
  destruct (s_model cfg) as [m|].
  2: { destruct H as (Hr & Hout & Hwf). subst r. cbv beta zeta. unfold SERR_MODEL. cbn [Z.eqb negb]. apply spost_ret.
       rewrite Hout, Hlog. repeat split; auto. }
  destruct (s_encode cfg (sender_specs cfg m)) as [h|].
  2: { destruct H as (Hr & Hout & Hwf). subst r. cbv beta zeta. unfold SERR_YAML. cbn [Z.eqb negb]. apply spost_ret.
       rewrite Hout, Hlog. repeat split; auto. }
  assert (Hloop : forall wfr, sw_wf w1 = wfr ->
    spost (forever fuel (Leptond_fn_runMain_tail_loop1 (sext cfg) fuel CONN) (0, CAM0) w1) (fun r w' =>
      r = Some (Some (main_result cam flag power start wfr)) /\
      sw_out w' = sw_out w1 ++ walk (main_plan cam flag power start) wfr /\
      ~ In SBad (sw_log w'))).
  { intros wfr Hwf. eapply spost_mono.
    - apply (main_loop cfg fuel CONN fuel w1 CAM0 0); try assumption; try discriminate.
      + rewrite Hnobj. lia.
      + rewrite Hcam. lia.
      + rewrite S1. lia.
    - cbv beta. intros r2 w2 (Hr2 & Hout2 & added & Hlog2 & Hnb).
      rewrite Hcam, Hflag, S1, S2, Hwf in *. split; [exact Hr2|]. split; [exact Hout2|].
      rewrite Hlog2, Hlog. exact Hnb. }
  destruct wf as [|[|k] wr]; destruct H as (Hr & Hout & Hwf); subst r; cbv beta zeta; unfold SERR_WRITE; cbn [Z.eqb negb wok tl].
  3: { apply spost_ret. rewrite Hout, Hlog. repeat split; auto. }
  all: apply spost_bind; eapply spost_mono; [apply (Hloop _ Hwf)|];
    cbv beta; intros r2 w2 (Hr2 & Hout2 & Hnb); subst r2; cbv iota beta; apply spost_ret;
    (split; [reflexivity|]); (split; [rewrite Hout2, Hout; reflexivity|exact Hnb]).
Qed.

(* ---------- the byte stream ---------- *)
(* when no marker's Write fails, what reaches the connection is the encoding of the delivered items, followed
   by the delivered part of the frame whose Write failed *)
Lemma walk_stream : forall items wf, ignored_ok items wf = true ->
  concat (walk items wf) = flat_map enc_item (fst (sent items wf)) ++ snd (sent items wf).
Proof.
  induction items as [|[b|] r IH]; intros wf H; cbn [walk sent ignored_ok] in *; [reflexivity| |].
  - destruct wf as [|[|n] wr]; cbn [tl] in *.
    + specialize (IH [] H). destruct (sent r []) as [s t]. cbn [fst snd flat_map enc_item concat] in *.
      rewrite IH, app_assoc. reflexivity.
    + specialize (IH wr H). destruct (sent r wr) as [s t]. cbn [fst snd flat_map enc_item concat] in *.
      rewrite IH, app_assoc. reflexivity.
    + destruct (Nat.leb (List.length b) n) eqn:E; cbn [fst snd flat_map enc_item concat app].
      * rewrite firstn_all2 by (apply Nat.leb_le; exact E). rewrite !app_nil_r. reflexivity.
      * rewrite app_nil_r. reflexivity.
  - destruct wf as [|[|n] wr]; cbn [tl] in *; [| |discriminate].
    + specialize (IH [] H). destruct (sent r []) as [s t]. cbn [fst snd flat_map enc_item concat] in *.
      rewrite IH, app_assoc. reflexivity.
    + specialize (IH wr H). destruct (sent r wr) as [s t]. cbn [fst snd flat_map enc_item concat] in *.
      rewrite IH, app_assoc. reflexivity.
Qed.

(* the delivered items are a prefix of the plan *)
Lemma sent_prefix : forall items wf, exists rest, items = fst (sent items wf) ++ rest.
Proof.
  induction items as [|[b|] r IH]; intros wf; cbn [sent].
  - exists []. reflexivity.
  - destruct wf as [|[|n] wr]; cbn [tl].
    + destruct (IH []) as [rest E]. destruct (sent r []) as [s t]. cbn [fst] in *. exists rest. rewrite E at 1. reflexivity.
    + destruct (IH wr) as [rest E]. destruct (sent r wr) as [s t]. cbn [fst] in *. exists rest. rewrite E at 1. reflexivity.
    + destruct (Nat.leb (List.length b) n); cbn [fst]; [exists r|exists (IFrame b :: r)]; reflexivity.
  - destruct (IH (tl wf)) as [rest E]. destruct (sent r (tl wf)) as [s t]. cbn [fst] in *. exists rest.
    rewrite E at 1. reflexivity.
Qed.

Theorem sender_stream : forall cfg cam flag power start wf h,
  header_of cfg = Some h -> wok wf = true -> wok (tl wf) = true ->
  ignored_ok (main_plan cam flag power start) (tl (tl wf)) = true ->
  let s := sent (main_plan cam flag power start) (tl (tl wf)) in
  concat (sender_chunks cfg cam flag power start wf) = h ++ [NL] ++ flat_map enc_item (fst s) ++ snd s.
Proof.
  intros cfg cam flag power start wf h Hh H1 H2 H3. cbv zeta. unfold sender_chunks. rewrite Hh.
  destruct wf as [|[|n] wr]; [| |discriminate]; cbn [tl] in *.
  - cbn [concat]. rewrite (walk_stream _ _ H3). reflexivity.
  - destruct wr as [|[|n] wr2]; [| |discriminate]; cbn [tl concat] in *; rewrite (walk_stream _ _ H3); reflexivity.
Qed.

(* ---------- the guard carries over from the camera script to the plan ---------- *)
Lemma rc_plan_ok : forall fs cam flag, cam_ok fs cam = true ->
  forallb (item_ok fs) (map IFrame (fst (fst (fst (rc_plan cam flag))))) = true /\
  cam_ok fs (snd (fst (rc_plan cam flag))) = true.
Proof.
  intros fs. induction cam as [|[b|] r IH]; intros flag H; cbn [rc_plan]; [split; reflexivity| |].
  - cbn [cam_ok forallb] in H. apply andb_true_iff in H. destruct H as [Hb Hr].
    destruct (hd false flag); [cbn; auto|].
    specialize (IH (tl flag) Hr). destruct (rc_plan r (tl flag)) as [[[fs' br] cam'] flag']. cbn [fst snd] in *.
    cbn [map forallb item_ok]. rewrite Hb. exact IH.
  - cbn [cam_ok forallb] in H. cbn. auto.
Qed.

Lemma plan_items_ok : forall fs power cam flag start, cam_ok fs cam = true ->
  forallb (item_ok fs) (main_plan cam flag power start) = true.
Proof.
  intros fs. induction power as [|[|] p IH]; intros cam flag start H; rewrite main_plan_eq;
    pose proof (rc_plan_ok fs cam flag H) as [H1 H2];
    destruct (rc_plan cam flag) as [[[fs' br] cam'] flag']; cbn [fst snd] in *; rewrite forallb_app, H1; cbn [andb]; try reflexivity.
  destruct start as [|[|] s']; try reflexivity. cbn [forallb item_ok andb]. apply IH. exact H2.
Qed.

Lemma bytes_eqb_len : forall a b, bytes_eqb a b = true -> List.length a = List.length b.
Proof.
  induction a as [|x a IH]; intros [|y b] H; cbn in *; try discriminate; [reflexivity|].
  apply andb_true_iff in H. destruct H as [_ H]. f_equal. apply IH. exact H.
Qed.

Lemma forallb_prefix : forall A (P : A -> bool) l1 l2, forallb P (l1 ++ l2) = true -> forallb P l1 = true.
Proof. intros A P l1 l2 H. rewrite forallb_app in H. apply andb_true_iff in H. tauto. Qed.

(* the delivered part of a frame whose Write failed is shorter than a frame and cannot be taken for a marker *)
Lemma sent_tail_ok : forall fs items wf, (5 <= fs)%nat -> forallb (item_ok fs) items = true ->
  (List.length (snd (sent items wf)) < fs)%nat /\
  negb (bytes_eqb (firstn PROBE (snd (sent items wf))) MARKER) = true.
Proof.
  intros fs. induction items as [|[b|] r IH]; intros wf Hfs H; cbn [sent].
  - cbn. split; [lia|reflexivity].
  - cbn [forallb] in H. apply andb_true_iff in H. destruct H as [Hb Hr].
    destruct wf as [|[|n] wr]; cbn [tl].
    + specialize (IH [] Hfs Hr). destruct (sent r []) as [s t]. exact IH.
    + specialize (IH wr Hfs Hr). destruct (sent r wr) as [s t]. exact IH.
    + cbn [item_ok] in Hb. apply andb_true_iff in Hb. destruct Hb as [Hl Hm]. apply Nat.eqb_eq in Hl.
      destruct (Nat.leb_spec (List.length b) n) as [L|L]; cbn [snd].
      * cbn. split; [lia|reflexivity].
      * split; [rewrite firstn_length; lia|].
        unfold PROBE in *. rewrite firstn_firstn.
        destruct (Nat.le_gt_cases 5 n) as [G|G].
        -- rewrite Nat.min_l by exact G. exact Hm.
        -- rewrite Nat.min_r by lia.
           destruct (bytes_eqb (firstn n b) MARKER) eqn:E; [|reflexivity].
           apply bytes_eqb_len in E. rewrite firstn_length in E. cbn in E. lia.
  - cbn [forallb] in H. apply andb_true_iff in H. destruct H as [_ Hr].
    specialize (IH (tl wf) Hfs Hr). destruct (sent r (tl wf)) as [s t]. exact IH.
Qed.

(* ---------- sender -> receiver, on the translated code of both daemons ---------- *)
Lemma run_conn_header : forall fs cs h items, run_conn fs cs = mkCR (Some h) items ->
  exists rest, header_c (S (total_len cs)) cs [] = Some (h, rest).
Proof.
  intros fs cs h items H. unfold run_conn in H.
  destruct (header_c (S (total_len cs)) cs []) as [[h' rest]|]; inversion H. eauto.
Qed.

(* the eight values sendCameraSpecs puts into the map, as the receiver's HeaderInfo spells them *)
Definition sender_fields (cfg : scfg) (m : bytes) : hfields :=
  mkHF (s_resx cfg) (s_resy cfg) (s_fps cfg) (Z.of_nat (s_fs cfg)) FLIR m
       (match s_serial cfg with Some z => z | None => 0 end)
       (match s_rev cfg with Some (a, b, d) => s_fmt cfg a b d | None => s_fmt cfg 0 0 0 end).

Lemma specs_fields : forall cfg m ym, (forall k, ym k = ymap_of (sender_specs cfg m) k) ->
  fields_of ym = sender_fields cfg m.
Proof. intros cfg m ym H. unfold fields_of. rewrite !H. reflexivity. Qed.

Section EndToEnd.
Variables (scfg0 : scfg) (cam : list camres) (flag power start : list bool) (wf : list wres).
Variables (h m : bytes) (dec : bytes -> option ymap) (ym : ymap).
Let plan := main_plan cam flag power start.
Let items := fst (sent plan (tl (tl wf))).
Let tail := snd (sent plan (tl (tl wf))).

Hypothesis Hok : scfg_ok scfg0.
Hypothesis Hmodel : s_model scfg0 = Some m.           (* GetModel succeeds: m is the camera's model *)
Hypothesis Henc : s_encode scfg0 (sender_specs scfg0 m) = Some h.   (* yaml.Marshal succeeds: h is the header text *)
Hypothesis Htext : header_text_ok h = true.           (* no blank line, ends with a newline *)
Hypothesis Hw1 : wok wf = true.                       (* the header text's Write succeeds *)
Hypothesis Hw2 : wok (tl wf) = true.                  (* the newline's Write succeeds (its error is ignored by the code) *)
Hypothesis Hign : ignored_ok plan (tl (tl wf)) = true.  (* no marker's Write fails (errors ignored by the code) *)
Hypothesis Hguard : cam_ok (s_fs scfg0) cam = true.   (* THE GUARD: frames have the frame size and none begins with "clear" *)
Hypothesis Hfs : (5 <= s_fs scfg0)%nat.
(* the codec round-trips the field map *)
Hypothesis Hdec : dec h = Some ym.
Hypothesis Hym : forall k, ym k = ymap_of (sender_specs scfg0 m) k.

Lemma e2e_header_of : header_of scfg0 = Some h.
Proof. unfold header_of. rewrite Hmodel. exact Henc. Qed.

Lemma e2e_stream : forall fuelS, (List.length cam + List.length power < fuelS)%nat ->
  spost (src_sender scfg0 fuelS (sender_init cam flag power start wf)) (fun rs ws =>
    rs = Some (sender_result scfg0 cam flag power start wf) /\
    forall cs, concat cs = concat (sw_out ws) ->
      concat cs = h ++ [NL] ++ flat_map enc_item items ++ tail /\
      run_conn (s_fs scfg0) cs = mkCR (Some h) items).
Proof.
  intros fuelS Hfuel. eapply spost_mono; [apply (tie_sender scfg0 cam flag power start wf fuelS Hok Hfuel)|].
  cbv beta. intros rs ws (Hr & Hout & _). split; [exact Hr|]. intros cs Hcs.
  rewrite Hout in Hcs. rewrite (sender_stream scfg0 cam flag power start wf h e2e_header_of Hw1 Hw2 Hign) in Hcs.
  fold plan in Hcs. fold items in Hcs. fold tail in Hcs.
  split; [exact Hcs|].
  pose proof (plan_items_ok (s_fs scfg0) power cam flag start Hguard) as Hplan. fold plan in Hplan.
  destruct (sent_prefix plan (tl (tl wf))) as [rest Hpre]. fold items in Hpre.
  destruct (sent_tail_ok (s_fs scfg0) plan (tl (tl wf)) Hfs Hplan) as [Ht1 Ht2]. fold tail in Ht1, Ht2.
  apply (stream_roundtrip_partial (s_fs scfg0) h items tail cs Hfs Htext); try assumption.
  apply (forallb_prefix _ _ items rest). rewrite <- Hpre. exact Hplan.
Qed.

(* feed the chunks the translated sender wrote, re-segmented in any way, to the translated receiver: its
   Reset / Process log is exactly the sender's delivered items *)
Theorem end_to_end : forall ccfg script i1 i2 fuelS,
  (List.length cam + List.length power < fuelS)%nat ->
  (forall t, c_decode ccfg t = option_map (fun y => hdr_of_fields (fields_of y)) (dec t)) ->
  parser_of FLIR m <> 0 -> s_fps scfg0 <> 0 -> i1 <> 0 -> i2 <> 0 ->
  spost (src_sender scfg0 fuelS (sender_init cam flag power start wf)) (fun rs ws =>
    rs = Some (sender_result scfg0 cam flag power start wf) /\
    forall cs fuelR, concat cs = concat (sw_out ws) -> (S (total_len cs) <= fuelR)%nat ->
      post (src_conn ccfg fuelR (conn_init cs script i1 i2)) (fun r wr =>
        items_of (cw_log wr) = items /\ (r = Some ERR_EOF \/ r = Some ERR_UEOF) /\ cw_in wr = [])).
Proof.
  intros ccfg script i1 i2 fuelS Hfuel Hcodec Hparser Hfps Hi1 Hi2.
  eapply spost_mono; [apply (e2e_stream fuelS Hfuel)|].
  cbv beta. intros rs ws (Hr & H). split; [exact Hr|]. intros cs fuelR Hcs HfuelR.
  destruct (H cs Hcs) as [_ Hrt].
  destruct (run_conn_header _ _ _ _ Hrt) as [rest Hhc].
  pose proof (specs_fields scfg0 m ym Hym) as Hf.
  assert (Hd : c_decode ccfg h = Some (hdr_of_fields (sender_fields scfg0 m))).
  { rewrite Hcodec, Hdec. cbn [option_map]. rewrite Hf. reflexivity. }
  eapply post_mono.
  { apply (tie_handleConn_items ccfg cs script i1 i2 fuelR h rest _ Hhc Hd); cbn [hdr_of_fields sender_fields h_brand h_model h_fs h_fps f_brand f_model f_framesize f_fps]; try assumption; lia. }
  cbv beta. intros r wr (Hitems & Hres & Hin).
  cbn [hdr_of_fields sender_fields h_fs f_framesize] in Hitems. rewrite Nat2Z.id, Hrt in Hitems.
  split; [exact Hitems|]. split; assumption.
Qed.

(* the translated ReadHeaderInfo, run on the same chunks, returns exactly the eight values sendCameraSpecs put
   into the map, and leaves exactly the items' bytes in the stream *)
Theorem end_to_end_header : forall fuelS,
  (List.length cam + List.length power < fuelS)%nat ->
  spost (src_sender scfg0 fuelS (sender_init cam flag power start wf)) (fun rs ws =>
    forall cs fuelR, concat cs = concat (sw_out ws) -> (S (total_len cs) <= fuelR)%nat ->
      hpost (src_header dec fuelR RD (hdr_init cs)) (fun r hw' =>
        concat (hw_in hw') = flat_map enc_item items ++ tail /\
        hw_decoded hw' = [h] /\
        exists hi, r = Some (hi, 0) /\ hdr_view hw' hi = Some (sender_fields scfg0 m))).
Proof.
  intros fuelS Hfuel. eapply spost_mono; [apply (e2e_stream fuelS Hfuel)|].
  cbv beta. intros rs ws (_ & H) cs fuelR Hcs HfuelR.
  destruct (H cs Hcs) as [Hcat _].
  eapply hpost_mono.
  { apply (src_header_roundtrip dec h (flat_map enc_item items ++ tail) RD (hdr_init cs) fuelR Htext); [reflexivity|exact Hcat|exact HfuelR]. }
  cbv beta. intros r hw' (H1 & H2 & H3). rewrite Hdec in H3. destruct H3 as [hi [Hr Hv]].
  split; [exact H1|]. split; [exact H2|]. exists hi. split; [exact Hr|].
  rewrite Hv, (specs_fields scfg0 m ym Hym). reflexivity.
Qed.
End EndToEnd.

(* ---------- every frame at most once, in order ---------- *)
Inductive subseq {A : Type} : list A -> list A -> Prop :=
| sub_nil : forall l, subseq [] l
| sub_take : forall x a b, subseq a b -> subseq (x :: a) (x :: b)
| sub_skip : forall x a b, subseq a b -> subseq a (x :: b).

Definition cam_frames (cam : list camres) : list bytes :=
  flat_map (fun r => match r with CamFrame b => [b] | CamErr => [] end) cam.
Definition item_frames (items : list item) : list bytes :=
  flat_map (fun i => match i with IFrame b => [b] | IClear => [] end) items.

Lemma subseq_app : forall A (a1 b1 a2 b2 : list A), subseq a1 b1 -> subseq a2 b2 -> subseq (a1 ++ a2) (b1 ++ b2).
Proof.
  intros A a1 b1 a2 b2 H1 H2. induction H1; cbn [app].
  - induction l; cbn [app]; [exact H2|apply sub_skip; assumption].
  - apply sub_take; assumption.
  - apply sub_skip; assumption.
Qed.

Lemma item_frames_map : forall fs, item_frames (map IFrame fs) = fs.
Proof. induction fs as [|b fs IH]; cbn; [reflexivity|]. unfold item_frames in IH. rewrite IH. reflexivity. Qed.

(* one call of runCamera takes its frames, in order, from a prefix of the script and leaves the rest *)
Lemma rc_plan_subseq : forall cam flag,
  exists pre, cam = pre ++ snd (fst (rc_plan cam flag)) /\
              subseq (fst (fst (fst (rc_plan cam flag)))) (cam_frames pre).
Proof.
  induction cam as [|[b|] r IH]; intros flag; cbn [rc_plan].
  - exists []. split; [reflexivity|apply sub_nil].
  - destruct (hd false flag).
    + exists [CamFrame b]. split; [reflexivity|apply sub_nil].
    + destruct (IH (tl flag)) as [pre [E S]]. destruct (rc_plan r (tl flag)) as [[[fs br] cam'] flag'].
      cbn [fst snd] in *. exists (CamFrame b :: pre). split; [rewrite E at 1; reflexivity|].
      cbn [cam_frames flat_map app]. apply sub_take. exact S.
  - exists [CamErr]. split; [reflexivity|apply sub_nil].
Qed.

(* the frames of the plan are a subsequence of the frames the camera yields: none is sent twice, none out of
   order (those left out were read in an iteration that saw the reset flag, or after the sender returned) *)
Theorem plan_frames_subseq : forall power cam flag start,
  subseq (item_frames (main_plan cam flag power start)) (cam_frames cam).
Proof.
  induction power as [|[|] p IH]; intros cam flag start; rewrite main_plan_eq;
    destruct (rc_plan_subseq cam flag) as [pre [E S]];
    destruct (rc_plan cam flag) as [[[fs br] cam'] flag']; cbn [fst snd] in *;
    unfold item_frames, cam_frames; rewrite flat_map_app; fold (item_frames (map IFrame fs)); rewrite item_frames_map;
    rewrite E at 1; rewrite flat_map_app; apply subseq_app; try exact S; try apply sub_nil.
  destruct start as [|[|] s']; try apply sub_nil. cbn [flat_map app]. apply IH.
Qed.

Lemma all_leptond_functions_translated : untranslated_Leptond = [].
Proof. reflexivity. Qed.

(* ---------- non-vacuity: concrete runs ---------- *)
(* header "A: 1\n"; frames of six bytes.  The camera: two frames, a NextFrame error (restart), a frame, a frame
   read while the service asks for a reset (dropped; restart), a frame whose Write fails after two bytes, one
   more frame that is never read. *)
Definition ex_scfg : scfg :=
  mkSCfg (fun _ => Some [65; 58; 32; 49; 10]) (fun a b c => [a; b; c]) 6 160 120 9 (Some 77) None
         (Some (bytes_of_string "lepton3.5")) 999.
Definition ex_cam : list camres :=
  [CamFrame [1; 2; 3; 4; 5; 6]; CamFrame [2; 2; 2; 2; 2; 2]; CamErr; CamFrame [3; 3; 3; 3; 3; 3];
   CamFrame [4; 4; 4; 4; 4; 4]; CamFrame [5; 5; 5; 5; 5; 5]; CamFrame [6; 6; 6; 6; 6; 6]].
Definition ex_flag : list bool := [false; false; false; true; false].
Definition ex_wf : list wres := [WOk; WOk; WOk; WOk; WOk; WOk; WOk; WFail 2].

Example ex_sender :
  match src_sender ex_scfg 20 (sender_init ex_cam ex_flag [false; false; false] [false; false; false] ex_wf) with
  | Ok r w => (r, sw_out w, sw_log w)
  | Panicked _ => (None, [], [])
  end =
  (Some SERR_WRITE,
   [[65; 58; 32; 49; 10]; [10]; [1; 2; 3; 4; 5; 6]; [2; 2; 2; 2; 2; 2]; MARKER; [3; 3; 3; 3; 3; 3]; MARKER; [5; 5]],
   [SRemoveCamera; SClose 1; SPower true; SStart 4; SSetCamera 4;
    SFlagCleared; SRemoveCamera; SClose 4; SPower true; SStart 6; SSetCamera 6]).
Proof. vm_compute. reflexivity. Qed.

Example ex_sender_model :
  sender_chunks ex_scfg ex_cam ex_flag [false; false; false] [false; false; false] ex_wf =
  [[65; 58; 32; 49; 10]; [10]; [1; 2; 3; 4; 5; 6]; [2; 2; 2; 2; 2; 2]; MARKER; [3; 3; 3; 3; 3; 3]; MARKER; [5; 5]] /\
  main_plan ex_cam ex_flag [false; false; false] [false; false; false] =
  [IFrame [1; 2; 3; 4; 5; 6]; IFrame [2; 2; 2; 2; 2; 2]; IClear; IFrame [3; 3; 3; 3; 3; 3]; IClear;
   IFrame [5; 5; 5; 5; 5; 5]; IFrame [6; 6; 6; 6; 6; 6]; IClear] /\
  sent (main_plan ex_cam ex_flag [false; false; false] [false; false; false]) (tl (tl ex_wf)) =
  ([IFrame [1; 2; 3; 4; 5; 6]; IFrame [2; 2; 2; 2; 2; 2]; IClear; IFrame [3; 3; 3; 3; 3; 3]; IClear], [5; 5]).
Proof. vm_compute. auto. Qed.

(* the same chunks, cut differently, through the translated receiver *)
Definition ex_ccfg : ccfg :=
  mkCfg (fun _ => Some (mkHdr 6 9 FLIR (bytes_of_string "lepton3.5"))) false false 10 5.
Fixpoint recut (n : nat) (b : bytes) (fuel : nat) : list bytes :=
  match fuel with
  | O => [b]
  | S k => match b with [] => [] | _ => firstn n b :: recut n (skipn n b) k end
  end.

Example ex_end_to_end :
  match src_sender ex_scfg 20 (sender_init ex_cam ex_flag [false; false; false] [false; false; false] ex_wf) with
  | Ok _ ws =>
    match src_conn ex_ccfg 60 (conn_init (recut 7 (concat (sw_out ws)) 40) [] 15 300) with
    | Ok r wr => (r, items_of (cw_log wr))
    | Panicked _ => (None, [])
    end
  | Panicked _ => (None, [])
  end =
  (Some ERR_UEOF,
   [IFrame [1; 2; 3; 4; 5; 6]; IFrame [2; 2; 2; 2; 2; 2]; IClear; IFrame [3; 3; 3; 3; 3; 3]; IClear]).
Proof. vm_compute. reflexivity. Qed.

(* FINDING (latent): the Go code ignores the error of the marker's Write (and of the newline's).  Nothing in it
   prevents a failed marker Write from being followed by a successful frame Write; the receiver then sees the
   frames of two camera sessions without the Reset between them.  (On a Unix stream socket without deadlines a
   failed Write means a broken connection and the next Write fails too - which is why this is latent.) *)
Example ex_lost_marker :
  let cam := [CamFrame [1; 2; 3; 4; 5; 6]; CamErr; CamFrame [3; 3; 3; 3; 3; 3]] in
  let wf := [WOk; WOk; WOk; WFail 0; WOk] in
  main_plan cam [] [false] [false] = [IFrame [1; 2; 3; 4; 5; 6]; IClear; IFrame [3; 3; 3; 3; 3; 3]] /\
  match src_sender ex_scfg 20 (sender_init cam [] [false] [false] wf) with
  | Ok _ ws =>
    match src_conn ex_ccfg 60 (conn_init (sw_out ws) [] 15 300) with
    | Ok r wr => items_of (cw_log wr)
    | Panicked _ => []
    end
  | Panicked _ => []
  end = [IFrame [1; 2; 3; 4; 5; 6]; IFrame [3; 3; 3; 3; 3; 3]].
Proof. vm_compute. auto. Qed.
