(* Source tie for motion/frameloop.go.

   coq/translated/FrameLoop.v is regenerated from the Go source on every run.  The lemmas
   below show that every translated method computes exactly what the hand-written model
   model/Ring.v computes (the model all ring theorems - C19 and, through the processor and
   detector refinements, C01-C03, C07, C09, C13, C16 - are about), for every well-formed
   frame loop, every outside world W and every meaning [ext] of the calls that leave the
   translated code (here only the mutex).  A change to frameloop.go that changes what any
   method computes therefore breaks one of these lemmas, whether or not a generated input
   reaches the difference.

   The ring of the Go struct holds frame *handles* (pointer identity = slot index); the
   model is polymorphic in the slot contents, so it is instantiated at handles here. *)
From Coq Require Import List ZArith Bool String Lia.
From TR Require Import model.GoSem model.Ring translated.FrameLoop.
Import ListNotations.
Open Scope Z_scope.


(* ====================================================================================
   Helper lemmas (monad, integers, slices) and the automation used for every method.
   All list / index reasoning lives in these separately stated lemmas; the method lemmas
   below are all proved by the same tactic [tie], which does not depend on the position
   or the names of the statements in the generated code.
   ==================================================================================== *)

(* ---------- monad ---------- *)
Lemma call_ext_eq {W} (ext : string -> list arg -> W -> Z * W) n a w :
  call_ext ext n a w = Ok (fst (ext n a w)) (snd (ext n a w)).
Proof. unfold call_ext. destruct (ext n a w); reflexivity. Qed.

Lemma Ok_eq {W A B} (a a' : A) (v v' : B) (w w' : W) :
  a = a' -> v = v' -> w = w' -> Ok (a, v) w = Ok (a', v') w'.
Proof. intros; subst; reflexivity. Qed.

(* ---------- integers ---------- *)
Lemma go_rem_ok a b : b <> 0 -> go_rem a b = Some (Z.rem a b).
Proof. intros H. unfold go_rem. destruct (Z.eqb_spec b 0); [contradiction | reflexivity]. Qed.

(* all remainders taken by the ring have 0 <= a < 2*b *)
Definition rem_fact (a b : Z) : Prop :=
  (a < b /\ Z.rem a b = a) \/ (b <= a /\ Z.rem a b = a - b).

Lemma rem_fact_intro a b : 0 < b -> 0 <= a < 2 * b -> rem_fact a b.
Proof.
  intros Hb Ha. unfold rem_fact. destruct (Z_lt_ge_dec a b).
  - left; split; [assumption | apply Z.rem_small; lia].
  - right; split; [lia |]. symmetry. apply Z.rem_unique with (q := 1); lia.
Qed.

(* ---------- slices ---------- *)
Lemma go_index_ok {A} (l : list A) i d :
  0 <= i < Z.of_nat (List.length l) -> go_index l i = Some (nth (Z.to_nat i) l d).
Proof.
  intros H. unfold go_index, go_len.
  destruct (i <? 0) eqn:E1; [lia |]. destruct (i >=? Z.of_nat (List.length l)) eqn:E2; [lia |].
  cbn [orb]. apply nth_error_nth'. lia.
Qed.

Lemma go_slice_ok {A} (l : list A) lo hi :
  0 <= lo -> lo <= hi -> hi <= Z.of_nat (List.length l) ->
  go_slice l lo hi = Some (firstn (Z.to_nat (hi - lo)) (skipn (Z.to_nat lo) l)).
Proof.
  intros H1 H2 H3. unfold go_slice, go_len.
  destruct (lo <? 0) eqn:E1; [lia |]. destruct (hi <? lo) eqn:E2; [lia |].
  destruct (hi >? Z.of_nat (List.length l)) eqn:E3; [lia |]. reflexivity.
Qed.

Lemma go_slice_none {A} (l : list A) lo hi :
  lo < 0 \/ hi < lo \/ hi > Z.of_nat (List.length l) -> go_slice l lo hi = None.
Proof.
  intros H. unfold go_slice, go_len.
  destruct (lo <? 0) eqn:E1; [reflexivity |]. destruct (hi <? lo) eqn:E2; [reflexivity |].
  destruct (hi >? Z.of_nat (List.length l)) eqn:E3; [reflexivity | lia].
Qed.

Lemma go_copy_length {A} (dst src : list A) : List.length (go_copy dst src) = List.length dst.
Proof. unfold go_copy. rewrite app_length, firstn_length, skipn_length. lia. Qed.

Lemma go_copy_ok {A} (dst src : list A) :
  (List.length src <= List.length dst)%nat ->
  go_copy dst src = src ++ skipn (List.length src) dst.
Proof.
  intros H. unfold go_copy. rewrite Nat.min_r by assumption.
  rewrite firstn_all. reflexivity.
Qed.

Lemma go_copy_at_ok {A} (x : list A) lo hi src :
  0 <= lo -> lo <= hi -> hi <= Z.of_nat (List.length x) ->
  Z.of_nat (List.length src) = hi - lo ->
  go_copy_at x lo hi src = Some (firstn (Z.to_nat lo) x ++ src ++ skipn (Z.to_nat hi) x).
Proof.
  intros H1 H2 H3 H4. unfold go_copy_at. rewrite go_slice_ok by assumption.
  do 3 f_equal. unfold go_copy.
  rewrite firstn_length, skipn_length.
  replace (Nat.min (Nat.min (Z.to_nat (hi - lo)) (List.length x - Z.to_nat lo)) (List.length src))
    with (List.length src) by lia.
  rewrite firstn_all, skipn_all2, app_nil_r; [reflexivity |].
  rewrite firstn_length, skipn_length. lia.
Qed.

Lemma firstn_app_exact {A} (a b : list A) n : List.length a = n -> firstn n (a ++ b) = a.
Proof.
  intros <-. rewrite firstn_app, Nat.sub_diag, firstn_all. cbn [firstn]. apply app_nil_r.
Qed.

(* ---------- automation ---------- *)

Definition ring_of (fl : FrameLoop) : ring Z :=
  mkRing (FrameLoop_size fl) (FrameLoop_currentIndex fl) (FrameLoop_bufferFull fl)
         (FrameLoop_oldest fl) (FrameLoop_frames fl).

Definition fl_wf (fl : FrameLoop) : Prop :=
  1 <= FrameLoop_size fl /\
  Z.of_nat (List.length (FrameLoop_frames fl)) = FrameLoop_size fl /\
  Z.of_nat (List.length (FrameLoop_orderedFrames fl)) = FrameLoop_size fl /\
  0 <= FrameLoop_currentIndex fl < FrameLoop_size fl /\
  (FrameLoop_oldest fl = -1 \/ 0 <= FrameLoop_oldest fl < FrameLoop_size fl).

(* the same ring; the scratch slice orderedFrames may differ in content, not in length *)
Definition same_ring (a b : FrameLoop) : Prop :=
  ring_of a = ring_of b /\
  List.length (FrameLoop_orderedFrames a) = List.length (FrameLoop_orderedFrames b).

(* what [tie] unfolds: the translated methods, the setters, the monad, the model, the
   invariants.  Not unfolded: call_ext, go_rem, go_index, go_slice, go_copy, go_copy_at
   (handled by the helper lemmas above). *)
#[local] Hint Unfold
  FrameLoop_Reset FrameLoop_nextIndexAfter FrameLoop_Current FrameLoop_Move
  FrameLoop_CopyRecent FrameLoop_getFullHistory FrameLoop_GetHistory FrameLoop_Oldest
  FrameLoop_SetAsOldest
  FrameLoop_set_size FrameLoop_set_currentIndex FrameLoop_set_frames
  FrameLoop_set_orderedFrames FrameLoop_set_bufferFull FrameLoop_set_oldest
  bind ret lift_opt panic
  reset next_index_after move zth current recent_index recent get_full_history get_history
  oldest_slot set_as_oldest NO_OLDEST_SET
  ring_of fl_wf same_ring : tie.

#[local] Hint Rewrite app_length firstn_length skipn_length @go_copy_length : tie_len.

(* projections of the two records, pairs, and beta/iota/zeta - no arithmetic *)
Ltac fl_cbn :=
  cbn [FrameLoop_size FrameLoop_currentIndex FrameLoop_frames FrameLoop_orderedFrames
       FrameLoop_bufferFull FrameLoop_oldest size cur full oldest slots fst snd] in *.

(* [rem_fact a b] for every remainder in sight whose operands are in range *)
Ltac pose_rem a b :=
  lazymatch goal with
  | _ : rem_fact a b |- _ => fail
  | _ => assert (rem_fact a b) by (apply rem_fact_intro; lia)
  end.
Ltac rem_facts :=
  repeat match goal with
         | |- context [Z.rem ?a ?b] => pose_rem a b
         | _ : context [Z.rem ?a ?b] |- _ => pose_rem a b
         end.

(* side conditions: lengths, remainders, linear arithmetic *)
Ltac side :=
  unfold go_len in *; autorewrite with tie_len in *; rem_facts; unfold rem_fact in *; lia.

(* normal form of the list expressions the slice lemmas produce *)
Ltac list_norm :=
  repeat first
    [ rewrite Z.sub_0_r
    | rewrite Z2Nat.inj_0
    | rewrite skipn_O
    | rewrite firstn_O
    | rewrite app_nil_r
    | rewrite app_nil_l
    | match goal with |- context [go_copy ?d ?s] => rewrite (go_copy_ok d s) by side end
    | match goal with |- context [firstn ?n (?a ++ ?b)] =>
        rewrite (firstn_app_exact a b n) by side end
    | match goal with |- context [@firstn ?A ?n ?l] => rewrite (@firstn_all2 A n l) by side end
    | match goal with |- context [@skipn ?A ?n ?l] => rewrite (@skipn_all2 A n l) by side end ].

(* one step of symbolic execution of the monadic code; [d] is the default of [nth] *)
Ltac step d :=
  first
    [ match goal with |- context [call_ext ?e ?n ?a ?w] => rewrite (call_ext_eq e n a w) end
    | match goal with |- context [go_rem ?a ?b] => rewrite (go_rem_ok a b) by side end
    | match goal with |- context [@go_index ?A ?l ?i] => rewrite (@go_index_ok A l i d) by side end
    | match goal with |- context [go_slice ?l ?lo ?hi] =>
        first [ rewrite (go_slice_ok l lo hi) by side | rewrite (go_slice_none l lo hi) by side ] end
    | match goal with |- context [go_copy_at ?x ?lo ?hi ?s] =>
        rewrite (go_copy_at_ok x lo hi s) by side end
    | match goal with |- context [if ?c then _ else _] => destruct c eqn:? end ];
  fl_cbn.

(* closes a leaf: an equation between outcomes / rings / lists, or arithmetic.  ([fl_cbn]
   comes after [first], so it sees the instantiation made by the preceding leaf.) *)
Ltac leaf :=
  first [ reflexivity
        | solve [fl_cbn; side]
        | apply Ok_eq; leaf
        | progress fl_cbn; leaf
        | progress list_norm; leaf
        | progress f_equal; leaf
        | solve [exfalso; side] ].

Ltac tie_start :=
  intros;
  repeat match goal with x := _ |- _ => subst x end;
  repeat autounfold with tie in *;
  repeat match goal with
         | H : _ /\ _ |- _ => destruct H
         | H : Ok _ _ = Ok _ _ |- _ => inversion H; clear H; subst
         end;
  fl_cbn.

(* a callee already tied to the model returned [a] with [same_ring a b]: identify the rings *)
Ltac same_ring_subst :=
  repeat match goal with
         | H : same_ring _ _ |- _ => destruct H
         | H : ring_of ?a = ring_of ?b |- _ =>
             destruct a, b; unfold ring_of in H; fl_cbn; injection H; clear H; intros; subst
         end.

Ltac tie_finish :=
  repeat match goal with
         | |- exists _, _ => eexists
         | |- _ /\ _ => split
         end;
  leaf.

Ltac tie d := tie_start; repeat step d; tie_finish.

Section Tie.
  Context {W : Type} (ext : string -> list arg -> W -> Z * W).

  Definition after_ext (name : string) (args : list arg) (w : W) : W := snd (ext name args w).
  #[local] Hint Unfold after_ext : tie.

  Lemma tie_Reset fl w :
    exists fl', FrameLoop_Reset ext fl w = Ok (fl', tt) w /\
                ring_of fl' = reset (ring_of fl) /\
                FrameLoop_orderedFrames fl' = FrameLoop_orderedFrames fl.
  Proof. tie 0. Qed.

  Lemma tie_nextIndexAfter fl i w :
    fl_wf fl ->
    FrameLoop_nextIndexAfter ext fl i w = Ok (fl, next_index_after (ring_of fl) i) w.
  Proof. tie 0. Qed.

  Lemma tie_Current fl w d :
    fl_wf fl ->
    FrameLoop_Current ext fl w = Ok (fl, current d (ring_of fl)) w.
  Proof. tie d. Qed.

  (* Move: the whole body runs between Lock and Unlock of the loop's mutex *)
  Lemma tie_Move fl w d :
    fl_wf fl ->
    exists fl', FrameLoop_Move ext fl w =
                  Ok (fl', current d (ring_of fl'))
                     (after_ext "FrameLoop.mu.Unlock" [] (after_ext "FrameLoop.mu.Lock" [] w)) /\
                ring_of fl' = move (ring_of fl) /\
                FrameLoop_orderedFrames fl' = FrameLoop_orderedFrames fl /\
                fl_wf fl'.
  Proof. tie d. Qed.

  Lemma tie_SetAsOldest fl w d :
    fl_wf fl ->
    exists fl', FrameLoop_SetAsOldest ext fl w = Ok (fl', current d (ring_of fl')) w /\
                ring_of fl' = set_as_oldest (ring_of fl) /\
                FrameLoop_orderedFrames fl' = FrameLoop_orderedFrames fl /\
                fl_wf fl'.
  Proof. tie d. Qed.

  Lemma tie_Oldest fl w d :
    fl_wf fl ->
    FrameLoop_Oldest ext fl w = Ok (fl, oldest_slot d (ring_of fl)) w.
  Proof. tie d. Qed.

  Lemma tie_getFullHistory fl w :
    fl_wf fl ->
    exists fl', FrameLoop_getFullHistory ext fl w = Ok (fl', get_full_history (ring_of fl)) w /\
                same_ring fl' fl /\ fl_wf fl'.
  Proof. tie 0. Qed.

  (* GetHistory: the same list of slots as the model, and a panic exactly where the model
     says the Go slice expression is out of range *)
  Lemma tie_GetHistory fl w :
    fl_wf fl ->
    match get_history (ring_of fl) with
    | Some h => exists fl', FrameLoop_GetHistory ext fl w = Ok (fl', h) w /\ same_ring fl' fl /\ fl_wf fl'
    | None => FrameLoop_GetHistory ext fl w = Panicked w
    end.
  Proof.
    (* the callee getFullHistory is used through its own tie lemma, its result kept abstract *)
    intros Hwf. destruct (tie_getFullHistory fl w Hwf) as (fl1 & E & S & Wf1).
    unfold FrameLoop_GetHistory, bind, get_history. rewrite E; clear E. cbv zeta.
    generalize (get_full_history (ring_of fl)); intros fh.
    same_ring_subst. tie 0.
  Qed.

  (* CopyRecent: Lock; copy of the slot before the current one; Unlock - in this order *)
  Lemma tie_CopyRecent fl w d :
    fl_wf fl ->
    let w1 := after_ext "FrameLoop.mu.Lock" [] w in
    let rw := ext "Frame.CreateCopy" [AFrame (recent d (ring_of fl))] w1 in
    FrameLoop_CopyRecent ext fl w =
      Ok (fl, fst rw) (after_ext "FrameLoop.mu.Unlock" [] (snd rw)).
  Proof. tie d. Qed.

  Lemma Reset_wf fl w fl' r w' :
    fl_wf fl -> FrameLoop_Reset ext fl w = Ok (fl', r) w' -> fl_wf fl'.
  Proof. tie 0. Qed.

End Tie.

(* every method of the Go type has a translation (the list is generated with the file) *)
Lemma all_methods_translated : untranslated_FrameLoop = [].
Proof. reflexivity. Qed.

(* non-vacuity: a wrapped 3-slot loop with a mark *)
Example fl_wf_example :
  fl_wf (mkFrameLoop 3 1 [0; 1; 2] [0; 0; 0] true 2).
Proof. unfold fl_wf; cbn; lia. Qed.
