(* Source tie for the D-Bus request path: newSnapshot / newSnapshotRecording (cmd/thermal-recorder/snapshot.go)
   and the service methods TakeSnapshot / TakeTestRecording / CameraInfo (cmd/thermal-recorder/service.go).

   coq/translated/Snapshot.v is regenerated from the Go source on every run (translate/request.go);
   model/SnapExt.v gives the calls that leave it their meaning over a world with a clock script, the package
   variables previousSnapshotTime / processor / headerInfo, Status.FrameCount by frame handle, a table of the
   values made on the way and a LOG of every mutex operation and every access to that state, in order.

   Every theorem is for EVERY state of that world (no side condition anywhere: the code is loop-free, the
   handler total) and has the form  translated function = hand-written description:
     tie_newSnapshot            result, final world and added log of newSnapshot, by the five cases of [snap_case];
     snap_case_*                when each case applies - quiet period, no processor, "no new frames yet" iff
                                0 <= lastFrame and lastFrame mod 2^32 = CurrentFrame (the uint32 conversion), nil
                                frame, frame - and what is returned in it (snap_result);
     snap_quiet_never           FINDING: no translated function ever writes previousSnapshotTime (nothing in the
                                repository does); it keeps Go's zero time, time.Since of it saturates, and the
                                500 ms quiet period never applies at any clock reading >= 500 ms after 0001-01-01;
     tie_newSnapshotRecording   error iff no processor; else StartSnapshot is written exactly once, with true;
     tie_TakeSnapshot / tie_TakeTestRecording / tie_CameraInfo   the service methods, with the dbus.Error
                                (name, body) they build decoded;
     *_disciplined              locking: what each of newSnapshot, newSnapshotRecording, TakeSnapshot,
                                TakeTestRecording adds to the log is  Lock :: accesses ++ [Unlock]  with no other
                                mutex operation and no nil dereference in between, on every path;
     CameraInfo_takes_no_lock   CameraInfo reads headerInfo with no lock at all (the known race on headerInfo).
   No axioms. *)
From Coq Require Import String List ZArith Bool Arith Lia.
From TR Require Import model.GoSem translated.Snapshot model.SnapExt.
From TR Require Import model.Ring translated.FrameLoop translated.MotionProcessor proofs.TieRing.
From TR Require Extracted.
Import ListNotations.
Open Scope Z_scope.

(* ---------- what is translated ---------- *)
Lemma snapshot_untranslated : untranslated_Snapshot = ["Snapshot_fn_snapshotRecordingTriggers"%string].
Proof. reflexivity. Qed.

(* every name under which the unit leaves the translation has a clause in the handler *)
Lemma snapshot_ext_names_known : ext_names_Snapshot = sext_names.
Proof. reflexivity. Qed.

(* previousSnapshotTime and previousSnapshotID are never assigned by the translated code, processor and headerInfo never replaced *)
Lemma snapshot_never_sets_globals :
  forallb (fun n => negb (String.eqb n "set:previousSnapshotTime") && negb (String.eqb n "set:previousSnapshotID")
                    && negb (String.eqb n "set:processor") && negb (String.eqb n "set:headerInfo"))
          ext_names_Snapshot = true.
Proof. vm_compute. reflexivity. Qed.

(* the keys of the CameraInfo map are the keys ReadHeaderInfo reads (coq/Extracted.v, from headers/headerinfo.go) *)
Lemma camera_keys_are_header_keys :
  forallb (fun k => existsb (String.eqb k) Extracted.header_keys_read)
          [KEY_XRES; KEY_YRES; KEY_FRAMESIZE; KEY_MODEL; KEY_BRAND; KEY_FPS; KEY_SERIAL; KEY_FIRMWARE] = true.
Proof. vm_compute. reflexivity. Qed.

(* ---------- the description of newSnapshot ---------- *)
Definition QUIET_NS : Z := 500000000.    (* allowedSnapshotPeriod = 500 * time.Millisecond *)

Definition MSG_NOT_STARTED : string := "reading from camera has not started yet".
Definition MSG_NO_NEW : string := "no new frames yet".
Definition MSG_NO_FRAMES : string := "no frames yet".

Inductive snap_res :=
| SQuiet                       (* inside the quiet period: (nil, nil) *)
| SNotStarted                  (* processor == nil *)
| SNoNew                       (* lastFrame >= 0 && uint32(lastFrame) == CurrentFrame *)
| SNoFrames                    (* GetRecentFrame returned a nil frame *)
| SFrame (h : Z) (count : Z).  (* the frame h, whose FrameCount is count afterwards *)

Definition now_of (w : sworld) : Z := hd 0 (sw_clock w).
Definition since_prev (w : sworld) : Z := go_time_sub (now_of w) (sw_prev w).

Definition snap_case (lastFrame : Z) (w : sworld) : snap_res :=
  if since_prev w <? QUIET_NS then SQuiet
  else match sw_proc w with
       | None => SNotStarted
       | Some p =>
         if (lastFrame >=? 0) && (wrap_u 32 lastFrame =? cur32 p) then SNoNew
         else if po_recent p =? NIL_FRAME then SNoFrames
         else SFrame (po_recent p)
                     (if fc_get (sw_fc w) (po_recent p) =? 0 then cur32 p else fc_get (sw_fc w) (po_recent p))
       end.

(* the error made in a case *)
Definition snap_msg (r : snap_res) : option string :=
  match r with
  | SNotStarted => Some MSG_NOT_STARTED
  | SNoNew => Some MSG_NO_NEW
  | SNoFrames => Some MSG_NO_FRAMES
  | _ => None
  end.

(* (frame, error) *)
Definition snap_ret (lastFrame : Z) (w : sworld) : Z * Z :=
  match snap_case lastFrame w with
  | SQuiet => (NIL_FRAME, 0)
  | SFrame h _ => (h, 0)
  | _ => (NIL_FRAME, svnext w)      (* the error just made: a fresh token, never 0 *)
  end.

Definition snap_vals (lastFrame : Z) (w : sworld) : list sval :=
  match snap_msg (snap_case lastFrame w) with Some m => [VErr m] | None => [] end.

(* the first, short-circuited read of CurrentFrame happens only when lastFrame >= 0 *)
Definition cmp_read (lastFrame : Z) : list sev := if lastFrame >=? 0 then [ERead SCurrentFrame] else [].

Definition snap_log (lastFrame : Z) (w : sworld) : list sev :=
  let pre := [ELock; ERead SPrevTime; EClock (now_of w)] in
  match snap_case lastFrame w with
  | SQuiet => pre ++ [EUnlock]
  | SNotStarted => pre ++ [ERead SProcessor; EUnlock]
  | SNoNew => pre ++ [ERead SProcessor; ERead SCurrentFrame; EUnlock]
  | SNoFrames => pre ++ [ERead SProcessor] ++ cmp_read lastFrame ++ [ERead SCurrentFrame; ERead SRecentFrame; EUnlock]
  | SFrame h c =>
    pre ++ [ERead SProcessor] ++ cmp_read lastFrame ++ [ERead SCurrentFrame; ERead SRecentFrame; EFrameRead h]
        ++ (if fc_get (sw_fc w) h =? 0 then [EFrameWrite h c] else []) ++ [EUnlock]
  end.

Definition snap_fc (lastFrame : Z) (w : sworld) : list (Z * Z) :=
  match snap_case lastFrame w with
  | SFrame h c => if fc_get (sw_fc w) h =? 0 then (h, c) :: sw_fc w else sw_fc w
  | _ => sw_fc w
  end.

Definition snap_pending (lastFrame : Z) (w : sworld) : Z :=
  match snap_case lastFrame w with
  | SNoFrames => NIL_FRAME
  | SFrame h _ => h
  | _ => sw_pending w
  end.

(* previousSnapshotTime, processor and headerInfo are what they were *)
Definition snap_world (lastFrame : Z) (w : sworld) : sworld :=
  mkSW (tl (sw_clock w)) (sw_prev w) (sw_proc w) (sw_hdr w) (snap_fc lastFrame w)
       (sw_vals w ++ snap_vals lastFrame w) (snap_pending lastFrame w) (sw_log w ++ snap_log lastFrame w).

(* ---------- proof machinery ---------- *)
Lemma wrap_wrap : forall b x, wrap_u b (wrap_u b x) = wrap_u b x.
Proof.
  intros b x. unfold wrap_u. destruct (Z.eq_dec (2 ^ b) 0) as [E|E].
  - rewrite E. rewrite !Zmod_0_r. reflexivity.
  - apply Z.mod_mod. exact E.
Qed.

Lemma wrap_cur32 : forall p, wrap_u 32 (cur32 p) = cur32 p.
Proof. intros; unfold cur32; apply wrap_wrap. Qed.

Lemma app1 : forall A (l : list A) a m, (l ++ [a]) ++ m = l ++ a :: m.
Proof. intros. rewrite <- app_assoc. reflexivity. Qed.

Ltac sunfold :=
  cbv beta iota zeta delta [bind ret call_ext sext String.eqb Ascii.eqb Bool.eqb
      do_since do_errors_new do_error_text do_list_lit do_map_lit do_dbus_lit do_read_cur do_recent do_set_start
      do_fc_read do_fc_write do_hdr_int do_hdr_str do_key do_println ints_of pairs_of
      slog sset_clock sset_proc sset_fc sset_pending salloc svnext svget
      sw_clock sw_prev sw_proc sw_hdr sw_fc sw_vals sw_pending sw_log fst snd andb negb].

Ltac lognorm := repeat rewrite <- app_assoc; rewrite ?app_nil_r; cbn [app].

Lemma svnext_pos : forall w, 0 < svnext w.
Proof. intros; unfold svnext; lia. Qed.
Lemma svnext_nz : forall w, (svnext w =? 0) = false.
Proof. intros; apply Z.eqb_neq; pose proof (svnext_pos w); lia. Qed.

(* ---------- newSnapshot ---------- *)
Theorem tie_newSnapshot : forall lastFrame w,
  src_newSnapshot lastFrame w = Ok (snap_ret lastFrame w) (snap_world lastFrame w).
Proof.
  intros lf [clock prev proc hdr fc vals pending log].
  unfold src_newSnapshot, Snapshot_fn_newSnapshot, snap_ret, snap_world, snap_log, snap_fc, snap_vals, snap_pending, snap_case,
    since_prev, now_of, QUIET_NS, cmp_read, NIL_FRAME.
  sunfold.
  destruct (go_time_sub (hd 0 clock) prev <? 500000000); sunfold; cbn [snap_msg].
  { lognorm. reflexivity. }
  destruct proc as [p|]; sunfold; cbn [snap_msg].
  2:{ change (0 =? 0) with true. sunfold. lognorm. reflexivity. }
  change (PROC_TOK =? 0) with false. sunfold.
  destruct (lf >=? 0); sunfold.
  - destruct (wrap_u 32 lf =? cur32 p); sunfold; cbn [snap_msg andb].
    { lognorm. reflexivity. }
    destruct (po_recent p =? -1) eqn:R; sunfold; cbn [snap_msg].
    { apply Z.eqb_eq in R. rewrite R. lognorm. reflexivity. }
    destruct (fc_get fc (po_recent p) =? 0); sunfold; rewrite ?wrap_cur32; lognorm; reflexivity.
  - cbn [andb].
    destruct (po_recent p =? -1) eqn:R; sunfold; cbn [snap_msg].
    { apply Z.eqb_eq in R. rewrite R. lognorm. reflexivity. }
    destruct (fc_get fc (po_recent p) =? 0); sunfold; rewrite ?wrap_cur32; lognorm; reflexivity.
Qed.

(* ---------- when each case applies ---------- *)
Lemma snap_case_quiet : forall lf w, snap_case lf w = SQuiet <-> since_prev w < QUIET_NS.
Proof.
  intros lf w. unfold snap_case. destruct (Z.ltb_spec (since_prev w) QUIET_NS).
  - split; [intros _; assumption | reflexivity].
  - split; [|lia]. destruct (sw_proc w) as [p|]; [|discriminate].
    destruct ((lf >=? 0) && (wrap_u 32 lf =? cur32 p)); [discriminate|].
    destruct (po_recent p =? NIL_FRAME); discriminate.
Qed.

Lemma snap_case_not_started : forall lf w,
  snap_case lf w = SNotStarted <-> QUIET_NS <= since_prev w /\ sw_proc w = None.
Proof.
  intros lf w. unfold snap_case. destruct (Z.ltb_spec (since_prev w) QUIET_NS).
  - split; [discriminate | lia].
  - destruct (sw_proc w) as [p|].
    + split; [|intros [_ E]; discriminate].
      destruct ((lf >=? 0) && (wrap_u 32 lf =? cur32 p)); [discriminate|].
      destruct (po_recent p =? NIL_FRAME); discriminate.
    + split; auto.
Qed.

(* "no new frames yet": exactly when lastFrame is not negative and its low 32 bits are CurrentFrame.
   lastFrame is a Go int (64 bits on the target): lastFrame = CurrentFrame + k * 2^32 also answers "no new
   frames yet" - the conversion uint32(lastFrame) drops the high bits *)
Lemma snap_case_no_new : forall lf w,
  snap_case lf w = SNoNew <->
  QUIET_NS <= since_prev w /\ exists p, sw_proc w = Some p /\ 0 <= lf /\ lf mod 2 ^ 32 = po_cur p mod 2 ^ 32.
Proof.
  intros lf w. unfold snap_case. destruct (Z.ltb_spec (since_prev w) QUIET_NS).
  - split; [discriminate | lia].
  - destruct (sw_proc w) as [p|].
    + unfold cur32, wrap_u.
      destruct (Z.geb_spec lf 0); cbn [andb].
      * destruct (Z.eqb_spec (lf mod 2 ^ 32) (po_cur p mod 2 ^ 32)).
        -- split; [intros _; split; [assumption|]; exists p; repeat split; [lia|assumption] | reflexivity].
        -- split.
           ++ destruct (po_recent p =? NIL_FRAME); discriminate.
           ++ intros [_ [p' [E [_ M]]]]. inversion E; subst. contradiction.
      * split.
        -- destruct (po_recent p =? NIL_FRAME); discriminate.
        -- intros [_ [p' [_ [G _]]]]. lia.
    + split; [discriminate|]. intros [_ [p [E _]]]. discriminate.
Qed.

Lemma snap_case_no_frames : forall lf w,
  snap_case lf w = SNoFrames <->
  QUIET_NS <= since_prev w /\ exists p, sw_proc w = Some p /\ ~ (0 <= lf /\ lf mod 2 ^ 32 = po_cur p mod 2 ^ 32) /\
                                   po_recent p = NIL_FRAME.
Proof.
  intros lf w. unfold snap_case. destruct (Z.ltb_spec (since_prev w) QUIET_NS).
  - split; [discriminate | lia].
  - destruct (sw_proc w) as [p|].
    + unfold cur32, wrap_u.
      destruct (Z.geb_spec lf 0); cbn [andb].
      * destruct (Z.eqb_spec (lf mod 2 ^ 32) (po_cur p mod 2 ^ 32)).
        -- split; [discriminate|]. intros [_ [p' [E [N _]]]]. inversion E; subst. exfalso; apply N; split; [lia|assumption].
        -- destruct (Z.eqb_spec (po_recent p) NIL_FRAME).
           ++ split; [intros _; split; [assumption|]; exists p; repeat split; [tauto|assumption] | reflexivity].
           ++ split; [discriminate|]. intros [_ [p' [E [_ R]]]]. inversion E; subst. contradiction.
      * destruct (Z.eqb_spec (po_recent p) NIL_FRAME).
        -- split; [intros _; split; [assumption|]; exists p; repeat split; [lia|assumption] | reflexivity].
        -- split; [discriminate|]. intros [_ [p' [E [_ R]]]]. inversion E; subst. contradiction.
    + split; [discriminate|]. intros [_ [p [E _]]]. discriminate.
Qed.

(* otherwise: the processor's recent frame, FrameCount filled in with CurrentFrame only if it was 0 *)
Lemma snap_case_frame : forall lf w h c,
  snap_case lf w = SFrame h c <->
  QUIET_NS <= since_prev w /\ exists p, sw_proc w = Some p /\ ~ (0 <= lf /\ lf mod 2 ^ 32 = po_cur p mod 2 ^ 32) /\
     h = po_recent p /\ h <> NIL_FRAME /\
     c = (if fc_get (sw_fc w) h =? 0 then po_cur p mod 2 ^ 32 else fc_get (sw_fc w) h).
Proof.
  intros lf w h c. unfold snap_case. destruct (Z.ltb_spec (since_prev w) QUIET_NS).
  - split; [discriminate | lia].
  - destruct (sw_proc w) as [p|].
    + unfold cur32, wrap_u.
      destruct (Z.geb_spec lf 0); cbn [andb].
      * destruct (Z.eqb_spec (lf mod 2 ^ 32) (po_cur p mod 2 ^ 32)).
        -- split; [discriminate|]. intros [_ [p' [E [N _]]]]. inversion E; subst. exfalso; apply N; split; [lia|assumption].
        -- destruct (Z.eqb_spec (po_recent p) NIL_FRAME).
           ++ split; [discriminate|]. intros [_ [p' [E [_ [H1 [H2 _]]]]]]. inversion E; subst. contradiction.
           ++ split.
              ** intros E; inversion E; subst. split; [assumption|]. exists p. repeat split; auto. tauto.
              ** intros [_ [p' [E [_ [H1 [H2 H3]]]]]]. inversion E; subst. reflexivity.
      * destruct (Z.eqb_spec (po_recent p) NIL_FRAME).
        -- split; [discriminate|]. intros [_ [p' [E [_ [H1 [H2 _]]]]]]. inversion E; subst. contradiction.
        -- split.
           ++ intros E; inversion E; subst. split; [assumption|]. exists p. repeat split; auto. lia.
           ++ intros [_ [p' [E [_ [H1 [H2 H3]]]]]]. inversion E; subst. reflexivity.
    + split; [discriminate|]. intros [_ [p [E _]]]. discriminate.
Qed.

(* ---------- what is returned in each case ---------- *)
Lemma svget_new : forall w vals l k,
  sw_vals w = vals ++ l -> (k < List.length l)%nat ->
  svget w (Z.of_nat (List.length vals) + 1 + Z.of_nat k) = nth k l VBad.
Proof.
  intros w vals l k E K. unfold svget. rewrite E.
  destruct (Z.leb_spec (Z.of_nat (List.length vals) + 1 + Z.of_nat k) 0); [lia|].
  replace (Z.to_nat (Z.of_nat (List.length vals) + 1 + Z.of_nat k - 1)) with (List.length vals + k)%nat by lia.
  rewrite app_nth2 by lia. f_equal. lia.
Qed.

Lemma svget_new0 : forall w vals l,
  sw_vals w = vals ++ l -> (0 < List.length l)%nat ->
  svget w (Z.of_nat (List.length vals) + 1) = nth 0 l VBad.
Proof. intros w vals l E K. pose proof (svget_new w vals l 0 E K) as H. rewrite Z.add_0_r in H. exact H. Qed.

Lemma fc_get_cons : forall l h c h', fc_get ((h, c) :: l) h' = if h =? h' then c else fc_get l h'.
Proof. reflexivity. Qed.

(* the result of newSnapshot, case by case, read off the final world:
   (nil, nil) exactly in the quiet period; (nil, error with the message of the case); (frame, nil) with the
   frame's count as described and every other frame's count untouched *)
Theorem snap_result : forall lf w,
  let r := snap_ret lf w in let w' := snap_world lf w in
  match snap_case lf w with
  | SQuiet => r = (NIL_FRAME, 0)
  | SFrame h c => r = (h, 0) /\ h <> NIL_FRAME /\ fc_get (sw_fc w') h = c /\
                  (forall h', h' <> h -> fc_get (sw_fc w') h' = fc_get (sw_fc w) h')
  | other => fst r = NIL_FRAME /\ snd r <> 0 /\ err_msg w' (snd r) = snap_msg other
  end.
Proof.
  intros lf w r w'.
  assert (E : forall m, snap_msg (snap_case lf w) = Some m ->
                fst (NIL_FRAME, svnext w) = NIL_FRAME /\ snd (NIL_FRAME, svnext w) <> 0 /\
                err_msg w' (snd (NIL_FRAME, svnext w)) = Some m).
  { intros m Hm. cbn [fst snd]. split; [reflexivity|]. split; [pose proof (svnext_pos w); lia|].
    unfold err_msg, svnext. erewrite (svget_new0 w' (sw_vals w) [VErr m]).
    - reflexivity.
    - unfold w', snap_world, snap_vals. cbn [sw_vals]. rewrite Hm. reflexivity.
    - cbn; lia. }
  subst r. unfold snap_ret.
  destruct (snap_case lf w) as [| | | |h c] eqn:C; cbn [snap_msg] in *; try (apply E; reflexivity).
  - reflexivity.
  - split; [reflexivity|]. pose proof C as C0. apply snap_case_frame in C. destruct C as [_ [p [_ [_ [Hh [Hn Hc]]]]]].
    split; [assumption|]. unfold w', snap_world, snap_fc. cbn [sw_fc]. rewrite C0.
    destruct (Z.eqb_spec (fc_get (sw_fc w) h) 0) as [Z0|Z0].
    + split.
      * rewrite fc_get_cons, Z.eqb_refl. reflexivity.
      * intros h' Hh'. rewrite fc_get_cons. destruct (Z.eqb_spec h h'); [congruence|reflexivity].
    + split; [symmetry; assumption|reflexivity].
Qed.

(* (nil, nil) is returned in the quiet period and only then *)
Corollary snap_nil_nil_iff : forall lf w, snap_ret lf w = (NIL_FRAME, 0) <-> since_prev w < QUIET_NS.
Proof.
  intros lf w. rewrite <- (snap_case_quiet lf w). pose proof (snap_result lf w) as R. cbv zeta in R.
  assert (X : forall P : Prop, snd (snap_ret lf w) <> 0 -> (snap_ret lf w = (NIL_FRAME, 0) <-> P) \/ ~ P -> ~ P ->
                (snap_ret lf w = (NIL_FRAME, 0) <-> P)).
  { intros P N _ NP. split; [intros E; rewrite E in N; contradiction N; reflexivity | intros HP; contradiction]. }
  destruct (snap_case lf w) as [| | | |h c].
  - split; auto.
  - destruct R as [_ [N _]]. apply X; [exact N | right; discriminate | discriminate].
  - destruct R as [_ [N _]]. apply X; [exact N | right; discriminate | discriminate].
  - destruct R as [_ [N _]]. apply X; [exact N | right; discriminate | discriminate].
  - destruct R as [E [N _]]. split; [|discriminate]. intros E2. rewrite E2 in E. inversion E; subst. contradiction.
Qed.

(* ---------- FINDING: the quiet period can never apply ----------
   previousSnapshotTime is read by newSnapshot and written by nothing (snapshot_never_sets_globals for the
   translated unit; no other file of the repository mentions it): every entry point leaves it as it is.  It
   therefore holds Go's zero time for ever, time.Since of the zero time saturates at the largest Duration
   (about 292 years) for every clock reading of this era, and `< allowedSnapshotPeriod` is false: requests are
   never rate-limited, whatever their frequency.  (A time.Time is counted from 0001-01-01 here; any reading
   >= 500 ms will do.) *)
Theorem snap_prev_unchanged : forall lf w, sw_prev (snap_world lf w) = sw_prev w.
Proof. reflexivity. Qed.

Theorem snap_quiet_never : forall lf w,
  sw_prev w = 0 -> QUIET_NS <= now_of w -> snap_case lf w <> SQuiet.
Proof.
  intros lf w P N C. apply snap_case_quiet in C. unfold since_prev, go_time_sub in C.
  rewrite P, Z.sub_0_r in C. rewrite Z.gtb_ltb in C.
  destruct (Z.ltb_spec MAX_DUR (now_of w)) as [G|G].
  - unfold MAX_DUR, QUIET_NS in C. lia.
  - destruct (Z.ltb_spec (now_of w) MIN_DUR) as [L|L].
    + unfold MIN_DUR, QUIET_NS in *. lia.
    + unfold QUIET_NS in *. lia.
Qed.

(* ---------- locking ---------- *)
Lemma disciplined_intro : forall m,
  forallb (fun e => negb (is_lock e) && negb (is_nilderef e)) m = true -> disciplined (ELock :: m ++ [EUnlock]) = true.
Proof. intros m H. unfold disciplined. rewrite rev_app_distr. cbn [rev app]. rewrite forallb_forall in *. intros e He. apply H. apply in_rev. exact He. Qed.

Theorem snap_disciplined : forall lf w, disciplined (snap_log lf w) = true.
Proof.
  intros lf w. unfold snap_log, cmp_read.
  destruct (snap_case lf w) as [| | | |h c]; cbn [app].
  - apply (disciplined_intro [_; _]). reflexivity.
  - apply (disciplined_intro [_; _; _]). reflexivity.
  - apply (disciplined_intro [_; _; _; _]). reflexivity.
  - destruct (lf >=? 0); cbn [app]; [apply (disciplined_intro [_; _; _; _; _; _])|apply (disciplined_intro [_; _; _; _; _])]; reflexivity.
  - destruct (lf >=? 0), (fc_get (sw_fc w) h =? 0); cbn [app].
    + apply (disciplined_intro [_; _; _; _; _; _; _; _]); reflexivity.
    + apply (disciplined_intro [_; _; _; _; _; _; _]); reflexivity.
    + apply (disciplined_intro [_; _; _; _; _; _; _]); reflexivity.
    + apply (disciplined_intro [_; _; _; _; _; _]); reflexivity.
Qed.

Lemma log_since_app : forall w w' l, sw_log w' = sw_log w ++ l -> log_since w w' = l.
Proof.
  intros w w' l E. unfold log_since. rewrite E.
  rewrite skipn_app, skipn_all, Nat.sub_diag. reflexivity.
Qed.

(* on every path - early returns included - newSnapshot takes the mutex once, before it touches anything,
   and releases it once, last *)
Theorem newSnapshot_locked : forall lf w,
  exists r w', src_newSnapshot lf w = Ok r w' /\ disciplined (log_since w w') = true.
Proof.
  intros lf w. exists (snap_ret lf w), (snap_world lf w). split; [apply tie_newSnapshot|].
  rewrite (log_since_app w (snap_world lf w) (snap_log lf w)) by reflexivity. apply snap_disciplined.
Qed.

(* ---------- newSnapshotRecording ---------- *)
Definition MSG_NO_PROCESSOR : string := "no motion processor so can't make snapshot".

Definition rec_ret (w : sworld) : Z := match sw_proc w with None => svnext w | Some _ => 0 end.
Definition rec_log (w : sworld) : list sev :=
  match sw_proc w with
  | None => [ELock; ERead SProcessor; ELogLine MSG_NO_PROCESSOR; EUnlock]
  | Some _ => [ELock; ERead SProcessor; EWrite SStartSnapshot; EUnlock]
  end.
Definition rec_world (w : sworld) : sworld :=
  mkSW (sw_clock w) (sw_prev w)
       (match sw_proc w with Some p => Some (mkProc (po_cur p) (po_recent p) true) | None => None end)
       (sw_hdr w) (sw_fc w)
       (sw_vals w ++ match sw_proc w with None => [VErr MSG_NOT_STARTED] | Some _ => [] end)
       (sw_pending w) (sw_log w ++ rec_log w).

Theorem tie_newSnapshotRecording : forall w,
  src_newSnapshotRecording w = Ok (rec_ret w) (rec_world w).
Proof.
  intros [clock prev proc hdr fc vals pending log].
  unfold src_newSnapshotRecording, Snapshot_fn_newSnapshotRecording, rec_ret, rec_world, rec_log.
  sunfold. destruct proc as [p|]; sunfold.
  - change (PROC_TOK =? 0) with false. sunfold. lognorm. reflexivity.
  - change (0 =? 0) with true. sunfold. lognorm. reflexivity.
Qed.

(* an error iff there is no processor (its message: "reading from camera has not started yet"); otherwise nil,
   and StartSnapshot has been written exactly once, with true; CurrentFrame and the recent frame untouched *)
Theorem rec_error_iff : forall w, rec_ret w <> 0 <-> sw_proc w = None.
Proof.
  intros w. unfold rec_ret. destruct (sw_proc w).
  - split; [intros H; contradiction H; reflexivity|discriminate].
  - split; [reflexivity|]. intros _. pose proof (svnext_pos w). lia.
Qed.

Theorem rec_error_message : forall w, sw_proc w = None -> err_msg (rec_world w) (rec_ret w) = Some MSG_NOT_STARTED.
Proof.
  intros w E. unfold err_msg, rec_ret. rewrite E. unfold svnext.
  erewrite (svget_new0 (rec_world w) (sw_vals w) [VErr MSG_NOT_STARTED]).
  - reflexivity.
  - unfold rec_world. cbn [sw_vals]. rewrite E. reflexivity.
  - cbn; lia.
Qed.

Theorem rec_sets_flag_once : forall w p,
  sw_proc w = Some p ->
  rec_ret w = 0 /\
  sw_proc (rec_world w) = Some (mkProc (po_cur p) (po_recent p) true) /\
  List.length (filter (fun e => match e with EWrite SStartSnapshot => true | _ => false end) (rec_log w)) = 1%nat /\
  filter (fun e => match e with EWrite _ => true | _ => false end) (rec_log w) = [EWrite SStartSnapshot].
Proof. intros w p E. unfold rec_ret, rec_world, rec_log. cbn [sw_proc]. rewrite E. repeat split. Qed.

Theorem rec_no_flag_without_processor : forall w,
  sw_proc w = None -> sw_proc (rec_world w) = None /\ filter is_shared (rec_log w) = [ERead SProcessor].
Proof. intros w E. unfold rec_world, rec_log. cbn [sw_proc]. rewrite E. split; reflexivity. Qed.

Theorem rec_disciplined : forall w, disciplined (rec_log w) = true.
Proof. intros w. unfold rec_log. destruct (sw_proc w); reflexivity. Qed.

Theorem newSnapshotRecording_locked : forall w,
  exists r w', src_newSnapshotRecording w = Ok r w' /\ disciplined (log_since w w') = true.
Proof.
  intros w. exists (rec_ret w), (rec_world w). split; [apply tie_newSnapshotRecording|].
  rewrite (log_since_app w (rec_world w) (rec_log w)) by reflexivity. apply rec_disciplined.
Qed.

(* ---------- the service methods ---------- *)
Definition DBUS_NAME : string := "org.cacophony.thermalrecorder".

(* &dbus.Error{Name: name, Body: []interface{}{err.Error()}} for an error with message m: three values made in
   this order - the message, the one-element list holding it, the error object *)
Definition dbus_wrap (name m : string) (w : sworld) : Z * sworld :=
  let w2 := salloc w (VStr m) in
  let w3 := salloc w2 (VList [svnext w]) in
  (svnext w3, salloc w3 (VDbusErr name (svnext w2))).

Lemma svget_at : forall w pre v post t,
  sw_vals w = pre ++ v :: post -> t = Z.of_nat (List.length pre) + 1 -> svget w t = v.
Proof.
  intros w pre v post t E T. unfold svget. rewrite E, T.
  destruct (Z.leb_spec (Z.of_nat (List.length pre) + 1) 0); [lia|].
  replace (Z.to_nat (Z.of_nat (List.length pre) + 1 - 1)) with (List.length pre) by lia.
  rewrite app_nth2 by lia. rewrite Nat.sub_diag. reflexivity.
Qed.

Lemma svget_old : forall w w' l t,
  sw_vals w' = sw_vals w ++ l -> t < svnext w -> svget w' t = svget w t.
Proof.
  intros w w' l t E T. unfold svget, svnext in *. rewrite E.
  destruct (Z.leb_spec t 0); [reflexivity|]. apply app_nth1. lia.
Qed.

Lemma dbus_of_intro : forall w t name b items ss,
  svget w t = VDbusErr name b -> 0 < b -> svget w b = VList items -> strs_of w items = Some ss ->
  dbus_of w t = Some (name, Some ss).
Proof.
  intros w t name b items ss T B L S. unfold dbus_of. rewrite T.
  destruct b as [|q|q]; try lia. rewrite L, S. reflexivity.
Qed.

(* what the caller of the D-Bus method gets: the name and, in the body, the message *)
Lemma dbus_wrap_decodes : forall name m w,
  dbus_of (snd (dbus_wrap name m w)) (fst (dbus_wrap name m w)) = Some (name, Some [m]).
Proof.
  intros name m w. unfold dbus_wrap. cbn [fst snd].
  set (w2 := salloc w (VStr m)). set (w3 := salloc w2 (VList [svnext w])). set (w4 := salloc w3 (VDbusErr name (svnext w2))).
  apply (dbus_of_intro w4 (svnext w3) name (svnext w2) [svnext w]).
  - apply (svget_at w4 (sw_vals w3) _ []); reflexivity.
  - apply svnext_pos.
  - apply (svget_at w4 (sw_vals w2) _ [VDbusErr name (svnext w2)]); [|reflexivity].
    unfold w4, w3, salloc. cbn [sw_vals]. rewrite app1. reflexivity.
  - cbn [strs_of]. unfold str_of.
    rewrite (svget_at w4 (sw_vals w) (VStr m) [VList [svnext w]; VDbusErr name (svnext w2)] (svnext w)); [reflexivity| |reflexivity].
    unfold w4, w3, w2, salloc. cbn [sw_vals]. rewrite !app1. reflexivity.
Qed.

Lemma dbus_wrap_frame : forall name m w,
  let w' := snd (dbus_wrap name m w) in
  sw_log w' = sw_log w /\ sw_proc w' = sw_proc w /\ sw_prev w' = sw_prev w /\ sw_hdr w' = sw_hdr w /\ sw_fc w' = sw_fc w /\
  sw_clock w' = sw_clock w /\ fst (dbus_wrap name m w) <> 0 /\ (forall t, t < svnext w -> svget w' t = svget w t).
Proof.
  intros name m w w'. repeat split.
  - unfold dbus_wrap. cbn [fst]. match goal with |- svnext ?x <> 0 => pose proof (svnext_pos x) end. lia.
  - intros t T. apply (svget_old w w' [VStr m; VList [svnext w]; VDbusErr name (svnext (salloc w (VStr m)))]); [|exact T].
    unfold w', dbus_wrap, salloc. cbn [snd sw_vals]. rewrite !app1. reflexivity.
Qed.

(* running the three calls *)
Lemma run_dbus_wrap : forall A name m e (k : Z -> M sworld A) w,
  svget w e = VErr m ->
  bind (call_ext sext "error.Error" [AInt e]) (fun t2 =>
    bind (call_ext sext "lit:[]interface{}" [AInt t2]) (fun t3 =>
      bind (call_ext sext "lit:dbus.Error" [ASym "Name"%string; AStr name; ASym "Body"%string; AInt t3]) k)) w
  = k (fst (dbus_wrap name m w)) (snd (dbus_wrap name m w)).
Proof.
  intros A name m e k w E. unfold bind at 1. unfold call_ext at 1.
  replace (sext "error.Error" [AInt e] w) with (svnext w, salloc w (VStr m)).
  2:{ cbv beta iota zeta delta [sext String.eqb Ascii.eqb Bool.eqb do_error_text]. rewrite E. reflexivity. }
  reflexivity.
Qed.

(* TakeSnapshot: newSnapshot's frame when there is no error - (nil, nil) in the (dead) quiet period, a frame
   otherwise -, else (nil, &dbus.Error{"org.cacophony.thermalrecorder.TakeSnapshot", [message]}) *)
Definition NAME_TAKE_SNAPSHOT : string := (DBUS_NAME ++ ".TakeSnapshot")%string.
Definition NAME_TAKE_RECORDING : string := (DBUS_NAME ++ ".TakeSnapshotRecording")%string.
Definition NAME_NO_HEADER : string := (DBUS_NAME ++ ".NoHeaderInfo")%string.

Definition ts_out (lf : Z) (w : sworld) : (Z * Z) * sworld :=
  match snap_msg (snap_case lf w) with
  | None => ((fst (snap_ret lf w), 0), snap_world lf w)
  | Some m => ((NIL_FRAME, fst (dbus_wrap NAME_TAKE_SNAPSHOT m (snap_world lf w))),
               snd (dbus_wrap NAME_TAKE_SNAPSHOT m (snap_world lf w)))
  end.

Lemma snap_err_token : forall lf w m,
  snap_msg (snap_case lf w) = Some m ->
  snap_ret lf w = (NIL_FRAME, svnext w) /\ svget (snap_world lf w) (svnext w) = VErr m.
Proof.
  intros lf w m H. split.
  - unfold snap_ret. destruct (snap_case lf w); try reflexivity; discriminate.
  - apply (svget_at _ (sw_vals w) (VErr m) []); [|reflexivity].
    unfold snap_world, snap_vals. cbn [sw_vals]. rewrite H. reflexivity.
Qed.

Theorem tie_TakeSnapshot : forall lf w,
  src_TakeSnapshot lf w = Ok (fst (ts_out lf w)) (snd (ts_out lf w)).
Proof.
  intros lf w. unfold src_TakeSnapshot, service_TakeSnapshot. unfold bind at 1.
  change (Snapshot_fn_newSnapshot sext lf w) with (src_newSnapshot lf w). rewrite tie_newSnapshot.
  unfold ts_out. destruct (snap_msg (snap_case lf w)) as [m|] eqn:M.
  - destruct (snap_err_token lf w m M) as [R G]. rewrite R. rewrite ?(Z.eqb_sym 0 (svnext w)). rewrite svnext_nz. cbn [negb].
    change ("org.cacophony.thermalrecorder" ++ ".TakeSnapshot")%string with NAME_TAKE_SNAPSHOT.
    rewrite (run_dbus_wrap _ NAME_TAKE_SNAPSHOT m (svnext w)) by exact G. reflexivity.
  - unfold snap_ret in *. destruct (snap_case lf w); try discriminate; reflexivity.
Qed.

Theorem TakeSnapshot_result : forall lf w,
  let r := fst (ts_out lf w) in let w' := snd (ts_out lf w) in
  match snap_case lf w with
  | SQuiet => r = (NIL_FRAME, 0)
  | SFrame h c => r = (h, 0) /\ fc_get (sw_fc w') h = c
  | other => fst r = NIL_FRAME /\ exists m, snap_msg other = Some m /\ dbus_of w' (snd r) = Some (NAME_TAKE_SNAPSHOT, Some [m])
  end.
Proof.
  intros lf w. unfold ts_out. pose proof (snap_result lf w) as R. cbv zeta in R.
  destruct (snap_case lf w) as [| | | |h c] eqn:C; cbn [snap_msg fst snd] in *;
    try (split; [reflexivity|]; eexists; split; [reflexivity|apply dbus_wrap_decodes]).
  - unfold snap_ret. rewrite C. reflexivity.
  - unfold snap_ret. rewrite C. destruct R as [_ [_ [F _]]]. split; [reflexivity|exact F].
Qed.

Theorem TakeSnapshot_locked : forall lf w,
  exists r w', src_TakeSnapshot lf w = Ok r w' /\ disciplined (log_since w w') = true.
Proof.
  intros lf w. eexists _, _. split; [apply tie_TakeSnapshot|].
  rewrite (log_since_app w _ (snap_log lf w)); [apply snap_disciplined|].
  unfold ts_out. destruct (snap_msg (snap_case lf w)); cbn [snd]; [|reflexivity].
  destruct (dbus_wrap_frame NAME_TAKE_SNAPSHOT s (snap_world lf w)) as [L _]. rewrite L. reflexivity.
Qed.

(* TakeTestRecording: nil when newSnapshotRecording succeeds, else &dbus.Error{"...TakeSnapshotRecording", [message]} *)
Definition tr_out (w : sworld) : Z * sworld :=
  match sw_proc w with
  | Some _ => (0, rec_world w)
  | None => dbus_wrap NAME_TAKE_RECORDING MSG_NOT_STARTED (rec_world w)
  end.

Theorem tie_TakeTestRecording : forall w,
  src_TakeTestRecording w = Ok (fst (tr_out w)) (snd (tr_out w)).
Proof.
  intros w. unfold src_TakeTestRecording, service_TakeTestRecording. unfold bind at 1.
  change (Snapshot_fn_newSnapshotRecording sext w) with (src_newSnapshotRecording w). rewrite tie_newSnapshotRecording.
  unfold tr_out. destruct (sw_proc w) as [p|] eqn:P.
  - unfold rec_ret. rewrite P. reflexivity.
  - pose proof (rec_error_message w P) as G. unfold err_msg in G.
    destruct (svget (rec_world w) (rec_ret w)) eqn:V; try discriminate. inversion G; subst.
    assert (N : (rec_ret w =? 0) = false) by (unfold rec_ret; rewrite P; apply svnext_nz).
    rewrite ?(Z.eqb_sym 0 (rec_ret w)). rewrite N. cbn [negb].
    change ("org.cacophony.thermalrecorder" ++ ".TakeSnapshotRecording")%string with NAME_TAKE_RECORDING.
    rewrite (run_dbus_wrap _ NAME_TAKE_RECORDING MSG_NOT_STARTED (rec_ret w)) by exact V. reflexivity.
Qed.

Theorem TakeTestRecording_result : forall w,
  match sw_proc w with
  | Some p => fst (tr_out w) = 0 /\ sw_proc (snd (tr_out w)) = Some (mkProc (po_cur p) (po_recent p) true)
  | None => dbus_of (snd (tr_out w)) (fst (tr_out w)) = Some (NAME_TAKE_RECORDING, Some [MSG_NOT_STARTED]) /\
            fst (tr_out w) <> 0 /\ sw_proc (snd (tr_out w)) = None
  end.
Proof.
  intros w. unfold tr_out. destruct (sw_proc w) as [p|] eqn:P; cbn [fst snd].
  - split; [reflexivity|]. unfold rec_world. cbn [sw_proc]. rewrite P. reflexivity.
  - split; [apply dbus_wrap_decodes|].
    destruct (dbus_wrap_frame NAME_TAKE_RECORDING MSG_NOT_STARTED (rec_world w)) as [_ [Q [_ [_ [_ [_ [N _]]]]]]].
    split; [exact N|]. rewrite Q. unfold rec_world. cbn [sw_proc]. rewrite P. reflexivity.
Qed.

Theorem TakeTestRecording_locked : forall w,
  exists r w', src_TakeTestRecording w = Ok r w' /\ disciplined (log_since w w') = true.
Proof.
  intros w. eexists _, _. split; [apply tie_TakeTestRecording|].
  rewrite (log_since_app w _ (rec_log w)); [apply rec_disciplined|].
  unfold tr_out. destruct (sw_proc w); [reflexivity|].
  destruct (dbus_wrap_frame NAME_TAKE_RECORDING MSG_NOT_STARTED (rec_world w)) as [L _]. rewrite L. reflexivity.
Qed.

(* ---------- CameraInfo ---------- *)
(* the values made when headerInfo is set, n being the first free token: eight keys, three strings, the map *)
Definition ci_vals (h : hinfo) (n : Z) : list sval :=
  [VStr KEY_XRES; VStr KEY_YRES; VStr KEY_FRAMESIZE; VStr KEY_MODEL; VStr (hi_model h); VStr KEY_BRAND; VStr (hi_brand h);
   VStr KEY_FPS; VStr KEY_SERIAL; VStr KEY_FIRMWARE; VStr (hi_firmware h);
   VMap [(n, hi_resx h); (n + 1, hi_resy h); (n + 2, hi_fs h); (n + 3, n + 4); (n + 5, n + 6); (n + 7, hi_fps h);
         (n + 8, hi_serial h); (n + 9, n + 10)]].

Definition ci_ret (w : sworld) : Z * Z :=
  match sw_hdr w with None => (0, svnext w) | Some _ => (svnext w + 11, 0) end.
Definition ci_log (w : sworld) : list sev :=
  match sw_hdr w with None => [ERead SHeaderInfo] | Some _ => repeat (ERead SHeaderInfo) 9 end.
Definition ci_world (w : sworld) : sworld :=
  mkSW (sw_clock w) (sw_prev w) (sw_proc w) (sw_hdr w) (sw_fc w)
       (sw_vals w ++ match sw_hdr w with None => [VDbusErr NAME_NO_HEADER 0] | Some h => ci_vals h (svnext w) end)
       (sw_pending w) (sw_log w ++ ci_log w).

Theorem tie_CameraInfo : forall w, src_CameraInfo w = Ok (ci_ret w) (ci_world w).
Proof.
  intros [clock prev proc hdr fc vals pending log].
  unfold src_CameraInfo, service_CameraInfo, ci_ret, ci_world, ci_log, ci_vals, NAME_NO_HEADER, DBUS_NAME.
  sunfold. destruct hdr as [h|]; sunfold.
  - change (HDR_TOK =? 0) with false. sunfold. lognorm. rewrite !app_length. cbn [List.length repeat].
    unfold KEY_XRES, KEY_YRES, KEY_FRAMESIZE, KEY_MODEL, KEY_BRAND, KEY_FPS, KEY_SERIAL, KEY_FIRMWARE.
    repeat (first [reflexivity | lia | f_equal]).
  - change (0 =? 0) with true. sunfold. lognorm. reflexivity.
Qed.

(* the map as a D-Bus client reads it: by key; Model, Brand and Firmware hold strings, the others integers *)
Definition is_string_key (k : string) : bool := String.eqb k KEY_MODEL || String.eqb k KEY_BRAND || String.eqb k KEY_FIRMWARE.
Definition entry_of (w : sworld) (kv : Z * Z) : option (string * (Z + string)) :=
  match str_of w (fst kv) with
  | Some k => if is_string_key k
              then match str_of w (snd kv) with Some s => Some (k, inr s) | None => None end
              else Some (k, inl (snd kv))
  | None => None
  end.

Definition camera_specs (h : hinfo) : list (option (string * (Z + string))) :=
  [Some (KEY_XRES, inl (hi_resx h)); Some (KEY_YRES, inl (hi_resy h)); Some (KEY_FRAMESIZE, inl (hi_fs h));
   Some (KEY_MODEL, inr (hi_model h)); Some (KEY_BRAND, inr (hi_brand h)); Some (KEY_FPS, inl (hi_fps h));
   Some (KEY_SERIAL, inl (hi_serial h)); Some (KEY_FIRMWARE, inr (hi_firmware h))].

Lemma ci_str : forall w h k s t,
  sw_hdr w = Some h -> nth_error (ci_vals h (svnext w)) k = Some (VStr s) -> t = svnext w + Z.of_nat k ->
  str_of (ci_world w) t = Some s.
Proof.
  intros w h k s t H N T. subst t. unfold str_of.
  assert (K : (k < List.length (ci_vals h (svnext w)))%nat) by (apply nth_error_Some; congruence).
  change (svnext w + Z.of_nat k) with (Z.of_nat (List.length (sw_vals w)) + 1 + Z.of_nat k).
  rewrite (svget_new (ci_world w) (sw_vals w) (ci_vals h (svnext w)) k); [| |exact K].
  - rewrite (nth_error_nth _ _ _ N). reflexivity.
  - unfold ci_world. cbn [sw_vals]. rewrite H. reflexivity.
Qed.

(* no header yet: (nil, &dbus.Error{"...NoHeaderInfo", nil}); else (the map of the eight header values, nil) *)
Theorem CameraInfo_result : forall w,
  match sw_hdr w with
  | None => fst (ci_ret w) = 0 /\ dbus_of (ci_world w) (snd (ci_ret w)) = Some (NAME_NO_HEADER, None)
  | Some h => snd (ci_ret w) = 0 /\
              exists kvs, svget (ci_world w) (fst (ci_ret w)) = VMap kvs /\ map (entry_of (ci_world w)) kvs = camera_specs h
  end.
Proof.
  intros w. unfold ci_ret. destruct (sw_hdr w) as [h|] eqn:H; cbn [fst snd].
  - split; [reflexivity|]. eexists. split.
    + change (svnext w + 11) with (Z.of_nat (List.length (sw_vals w)) + 1 + Z.of_nat 11).
      rewrite (svget_new (ci_world w) (sw_vals w) (ci_vals h (svnext w)) 11).
      * reflexivity.
      * unfold ci_world. cbn [sw_vals]. rewrite H. reflexivity.
      * cbn. lia.
    + cbn [map]. unfold entry_of. cbn [fst snd].
      rewrite (ci_str w h 0 KEY_XRES (svnext w) H eq_refl ltac:(cbn; lia)).
      rewrite (ci_str w h 1 KEY_YRES (svnext w + 1) H eq_refl eq_refl), (ci_str w h 2 KEY_FRAMESIZE (svnext w + 2) H eq_refl eq_refl),
        (ci_str w h 3 KEY_MODEL (svnext w + 3) H eq_refl eq_refl), (ci_str w h 4 (hi_model h) (svnext w + 4) H eq_refl eq_refl),
        (ci_str w h 5 KEY_BRAND (svnext w + 5) H eq_refl eq_refl), (ci_str w h 6 (hi_brand h) (svnext w + 6) H eq_refl eq_refl),
        (ci_str w h 7 KEY_FPS (svnext w + 7) H eq_refl eq_refl), (ci_str w h 8 KEY_SERIAL (svnext w + 8) H eq_refl eq_refl),
        (ci_str w h 9 KEY_FIRMWARE (svnext w + 9) H eq_refl eq_refl), (ci_str w h 10 (hi_firmware h) (svnext w + 10) H eq_refl eq_refl).
      reflexivity.
  - split; [reflexivity|]. unfold dbus_of.
    rewrite (svget_at (ci_world w) (sw_vals w) (VDbusErr NAME_NO_HEADER 0) [] (svnext w)); [reflexivity| |reflexivity].
    unfold ci_world. cbn [sw_vals]. rewrite H. reflexivity.
Qed.

(* KNOWN FINDING restated on the source: CameraInfo reads headerInfo - once for the nil test, eight times through
   its accessors - and never takes the mutex; handleConn assigns headerInfo on every connection (the race on
   headerInfo of C16's access table).  It writes nothing. *)
Theorem CameraInfo_takes_no_lock : forall w,
  exists r w', src_CameraInfo w = Ok r w' /\
    existsb is_lock (log_since w w') = false /\
    forallb (fun e => match e with ERead SHeaderInfo => true | _ => false end) (log_since w w') = true /\
    log_since w w' <> [] /\ disciplined (log_since w w') = false.
Proof.
  intros w. exists (ci_ret w), (ci_world w). split; [apply tie_CameraInfo|].
  rewrite (log_since_app w (ci_world w) (ci_log w)) by reflexivity.
  unfold ci_log. destruct (sw_hdr w); repeat split; discriminate.
Qed.

(* ---------- what the handler says of processor.GetRecentFrame, against the translated method ----------
   motion/motionprocessor.go's GetRecentFrame (translated/MotionProcessor.v) returns CurrentFrame and the copy
   FrameLoop.CopyRecent makes - under the RING's mutex - of the slot before the current one, and changes nothing
   in the processor: the pair (CurrentFrame, recent frame) SnapExt.v's clause answers with. *)
Theorem tie_GetRecentFrame : forall (W : Type) (ext : string -> list arg -> W -> Z * W) mp w d,
  fl_wf (MotionProcessor_frameLoop mp) ->
  let w1 := after_ext ext "FrameLoop.mu.Lock" [] w in
  let rw := ext "Frame.CreateCopy"%string [AFrame (recent d (ring_of (MotionProcessor_frameLoop mp)))] w1 in
  MotionProcessor_GetRecentFrame ext mp w =
    Ok (mp, (MotionProcessor_CurrentFrame mp, fst rw)) (after_ext ext "FrameLoop.mu.Unlock" [] (snd rw)).
Proof.
  intros W ext mp w d WF. cbv zeta. unfold MotionProcessor_GetRecentFrame. unfold bind at 1.
  rewrite (tie_CopyRecent ext (MotionProcessor_frameLoop mp) w d WF). cbv zeta.
  destruct mp. reflexivity.
Qed.

(* every entry point of the request path at once: none panics, in any world; those that use processor /
   previousSnapshotTime keep to the mutex; (CameraInfo: see CameraInfo_takes_no_lock) *)
Theorem request_path_locked : forall w lf,
  (exists r w', src_newSnapshot lf w = Ok r w' /\ disciplined (log_since w w') = true) /\
  (exists r w', src_newSnapshotRecording w = Ok r w' /\ disciplined (log_since w w') = true) /\
  (exists r w', src_TakeSnapshot lf w = Ok r w' /\ disciplined (log_since w w') = true) /\
  (exists r w', src_TakeTestRecording w = Ok r w' /\ disciplined (log_since w w') = true).
Proof.
  intros w lf. repeat split.
  - apply newSnapshot_locked.
  - apply newSnapshotRecording_locked.
  - apply TakeSnapshot_locked.
  - apply TakeTestRecording_locked.
Qed.

(* ---------- examples (vm_compute on the translated code) ---------- *)
Definition NOW_2020 : Z := 63713433600000000000.   (* 2020-01-01 counted from 0001-01-01, in ns *)

Definition ex_world (cur recent : Z) (count : Z) : sworld :=
  mkSW [NOW_2020] 0 (Some (mkProc cur recent false)) None [(recent, count)] [] 0 [].

(* a frame whose FrameCount is 0 gets CurrentFrame; the log is Lock ... Unlock *)
Example snap_ex_frame :
  match src_newSnapshot (-1) (ex_world 7 42 0) with
  | Ok r w' => r = (42, 0) /\ fc_get (sw_fc w') 42 = 7 /\
               sw_log w' = [ELock; ERead SPrevTime; EClock NOW_2020; ERead SProcessor; ERead SCurrentFrame; ERead SRecentFrame;
                            EFrameRead 42; EFrameWrite 42 7; EUnlock]
  | Panicked _ => False
  end.
Proof. vm_compute. repeat split. Qed.

(* a frame that already has a count keeps it *)
Example snap_ex_count_kept :
  match src_newSnapshot 3 (ex_world 7 42 5) with
  | Ok r w' => r = (42, 0) /\ fc_get (sw_fc w') 42 = 5 /\ filter (fun e => match e with EFrameWrite _ _ => true | _ => false end) (sw_log w') = []
  | Panicked _ => False
  end.
Proof. vm_compute. repeat split. Qed.

(* lastFrame = CurrentFrame: "no new frames yet" *)
Example snap_ex_no_new :
  match src_newSnapshot 7 (ex_world 7 42 0) with
  | Ok r w' => fst r = NIL_FRAME /\ err_msg w' (snd r) = Some MSG_NO_NEW
  | Panicked _ => False
  end.
Proof. vm_compute. repeat split. Qed.

(* ... and so does lastFrame = CurrentFrame + 2^32: uint32(lastFrame) drops the high bits of the 64-bit int *)
Example snap_ex_no_new_wrapped :
  match src_newSnapshot (7 + 2 ^ 32) (ex_world 7 42 0) with
  | Ok r w' => fst r = NIL_FRAME /\ err_msg w' (snd r) = Some MSG_NO_NEW
  | Panicked _ => False
  end.
Proof. vm_compute. repeat split. Qed.

(* lastFrame = -1 never matches, not even CurrentFrame = 2^32 - 1 = uint32(-1): the guard lastFrame >= 0 comes first
   (and CurrentFrame is then not read for the comparison) *)
Example snap_ex_negative :
  match src_newSnapshot (-1) (ex_world (2 ^ 32 - 1) 42 0) with
  | Ok r w' => r = (42, 0) /\ fc_get (sw_fc w') 42 = 2 ^ 32 - 1
  | Panicked _ => False
  end.
Proof. vm_compute. repeat split. Qed.

(* no processor: the error of newSnapshot, and TakeSnapshot's dbus.Error made of it *)
Example snap_ex_not_started :
  match src_TakeSnapshot (-1) (mkSW [NOW_2020] 0 None None [] [] 0 []) with
  | Ok r w' => fst r = NIL_FRAME /\ dbus_of w' (snd r) = Some ("org.cacophony.thermalrecorder.TakeSnapshot"%string, Some [MSG_NOT_STARTED]) /\
               sw_log w' = [ELock; ERead SPrevTime; EClock NOW_2020; ERead SProcessor; EUnlock]
  | Panicked _ => False
  end.
Proof. vm_compute. repeat split. Qed.

(* a nil recent frame: "no frames yet" *)
Example snap_ex_no_frames :
  match src_newSnapshot (-1) (ex_world 7 (-1) 0) with
  | Ok r w' => fst r = NIL_FRAME /\ err_msg w' (snd r) = Some MSG_NO_FRAMES
  | Panicked _ => False
  end.
Proof. vm_compute. repeat split. Qed.

(* the quiet period WOULD answer (nil, nil) - if anything ever set previousSnapshotTime (here: 100 ms ago) *)
Example snap_ex_quiet_if_set :
  match src_newSnapshot (-1) (mkSW [NOW_2020] (NOW_2020 - 100000000) (Some (mkProc 7 42 false)) None [] [] 0 []) with
  | Ok r w' => r = (NIL_FRAME, 0) /\ sw_log w' = [ELock; ERead SPrevTime; EClock NOW_2020; EUnlock] /\ sw_prev w' = NOW_2020 - 100000000
  | Panicked _ => False
  end.
Proof. vm_compute. repeat split. Qed.

(* two requests 1 ns apart, previousSnapshotTime as the program leaves it: both are served *)
Example snap_ex_never_quiet :
  match src_newSnapshot (-1) (mkSW [NOW_2020; NOW_2020 + 1] 0 (Some (mkProc 7 42 false)) None [] [] 0 []) with
  | Ok r w' => r = (42, 0) /\
               match src_newSnapshot (-1) w' with
               | Ok r2 w2 => r2 = (42, 0) /\ sw_prev w2 = 0
               | Panicked _ => False
               end
  | Panicked _ => False
  end.
Proof. vm_compute. repeat split. Qed.

(* a test-recording request: with a processor the flag is set, written once; without, the D-Bus error *)
Example rec_ex_sets_flag :
  match src_TakeTestRecording (ex_world 7 42 0) with
  | Ok r w' => r = 0 /\ sw_proc w' = Some (mkProc 7 42 true) /\
               sw_log w' = [ELock; ERead SProcessor; EWrite SStartSnapshot; EUnlock]
  | Panicked _ => False
  end.
Proof. vm_compute. repeat split. Qed.

Example rec_ex_no_processor :
  match src_TakeTestRecording (mkSW [] 0 None None [] [] 0 []) with
  | Ok r w' => dbus_of w' r = Some ("org.cacophony.thermalrecorder.TakeSnapshotRecording"%string, Some [MSG_NOT_STARTED]) /\
               sw_log w' = [ELock; ERead SProcessor; ELogLine MSG_NO_PROCESSOR; EUnlock]
  | Panicked _ => False
  end.
Proof. vm_compute. repeat split. Qed.

Definition ex_hdr : hinfo := mkHI 160 120 39040 9 1234 "lepton3.5" "flir" "1.2.3".
Example camerainfo_ex :
  match src_CameraInfo (mkSW [] 0 None (Some ex_hdr) [] [] 0 []) with
  | Ok r w' => snd r = 0 /\
               match svget w' (fst r) with
               | VMap kvs => map (entry_of w') kvs =
                   [Some ("ResX", inl 160); Some ("ResY", inl 120); Some ("FrameSize", inl 39040); Some ("Model", inr "lepton3.5");
                    Some ("Brand", inr "flir"); Some ("FPS", inl 9); Some ("CameraSerial", inl 1234); Some ("Firmware", inr "1.2.3")]%string
               | _ => False
               end /\ existsb is_lock (sw_log w') = false
  | Panicked _ => False
  end.
Proof. vm_compute. repeat split. Qed.

Example camerainfo_ex_no_header :
  match src_CameraInfo (mkSW [] 0 None None [] [] 0 []) with
  | Ok r w' => fst r = 0 /\ dbus_of w' (snd r) = Some ("org.cacophony.thermalrecorder.NoHeaderInfo"%string, None)
  | Panicked _ => False
  end.
Proof. vm_compute. repeat split. Qed.

(* ---------- bundles for the property files ---------- *)
Theorem snapshot_quiet_period_dead :
  (forall lf w, sw_prev (snap_world lf w) = sw_prev w) /\
  (forall w, sw_prev (rec_world w) = sw_prev w) /\
  (forall w, sw_prev (ci_world w) = sw_prev w) /\
  existsb (String.eqb "set:previousSnapshotTime") ext_names_Snapshot = false /\
  (forall lf w, sw_prev w = 0 -> QUIET_NS <= now_of w -> snap_case lf w <> SQuiet /\ snap_ret lf w <> (NIL_FRAME, 0)).
Proof.
  repeat split.
  - apply (snap_quiet_never lf w H H0).
  - intros E. apply snap_nil_nil_iff in E. apply (snap_quiet_never lf w H H0). apply snap_case_quiet. exact E.
Qed.

Theorem request_error_iff : forall w,
  (rec_ret w <> 0 <-> sw_proc w = None) /\
  (sw_proc w = None -> err_msg (rec_world w) (rec_ret w) = Some MSG_NOT_STARTED /\ sw_proc (rec_world w) = None /\
                       filter is_shared (rec_log w) = [ERead SProcessor]).
Proof.
  intros w. split; [apply rec_error_iff|]. intros E. split; [apply rec_error_message; exact E|].
  apply rec_no_flag_without_processor; exact E.
Qed.
