(* Bit-level facts for the pixel codec (C11): two's complement at a given width, the int32
   little-endian header, and PackBits / BitUnpacker against one abstract object: the packed
   stream seen as a big-endian natural number. *)
From Coq Require Import List ZArith Bool Arith Lia.
From TR Require Import model.Codec.
Import ListNotations.
Open Scope Z_scope.

#[local] Arguments Z.pow : simpl never.
#[local] Arguments Z.mul : simpl never.
#[local] Arguments Z.add : simpl never.
#[local] Arguments Z.sub : simpl never.
#[local] Arguments Z.div : simpl never.
#[local] Arguments Z.modulo : simpl never.
#[local] Arguments Z.lor : simpl never.
#[local] Arguments Z.land : simpl never.

(* ---------- powers of two ---------- *)
Lemma pow2_pos : forall k, 0 <= k -> 0 < 2 ^ k.
Proof. intros. apply Z.pow_pos_nonneg; lia. Qed.

Lemma pow2_split : forall a b, 0 <= a -> 0 <= b -> 2 ^ (a + b) = 2 ^ a * 2 ^ b.
Proof. intros. apply Z.pow_add_r; lia. Qed.

Lemma pow2_split3 : forall c a b, 0 <= a -> 0 <= b -> c = a + b -> 2 ^ c = 2 ^ a * 2 ^ b.
Proof. intros. subst. apply pow2_split; lia. Qed.

Lemma pow2_le : forall a b, 0 <= a <= b -> 2 ^ a <= 2 ^ b.
Proof. intros. apply Z.pow_le_mono_r; lia. Qed.

Lemma pow2_lt : forall a b, 0 <= a < b -> 2 ^ a < 2 ^ b.
Proof. intros. apply Z.pow_lt_mono_r; lia. Qed.

(* (a * 2^k) / 2^(j+k) and mod *)
Lemma shl_div : forall a j k, 0 <= j -> 0 <= k -> (a * 2 ^ k) / 2 ^ (j + k) = a / 2 ^ j.
Proof.
  intros. rewrite pow2_split by lia. apply Z.div_mul_cancel_r.
  - pose proof (pow2_pos j); lia.
  - pose proof (pow2_pos k); lia.
Qed.

Lemma shl_mod : forall a j k, 0 <= j -> 0 <= k -> (a * 2 ^ k) mod 2 ^ (j + k) = (a mod 2 ^ j) * 2 ^ k.
Proof.
  intros. rewrite pow2_split by lia. apply Z.mul_mod_distr_r.
  - pose proof (pow2_pos j); lia.
  - pose proof (pow2_pos k); lia.
Qed.

Lemma div_pow2_bound : forall a j k, 0 <= j -> 0 <= k -> 0 <= a < 2 ^ (j + k) -> 0 <= a / 2 ^ k < 2 ^ j.
Proof.
  intros a j k Hj Hk Ha. pose proof (pow2_pos k Hk). split.
  - apply Z.div_pos; lia.
  - apply Z.div_lt_upper_bound; [lia|]. rewrite <- pow2_split by lia. rewrite Z.add_comm. lia.
Qed.

Lemma mod_pow2_bound : forall a k, 0 <= k -> 0 <= a mod 2 ^ k < 2 ^ k.
Proof. intros. apply Z.mod_pos_bound. apply pow2_pos; lia. Qed.

(* a high part and a low part below 2^k: the high part times 2^k plus the low part *)
Lemma hi_lo_bound : forall hi lo j k, 0 <= j -> 0 <= k -> 0 <= hi < 2 ^ j -> 0 <= lo < 2 ^ k ->
  0 <= hi * 2 ^ k + lo < 2 ^ (j + k).
Proof. intros. rewrite pow2_split by lia. nia. Qed.

Lemma hi_lo_unique : forall k h1 l1 h2 l2, 0 <= l1 < k -> 0 <= l2 < k ->
  h1 * k + l1 = h2 * k + l2 -> h1 = h2 /\ l1 = l2.
Proof.
  intros k h1 l1 h2 l2 H1 H2 E. apply (Z.div_mod_unique k); [left; lia | left; lia | lia].
Qed.

(* ---------- OR is addition when the operands do not overlap ---------- *)
Lemma land_shift_small : forall p k b, 0 <= k -> 0 <= b < 2 ^ k -> Z.land (p * 2 ^ k) b = 0.
Proof.
  intros p k b Hk Hb. apply Z.bits_inj'. intros i Hi. rewrite Z.land_spec, Z.bits_0.
  destruct (Z_lt_le_dec i k).
  - rewrite Z.mul_pow2_bits_low by lia. reflexivity.
  - rewrite <- (Z.mod_small b (2 ^ k)) by lia. rewrite Z.mod_pow2_bits_high by lia. apply andb_false_r.
Qed.

Lemma lor_add : forall p k b, 0 <= k -> 0 <= b < 2 ^ k -> Z.lor (p * 2 ^ k) b = p * 2 ^ k + b.
Proof.
  intros p k b Hk Hb. pose proof (land_shift_small p k b Hk Hb) as L.
  rewrite <- Z.lxor_lor by exact L. symmetry. apply Z.add_nocarry_lxor. exact L.
Qed.

(* testing one bit with AND *)
Lemma land_pow2_test : forall v w, 1 <= w -> 0 <= v < 2 ^ w ->
  (Z.land v (2 ^ (w - 1)) =? 0) = (v <? 2 ^ (w - 1)).
Proof.
  intros v w Hw Hv.
  assert (Hb : Z.b2z (Z.testbit v (w - 1)) = (v / 2 ^ (w - 1)) mod 2) by (apply Z.testbit_spec'; lia).
  assert (Hq : 0 <= v / 2 ^ (w - 1) < 2 ^ 1).
  { apply div_pow2_bound; try lia. replace (1 + (w - 1)) with w by lia. lia. }
  change (2 ^ 1) with 2 in Hq. rewrite Z.mod_small in Hb by lia.
  pose proof (pow2_pos (w - 1)) as Hp.
  destruct (Z.ltb_spec v (2 ^ (w - 1))) as [Hlt | Hge].
  - rewrite Z.div_small in Hb by lia.
    apply Z.eqb_eq. apply Z.bits_inj'. intros i Hi. rewrite Z.land_spec, Z.bits_0.
    rewrite Z.pow2_bits_eqb by lia. destruct (Z.eqb_spec (w - 1) i) as [<- | ?].
    + destruct (Z.testbit v (w - 1)); [discriminate | reflexivity].
    + apply andb_false_r.
  - assert (Hq1 : v / 2 ^ (w - 1) = 1).
    { assert (1 <= v / 2 ^ (w - 1)); [| lia]. apply Z.div_le_lower_bound; lia. }
    rewrite Hq1 in Hb. apply Z.eqb_neq. intro E.
    assert (T : Z.testbit (Z.land v (2 ^ (w - 1))) (w - 1) = true).
    { rewrite Z.land_spec, Z.pow2_bits_true by lia. destruct (Z.testbit v (w - 1)); [reflexivity | discriminate]. }
    rewrite E, Z.bits_0 in T. discriminate.
Qed.

(* ---------- two's complement at width w ---------- *)
Definition inr (w d : Z) : Prop := - 2 ^ (w - 1) < d < 2 ^ (w - 1).

Lemma W32_split : forall w, 0 <= w <= 32 -> W32 = 2 ^ (32 - w) * 2 ^ w.
Proof. intros. unfold W32. apply pow2_split3; lia. Qed.

Lemma twos_comp_mod : forall d w, 1 <= w <= 32 -> inr w d -> twos_comp d w = d mod 2 ^ w.
Proof.
  intros d w Hw [Hlo Hhi]. unfold twos_comp, u32.
  assert (H31 : 2 ^ (w - 1) <= 2 ^ 31) by (apply pow2_le; lia).
  assert (Hw2 : 2 ^ w = 2 * 2 ^ (w - 1)) by (rewrite (pow2_split3 w 1 (w - 1)) by lia; reflexivity).
  destruct (Z.leb_spec 0 d) as [Hd | Hd].
  - unfold W32. change (2 ^ 32) with 4294967296. change (2 ^ 31) with 2147483648 in H31.
    rewrite !Z.mod_small by lia. reflexivity.
  - rewrite (Z.mod_small (- d) W32) by (unfold W32; change (2 ^ 32) with 4294967296; change (2 ^ 31) with 2147483648 in H31; lia).
    rewrite (Z.mod_small (W32 - 1 - - d) W32) by (unfold W32; change (2 ^ 32) with 4294967296; change (2 ^ 31) with 2147483648 in H31; lia).
    rewrite (Z.mod_small (W32 - 1 - - d + 1) W32) by (unfold W32; change (2 ^ 32) with 4294967296; change (2 ^ 31) with 2147483648 in H31; lia).
    replace (W32 - 1 - - d + 1) with (d + 2 ^ (32 - w) * 2 ^ w) by (rewrite <- W32_split by lia; lia).
    apply Z_mod_plus_full.
Qed.

Lemma twos_uncomp_mod : forall d w, 1 <= w <= 32 -> inr w d -> twos_uncomp (d mod 2 ^ w) w = d.
Proof.
  intros d w Hw [Hlo Hhi]. unfold twos_uncomp.
  assert (H31 : 2 ^ (w - 1) <= 2 ^ 31) by (apply pow2_le; lia).
  assert (Hw2 : 2 ^ w = 2 * 2 ^ (w - 1)) by (rewrite (pow2_split3 w 1 (w - 1)) by lia; reflexivity).
  pose proof (mod_pow2_bound d w ltac:(lia)) as Hm.
  rewrite land_pow2_test by lia.
  destruct (Z.leb_spec 0 d) as [Hd | Hd].
  - rewrite Z.mod_small by lia. destruct (Z.ltb_spec d (2 ^ (w - 1))); [reflexivity | lia].
  - assert (Ev : d mod 2 ^ w = d + 2 ^ w).
    { rewrite <- (Z_mod_plus_full d 1 (2 ^ w)). rewrite Z.mod_small; lia. }
    rewrite Ev. destruct (Z.ltb_spec (d + 2 ^ w) (2 ^ (w - 1))); [lia |].
    assert (H32 : 2 ^ w <= W32) by (unfold W32; apply pow2_le; lia).
    unfold u32.
    rewrite (Z.mod_small (W32 - 1 - (d + 2 ^ w)) W32) by lia.
    rewrite (Z.mod_small (W32 - 1 - (d + 2 ^ w) + 1) W32) by lia.
    replace (W32 - 1 - (d + 2 ^ w) + 1) with (- d + (2 ^ (32 - w) - 1) * 2 ^ w)
      by (rewrite (W32_split w) by lia; ring).
    rewrite Z_mod_plus_full. rewrite Z.mod_small by lia. lia.
Qed.

(* ---------- int32 little-endian ---------- *)
Lemma from_le32_4 : forall a b c d, from_le32 [a; b; c; d] =
  if a + 256 * b + 65536 * c + 16777216 * d <? 2 ^ 31 then a + 256 * b + 65536 * c + 16777216 * d
  else a + 256 * b + 65536 * c + 16777216 * d - W32.
Proof. reflexivity. Qed.

Lemma from_le32_le32 : forall v rest, - 2 ^ 31 <= v < 2 ^ 31 -> from_le32 (firstn 4 (le32 v ++ rest)) = v.
Proof.
  intros v rest Hv. unfold le32. cbn [firstn app]. rewrite from_le32_4.
  unfold u32, W32. change (2 ^ 32) with 4294967296. change (2 ^ 31) with 2147483648 in *.
  set (u := v mod 4294967296).
  assert (Hu : 0 <= u < 4294967296) by (apply Z.mod_pos_bound; lia).
  assert (Eu : u mod 256 + 256 * ((u / 256) mod 256) + 65536 * ((u / 65536) mod 256)
               + 16777216 * ((u / 16777216) mod 256) = u).
  { clearbody u. clear Hv.
    pose proof (Z.div_mod u 256 ltac:(lia)). pose proof (Z.mod_pos_bound u 256 ltac:(lia)).
    pose proof (Z.div_mod (u / 256) 256 ltac:(lia)). pose proof (Z.mod_pos_bound (u / 256) 256 ltac:(lia)).
    pose proof (Z.div_mod (u / 256 / 256) 256 ltac:(lia)). pose proof (Z.mod_pos_bound (u / 256 / 256) 256 ltac:(lia)).
    replace (u / 65536) with (u / 256 / 256) by (rewrite Z.div_div by lia; reflexivity).
    replace (u / 16777216) with (u / 256 / 256 / 256) by (rewrite !Z.div_div by lia; reflexivity).
    assert (0 <= u / 256 / 256 / 256 < 256).
    { rewrite !Z.div_div by lia. split; [apply Z.div_pos; lia | apply Z.div_lt_upper_bound; lia]. }
    rewrite (Z.mod_small (u / 256 / 256 / 256) 256) by lia. lia. }
  rewrite Eu. subst u.
  destruct (Z.ltb_spec (v mod 4294967296) 2147483648) as [Hlt | Hge].
  - destruct (Z_lt_le_dec v 0).
    + rewrite <- (Z_mod_plus_full v 1 4294967296) in Hlt. rewrite Z.mod_small in Hlt; lia.
    + apply Z.mod_small; lia.
  - destruct (Z_lt_le_dec v 0).
    + rewrite <- (Z_mod_plus_full v 1 4294967296). rewrite Z.mod_small; lia.
    + rewrite Z.mod_small in Hge; lia.
Qed.

Lemma skipn4_le32 : forall v rest, skipn 4 (le32 v ++ rest) = rest.
Proof. intros. reflexivity. Qed.

(* ---------- byte strings and packed values as big-endian numbers ---------- *)
Definition zlen {A} (l : list A) : Z := Z.of_nat (length l).

Lemma zlen_nonneg : forall A (l : list A), 0 <= zlen l.
Proof. intros. unfold zlen. lia. Qed.

Lemma zlen_cons : forall A (a : A) l, zlen (a :: l) = zlen l + 1.
Proof. intros. unfold zlen. cbn [length]. lia. Qed.

Lemma zlen_app : forall A (a b : list A), zlen (a ++ b) = zlen a + zlen b.
Proof. intros. unfold zlen. rewrite app_length. lia. Qed.

Lemma zlen_nil : forall A, zlen (@nil A) = 0.
Proof. reflexivity. Qed.

Definition bytes_ok (l : list Z) : Prop := Forall (fun b => 0 <= b < 256) l.

(* value of a byte string, most significant byte first *)
Fixpoint bv (l : list Z) : Z :=
  match l with
  | [] => 0
  | b :: r => b * 2 ^ (8 * zlen r) + bv r
  end.

Lemma bv_bound : forall l, bytes_ok l -> 0 <= bv l < 2 ^ (8 * zlen l).
Proof.
  induction l as [| b r IH]; intros Hl.
  - cbn [bv]. rewrite zlen_nil. change (2 ^ (8 * 0)) with 1. lia.
  - inversion Hl as [| ? ? Hb Hr]; subst. specialize (IH Hr). cbn [bv]. rewrite zlen_cons.
    pose proof (zlen_nonneg _ r).
    replace (8 * (zlen r + 1)) with (8 + 8 * zlen r) by lia.
    apply hi_lo_bound; lia.
Qed.

Lemma bv_app : forall a b, bv (a ++ b) = bv a * 2 ^ (8 * zlen b) + bv b.
Proof.
  induction a as [| x a IH]; intros b.
  - cbn [app bv]. lia.
  - cbn [app bv]. rewrite IH, zlen_app.
    pose proof (zlen_nonneg _ a). pose proof (zlen_nonneg _ b).
    replace (8 * (zlen a + zlen b)) with (8 * zlen a + 8 * zlen b) by lia.
    rewrite pow2_split by lia. ring.
Qed.

(* the packed values: each d as the w-bit number d mod 2^w, first value most significant *)
Fixpoint cv (w : Z) (ds : list Z) : Z :=
  match ds with
  | [] => 0
  | d :: r => (d mod 2 ^ w) * 2 ^ (w * zlen r) + cv w r
  end.

Lemma cv_bound : forall w ds, 0 <= w -> 0 <= cv w ds < 2 ^ (w * zlen ds).
Proof.
  intros w ds Hw. induction ds as [| d r IH].
  - cbn [cv]. rewrite zlen_nil. rewrite Z.mul_0_r. change (2 ^ 0) with 1. lia.
  - cbn [cv]. rewrite zlen_cons. pose proof (zlen_nonneg _ r).
    replace (w * (zlen r + 1)) with (w + w * zlen r) by lia.
    apply hi_lo_bound; try nia. apply mod_pow2_bound; lia.
Qed.

(* ---------- PackBits ---------- *)
(* the scratch register holds N pending bits (the number P) in its top N bits, zeros below *)
Lemma flush_bytes_spec : forall fuel P N,
  0 <= N <= 32 -> 0 <= P < 2 ^ N -> N < 8 * Z.of_nat fuel + 8 ->
  exists out p2 n2,
    flush_bytes fuel (P * 2 ^ (32 - N)) N = (out, p2 * 2 ^ (32 - n2), n2) /\
    0 <= n2 < 8 /\ 0 <= p2 < 2 ^ n2 /\ bytes_ok out /\
    8 * zlen out + n2 = N /\ bv out * 2 ^ n2 + p2 = P.
Proof.
  induction fuel as [| k IH]; intros P N HN HP Hf.
  - exists [], P, N. cbn [flush_bytes bv]. rewrite zlen_nil.
    split; [reflexivity |]. split; [lia |]. split; [lia |]. split; [constructor |]. split; lia.
  - cbn [flush_bytes]. destruct (Z.leb_spec 8 N) as [H8 | H8].
    + assert (Eb : u32 (P * 2 ^ (32 - N) * 256) = (P mod 2 ^ (N - 8)) * 2 ^ (32 - (N - 8))).
      { unfold u32, W32. change 256 with (2 ^ 8). rewrite <- Z.mul_assoc, <- pow2_split by lia.
        replace (32 - N + 8) with (32 - (N - 8)) by lia.
        replace (2 ^ 32) with (2 ^ ((N - 8) + (32 - (N - 8)))) by (f_equal; lia).
        apply shl_mod; lia. }
      assert (Ebyte : P * 2 ^ (32 - N) / 2 ^ 24 = P / 2 ^ (N - 8)).
      { replace (2 ^ 24) with (2 ^ ((N - 8) + (32 - N))) by (f_equal; lia). apply shl_div; lia. }
      assert (HP' : 0 <= P mod 2 ^ (N - 8) < 2 ^ (N - 8)) by (apply mod_pow2_bound; lia).
      destruct (IH (P mod 2 ^ (N - 8)) (N - 8)) as (out & p2 & n2 & E & Hn2 & Hp2 & Hout & Hlen & Hval);
        [lia | exact HP' | lia |].
      rewrite Eb, E, Ebyte. exists (P / 2 ^ (N - 8) :: out), p2, n2.
      assert (Hbyte : 0 <= P / 2 ^ (N - 8) < 2 ^ 8).
      { apply div_pow2_bound; try lia. replace (8 + (N - 8)) with N by lia. lia. }
      change (2 ^ 8) with 256 in Hbyte.
      split; [reflexivity |]. split; [lia |]. split; [lia |].
      split; [constructor; [lia | exact Hout] |]. split; [rewrite zlen_cons; lia |].
      cbn [bv]. pose proof (zlen_nonneg _ out).
      rewrite Z.mul_add_distr_r, <- Z.mul_assoc, <- pow2_split by lia.
      rewrite Hlen, <- Z.add_assoc, Hval. rewrite Z.mul_comm. symmetry. apply Z.div_mod.
      pose proof (pow2_pos (N - 8)); lia.
    + exists [], P, N. cbn [bv]. rewrite zlen_nil.
      split; [reflexivity |]. split; [lia |]. split; [lia |]. split; [constructor |]. split; lia.
Qed.

Lemma pack_bits_cons : forall w d r bits n, pack_bits w (d :: r) bits n =
  let '(out, bits2, nbits2) := flush_bytes 4 (Z.lor bits (u32 (twos_comp d w * 2 ^ (32 - w - n)))) (n + w) in
  out ++ pack_bits w r bits2 nbits2.
Proof. reflexivity. Qed.

(* the bytes PackBits writes, from a state with n pending bits p, are the number
   "p, then the w-bit values, then pad zero bits" *)
Lemma pack_bits_spec : forall w, 1 <= w <= 24 -> forall ds p n,
  Forall (inr w) ds -> 0 <= n < 8 -> 0 <= p < 2 ^ n ->
  exists pad, 0 <= pad < 8 /\
    bytes_ok (pack_bits w ds (p * 2 ^ (32 - n)) n) /\
    8 * zlen (pack_bits w ds (p * 2 ^ (32 - n)) n) = n + w * zlen ds + pad /\
    bv (pack_bits w ds (p * 2 ^ (32 - n)) n) = (p * 2 ^ (w * zlen ds) + cv w ds) * 2 ^ pad.
Proof.
  intros w Hw. induction ds as [| d r IH]; intros p n Hds Hn Hp.
  - cbn [pack_bits cv]. rewrite zlen_nil, Z.mul_0_r.
    destruct (Z.ltb_spec 0 n) as [Hpos | Hz].
    + exists (8 - n).
      assert (Eb : p * 2 ^ (32 - n) / 2 ^ 24 = p * 2 ^ (8 - n)).
      { replace (32 - n) with ((8 - n) + 24) by lia. rewrite pow2_split by lia. rewrite Z.mul_assoc.
        apply Z.div_mul. pose proof (pow2_pos 24); lia. }
      rewrite Eb.
      pose proof (hi_lo_bound p 0 n (8 - n) ltac:(lia) ltac:(lia) Hp ltac:(pose proof (pow2_pos (8 - n)); lia)) as Hb.
      replace (n + (8 - n)) with 8 in Hb by lia. change (2 ^ 8) with 256 in Hb.
      split; [lia |]. split; [constructor; [lia | constructor] |].
      split; [rewrite zlen_cons, zlen_nil; lia |].
      cbn [bv]. rewrite zlen_nil. change (2 ^ (8 * 0)) with 1. change (2 ^ 0) with 1. ring.
    + assert (n = 0) by lia. subst n. change (2 ^ 0) with 1 in Hp. assert (p = 0) by lia. subst p.
      exists 0. split; [lia |]. split; [constructor |]. rewrite zlen_nil. cbn [bv].
      split; [lia |]. change (2 ^ 0) with 1. lia.
  - inversion Hds as [| ? ? Hd Hr]; subst.
    rewrite pack_bits_cons. rewrite twos_comp_mod by (auto; lia).
    set (tc := d mod 2 ^ w). assert (Htc : 0 <= tc < 2 ^ w) by (apply mod_pow2_bound; lia).
    assert (E1 : Z.lor (p * 2 ^ (32 - n)) (u32 (tc * 2 ^ (32 - w - n))) = (p * 2 ^ w + tc) * 2 ^ (32 - (n + w))).
    { pose proof (hi_lo_bound tc 0 w (32 - w - n) ltac:(lia) ltac:(lia) Htc
                    ltac:(pose proof (pow2_pos (32 - w - n)); lia)) as Hb.
      replace (w + (32 - w - n)) with (32 - n) in Hb by lia.
      pose proof (pow2_le (32 - n) 32 ltac:(lia)) as H32.
      unfold u32, W32. rewrite Z.mod_small by lia. rewrite lor_add by lia.
      replace (32 - w - n) with (32 - (n + w)) by lia.
      replace (2 ^ (32 - n)) with (2 ^ (w + (32 - (n + w)))) by (f_equal; lia).
      rewrite pow2_split by lia. ring. }
    rewrite E1.
    pose proof (hi_lo_bound p tc n w ltac:(lia) ltac:(lia) Hp Htc) as HP1.
    destruct (flush_bytes_spec 4 (p * 2 ^ w + tc) (n + w)) as (out & p2 & n2 & E & Hn2 & Hp2 & Hout & Hlen & Hval);
      [lia | exact HP1 | cbn; lia |].
    rewrite E. cbv beta iota.
    destruct (IH p2 n2 Hr Hn2 Hp2) as (pad & Hpad & Hok & Hl & Hv).
    exists pad. split; [exact Hpad |]. split; [apply Forall_app; split; assumption |]. split.
    + rewrite zlen_app, zlen_cons. lia.
    + rewrite bv_app, Hv, Hl. cbn [cv]. fold tc. rewrite zlen_cons.
      pose proof (zlen_nonneg _ r).
      replace (n2 + w * zlen r + pad) with (n2 + (w * zlen r + pad)) by lia.
      replace (w * (zlen r + 1)) with (w + w * zlen r) by lia.
      rewrite !pow2_split by nia.
      replace (bv out * (2 ^ n2 * (2 ^ (w * zlen r) * 2 ^ pad)))
        with ((bv out * 2 ^ n2) * 2 ^ (w * zlen r) * 2 ^ pad) by ring.
      replace (bv out * 2 ^ n2) with (p * 2 ^ w + tc - p2) by lia. ring.
Qed.

(* ---------- BitUnpacker ---------- *)
(* the unpacker's view of what is left: m register bits (the number q) followed by the input *)
Lemma refill_spec : forall w, 1 <= w <= 24 -> forall fuel input q m,
  0 <= m < w + 8 -> 0 <= q < 2 ^ m -> bytes_ok input ->
  w <= m + 8 * zlen input -> w <= m + 8 * Z.of_nat fuel ->
  exists input' q' m',
    refill fuel w input (q * 2 ^ (32 - m)) m = Some (input', q' * 2 ^ (32 - m'), m') /\
    w <= m' < w + 8 /\ 0 <= q' < 2 ^ m' /\ bytes_ok input' /\
    m' + 8 * zlen input' = m + 8 * zlen input /\
    q' * 2 ^ (8 * zlen input') + bv input' = q * 2 ^ (8 * zlen input) + bv input.
Proof.
  intros w Hw. induction fuel as [| k IH]; intros input q m Hm Hq Hin Hlen Hf.
  - exists input, q, m. cbn [refill].
    split; [reflexivity |]. split; [lia |]. split; [lia |]. split; [exact Hin |]. split; reflexivity.
  - cbn [refill]. destruct (Z.ltb_spec m w) as [Hlt | Hge].
    + destruct input as [| b r].
      * rewrite zlen_nil in Hlen. lia.
      * inversion Hin as [| ? ? Hb Hr]; subst.
        assert (E : Z.lor (q * 2 ^ (32 - m)) (u32 (b * 2 ^ (24 - m))) = (q * 256 + b) * 2 ^ (32 - (m + 8))).
        { pose proof (hi_lo_bound b 0 8 (24 - m) ltac:(lia) ltac:(lia) ltac:(change (2 ^ 8) with 256; lia)
                        ltac:(pose proof (pow2_pos (24 - m)); lia)) as Hbb.
          replace (8 + (24 - m)) with (32 - m) in Hbb by lia.
          pose proof (pow2_le (32 - m) 32 ltac:(lia)) as H32.
          unfold u32, W32. rewrite Z.mod_small by lia. rewrite lor_add by lia.
          replace (32 - (m + 8)) with (24 - m) by lia.
          replace (2 ^ (32 - m)) with (2 ^ (8 + (24 - m))) by (f_equal; lia).
          rewrite pow2_split by lia. change (2 ^ 8) with 256. ring. }
        rewrite E.
        pose proof (hi_lo_bound q b m 8 ltac:(lia) ltac:(lia) Hq ltac:(change (2 ^ 8) with 256; lia)) as Hq1.
        change (2 ^ 8) with 256 in Hq1.
        rewrite zlen_cons in Hlen.
        destruct (IH r (q * 256 + b) (m + 8)) as (in' & q' & m' & Er & Hm' & Hq' & Hin' & Hl' & Hv');
          [lia | exact Hq1 | exact Hr | lia | lia |].
        exists in', q', m'. rewrite Er.
        split; [reflexivity |]. split; [lia |]. split; [lia |]. split; [exact Hin' |].
        split; [rewrite zlen_cons; lia |].
        rewrite Hv'. cbn [bv]. rewrite zlen_cons. pose proof (zlen_nonneg _ r).
        replace (8 * (zlen r + 1)) with (8 + 8 * zlen r) by lia.
        rewrite pow2_split by lia. change (2 ^ 8) with 256. ring.
    + exists input, q, m.
      split; [reflexivity |]. split; [lia |]. split; [lia |]. split; [exact Hin |]. split; reflexivity.
Qed.

Lemma unpack_cons : forall k w input bits nbits, unpack (S k) w input bits nbits =
  match refill 4 w input bits nbits with
  | None => None
  | Some (input', bits', nbits') =>
    match unpack k w input' (u32 (bits' * 2 ^ w)) (nbits' - w) with
    | Some vs => Some (twos_uncomp (bits' / 2 ^ (32 - w)) w :: vs)
    | None => None
    end
  end.
Proof. reflexivity. Qed.

(* if what is left for the unpacker reads "the w-bit values of ds, then pad more bits", it
   returns ds *)
Lemma unpack_spec : forall w, 1 <= w <= 24 -> forall ds input q m pad junk,
  Forall (inr w) ds -> 0 <= m < w + 8 -> 0 <= q < 2 ^ m -> bytes_ok input ->
  0 <= pad -> 0 <= junk < 2 ^ pad ->
  m + 8 * zlen input = w * zlen ds + pad ->
  q * 2 ^ (8 * zlen input) + bv input = cv w ds * 2 ^ pad + junk ->
  unpack (length ds) w input (q * 2 ^ (32 - m)) m = Some ds.
Proof.
  intros w Hw. induction ds as [| d r IH]; intros input q m pad junk Hds Hm Hq Hin Hpad Hjunk Hlen Hval.
  - reflexivity.
  - inversion Hds as [| ? ? Hd Hr]; subst. cbn [length]. rewrite unpack_cons.
    rewrite zlen_cons in Hlen. pose proof (zlen_nonneg _ r) as Hzr.
    destruct (refill_spec w Hw 4 input q m) as (in' & q' & m' & Er & Hm' & Hq' & Hin' & Hl' & Hv');
      [lia | exact Hq | exact Hin | nia | cbn; lia |].
    rewrite Er.
    assert (Ev : q' * 2 ^ (32 - m') / 2 ^ (32 - w) = q' / 2 ^ (m' - w)).
    { replace (32 - w) with ((m' - w) + (32 - m')) by lia. apply shl_div; lia. }
    assert (Eb : u32 (q' * 2 ^ (32 - m') * 2 ^ w) = (q' mod 2 ^ (m' - w)) * 2 ^ (32 - (m' - w))).
    { unfold u32, W32. rewrite <- Z.mul_assoc, <- pow2_split by lia.
      replace (32 - m' + w) with (32 - (m' - w)) by lia.
      replace (2 ^ 32) with (2 ^ ((m' - w) + (32 - (m' - w)))) by (f_equal; lia).
      apply shl_mod; lia. }
    rewrite Ev, Eb.
    pose proof (zlen_nonneg _ in') as Hzi.
    set (vq := q' / 2 ^ (m' - w)) in *. set (rq := q' mod 2 ^ (m' - w)) in *.
    assert (Hrq : 0 <= rq < 2 ^ (m' - w)) by (apply mod_pow2_bound; lia).
    assert (Eq' : q' = vq * 2 ^ (m' - w) + rq).
    { unfold vq, rq. rewrite Z.mul_comm. apply Z.div_mod. pose proof (pow2_pos (m' - w)); lia. }
    pose proof (bv_bound in' Hin') as Hbi.
    pose proof (cv_bound w r ltac:(lia)) as Hcr.
    assert (HT : (m' - w) + 8 * zlen in' = w * zlen r + pad) by lia.
    pose proof (hi_lo_bound rq (bv in') (m' - w) (8 * zlen in') ltac:(lia) ltac:(lia) Hrq Hbi) as HL.
    pose proof (hi_lo_bound (cv w r) junk (w * zlen r) pad ltac:(nia) Hpad Hcr Hjunk) as HR.
    rewrite HT in HL.
    assert (EE : vq * 2 ^ (w * zlen r + pad) + (rq * 2 ^ (8 * zlen in') + bv in')
                 = (d mod 2 ^ w) * 2 ^ (w * zlen r + pad) + (cv w r * 2 ^ pad + junk)).
    { rewrite <- HT at 1. rewrite pow2_split by lia.
      transitivity (q' * 2 ^ (8 * zlen in') + bv in'); [rewrite Eq'; ring |].
      rewrite Hv', Hval. cbn [cv]. rewrite pow2_split by nia. ring. }
    destruct (hi_lo_unique _ _ _ _ _ HL HR EE) as [Evq Erest].
    rewrite Evq. rewrite twos_uncomp_mod by (auto; lia).
    rewrite (IH in' rq (m' - w) pad junk Hr ltac:(lia) Hrq Hin' Hpad Hjunk ltac:(lia) Erest).
    reflexivity.
Qed.

(* ---------- the bit-packing round trip ---------- *)
Theorem unpack_pack_bits : forall w ds, 1 <= w <= 24 -> Forall (inr w) ds ->
  unpack (length ds) w (pack_bits w ds 0 0) 0 0 = Some ds.
Proof.
  intros w ds Hw Hds.
  destruct (pack_bits_spec w Hw ds 0 0 Hds ltac:(lia) ltac:(change (2 ^ 0) with 1; lia))
    as (pad & Hpad & Hok & Hl & Hv).
  change (0 * 2 ^ (32 - 0)) with 0 in *.
  change 0 with (0 * 2 ^ (32 - 0)) at 3.
  apply (unpack_spec w Hw ds _ 0 0 pad 0); try assumption; lia.
Qed.
