(* C16 on the interleaving model. *)
From Coq Require Import List ZArith Bool Arith Lia.
From TR Require Import model.Concurrent.
Import ListNotations.
Open Scope Z_scope.

(* ------------------------------------------------------------------------------------------ *)
(* list facts *)

Lemma upd_nth_length {A} : forall (l : list A) n v, length (upd_nth l n v) = length l.
Proof. induction l as [|h t IH]; intros [|n] v; simpl; auto. Qed.

Lemma nth_upd_same {A} : forall (l : list A) n v d,
    (n < length l)%nat -> nth n (upd_nth l n v) d = v.
Proof.
  induction l as [|h t IH]; intros [|n] v d H; simpl in *; try lia; auto.
  apply IH; lia.
Qed.

Lemma nth_upd_other {A} : forall (l : list A) n m v d,
    n <> m -> nth m (upd_nth l n v) d = nth m l d.
Proof.
  induction l as [|h t IH]; intros [|n] [|m] v d H; simpl; auto; try congruence;
    try (apply IH; congruence).
Qed.

Lemma firstn_upd_S : forall (l : list Z) p v,
    (p < length l)%nat -> firstn p l = repeat v p ->
    firstn (S p) (upd_nth l p v) = repeat v (S p).
Proof.
  induction l as [|h t IH]; intros p v Hl Hf.
  - simpl in Hl; lia.
  - destruct p as [|p].
    + reflexivity.
    + rewrite firstn_cons in Hf. change (repeat v (S p)) with (v :: repeat v p) in Hf.
      injection Hf as Hh Ht.
      change (upd_nth (h :: t) (S p) v) with (h :: upd_nth t p v). rewrite firstn_cons.
      change (repeat v (S (S p))) with (v :: repeat v (S p)). subst h. f_equal.
      apply IH; [simpl in Hl; lia | exact Ht].
Qed.

Lemma upd_last : forall (l : list Z) p v,
    length l = S p -> firstn p l = repeat v p -> upd_nth l p v = repeat v (S p).
Proof.
  intros l p v Hl Hf.
  rewrite <- (firstn_all (upd_nth l p v)). rewrite upd_nth_length, Hl.
  apply firstn_upd_S; [lia | exact Hf].
Qed.

Lemma nth_repeat_lt {A} (v d : A) : forall n p, (p < n)%nat -> nth p (repeat v n) d = v.
Proof. induction n; intros [|p] H; simpl; try lia; auto. apply IHn; lia. Qed.

Lemma repeat_snoc {A} (v : A) n : repeat v n ++ [v] = repeat v (S n).
Proof. induction n; simpl; auto. f_equal. exact IHn. Qed.

(* ------------------------------------------------------------------------------------------ *)
(* index arithmetic *)

Definition pz (c n : Z) : Z := (c - 1 + n) mod n.

Lemma prev_eq c n : 0 <= c < n -> (c - 1 + n) mod n = if c =? 0 then n - 1 else c - 1.
Proof.
  intros H. destruct (Z.eqb_spec c 0) as [e|e].
  - subst c. rewrite Z.mod_small by lia. lia.
  - replace (c - 1 + n) with (c - 1 + 1 * n) by lia. rewrite Z.mod_add by lia.
    apply Z.mod_small. lia.
Qed.

Lemma next_eq c n : 0 <= c < n -> (c + 1) mod n = if c + 1 =? n then 0 else c + 1.
Proof.
  intros H. destruct (Z.eqb_spec (c + 1) n) as [e|e].
  - rewrite e. apply Z_mod_same_full.
  - apply Z.mod_small. lia.
Qed.

Lemma pz_range c n : 0 <= c < n -> 0 <= pz c n < n.
Proof. intros H. unfold pz. rewrite prev_eq by lia. destruct (Z.eqb_spec c 0); lia. Qed.

Lemma pz_neq c n : 2 <= n -> 0 <= c < n -> pz c n <> c.
Proof. intros H2 H. unfold pz. rewrite prev_eq by lia. destruct (Z.eqb_spec c 0); lia. Qed.

Lemma next_range c n : 0 <= c < n -> 0 <= (c + 1) mod n < n.
Proof. intros H. rewrite next_eq by lia. destruct (Z.eqb_spec (c + 1) n); lia. Qed.

Lemma pz_next c n : 0 <= c < n -> pz ((c + 1) mod n) n = c.
Proof.
  intros H. unfold pz. rewrite next_eq by lia.
  destruct (Z.eqb_spec (c + 1) n); rewrite prev_eq by lia.
  - rewrite Z.eqb_refl. lia.
  - destruct (Z.eqb_spec (c + 1) 0); lia.
Qed.

(* ------------------------------------------------------------------------------------------ *)
(* slots *)

Definition sl (slots : list (list Z)) (i : Z) : list Z := nth (Z.to_nat i) slots [].

Lemma sl_upd_same slots i l :
  0 <= i -> (Z.to_nat i < length slots)%nat -> sl (upd_nth slots (Z.to_nat i) l) i = l.
Proof. intros _ H. unfold sl. apply nth_upd_same; exact H. Qed.

Lemma sl_upd_other slots i j l :
  0 <= i -> 0 <= j -> i <> j -> sl (upd_nth slots (Z.to_nat i) l) j = sl slots j.
Proof. intros Hi Hj Hn. unfold sl. apply nth_upd_other. lia. Qed.

(* ------------------------------------------------------------------------------------------ *)
(* the invariant *)

Definition lholds (pc : loop_pc) : Prop :=
  match pc with LAdvance | LUnlock => True | _ => False end.
Definition rholds (pc : req_pc) : Prop :=
  match pc with RCopy _ _ _ _ | RUnlock _ _ => True | _ => False end.

Definition lock_ok (l : option tid) (lpc : loop_pc) (rpc : req_pc) : Prop :=
  match l with
  | None => ~ lholds lpc /\ ~ rholds rpc
  | Some TLoop => lholds lpc /\ ~ rholds rpc
  | Some TReq => ~ lholds lpc /\ rholds rpc
  end.

Definition ring_ok (size : Z) (npix : nat) (slots : list (list Z)) (cur done : Z)
           (lpc : loop_pc) : Prop :=
  match lpc with
  | LWrite p => (p < npix)%nat /\ firstn p (sl slots cur) = repeat (done + 1) p /\
                (1 <= done -> sl slots (pz cur size) = repeat done npix)
  | LWantLock => sl slots cur = repeat (done + 1) npix /\
                 (1 <= done -> sl slots (pz cur size) = repeat done npix)
  | LAdvance => sl slots cur = repeat (done + 1) npix
  | LUnlock => sl slots (pz cur size) = repeat (done + 1) npix
  end.

Definition req_ok (size : Z) (npix : nat) (cur done : Z) (rpc : req_pc) : Prop :=
  match rpc with
  | RIdle => True
  | RWantLock a => a <= done
  | RCopy a idx p acc => idx = pz cur size /\ a <= done /\ (p < npix)%nat /\
                         (1 <= a -> acc = repeat done p)
  | RUnlock a acc => a <= done /\ (1 <= a -> acc = repeat done npix)
  | RDone a b r => a <= b /\ (1 <= a -> exists j, a <= j <= b /\ r = repeat j npix)
  end.

Definition Inv (size : Z) (npix : nat) (s : cstate) : Prop :=
  cs_size s = size /\ cs_npix s = npix /\ 0 <= cs_cur s < size /\
  length (cs_slots s) = Z.to_nat size /\
  (forall i, 0 <= i < size -> length (sl (cs_slots s) i) = npix) /\
  cs_frame s = cs_done s + 1 /\ 0 <= cs_done s /\
  lock_ok (cs_lock s) (cs_lpc s) (cs_rpc s) /\
  ring_ok size npix (cs_slots s) (cs_cur s) (cs_done s) (cs_lpc s) /\
  req_ok size npix (cs_cur s) (cs_done s) (cs_rpc s).

Ltac proj := cbn [cs_size cs_npix cs_slots cs_cur cs_lock cs_frame cs_done cs_lpc cs_rpc].
Ltac proj_in H :=
  unfold set_pixel, slot in H;
  cbn [cs_size cs_npix cs_slots cs_cur cs_lock cs_frame cs_done cs_lpc cs_rpc] in H.

Ltac inv_split :=
  unfold Inv; proj;
  split; [reflexivity|split; [reflexivity|split; [|split; [|split; [|split; [|split;
    [|split; [|split]]]]]]]].

Ltac lock_tac Ilock lock :=
  revert Ilock; unfold lock_ok; destruct lock as [[|]|]; cbn [lholds rholds]; tauto.

Lemma inv_init size npix : 2 <= size -> (1 <= npix)%nat -> Inv size npix (cs_init size npix).
Proof.
  intros Hsz Hnp. unfold cs_init. inv_split.
  - lia.
  - apply repeat_length.
  - intros i Hi. unfold sl. rewrite nth_repeat_lt by lia. apply repeat_length.
  - reflexivity.
  - lia.
  - unfold lock_ok, lholds, rholds. tauto.
  - unfold ring_ok. split; [lia|]. split; [reflexivity|]. intros; lia.
  - exact I.
Qed.

Lemma inv_step size npix s t s' :
  2 <= size -> (1 <= npix)%nat -> Inv size npix s -> cstep s t = Some s' -> Inv size npix s'.
Proof.
  intros Hsz Hnp HI Hst.
  destruct s as [sz np slots cur lock frame done lpc rpc].
  unfold Inv in HI. proj_in HI.
  destruct HI as (Isz & Inp & Icur & Ilen & Islen & Ifr & Idone & Ilock & Iring & Ireq).
  subst sz np frame.
  unfold cstep in Hst. proj_in Hst.
  destruct t.
  - (* the frame loop moves *)
    destruct lpc as [p| | |].
    + (* LWrite p *)
      destruct Iring as (Hp & Hf & Hprev).
      assert (Hcl : length (sl slots cur) = npix) by (apply Islen; lia).
      pose proof (pz_range cur size Icur) as Hpr.
      pose proof (pz_neq cur size Hsz Icur) as Hpn.
      change (nth (Z.to_nat cur) slots []) with (sl slots cur) in Hst.
      destruct (Nat.ltb_spec (S p) npix) as [Hlt|Hge];
        injection Hst as <-; inv_split;
        try assumption; try reflexivity;
        try (rewrite upd_nth_length; assumption);
        try (lock_tac Ilock lock).
      * intros i Hi. destruct (Z.eq_dec i cur) as [->|Hne].
        -- rewrite sl_upd_same by lia. rewrite upd_nth_length. exact Hcl.
        -- rewrite sl_upd_other by lia. apply Islen; lia.
      * unfold ring_ok. split; [lia|]. split.
        -- rewrite sl_upd_same by lia. apply firstn_upd_S; [lia | exact Hf].
        -- intros Hd. rewrite sl_upd_other by lia. auto.
      * intros i Hi. destruct (Z.eq_dec i cur) as [->|Hne].
        -- rewrite sl_upd_same by lia. rewrite upd_nth_length. exact Hcl.
        -- rewrite sl_upd_other by lia. apply Islen; lia.
      * unfold ring_ok. split.
        -- rewrite sl_upd_same by lia. assert (E : npix = S p) by lia. rewrite E.
           apply upd_last; [lia | exact Hf].
        -- intros Hd. rewrite sl_upd_other by lia. auto.
    + (* LWantLock *)
      destruct lock as [o|]; [discriminate|].
      injection Hst as <-; inv_split; try assumption; try reflexivity.
      * revert Ilock; unfold lock_ok; cbn [lholds rholds]; tauto.
      * exact (proj1 Iring).
    + (* LAdvance *)
      injection Hst as <-; inv_split; try assumption; try reflexivity.
      * apply next_range; exact Icur.
      * unfold ring_ok. rewrite pz_next by exact Icur. exact Iring.
      * destruct rpc; try exact Ireq; exfalso; lock_tac Ilock lock.
    + (* LUnlock *)
      injection Hst as <-; inv_split; try assumption; try reflexivity;
        try (lock_tac Ilock lock).
      * lia.
      * unfold ring_ok. split; [lia|]. split; [reflexivity|]. intros _. exact Iring.
      * destruct rpc; try exact Ireq; try (exfalso; lock_tac Ilock lock).
        unfold req_ok in *. lia.
  - (* the requester moves *)
    destruct rpc as [|a|a idx p acc|a acc|a b r].
    + (* RIdle *)
      injection Hst as <-; inv_split; try assumption; try reflexivity;
        try (lock_tac Ilock lock).
      * unfold req_ok. lia.
    + (* RWantLock *)
      destruct lock as [o|]; [discriminate|].
      injection Hst as <-; inv_split; try assumption; try reflexivity.
      * revert Ilock; unfold lock_ok; cbn [lholds rholds]; tauto.
      * unfold req_ok. split; [reflexivity|]. split; [exact Ireq|]. split; [lia|].
        intros _; reflexivity.
    + (* RCopy *)
      destruct Ireq as (Hidx & Ha & Hp & Hacc).
      assert (Hslot : 1 <= a -> nth (Z.to_nat idx) slots [] = repeat done npix).
      { intros H1. subst idx. change (sl slots (pz cur size) = repeat done npix).
        destruct lpc as [q| | |].
        - destruct Iring as (_ & _ & Hr). apply Hr; lia.
        - destruct Iring as (_ & Hr). apply Hr; lia.
        - exfalso; lock_tac Ilock lock.
        - exfalso; lock_tac Ilock lock. }
      destruct (Nat.ltb_spec (S p) npix) as [Hlt|Hge];
        injection Hst as <-; inv_split; try assumption; try reflexivity;
        try (lock_tac Ilock lock).
      * unfold req_ok. split; [exact Hidx|]. split; [exact Ha|]. split; [lia|].
        intros H1. rewrite Hacc, Hslot by exact H1. rewrite nth_repeat_lt by lia.
        apply repeat_snoc.
      * unfold req_ok. split; [exact Ha|].
        intros H1. rewrite Hacc, Hslot by exact H1. rewrite nth_repeat_lt by lia.
        rewrite repeat_snoc. f_equal. lia.
    + (* RUnlock *)
      destruct Ireq as (Ha & Hacc).
      injection Hst as <-; inv_split; try assumption; try reflexivity;
        try (lock_tac Ilock lock).
      * unfold req_ok. split; [exact Ha|]. intros H1. exists done. split; [lia|]. auto.
    + discriminate.
Qed.

Lemma crun_inv size npix : 2 <= size -> (1 <= npix)%nat ->
  forall sched s, Inv size npix s -> Inv size npix (crun s sched).
Proof.
  intros Hsz Hnp. induction sched as [|t r IH]; intros s HI; cbn [crun].
  - exact HI.
  - destruct (cstep s t) as [s1|] eqn:E.
    + apply IH. eapply inv_step; eauto.
    + apply IH. exact HI.
Qed.

(* For every interleaving (every schedule), every ring capacity >= 2 and every frame size, a
   snapshot requested after at least one frame has been processed returns, pixel for pixel,
   ONE whole frame j - no mixture - with
      (frames completed when the request was made) <= j <= (frames completed when it returned). *)
Theorem whole_frame : forall size npix sched a b r,
    2 <= size -> (1 <= npix)%nat ->
    cs_rpc (crun (cs_init size npix) sched) = RDone a b r ->
    1 <= a ->
    exists j, a <= j <= b /\ r = repeat j npix.
Proof.
  intros size npix sched a b r Hsz Hnp Hr Ha.
  pose proof (crun_inv size npix Hsz Hnp sched _ (inv_init size npix Hsz Hnp)) as HI.
  destruct HI as (_ & _ & _ & _ & _ & _ & _ & _ & _ & Ireq).
  rewrite Hr in Ireq. unfold req_ok in Ireq. apply Ireq. exact Ha.
Qed.

(* A request never corrupts or stalls the pipeline: whatever the requester does, the frame
   loop's state is exactly the state it reaches alone after the same number of its own steps
   (the requester only ever delays it, by at most one copy: npix + 2 steps). *)
Definition loop_view (s : cstate) := (cs_slots s, cs_cur s, cs_frame s, cs_done s, cs_lpc s).

(* the lock as seen by the loop running alone: held exactly inside Move() *)
Definition lock_alone (pc : loop_pc) : option tid :=
  match pc with LAdvance | LUnlock => Some TLoop | _ => None end.

Definition sim (s s' : cstate) : Prop :=
  cs_size s = cs_size s' /\ cs_npix s = cs_npix s' /\ loop_view s = loop_view s' /\
  cs_lock s' = lock_alone (cs_lpc s').

Lemma sim_req s s1 s' : sim s s' -> cstep s TReq = Some s1 -> sim s1 s'.
Proof.
  unfold sim, loop_view. intros (H1 & H2 & H3 & H4) Hst.
  destruct s as [sz np slots cur lock frame done lpc rpc].
  unfold cstep in Hst. proj_in Hst. proj_in H1. proj_in H2. proj_in H3.
  destruct rpc; try destruct lock; try discriminate; injection Hst as <-; proj; auto.
Qed.

Lemma sim_loop s s1 s' :
  sim s s' -> cstep s TLoop = Some s1 -> exists s1', cstep s' TLoop = Some s1' /\ sim s1 s1'.
Proof.
  unfold sim, loop_view. intros (H1 & H2 & H3 & H4) Hst.
  destruct s as [sz np slots cur lock frame done lpc rpc].
  destruct s' as [sz' np' slots' cur' lock' frame' done' lpc' rpc'].
  proj_in H1. proj_in H2. proj_in H3. proj_in H4.
  inversion H3; subst; clear H3.
  unfold cstep in *. proj_in Hst. unfold set_pixel, slot. proj.
  destruct lpc' as [p| | |]; cbn [lock_alone] in *.
  - injection Hst as <-. eexists; split; [reflexivity|]. proj.
    repeat (split; [reflexivity|]). destruct (Nat.ltb (S p) np'); reflexivity.
  - destruct lock; [discriminate|]. injection Hst as <-.
    eexists; split; [reflexivity|]. proj. repeat (split; [reflexivity|]). reflexivity.
  - injection Hst as <-. eexists; split; [reflexivity|]. proj.
    repeat (split; [reflexivity|]). reflexivity.
  - injection Hst as <-. eexists; split; [reflexivity|]. proj.
    repeat (split; [reflexivity|]). reflexivity.
Qed.

Lemma sim_run : forall sched s s',
    sim s s' -> loop_view (crun s sched) = loop_view (loop_only s' (loop_steps s sched)).
Proof.
  induction sched as [|t r IH]; intros s s' Hs; cbn [crun loop_steps].
  - cbn [loop_only]. apply Hs.
  - destruct (cstep s t) as [s1|] eqn:E.
    + destruct t.
      * destruct (sim_loop _ _ _ Hs E) as (s1' & E' & Hs'). cbn [loop_only]. rewrite E'.
        apply IH; exact Hs'.
      * apply IH. eapply sim_req; eauto.
    + apply IH; exact Hs.
Qed.

Theorem loop_unaffected : forall size npix sched,
    1 <= size -> (1 <= npix)%nat ->
    let s := crun (cs_init size npix) sched in
    exists n, loop_view s = loop_view (loop_only (cs_init size npix) n).
Proof.
  intros size npix sched Hsz Hnp s. subst s.
  exists (loop_steps (cs_init size npix) sched). apply sim_run.
  unfold sim. repeat (split; [reflexivity|]). reflexivity.
Qed.

Lemma req_copy_releases : forall n s a idx p acc,
    cs_rpc s = RCopy a idx p acc -> (1 <= n)%nat -> (p + n = cs_npix s)%nat ->
    cs_lock (crun s (repeat TReq (S n))) = None.
Proof.
  induction n as [|n IH]; intros s a idx p acc Hr Hn Hp; [lia|].
  destruct s as [sz np slots cur lock frame done lpc rpc].
  proj_in Hr. proj_in Hp. subst rpc.
  change (repeat TReq (S (S n))) with (TReq :: repeat TReq (S n)).
  cbn [crun]. unfold cstep at 1. proj.
  destruct (Nat.ltb_spec (S p) np) as [Hlt|Hge].
  - destruct n as [|n]; [lia|].
    eapply IH; [proj; reflexivity | lia | proj; lia].
  - destruct n as [|n]; [|lia].
    reflexivity.
Qed.

(* the requester holds the ring mutex for exactly npix + 1 of its own steps: from any state in
   which it holds the lock, npix + 1 requester steps release it *)
Theorem requester_releases : forall s a idx acc,
    cs_rpc s = RCopy a idx 0 acc -> cs_lock s = Some TReq -> (1 <= cs_npix s)%nat ->
    cs_lock (crun s (repeat TReq (S (cs_npix s)))) = None.
Proof.
  intros s a idx acc Hr _ Hnp.
  apply (req_copy_releases (cs_npix s) s a idx 0%nat acc Hr Hnp). reflexivity.
Qed.

(* KNOWN FINDINGS, as refutations of the unguarded statements.
   Capacity 1 (preview-secs = 0 with trigger-frames = 1): "previous" and "current" are the same
   slot, so the copy can mix two frames. *)
Theorem whole_frame_size1_refuted :
  exists sched a b r,
    cs_rpc (crun (cs_init 1 2) sched) = RDone a b r /\ 1 <= a /\
    ~ exists j, r = repeat j 2.
Proof.
  exists [TLoop; TLoop; TLoop; TLoop; TLoop; TReq; TReq; TReq; TLoop; TLoop; TReq; TReq].
  eexists. eexists. eexists. split; [vm_compute; reflexivity|]. split; [lia|].
  intros [j Hj]. vm_compute in Hj. injection Hj as H1 H2. lia.
Qed.

(* A request served before the first frame has been processed returns the never-written last
   slot (all zeros), not a received frame. *)
Theorem early_request_blank :
  exists sched b r,
    cs_rpc (crun (cs_init 3 2) sched) = RDone 0 b r /\ r = [0; 0].
Proof.
  exists [TReq; TReq; TReq; TReq; TReq]. eexists. eexists. split; vm_compute; reflexivity.
Qed.

(* data-race clause: the variables with a conflicting pair of accesses not ordered by a common
   mutex, decided over the access table: CurrentFrame, StartSnapshot, processor, headerInfo -
   and NOT the ring index / slots *)
Theorem racy_variables : racy_vars = [2; 3; 4; 5]%nat.
Proof. vm_compute. reflexivity. Qed.
