(* C16 on the interleaving model. *)
From Coq Require Import List ZArith Bool Arith Lia.
From TR Require Import model.Concurrent.
Import ListNotations.
Open Scope Z_scope.

(* For every interleaving (every schedule), every ring capacity >= 2 and every frame size, a
   snapshot requested after at least one frame has been processed returns, pixel for pixel,
   ONE whole frame j - no mixture - with
      (frames completed when the request was made) <= j <= (frames completed when it returned). *)
Theorem whole_frame : forall size npix sched a b r,
    2 <= size -> (1 <= npix)%nat ->
    cs_rpc (crun (cs_init size npix) sched) = RDone a b r ->
    1 <= a ->
    exists j, a <= j <= b /\ r = repeat j npix.
Admitted.

(* A request never corrupts or stalls the pipeline: whatever the requester does, the frame
   loop's state is exactly the state it reaches alone after the same number of its own steps
   (the requester only ever delays it, by at most one copy: npix + 2 steps). *)
Definition loop_view (s : cstate) := (cs_slots s, cs_cur s, cs_frame s, cs_done s, cs_lpc s).

Theorem loop_unaffected : forall size npix sched,
    1 <= size -> (1 <= npix)%nat ->
    let s := crun (cs_init size npix) sched in
    exists n, loop_view s = loop_view (loop_only (cs_init size npix) n).
Admitted.

(* the requester holds the ring mutex for exactly npix + 1 of its own steps: from any state in
   which it holds the lock, npix + 1 requester steps release it *)
Theorem requester_releases : forall s a idx acc,
    cs_rpc s = RCopy a idx 0 acc -> cs_lock s = Some TReq -> (1 <= cs_npix s)%nat ->
    cs_lock (crun s (repeat TReq (S (cs_npix s)))) = None.
Admitted.

(* KNOWN FINDINGS, as refutations of the unguarded statements.
   Capacity 1 (preview-secs = 0 with trigger-frames = 1): "previous" and "current" are the same
   slot, so the copy can mix two frames. *)
Theorem whole_frame_size1_refuted :
  exists sched a b r,
    cs_rpc (crun (cs_init 1 2) sched) = RDone a b r /\ 1 <= a /\
    ~ exists j, r = repeat j 2.
Proof.
  exists [TLoop; TLoop; TLoop; TLoop; TLoop; TReq; TReq; TReq; TLoop; TLoop; TReq; TReq].
  eexists. eexists. eexists. split; [vm_compute; reflexivity|]. split; [lia|].
  intros [j Hj]. vm_compute in Hj. injection Hj as H1 H2. lia.
Qed.

(* A request served before the first frame has been processed returns the never-written last
   slot (all zeros), not a received frame. *)
Theorem early_request_blank :
  exists sched b r,
    cs_rpc (crun (cs_init 3 2) sched) = RDone 0 b r /\ r = [0; 0].
Proof.
  exists [TReq; TReq; TReq; TReq; TReq]. eexists. eexists. split; vm_compute; reflexivity.
Qed.

(* data-race clause: the variables with a conflicting pair of accesses not ordered by a common
   mutex, decided over the access table: CurrentFrame, StartSnapshot, processor, headerInfo -
   and NOT the ring index / slots *)
Theorem racy_variables : racy_vars = [2; 3; 4; 5]%nat.
Proof. vm_compute. reflexivity. Qed.
