(* Source tie for motion/motion.go, part 3: updateBackground.

   First what the pieces of the loop bodies do to the background grid (no code), then the
   traversal of the translated function. *)
From Coq Require Import List ZArith Bool String Lia Arith.
From Coq Require Import Floats.SpecFloat.
From TR Require Import model.GoSem model.Ring model.Detector model.DetExt
     translated.FrameLoop translated.MotionDetector proofs.TieDetBase proofs.TieDetLoops.
Import ListNotations.
Open Scope Z_scope.

Lemma near_x_lo c x : cdims c -> (x < d_edge c)%nat -> near_x c x = d_edge c.
Proof. intros [? ?] ?. unfold near_x, clampn. lia. Qed.
Lemma near_x_mid c x : (d_edge c <= x < d_w c - d_edge c)%nat -> near_x c x = x.
Proof. intros ?. unfold near_x, clampn. lia. Qed.
Lemma near_x_hi c x : cdims c -> (d_w c - d_edge c <= x)%nat -> near_x c x = (d_w c - d_edge c - 1)%nat.
Proof. intros [? ?] ?. unfold near_x, clampn. lia. Qed.
Lemma near_y_lo c y : cdims c -> (y < d_edge c)%nat -> near_y c y = d_edge c.
Proof. intros [? ?] ?. unfold near_y, clampn. lia. Qed.
Lemma near_y_mid c y : (d_edge c <= y < d_h c - d_edge c)%nat -> near_y c y = y.
Proof. intros ?. unfold near_y, clampn. lia. Qed.
Lemma near_y_hi c y : cdims c -> (d_h c - d_edge c <= y)%nat -> near_y c y = (d_h c - d_edge c - 1)%nat.
Proof. intros [? ?] ?. unfold near_y, clampn. lia. Qed.
Lemma near_x_int c x : cdims c -> (d_edge c <= near_x c x < d_w c - d_edge c)%nat.
Proof. intros [? ?]. unfold near_x, clampn. lia. Qed.
Lemma near_y_int c y : cdims c -> (d_edge c <= near_y c y < d_h c - d_edge c)%nat.
Proof. intros [? ?]. unfold near_y, clampn. lia. Qed.

(* ====================================================================================
   Grids: border columns of one row, border rows
   ==================================================================================== *)
Section Grids.
  Variable c : dcfg.
  Hypothesis Hd : cdims c.

  (* ---- the border columns of row y are being set to va (left) and vb (right) ---- *)
  Definition colinv (y : nat) (g1 : grid) (va vb : Z) (k : nat) (g : grid) : Prop :=
    tdims (d_h c) (d_w c) g /\
    (forall y' x', y' <> y \/ (d_edge c <= x' < d_w c - d_edge c)%nat -> gget g y' x' = gget g1 y' x') /\
    (forall x', (x' < k)%nat -> gget g y x' = va /\ gget g y (d_w c - d_edge c + x') = vb).

  Lemma colinv_init y g1 va vb : tdims (d_h c) (d_w c) g1 -> colinv y g1 va vb 0 g1.
  Proof. intros D. split; [exact D|]. split; [reflexivity|]. intros x' Hx. lia. Qed.

  Lemma colinv_step y g1 va vb k g : (y < d_h c)%nat -> colinv y g1 va vb k g -> (k < d_edge c)%nat ->
    colinv y g1 va vb (S k) (gset (gset g y k va) y (d_w c - d_edge c + k) vb).
  Proof.
    destruct Hd as [Hw Hh]. intros Hy (D & P1 & P2) Hk.
    assert (D1 : tdims (d_h c) (d_w c) (gset g y k va)) by (apply tdims_gset; exact D).
    split; [apply tdims_gset; exact D1|]. split.
    - intros y' x' Hyx. rewrite !gget_gset_neq by lia. apply P1; exact Hyx.
    - intros x' Hx'. destruct (Nat.eq_dec x' k) as [->|N].
      + split.
        * rewrite gget_gset_neq by lia. apply (gget_gset_eq _ _ _ _ _ _ D); lia.
        * apply (gget_gset_eq _ _ _ _ _ _ D1); lia.
      + rewrite !gget_gset_neq by lia. apply P2. lia.
  Qed.

  (* ---- the border rows are being copied from the first / last interior row ---- *)
  Definition rowinv (g1 : grid) (k : nat) (g : grid) : Prop :=
    tdims (d_h c) (d_w c) g /\
    (forall y', (d_edge c <= y' < d_h c - d_edge c)%nat -> nth y' g [] = nth y' g1 []) /\
    (forall k', (k' < k)%nat -> nth k' g [] = nth (d_edge c) g1 [] /\
                               nth (d_h c - d_edge c + k') g [] = nth (d_h c - d_edge c - 1) g1 []).

  Lemma rowinv_init g1 : tdims (d_h c) (d_w c) g1 -> rowinv g1 0 g1.
  Proof. intros D. split; [exact D|]. split; [reflexivity|]. intros k' Hk. lia. Qed.

  Lemma rowinv_step g1 k g : rowinv g1 k g -> (k < d_edge c)%nat ->
    let ga := lupd g k (copy_row (nth k g []) (nth (d_edge c) g []) 0 (-1) 0 (-1)) in
    rowinv g1 (S k)
      (lupd ga (d_h c - d_edge c + k) (copy_row (nth (d_h c - d_edge c + k) ga []) (nth (d_h c - d_edge c - 1) ga []) 0 (-1) 0 (-1))).
  Proof.
    destruct Hd as [Hw Hh]. intros (D & P1 & P2) Hk ga.
    destruct D as [L R].
    assert (E1 : copy_row (nth k g []) (nth (d_edge c) g []) 0 (-1) 0 (-1) = nth (d_edge c) g1 []).
    { rewrite copy_row_all by (rewrite !R by lia; reflexivity). apply P1. lia. }
    subst ga. rewrite E1.
    set (ga := lupd g k (nth (d_edge c) g1 [])).
    assert (Da : tdims (d_h c) (d_w c) ga).
    { apply tdims_row; [split; assumption|]. rewrite <- (P1 (d_edge c)) by lia. apply R. lia. }
    assert (Ea : forall y', y' <> k -> nth y' ga [] = nth y' g []) by (intros; apply nth_lupd_neq; assumption).
    assert (E2 : copy_row (nth (d_h c - d_edge c + k) ga []) (nth (d_h c - d_edge c - 1) ga []) 0 (-1) 0 (-1)
                 = nth (d_h c - d_edge c - 1) g1 []).
    { destruct Da as [La Ra]. rewrite copy_row_all by (rewrite !Ra by lia; reflexivity).
      rewrite Ea by lia. apply P1. lia. }
    rewrite E2.
    split.
    { apply tdims_row; [exact Da|]. rewrite <- (P1 (d_h c - d_edge c - 1)%nat) by lia. apply R. lia. }
    split.
    - intros y' Hy'. rewrite nth_lupd_neq by lia. rewrite Ea by lia. apply P1; exact Hy'.
    - intros k' Hk'. destruct (Nat.eq_dec k' k) as [->|N].
      + split.
        * rewrite nth_lupd_neq by lia. unfold ga. apply nth_lupd_eq. lia.
        * apply nth_lupd_eq. rewrite (proj1 Da). lia.
      + rewrite !nth_lupd_neq by lia. rewrite !Ea by lia. apply P2. lia.
  Qed.

  Lemma rowinv_end g1 g (F : nat -> nat -> Z) :
    rowinv g1 (d_edge c) g ->
    (forall y' x', (d_edge c <= y' < d_h c - d_edge c)%nat -> (x' < d_w c)%nat -> gget g1 y' x' = F y' (near_x c x')) ->
    g = gbuild (d_h c) (d_w c) (fun y x => F (near_y c y) (near_x c x)).
  Proof.
    intros (D & P1 & P2) HF. apply grid_is_build; [exact D|]. intros y x Hy Hx.
    pose proof Hd as [Hw Hh]. unfold gget.
    destruct (Nat.lt_ge_cases y (d_edge c)) as [Y1|Y1]; [|destruct (Nat.lt_ge_cases y (d_h c - d_edge c)) as [Y2|Y2]].
    - rewrite (proj1 (P2 y Y1)), (near_y_lo c y Hd Y1). apply HF; lia.
    - rewrite P1 by lia. rewrite near_y_mid by lia. apply HF; lia.
    - replace y with (d_h c - d_edge c + (y - (d_h c - d_edge c)))%nat at 1 by lia.
      rewrite (proj2 (P2 (y - (d_h c - d_edge c))%nat ltac:(lia))), (near_y_hi c y Hd Y2). apply HF; lia.
  Qed.

  (* ---- the background grid being swept (non-seeding frames): interior pixels before (y, x)
     are new, the others old; every interior row already started has its border columns equal
     to its first / last interior pixel ---- *)
  Definition bgsw (bgi : nat -> nat -> Z) (bg0 : grid) (y x : nat) (g : grid) : Prop :=
    tdims (d_h c) (d_w c) g /\
    (forall y' x', interior c y' x' = true ->
        gget g y' x' = if donep y x y' x' then bgi y' x' else gget bg0 y' x') /\
    (forall y' x', (d_edge c <= y' < d_h c - d_edge c)%nat -> (x' < d_w c)%nat -> donep y x y' (d_edge c) = true ->
        gget g y' x' = gget g y' (near_x c x')).

  Lemma bgsw_init bgi bg0 : tdims (d_h c) (d_w c) bg0 -> bgsw bgi bg0 (d_edge c) (d_edge c) bg0.
  Proof.
    intros D. split; [exact D|]. split.
    - intros y' x' Ei. apply interior_true in Ei.
      destruct (donep (d_edge c) (d_edge c) y' x') eqn:E1; [|reflexivity]. apply donep_true in E1. lia.
    - intros y' x' Hy' Hx' E1. apply donep_true in E1. lia.
  Qed.

  Lemma bgsw_row bgi bg0 y g : bgsw bgi bg0 y (d_w c - d_edge c) g -> bgsw bgi bg0 (S y) (d_edge c) g.
  Proof.
    destruct Hd as [Hw Hh]. intros (D & P1 & P2). split; [exact D|]. split.
    - intros y' x' Ei. rewrite P1 by exact Ei. apply interior_true in Ei.
      replace (donep (S y) (d_edge c) y' x') with (donep y (d_w c - d_edge c) y' x'); [reflexivity|].
      destruct (donep y (d_w c - d_edge c) y' x') eqn:E1; symmetry;
        [apply donep_true in E1; apply donep_true | apply donep_false in E1; apply donep_false]; lia.
    - intros y' x' Hy' Hx' E1. apply P2; try assumption. apply donep_true in E1. apply donep_true. lia.
  Qed.

  (* one pixel: (y, x) gets its new value (g1), then the border columns of row y are redone (g2) *)
  Lemma bgsw_step bgi bg0 y x g g1 g2 :
    bgsw bgi bg0 y x g -> interior c y x = true ->
    tdims (d_h c) (d_w c) g1 -> gget g1 y x = bgi y x ->
    (forall y' x', (y' <> y \/ x' <> x) -> gget g1 y' x' = gget g y' x') ->
    colinv y g1 (gget g1 y (d_edge c)) (gget g1 y (d_w c - d_edge c - 1)) (d_edge c) g2 ->
    bgsw bgi bg0 y (S x) g2.
  Proof.
    destruct Hd as [Hw Hh]. intros (D & P1 & P2) Ei D1 Ev Eo (D2 & Q1 & Q2).
    pose proof Ei as Ei'. apply interior_true in Ei'.
    split; [exact D2|]. split.
    - intros y' x' Ei2. pose proof Ei2 as Ei2'. apply interior_true in Ei2'.
      rewrite Q1 by lia.
      destruct (Nat.eq_dec y' y) as [->|Ny]; [destruct (Nat.eq_dec x' x) as [->|Nx]|].
      + rewrite Ev. replace (donep y (S x) y x) with true; [reflexivity|]. symmetry; apply donep_true; lia.
      + rewrite Eo by lia. rewrite P1 by exact Ei2.
        replace (donep y (S x) y x') with (donep y x y x'); [reflexivity|].
        destruct (donep y x y x') eqn:E1; symmetry;
          [apply donep_true in E1; apply donep_true | apply donep_false in E1; apply donep_false]; lia.
      + rewrite Eo by lia. rewrite P1 by exact Ei2.
        replace (donep y (S x) y' x') with (donep y x y' x'); [reflexivity|].
        destruct (donep y x y' x') eqn:E1; symmetry;
          [apply donep_true in E1; apply donep_true | apply donep_false in E1; apply donep_false]; lia.
    - intros y' x' Hy' Hx' E1. apply donep_true in E1.
      destruct (Nat.eq_dec y' y) as [->|Ny].
      + (* the row just redone *)
        pose proof (near_x_int c x' Hd) as Hn.
        rewrite (Q1 y (near_x c x')) by lia.
        destruct (Nat.lt_ge_cases x' (d_edge c)) as [X1|X1]; [|destruct (Nat.lt_ge_cases x' (d_w c - d_edge c)) as [X2|X2]].
        * rewrite (proj1 (Q2 x' X1)). rewrite near_x_lo by assumption. reflexivity.
        * rewrite near_x_mid by lia. apply Q1. lia.
        * replace x' with (d_w c - d_edge c + (x' - (d_w c - d_edge c)))%nat at 1 by lia.
          rewrite (proj2 (Q2 (x' - (d_w c - d_edge c))%nat ltac:(lia))). rewrite near_x_hi by assumption. reflexivity.
      + pose proof (near_x_int c x' Hd) as Hn.
        rewrite !Q1 by lia. rewrite !Eo by lia. apply P2; try assumption. apply donep_true. lia.
  Qed.

  Lemma bgsw_end bgi bg0 g y' x' :
    bgsw bgi bg0 (d_h c - d_edge c) (d_edge c) g ->
    (d_edge c <= y' < d_h c - d_edge c)%nat -> (x' < d_w c)%nat -> gget g y' x' = bgi y' (near_x c x').
  Proof.
    destruct Hd as [Hw Hh]. intros (D & P1 & P2) Hy' Hx'.
    pose proof (near_x_int c x' Hd) as Hn.
    rewrite P2 by (try assumption; apply donep_true; lia).
    rewrite P1 by (apply interior_true; lia).
    replace (donep (d_h c - d_edge c) (d_edge c) y' (near_x c x')) with true; [reflexivity|].
    symmetry; apply donep_true; lia.
  Qed.
End Grids.

(* ====================================================================================
   The translated updateBackground
   ==================================================================================== *)
Lemma wts_set_wts w t : dw_wts (set_wts w t) = t. Proof. reflexivity. Qed.
Lemma set_wts_pix_id w h g : set_wts (set_pix w h g) (dw_wts w) = set_pix w h g. Proof. reflexivity. Qed.

Lemma f32_lit_0 : f32_lit "0" = f32_zero. Proof. reflexivity. Qed.
Lemma f32_lit_tenth : f32_lit "0.1" = f32_tenth. Proof. reflexivity. Qed.
Lemma f32_lit_max : f32_lit "math.MaxFloat32" = f32_max_float. Proof. reflexivity. Qed.

Lemma dconf_set_bgframes c d v : dconf c d -> dconf c (motionDetector_set_backgroundFrames v d).
Proof. intros []. split; assumption. Qed.

Lemma set_bgframes_undo d :
  motionDetector_set_backgroundFrames
    (motionDetector_backgroundFrames (motionDetector_set_backgroundFrames (motionDetector_backgroundFrames d - 1) d) + 1)
    (motionDetector_set_backgroundFrames (motionDetector_backgroundFrames d - 1) d) = d.
Proof. destruct d. unfold motionDetector_set_backgroundFrames. cbn. f_equal. lia. Qed.

(* a loop that starts at the literal 0 *)
Ltac run_loop0 I s' w' HI :=
  match goal with
  | |- context [bind (for_range 0 (Z.of_nat ?hi) ?body ?s) ?k ?w] =>
    let E := fresh "E" in
    destruct (for_range_inv I body 0%nat hi s w) as (s' & w' & E & HI);
    [ | | | change (Z.of_nat 0) with 0 in E; rewrite (bind_ok _ k w _ _ E); clear E; cbv beta iota ]
  end.

Section UB.
  Variable c : dcfg.
  Hypothesis Hd : cdims c.
  Variable d : motionDetector.       (* the detector after backgroundFrames++ *)
  Hypothesis Hc : dconf c d.
  Variables (w0 : dworld) (nf : Z) (p : bool).
  Hypothesis Hbg : hin w0 (H_BG c).
  Hypothesis Hnf0 : 0 <= nf.
  Hypothesis Nnf : nf <> H_BG c.
  Hypothesis Dbg : tdims (d_h c) (d_w c) (pixof w0 (H_BG c)).
  Hypothesis Dnew : tdims (d_h c) (d_w c) (pixof w0 nf).
  Hypothesis Dw : tdims (d_h c) (d_w c) (dw_wts w0).
  Hypothesis Ew : forall y x, erange (wget (dw_wts w0) y x).

  (* the model's state and frame, as far as updateBackground looks at them *)
  Variables (s : dstate) (f : frame).
  Hypothesis Es_bg : s_bg s = pixof w0 (H_BG c).
  Hypothesis Es_wts : s_wts s = dw_wts w0.
  Hypothesis Ef : f_pix f = pixof w0 nf.

  Local Notation bg0 := (pixof w0 (H_BG c)).
  Local Notation newg := (pixof w0 nf).
  Local Notation wts0 := (dw_wts w0).

  Lemma Hbg0 : 0 <= H_BG c. Proof. destruct Hbg; assumption. Qed.

  Definition bgi (seed : bool) (y x : nat) : Z :=
    if replaces s f p seed y x then gget (f_pix f) y x else gget (s_bg s) y x.
  Definition astep (seed : bool) (a : f64) (yx : nat * nat) : f64 :=
    f64_add a (f64_div (f64_of_Z (bgi seed (fst yx) (snd yx))) (npix c)).
  Definition avgf (seed : bool) (l : list (nat * nat)) : f64 := fold_left (astep seed) l f64_zero.

  Lemma er_fold seed l : forall a, erange a -> erange (fold_left (astep seed) l a).
  Proof. induction l; cbn [fold_left]; intros a0 Ha; [exact Ha|]. apply IHl. unfold astep. auto with er. Qed.
  Lemma er_avgf seed l : erange (avgf seed l).
  Proof. apply er_fold. exact I. Qed.
  Lemma er_npix : erange (npix c). Proof. unfold npix. auto with er. Qed.

  Lemma avgf_step seed y x : (d_edge c <= x)%nat ->
    avgf seed (ipre c y (S x)) = f64_add (avgf seed (ipre c y x)) (f64_div (f64_of_Z (bgi seed y x)) (npix c)).
  Proof. intros H. unfold avgf. rewrite fold_ipre_step by exact H. reflexivity. Qed.

  (* world normal form: set_wts (set_pix w0 BG g) wt *)
  Ltac wnorm :=
    repeat first
      [ rewrite pixof_set_wts | rewrite (pixof_set_pix_eq w0 (H_BG c) _ Hbg) | rewrite set_pix_set_wts
      | rewrite (set_pix_set_pix w0 (H_BG c) _ _ Hbg) | rewrite set_wts_set_wts | rewrite wts_set_wts
      | rewrite wts_set_pix
      | rewrite (pixof_set_pix_neq w0 (H_BG c) _ nf Hbg0 Hnf0 Nnf) ].

  Ltac znorm := rewrite ?Nat2Z.id, ?to_nat_pred, ?to_nat_add.

  (* ---------- the border rows (common to both branches) ---------- *)
  Definition rinv (g1 : grid) (wt : list (list f32)) (k : nat) (st : motionDetector) (w : dworld) : Prop :=
    st = d /\ exists g, w = set_wts (set_pix w0 (H_BG c) g) wt /\ rowinv c g1 k g.

  Lemma rinv_step g1 wt k g : rowinv c g1 k g -> (k < d_edge c)%nat ->
    let ga := lupd g k (copy_row (nth k g []) (nth (d_edge c) g []) 0 (-1) 0 (-1)) in
    rinv g1 wt (S k) d
      (set_wts (set_pix w0 (H_BG c)
         (lupd ga (d_h c - d_edge c + k) (copy_row (nth (d_h c - d_edge c + k) ga []) (nth (d_h c - d_edge c - 1) ga []) 0 (-1) 0 (-1)))) wt).
  Proof. intros Hr Hk ga. split; [reflexivity|]. eexists. split; [reflexivity|]. apply rowinv_step; assumption. Qed.

  (* runs the border-row loop from the world [set_wts (set_pix w0 BG g1) wt]; leaves the continuation with
     [HR : rinv g1 wt (d_edge c) st w] *)
  Ltac rows_loop g1 wt Hg1 st wr HR :=
    conf Hc; run_loop0 (rinv g1 wt) st wr HR;
    [ lia
    | split; [reflexivity|]; exists g1; split; [reflexivity | apply rowinv_init; exact Hg1]
    | let k := fresh "k" in let Hk := fresh "Hk" in let g := fresh "g" in let Hg := fresh "Hg" in
      intros k ? ? Hk (-> & g & -> & Hg); cbv beta iota; conf Hc; rewrite !c_copyrow; cbv beta;
      wnorm; znorm; wnorm; znorm; rewrite ?bind_ret;
      eexists; eexists; split; [reflexivity|]; apply rinv_step; [exact Hg | lia]
    | ].


  (* ---------- the seeding frame ---------- *)
  Definition seedrows (y : nat) (g : grid) : Prop :=
    tdims (d_h c) (d_w c) g /\
    forall y' x', (d_edge c <= y' < y)%nat -> (x' < d_w c)%nat -> gget g y' x' = gget newg y' (near_x c x').

  Definition sinv (y : nat) (st : motionDetector * Z) (w : dworld) : Prop :=
    st = (d, fenc (avgf true (ipre c y (d_edge c)))) /\
    exists g, w = set_wts (set_pix w0 (H_BG c) g) wts0 /\ seedrows y g.

  Lemma bgi_seed y x : bgi true y x = gget newg y x.
  Proof. unfold bgi, replaces. cbn [orb]. rewrite Ef. reflexivity. Qed.

  (* the interior of row y copied from the new frame *)
  Lemma copyrow_mid_grid g y : tdims (d_h c) (d_w c) g -> (d_edge c <= y < d_h c - d_edge c)%nat ->
    let g1 := lupd g y (copy_row (nth y g []) (nth y newg []) (Z.of_nat (d_edge c)) (Z.of_nat (d_w c - d_edge c))
                                 (Z.of_nat (d_edge c)) (Z.of_nat (d_w c - d_edge c))) in
    tdims (d_h c) (d_w c) g1 /\
    (forall y' x', y' <> y -> gget g1 y' x' = gget g y' x') /\
    (forall x', gget g1 y x' = if (d_edge c <=? x')%nat && (x' <? d_w c - d_edge c)%nat then gget newg y x' else gget g y x').
  Proof.
    destruct Hd as [Hw Hh]. intros D Hy g1.
    destruct D as [L R]. destruct Dnew as [Ln Rn].
    destruct (copy_row_mid (nth y g []) (nth y newg []) (Z.of_nat (d_edge c)) (Z.of_nat (d_w c - d_edge c))) as [CL CN].
    { rewrite R, Rn by lia. reflexivity. } { lia. } { rewrite R by lia. lia. }
    split; [|split].
    - apply tdims_row; [split; assumption|]. rewrite CL. apply R. lia.
    - intros y' x' N. apply gget_row_neq; exact N.
    - intros x'. unfold g1. rewrite gget_row_eq by lia. rewrite CN, !Nat2Z.id. reflexivity.
  Qed.

  Lemma seed_row_done g g1 g2 y : (d_edge c <= y < d_h c - d_edge c)%nat ->
    seedrows y g -> tdims (d_h c) (d_w c) g1 ->
    (forall y' x', y' <> y -> gget g1 y' x' = gget g y' x') ->
    (forall x', gget g1 y x' = if (d_edge c <=? x')%nat && (x' <? d_w c - d_edge c)%nat then gget newg y x' else gget g y x') ->
    colinv c y g1 (gget newg y (d_edge c)) (gget newg y (d_w c - d_edge c - 1)) (d_edge c) g2 ->
    seedrows (S y) g2.
  Proof.
    pose proof Hd as [Hw Hh]. intros Hy (D & P) D1 E1 E2 (D2 & Q1 & Q2). split; [exact D2|].
    intros y' x' Hy' Hx'. destruct (Nat.eq_dec y' y) as [->|N].
    - destruct (Nat.lt_ge_cases x' (d_edge c)) as [X1|X1]; [|destruct (Nat.lt_ge_cases x' (d_w c - d_edge c)) as [X2|X2]].
      + rewrite (proj1 (Q2 x' X1)), near_x_lo by assumption. reflexivity.
      + rewrite Q1 by lia. rewrite E2, near_x_mid by lia.
        destruct (Nat.leb_spec (d_edge c) x'); [|lia]. destruct (Nat.ltb_spec x' (d_w c - d_edge c)); [|lia]. reflexivity.
      + replace x' with (d_w c - d_edge c + (x' - (d_w c - d_edge c)))%nat at 1 by lia.
        rewrite (proj2 (Q2 (x' - (d_w c - d_edge c))%nat ltac:(lia))), near_x_hi by assumption. reflexivity.
    - rewrite Q1 by lia. rewrite E1 by exact N. apply P; lia.
  Qed.

  Definition ainv (seed : bool) (w1 : dworld) (y x : nat) (st : motionDetector * Z) (w : dworld) : Prop :=
    w = w1 /\ st = (d, fenc (avgf seed (ipre c y x))).

  Definition cinv (y : nat) (g1 : grid) (va vb : Z) (wt : list (list f32)) (k : nat) (st : motionDetector) (w : dworld) : Prop :=
    st = d /\ exists g, w = set_wts (set_pix w0 (H_BG c) g) wt /\ colinv c y g1 va vb k g.

  Lemma ub_seed :
    motionDetector_backgroundFrames d = 1 ->
    motionDetector_updateBackground dext
      (motionDetector_set_backgroundFrames (motionDetector_backgroundFrames d - 1) d) nf p w0 =
    Ok (d, (fenc (avgf true (icoords c)), true))
       (set_pix w0 (H_BG c) (gbuild (d_h c) (d_w c) (fun y x => bgi true (near_y c y) (near_x c x)))).
  Proof.
    intros Hone. pose proof Hd as [Hw Hh].
    unfold motionDetector_updateBackground.
    cbv zeta. rewrite set_bgframes_undo. md_norm. rewrite Hone. cbn [Z.eqb Pos.eqb negb]. cbv iota.
    rewrite c_f64_lit. cbv beta. conf Hc.
    rewrite <- (set_wts_id w0) at 1.
    run_loop sinv s1 w1 H1.
    - lia.
    - split; [rewrite ipre_start0; reflexivity|]. exists bg0. split; [rewrite set_pix_id; reflexivity|].
      split; [exact Dbg|]. intros; lia.
    - intros y st w Hy (-> & g & -> & Hg). cbv beta iota. conf Hc.
      rewrite c_copyrow. cbv beta. wnorm. znorm.
      destruct (copyrow_mid_grid g y (proj1 Hg) Hy) as (D1 & E1 & E2).
      match goal with |- context [set_pix w0 (H_BG c) ?G] => set (g1 := G) in * end.
      (* the mean over row y *)
      run_loop (ainv true (set_wts (set_pix w0 (H_BG c) g1) wts0) y) s2 w2 H2.
      + lia.
      + split; reflexivity.
      + intros x st w Hx (-> & ->). cbv beta iota. conf Hc. calls. wnorm. znorm.
        rewrite !fdec_fenc by (auto using Ew, er_avgf, er_npix with er).
        eexists; eexists; split; [reflexivity|]. split; [reflexivity|].
        rewrite avgf_step by lia. rewrite bgi_seed. rewrite E2.
        destruct (Nat.leb_spec (d_edge c) x); [|lia]. destruct (Nat.ltb_spec x (d_w c - d_edge c)); [|lia]. reflexivity.
      + destruct H2 as (-> & ->). cbv beta iota. conf Hc.
        (* the border columns of row y *)
        run_loop0 (cinv y g1 (gget newg y (d_edge c)) (gget newg y (d_w c - d_edge c - 1)) wts0) s3 w3 H3.
        * lia.
        * split; [reflexivity|]. exists g1. split; [reflexivity | apply colinv_init; exact D1].
        * intros k st w Hk (-> & g' & -> & Hg'). cbv beta iota. conf Hc. calls. wnorm. znorm. wnorm. znorm.
          eexists; eexists; split; [reflexivity|]. split; [reflexivity|]. eexists. split; [reflexivity|].
          apply colinv_step; [exact Hd | lia | exact Hg' | lia].
        * destruct H3 as (-> & g2 & -> & Hg2). cbv beta iota.
          eexists; eexists; split; [reflexivity|]. split.
          { rewrite <- ipre_row by lia. reflexivity. }
          exists g2. split; [reflexivity|]. apply (seed_row_done g g1 g2 y); assumption.
    - destruct H1 as (-> & g1 & -> & Hg1 & Pg1). cbv beta iota.
      rows_loop g1 (dw_wts w0) Hg1 s4 w4 H4.
      destruct H4 as (-> & g & -> & Hg). cbv beta iota. rewrite ipre_end.
      rewrite (rowinv_end c Hd g1 g (fun y x => bgi true y x) Hg).
      + rewrite set_wts_pix_id. reflexivity.
      + intros y' x' Hy' Hx'. rewrite bgi_seed. apply Pg1; lia.
  Qed.


  (* ---------- later frames ---------- *)
  Definition rpb (yx : nat * nat) : bool := replaces s f p false (fst yx) (snd yx).
  Definition neww (y x : nat) : f32 :=
    if replaces s f p false y x then f32_zero else f32_add (wget (s_wts s) y x) f32_tenth.

  (* the Go code clamps the weight to MaxFloat32; the model does not: no weight gets there *)
  Hypothesis Hbnd : forall y x, interior c y x = true -> replaces s f p false y x = false ->
    SFltb f32_max_float (f32_add (wget (s_wts s) y x) f32_tenth) = false.

  Definition ninv (y x : nat) (st : motionDetector * bool * Z) (w : dworld) : Prop :=
    st = (d, existsb rpb (ipre c y x), fenc (avgf false (ipre c y x))) /\
    exists g wt, w = set_wts (set_pix w0 (H_BG c) g) wt /\
                 bgsw c (bgi false) bg0 y x g /\ swept f32_zero c y x neww wts0 wt.

  Lemma ninv_step y x g wt g1 g2 wt1 ch av :
    interior c y x = true -> bgsw c (bgi false) bg0 y x g -> swept f32_zero c y x neww wts0 wt ->
    tdims (d_h c) (d_w c) g1 -> gget g1 y x = bgi false y x ->
    (forall y' x', (y' <> y \/ x' <> x) -> gget g1 y' x' = gget g y' x') ->
    colinv c y g1 (gget g1 y (d_edge c)) (gget g1 y (d_w c - d_edge c - 1)) (d_edge c) g2 ->
    wt1 = wset wt y x (neww y x) ->
    ch = existsb rpb (ipre c y x) || rpb (y, x) ->
    av = f64_add (avgf false (ipre c y x)) (f64_div (f64_of_Z (bgi false y x)) (npix c)) ->
    ninv y (S x) (d, ch, fenc av) (set_wts (set_pix w0 (H_BG c) g2) wt1).
  Proof.
    intros Ei Hg Hwt D1 V1 O1 Hc2 -> -> ->. pose proof Ei as Ei'. apply interior_true in Ei'.
    split.
    - rewrite avgf_step by lia. rewrite ipre_step by lia. rewrite existsb_app. cbn [existsb]. rewrite orb_false_r. reflexivity.
    - exists g2, (wset wt y x (neww y x)). split; [reflexivity|]. split.
      + apply (bgsw_step c Hd (bgi false) bg0 y x g g1 g2); assumption.
      + rewrite wset_tset. apply swept_step; assumption.
  Qed.

  Lemma bind_assoc {W A B C} (m : M W A) (k : A -> M W B) (K : B -> M W C) w :
    bind (bind m k) K w = bind m (fun a => bind (k a) K) w.
  Proof. unfold bind. destruct (m w); reflexivity. Qed.

  Ltac calls' := repeat (first [rewrite bind_assoc | call1]; cbv beta).

  (* from the per-pixel mean onwards: the border columns of the row, then the next pixel *)
  Ltac ub_tail g1 wt1 y x g wt Ei Hg Hwt D1 V1 O1 :=
    let s3 := fresh "s" in let w3 := fresh "w" in let H3 := fresh "H" in
    run_loop0 (cinv y g1 (gget g1 y (d_edge c)) (gget g1 y (d_w c - d_edge c - 1)) wt1) s3 w3 H3;
    [ lia
    | split; [reflexivity|]; exists g1; split; [reflexivity | apply colinv_init; exact D1]
    | let k := fresh "k" in let Hk := fresh "Hk" in let g' := fresh "g" in let Hg' := fresh "Hg" in
      intros k ? ? Hk (-> & g' & -> & Hg'); cbv beta iota; conf Hc; calls; wnorm; znorm; wnorm; znorm;
      rewrite (gget_gset_neq g' y k _ y (d_w c - d_edge c - 1)) by lia;
      rewrite (proj1 (proj2 Hg') y (d_edge c)) by lia;
      rewrite (proj1 (proj2 Hg') y (d_w c - d_edge c - 1)%nat) by lia;
      eexists; eexists; split; [reflexivity|]; split; [reflexivity|]; eexists; split; [reflexivity|];
      apply colinv_step; [exact Hd | lia | exact Hg' | lia]
    | let g2 := fresh "g" in let Hg2 := fresh "Hg" in
      destruct H3 as (-> & g2 & -> & Hg2); cbv beta iota; eexists; eexists; split; [reflexivity|];
      apply (ninv_step y x g wt g1 g2 wt1 _ _ Ei Hg Hwt D1 V1 O1 Hg2) ].

  Lemma ub_later :
    motionDetector_backgroundFrames d <> 1 ->
    motionDetector_updateBackground dext
      (motionDetector_set_backgroundFrames (motionDetector_backgroundFrames d - 1) d) nf p w0 =
    Ok (d, (fenc (avgf false (icoords c)), existsb rpb (icoords c)))
       (set_wts (set_pix w0 (H_BG c) (gbuild (d_h c) (d_w c) (fun y x => bgi false (near_y c y) (near_x c x))))
                (tbuild (d_h c) (d_w c) (fun y x => if interior c y x then neww y x else wget wts0 y x))).
  Proof.
    intros Hone. pose proof Hd as [Hw Hh].
    unfold motionDetector_updateBackground.
    cbv zeta. rewrite set_bgframes_undo. md_norm.
    destruct (Z.eqb_spec (motionDetector_backgroundFrames d) 1) as [|_]; [contradiction|]. cbn [negb]. cbv iota.
    rewrite c_f64_lit. cbv beta. conf Hc.
    rewrite <- (set_wts_id w0) at 1. rewrite <- (set_pix_id w0 (H_BG c)) at 1.
    run_loop (fun y => ninv y (d_edge c)) s1 w1 H1.
    - lia.
    - split; [rewrite ipre_start0; reflexivity|]. exists bg0, wts0. split; [reflexivity|].
      split; [apply bgsw_init; exact Dbg | apply swept_init; exact Dw].
    - intros y st w Hy (-> & g & wt & -> & Hg & Hwt). cbv beta iota. conf Hc.
      run_loop (ninv y) s2 w2 H2.
      + lia.
      + split; [reflexivity|]. exists g, wt. auto.
      + clear g wt Hg Hwt. intros x st w Hx (-> & g & wt & -> & Hg & Hwt). cbv beta iota. conf Hc.
        assert (Ei : interior c y x = true) by (apply interior_true; lia).
        assert (Ewt : wget wt y x = wget wts0 y x).
        { rewrite wget_tget, (proj2 Hwt y x) by lia. rewrite Ei. cbn [andb].
          replace (donep y x y x) with false; [reflexivity|]. symmetry; apply donep_false; lia. }
        assert (Eg : gget g y x = gget bg0 y x).
        { rewrite (proj1 (proj2 Hg) y x Ei). replace (donep y x y x) with false; [reflexivity|].
          symmetry; apply donep_false; lia. }
        pose proof (proj1 Hg) as Dg.
        (* what the pixel becomes when it is replaced / kept *)
        assert (DA : tdims (d_h c) (d_w c) (gset g y x (gget newg y x))) by (apply tdims_gset; exact Dg).
        assert (OA : forall y' x', (y' <> y \/ x' <> x) -> gget (gset g y x (gget newg y x)) y' x' = gget g y' x')
          by (intros; apply gget_gset_neq; assumption).
        assert (OB : forall y' x', (y' <> y \/ x' <> x) -> gget g y' x' = gget g y' x') by reflexivity.
        assert (EA : gget (gset g y x (gget newg y x)) y x = gget newg y x) by (apply (gget_gset_eq _ _ _ _ _ _ Dg); lia).
        rewrite c_wget. cbv beta. wnorm. znorm. rewrite Ewt.
        destruct p eqn:Ep.
        * (* the previous frame was affected by an FFC: every pixel is replaced *)
          assert (Er : replaces s f p false y x = true) by (unfold replaces; rewrite Ep; reflexivity).
          assert (VA : gget (gset g y x (gget newg y x)) y x = bgi false y x) by (unfold bgi; rewrite Er, Ef; exact EA).
          rewrite bind_ret. cbv beta iota. calls. wnorm. znorm. wnorm. rewrite EA.
          change (fdec 0) with f32_zero; rewrite ?f32_lit_0, !fdec_fenc by (auto using Ew, er_avgf, er_npix with er).
          ub_tail (gset g y x (gget newg y x)) (wset wt y x f32_zero) y x g wt Ei Hg Hwt DA VA OA.
          -- unfold neww. rewrite Er. reflexivity.
          -- unfold rpb. cbn [fst snd]. rewrite Er, orb_true_r. reflexivity.
          -- unfold bgi. rewrite Er, Ef. reflexivity.
        * calls'. wnorm. znorm. rewrite z_to_bool_of.
          rewrite !fdec_fenc by (auto using Ew, er_avgf, er_npix with er).
          assert (Er : SFltb (f32_sub (f32_of_Z (gget newg y x)) (wget wts0 y x)) (f32_of_Z (gget g y x))
                       = replaces s f p false y x).
          { unfold replaces. rewrite Ep, Ef, Es_wts, Es_bg, Eg. reflexivity. }
          rewrite Er. destruct (replaces s f p false y x) eqn:Er2.
          -- assert (VA : gget (gset g y x (gget newg y x)) y x = bgi false y x) by (unfold bgi; rewrite Er2, Ef; exact EA).
             calls. wnorm. znorm. wnorm. rewrite EA.
             change (fdec 0) with f32_zero; rewrite ?f32_lit_0, !fdec_fenc by (auto using Ew, er_avgf, er_npix with er).
             ub_tail (gset g y x (gget newg y x)) (wset wt y x f32_zero) y x g wt Ei Hg Hwt DA VA OA.
             ++ unfold neww. rewrite Er2. reflexivity.
             ++ unfold rpb. cbn [fst snd]. rewrite Er2, orb_true_r. reflexivity.
             ++ unfold bgi. rewrite Er2, Ef. reflexivity.
          -- assert (VB : gget g y x = bgi false y x) by (unfold bgi; rewrite Er2, Es_bg; exact Eg).
             calls. rewrite z_to_bool_of, f32_lit_tenth, f32_lit_max, !fdec_fenc by (auto using Ew, er_avgf, er_npix with er).
             pose proof Er2 as Er3. rewrite Ep in Er3. pose proof (Hbnd y x Ei Er3) as Hb. rewrite Es_wts in Hb. rewrite Hb. cbn [bool_to_z z_to_bool Z.eqb negb].
             calls. wnorm. znorm. wnorm.
             rewrite !fdec_fenc by (auto using Ew, er_avgf, er_npix with er).
             ub_tail g (wset wt y x (f32_add (wget wts0 y x) f32_tenth)) y x g wt Ei Hg Hwt Dg VB OB.
             ++ unfold neww. rewrite Er2, Es_wts. reflexivity.
             ++ unfold rpb. cbn [fst snd]. rewrite Er2, orb_false_r. reflexivity.
             ++ rewrite <- VB. reflexivity.
      + destruct H2 as (-> & g2 & wt2 & -> & Hg2 & Hwt2). cbv beta iota.
        eexists; eexists; split; [reflexivity|]. split.
        * rewrite <- ipre_row by lia. reflexivity.
        * exists g2, wt2. split; [reflexivity|]. split; [apply bgsw_row | apply swept_row]; assumption.
    - destruct H1 as (-> & g1 & wt1 & -> & Hg1 & Hwt1). cbv beta iota.
      pose proof (proj1 Hg1) as Dg1.
      rows_loop g1 wt1 Dg1 s4 w4 H4.
      destruct H4 as (-> & g & -> & Hg). cbv beta iota. rewrite ipre_end.
      rewrite (rowinv_end c Hd g1 g (fun y x => bgi false y x) Hg).
      + rewrite (swept_end f32_zero c neww wts0 wt1 Hwt1). reflexivity.
      + intros y' x' Hy' Hx'. apply (bgsw_end c Hd (bgi false) bg0); assumption.
  Qed.

End UB.

(* ====================================================================================
   updateBackground against the model's update_background
   ==================================================================================== *)
Lemma set_bgframes_redo d0 :
  motionDetector_set_backgroundFrames
    (motionDetector_backgroundFrames (motionDetector_set_backgroundFrames (motionDetector_backgroundFrames d0 + 1) d0) - 1)
    (motionDetector_set_backgroundFrames (motionDetector_backgroundFrames d0 + 1) d0) = d0.
Proof. destruct d0. unfold motionDetector_set_backgroundFrames. cbn. f_equal. lia. Qed.

Lemma bgframes_set v d : motionDetector_backgroundFrames (motionDetector_set_backgroundFrames v d) = v.
Proof. reflexivity. Qed.

Theorem updateBackground_ok c d0 w0 nf p s f :
  cdims c -> dconf c d0 -> hin w0 (H_BG c) -> 0 <= nf -> nf <> H_BG c ->
  tdims (d_h c) (d_w c) (pixof w0 (H_BG c)) -> tdims (d_h c) (d_w c) (pixof w0 nf) ->
  tdims (d_h c) (d_w c) (dw_wts w0) -> (forall y x, erange (wget (dw_wts w0) y x)) ->
  s_bg s = pixof w0 (H_BG c) -> s_wts s = dw_wts w0 -> f_pix f = pixof w0 nf ->
  s_bgframes s = motionDetector_backgroundFrames d0 ->
  (s_bgframes s + 1 <> 1 -> forall y x, interior c y x = true -> replaces s f p false y x = false ->
     SFltb f32_max_float (f32_add (wget (s_wts s) y x) f32_tenth) = false) ->
  let ub := update_background c s f p in
  motionDetector_updateBackground dext d0 nf p w0 =
    Ok (motionDetector_set_backgroundFrames (motionDetector_backgroundFrames d0 + 1) d0, (fenc (snd (fst ub)), snd ub))
       (set_wts (set_pix w0 (H_BG c) (fst (fst (fst ub)))) (snd (fst (fst ub)))) /\
  erange (snd (fst ub)).
Proof.
  intros Hd Hc Hbg Hnf0 Nnf Dbg Dnew Dw Ew Es_bg Es_wts Ef Ebf Hbnd ub.
  set (d := motionDetector_set_backgroundFrames (motionDetector_backgroundFrames d0 + 1) d0).
  assert (Hcd : dconf c d) by (apply dconf_set_bgframes; exact Hc).
  assert (Ed : motionDetector_backgroundFrames d = s_bgframes s + 1) by (unfold d; rewrite bgframes_set; lia).
  subst ub. unfold update_background. cbv zeta.
  destruct (Z.eqb_spec (s_bgframes s + 1) 1) as [E1|E1]; cbn [fst snd orb].
  - pose proof (ub_seed c Hd d Hcd w0 nf p Hbg Hnf0 Nnf Dbg Dnew s f Ef ltac:(lia)) as H.
    unfold d in H at 1 2. rewrite set_bgframes_redo in H. split.
    + rewrite H, Es_wts, set_wts_pix_id. reflexivity.
    + apply (er_avgf c p s f true).
  - pose proof (ub_later c Hd d Hcd w0 nf p Hbg Hnf0 Nnf Dbg Dw Ew s f Es_bg Es_wts Ef (Hbnd E1) ltac:(lia)) as H.
    unfold d in H at 1 2. rewrite set_bgframes_redo in H. split.
    + rewrite H. unfold tbuild, neww. rewrite <- Es_wts. reflexivity.
    + apply (er_avgf c p s f false).
Qed.
